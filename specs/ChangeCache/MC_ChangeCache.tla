--------------------------- MODULE MC_ChangeCache ---------------------------
EXTENDS ChangeCache, Json
(* range universes *)
RNone  == {}
RSmall == {<<2, 3>>}
RFour  == {<<2, 3>>, <<3, 4>>, <<2, 4>>}
RTwo   == {<<2, 3>>, <<2, 4>>}
RMid   == {<<2, 3>>, <<3, 5>>, <<4, 5>>}
RAll   == {r \in (1..W) \X (1..W) : r[1] < r[2]}
RSim   == {<<2, 3>>, <<2, 4>>, <<3, 5>>, <<4, 5>>, <<5, 7>>, <<6, 7>>, <<1, 2>>, <<3, 6>>}
KAll   == {"doc", "princ", "unused"}
KTwo   == {"doc", "unused"}
KDoc   == {"doc"}
(* document feed events: X = rev@2 then rev@5 after two wasted sequences 3,4; Y = rev@1 then rev@3; Z = rev@6 then rev@7 *)
DNone  == {}
DSim   == {[seq |-> 5, unused |-> <<3, 4>>, recent |-> <<2, 5>>], [seq |-> 3, unused |-> <<>>, recent |-> <<1, 3>>],
           [seq |-> 7, unused |-> <<>>, recent |-> <<6, 7>>], [seq |-> 2, unused |-> <<>>, recent |-> <<2>>],
           [seq |-> 6, unused |-> <<>>, recent |-> <<6>>], [seq |-> 4, unused |-> <<3>>, recent |-> <<1, 2, 4>>]}
DOne   == {[seq |-> 4, unused |-> <<3>>, recent |-> <<1, 4>>]}
DFour  == {[seq |-> 4, unused |-> <<3>>, recent |-> <<1, 4>>], [seq |-> 3, unused |-> <<>>, recent |-> <<2, 3>>]}
(* Simulation.  TLC -simulate picks uniformly among SUCCESSOR STATES, so under Next the ~100 argument choices of an
   arrival swamp Tick / Abandon (measured: Tick 0.4% of steps).  SimNext draws the arguments with RandomElement so that
   every action KIND yields one successor: two plain arrivals, one arrival aimed at the current gap or a skipped sequence
   (closes gaps, late arrivals), one range, one document event, Tick, and Abandon one time in three.  With LegalOnly the
   arguments are drawn among the declarations that keep the feed legal. *)
RE(S) == RandomElement(S)
SingleId(k, q) == [k |-> k, a |-> q, b |-> q]
KindsFor(q) == IF LegalOnly THEN {k \in Kinds : Compat(owner[q], SingleId(k, q))} ELSE Kinds
SimSeqs == {q \in Win : cnt[q] < MaxDup /\ KindsFor(q) # {}}
GapSeqs == (skipped \cup {next}) \cap SimSeqs
SimRanges == IF LegalOnly THEN {r \in Ranges : \A q \in r[1]..r[2] : Compat(owner[q], [k |-> "range", a |-> r[1], b |-> r[2]])} ELSE Ranges
SimDocs == {d \in DocEvs : cnt[d.seq] < MaxDup}
SimArrive(S) == S # {} /\ \E q \in {RE(S)} : \E k \in {RE(KindsFor(q))}, o \in {RE(Olds)} : Arrive([seq |-> q, end |-> 0, kind |-> k, old |-> o])
SimNext ==
  /\ Len(hist) < MaxSteps
  /\ \/ SimArrive(SimSeqs)
     \/ SimArrive(SimSeqs)
     \/ SimArrive(GapSeqs)
     \/ SimRanges # {} /\ rcnt < MaxRangeArr /\ \E r \in {RE(SimRanges)}, o \in {RE(Olds)} : ArriveRange([seq |-> r[1], end |-> r[2], kind |-> "unused", old |-> o])
     \/ SimDocs # {} /\ \E d \in {RE(SimDocs)}, o \in {RE(Olds)} : Doc([seq |-> d.seq, unused |-> d.unused, recent |-> d.recent, old |-> o])
     \/ DOMAIN pending # {} /\ Tick
     \/ AllowAbandon /\ skipped # {} /\ RE(1..3) = 1 /\ Abandon
  /\ LegalOnly => legal'
SimSpec == Init /\ [][SimNext]_vars
BehaviourExport == (Len(hist) = MaxSteps) => PrintT(<<"BEH", ToJson([mn |-> maxNum, w |-> W, steps |-> hist])>>)
=============================================================================
