--------------------------- MODULE MC_ChangeCache ---------------------------
EXTENDS ChangeCache, Json
(* range universes *)
RNone  == {}
RSmall == {<<2, 3>>}
RFour  == {<<2, 3>>, <<3, 4>>, <<2, 4>>}
RMid   == {<<2, 3>>, <<3, 5>>, <<4, 5>>}
RAll   == {r \in (1..W) \X (1..W) : r[1] < r[2]}
RSim   == {<<2, 3>>, <<2, 4>>, <<3, 5>>, <<4, 5>>, <<5, 7>>, <<6, 7>>, <<1, 2>>, <<3, 6>>}
KAll   == {"doc", "princ", "unused"}
KTwo   == {"doc", "unused"}
KDoc   == {"doc"}
BehaviourExport == (Len(hist) = MaxSteps) => PrintT(<<"BEH", ToJson([mn |-> maxNum, w |-> W, steps |-> hist])>>)
=============================================================================
