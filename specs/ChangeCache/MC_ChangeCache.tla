--------------------------- MODULE MC_ChangeCache ---------------------------
EXTENDS ChangeCache, Json
(* range universes *)
RNone  == {}
RSmall == {<<2, 3>>}
RFour  == {<<2, 3>>, <<3, 4>>, <<2, 4>>}
RTwo   == {<<2, 3>>, <<2, 4>>}
RMid   == {<<2, 3>>, <<3, 5>>, <<4, 5>>}
RAll   == {r \in (1..W) \X (1..W) : r[1] < r[2]}
RSim   == {<<2, 3>>, <<2, 4>>, <<3, 5>>, <<4, 5>>, <<5, 7>>, <<6, 7>>, <<1, 2>>, <<3, 6>>}
KAll   == {"doc", "princ", "unused"}
KTwo   == {"doc", "unused"}
KDoc   == {"doc"}
(* document feed events: X = rev@2 then rev@5 after two wasted sequences 3,4; Y = rev@1 then rev@3; Z = rev@6 then rev@7 *)
DNone  == {}
DSim   == {[seq |-> 5, unused |-> <<3, 4>>, recent |-> <<2, 5>>], [seq |-> 3, unused |-> <<>>, recent |-> <<1, 3>>],
           [seq |-> 7, unused |-> <<>>, recent |-> <<6, 7>>], [seq |-> 2, unused |-> <<>>, recent |-> <<2>>],
           [seq |-> 6, unused |-> <<>>, recent |-> <<6>>], [seq |-> 4, unused |-> <<3>>, recent |-> <<1, 2, 4>>]}
DOne   == {[seq |-> 4, unused |-> <<3>>, recent |-> <<1, 4>>]}
DFour  == {[seq |-> 4, unused |-> <<3>>, recent |-> <<1, 4>>], [seq |-> 3, unused |-> <<>>, recent |-> <<2, 3>>]}
BehaviourExport == (Len(hist) = MaxSteps) => PrintT(<<"BEH", ToJson([mn |-> maxNum, w |-> W, steps |-> hist])>>)
=============================================================================
