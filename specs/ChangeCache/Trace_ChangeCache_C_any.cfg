CONSTANT W = 40
CONSTANT MaxSteps = 1000000
CONSTANT MaxNums = {0}
CONSTANT Olds = {FALSE}
CONSTANT Kinds = {"doc"}
CONSTANT Ranges = {}
CONSTANT DocEvs = {}
CONSTANT MaxDup = 1000000
CONSTANT MaxRangeArr = 1000000
CONSTANT Policy = "any"
CONSTANT AllowAbandon = TRUE
CONSTANT LegalOnly = FALSE
SPECIFICATION CSpec
CONSTRAINT Progress
POSTCONDITION Accept
CHECK_DEADLOCK FALSE
INVARIANT PendingAhead
INVARIANT RecvPending
INVARIANT HcsBehind
INVARIANT StarIsDelivered
INVARIANT SkipCount
INVARIANT SkippedBelow
INVARIANT InOrderAll
