\* thorough: policy-independent safety over a window of 5
CONSTANT W = 5
CONSTANT MaxSteps = 6
CONSTANT MaxNums = {0}
CONSTANT Olds = {FALSE}
CONSTANT Kinds <- KTwo
CONSTANT Ranges <- RMid
CONSTANT DocEvs <- DFour
CONSTANT MaxDup = 2
CONSTANT MaxRangeArr = 2
CONSTANT Policy = "any"
CONSTANT AllowAbandon = TRUE
CONSTANT LegalOnly = FALSE
SPECIFICATION Spec
VIEW view
INVARIANT Once
INVARIANT Delivered
INVARIANT InOrder
INVARIANT HwmSound
INVARIANT SkippedExact
INVARIANT MidNoHiddenGap
INVARIANT LateIsLate
INVARIANT StableExposed
INVARIANT PendingAhead
INVARIANT RecvPending
INVARIANT HcsBehind
INVARIANT StarIsDelivered
INVARIANT SkipCount
INVARIANT SkippedBelow
INVARIANT InOrderAll
INVARIANT TypeOK
CHECK_DEADLOCK FALSE
