\* quick: policy-independent safety ("any": a gap may be skipped at any loop iteration), all feeds incl. illegal ones
CONSTANT W = 4
CONSTANT MaxSteps = 5
CONSTANT MaxNums = {0}
CONSTANT Olds = {FALSE}
CONSTANT Kinds <- KTwo
CONSTANT Ranges <- RTwo
CONSTANT DocEvs <- DOne
CONSTANT MaxDup = 2
CONSTANT MaxRangeArr = 2
CONSTANT Policy = "any"
CONSTANT AllowAbandon = TRUE
CONSTANT LegalOnly = FALSE
SPECIFICATION Spec
VIEW view
INVARIANT Once
INVARIANT Delivered
INVARIANT InOrder
INVARIANT HwmSound
INVARIANT SkippedExact
INVARIANT MidNoHiddenGap
INVARIANT LateIsLate
INVARIANT StableExposed
INVARIANT PendingAhead
INVARIANT RecvPending
INVARIANT HcsBehind
INVARIANT StarIsDelivered
INVARIANT SkipCount
INVARIANT SkippedBelow
INVARIANT InOrderAll
INVARIANT TypeOK
CHECK_DEADLOCK FALSE
