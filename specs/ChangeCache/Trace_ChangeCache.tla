--------------------------- MODULE Trace_ChangeCache ---------------------------
(* Validation of traces recorded from the real db.changeCache: by the harness (harness/db/c08_changecache_test.go:
   sequential replay; concurrent delivery linearized by hook H2 under changeCache.lock) and from the repository's own
   tests run unmodified with hook H2 (checks/C08.py existing_tests; cfgs *_any: real clocks, so WHEN a gap is skipped is
   not judged, and "star"/"lls" are derived from the forwards because the hook does not read the channel cache).
   All sequences are offsets from the cache's initialSequence (the harness subtracts it).
   Lines (post = the REAL state after the call, read under changeCache.lock):
     {a:"Reset", beh, mn, w, base, wiring, <post>}        new cache; mn = CachePendingSeqMaxNum
     {a:"Arrive", seq, end:0, kind, old, [sk], <post>}     processEntry / releaseUnusedSequence / processPrincipalDoc
                                                           (sk = the caller passed LogEntry.Skipped = true: DocChanged, recent_sequences)
     {a:"Range",  seq, end, kind:"unused", old, <post>}    releaseUnusedSequenceRange (seq < end)
     {a:"Doc", seq, unused:[..], recent:[..], old, <post>}  DocChanged with a forged document feed event
     {a:"Tick", <post>}   {a:"Abandon", <post>}
     {a:"Conc", evs:[{seq,end,kind,old}..], <post>}        a multiset delivered by several goroutines; out = all
                                                           forwards in the order they happened under the lock
   <post> = next, pend:[{seq,end,kind,old}], recv:[..], skip:[..], nsk, hcs, stable,
            out:[{seq,end,kind,late, sk:[..], hcs}]  (sk/hcs = skipped membership and high cache sequence read WITHOUT
            changeCache.lock at the instant of that forward, from inside the ChannelCache decorator),
            star:[..] (sequences visible in the "*" channel cache, log order), lls (last late sequence of "*") *)
EXTENDS ChangeCache, TraceLib

VARIABLE l
tvars == <<vars, l>>

SkIn(r) == IF Has(r, "sk") THEN r.sk ELSE FALSE
E(r) == [seq |-> r.seq, end |-> r.end, kind |-> r.kind, old |-> r.old]
LSet(x) == {x[i] : i \in 1..Len(x)}
RECURSIVE LBagFrom(_, _, _)
LBagFrom(x, i, B) == IF i > Len(x) THEN B ELSE LBagFrom(x, i + 1, BagAdd(B, E(x[i])))
LBag(x) == LBagFrom(x, 1, EmptyBag)
LOut(x) == [i \in 1..Len(x) |-> [seq |-> x[i].seq, end |-> x[i].end, kind |-> x[i].kind, late |-> x[i].late,
                                  sk |-> LSet(x[i].sk), hcs |-> x[i].hcs]]

Ev(a) == l <= TraceLen /\ Trace[l].a = a /\ l' = l + 1
Logged == /\ next' = Trace[l].next /\ pending' = LBag(Trace[l].pend) /\ received' = LSet(Trace[l].recv)
          /\ skipped' = LSet(Trace[l].skip) /\ nsk' = Trace[l].nsk /\ hcs' = Trace[l].hcs /\ stable' = Trace[l].stable
          /\ out' = LOut(Trace[l].out) /\ star' = Trace[l].star /\ lls' = Trace[l].lls

TInit == Init /\ l = 1

Reset == /\ Ev("Reset") /\ Logged
         /\ maxNum' = Trace[l].mn
         /\ owner' = [s \in Win |-> NoOwner] /\ legal' = TRUE /\ docArr' = {} /\ docLive' = {} /\ cnt' = [s \in Win |-> 0] /\ rcnt' = 0
         /\ delivered' = [s \in Win |-> 0] /\ hiNL' = 0 /\ ordOK' = TRUE /\ phantom' = FALSE /\ midOK' = TRUE /\ abandoned' = {}
         /\ lateSet' = {} /\ lateDoc' = {} /\ lastKind' = "init" /\ hist' = <<>>

(* a concurrently delivered multiset: only the final state and the order of forwards are known *)
RECURSIVE GApplyAll(_, _, _)
GApplyAll(g, evs, i) == IF i > Len(evs) THEN g ELSE GApplyAll(GApply(g, E(evs[i])), evs, i + 1)
GhostConc(evs) ==
  LET g == GApplyAll(GCur, evs, 1) IN
  /\ legal' = g.legal /\ owner' = g.owner /\ docArr' = g.docArr
  /\ lateSet' = {} /\ lateDoc' = {} /\ lastKind' = "conc"
  /\ docLive' = (IF g.legal THEN docLive \cup g.docArr ELSE docLive)
  /\ GhostOut(g.docArr, g.owner, docLive')
  /\ UNCHANGED <<maxNum, abandoned, cnt, rcnt>>

(* pass P: implementation variables := logged real state; ghosts advance from the logged inputs *)
PArrive  == Ev("Arrive")  /\ Logged /\ GhostArrive(E(Trace[l]))      /\ UNCHANGED hist
PRange   == Ev("Range")   /\ Logged /\ GhostArriveRange(E(Trace[l])) /\ UNCHANGED hist
D(r) == [seq |-> r.seq, unused |-> r.unused, recent |-> r.recent, old |-> r.old]
PDoc     == Ev("Doc")     /\ Logged /\ GhostDoc(D(Trace[l]))         /\ UNCHANGED hist
PTick    == Ev("Tick")    /\ Logged /\ GhostTick                     /\ UNCHANGED hist
PAbandon == Ev("Abandon") /\ Logged /\ GhostAbandon                  /\ UNCHANGED hist
PConc    == Ev("Conc")    /\ Logged /\ GhostConc(Trace[l].evs)       /\ UNCHANGED hist
PNext == Reset \/ PArrive \/ PRange \/ PDoc \/ PTick \/ PAbandon \/ PConc
PSpec == TInit /\ [][PNext]_tvars

(* pass C: each logged step is an instance of the corresponding action, from the previous REAL state *)
CArrive  == Ev("Arrive")  /\ (\E r \in ArriveFrom(Cur, E(Trace[l]), SkIn(Trace[l])) : SetImpl(r)) /\ Logged /\ GhostArrive(E(Trace[l]))      /\ UNCHANGED hist
CRange   == Ev("Range")   /\ ImplArriveRange(E(Trace[l])) /\ Logged /\ GhostArriveRange(E(Trace[l])) /\ UNCHANGED hist
CDoc     == Ev("Doc")     /\ ImplDoc(D(Trace[l]))         /\ Logged /\ GhostDoc(D(Trace[l]))         /\ UNCHANGED hist
CTick    == Ev("Tick")    /\ ImplTick                     /\ Logged /\ GhostTick                     /\ UNCHANGED hist
CAbandon == Ev("Abandon") /\ ImplAbandon                  /\ Logged /\ GhostAbandon                  /\ UNCHANGED hist
CReset   == Reset /\ InitImpl'
CNext == CReset \/ CArrive \/ CRange \/ CDoc \/ CTick \/ CAbandon \/ PConc
CSpec == TInit /\ [][CNext]_tvars

Progress == Mark(l)
Accept == PrintHWM
=============================================================================
