CONSTANT N = 2
CONSTANT Universe <- UTwo
CONSTANT MaxSteps = 5
CONSTANT Thresholds = {0}
CONSTANT MaxBatch = 1
CONSTANT FeedModes = {FALSE}
SPECIFICATION Spec
INVARIANT BehaviourExport
CHECK_DEADLOCK FALSE
