CONSTANT N = 6
CONSTANT Universe <- UTrace
CONSTANT MaxSteps = 1000000
CONSTANT Thresholds = {0}
CONSTANT MaxBatch = 1
CONSTANT FeedModes = {FALSE}
SPECIFICATION PSpec
CONSTRAINT Progress
POSTCONDITION Accept
CHECK_DEADLOCK FALSE
INVARIANT SafeCkpt
INVARIANT NoRegress



