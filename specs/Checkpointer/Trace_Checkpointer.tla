--------------------------- MODULE Trace_Checkpointer ---------------------------
(* Validation of traces recorded from the real db.Checkpointer (harness/db/c17_checkpointer_test.go).
   Lines:  {a:"Reset", th}   {a:"Expect"|"AlreadyKnown"|"Processed", toks, E, P}   {a:"Tick", ret, E, P}
   E/P/ret are the REAL expectedSeqs / processedSeqs / returned value after the call (ranks). *)
EXTENDS Checkpointer, TraceLib

UTrace == {}   \* Universe is only used by Next of the base spec, never by the trace specs
VARIABLE l
tvars == <<vars, l>>

T2(r) == Mk(r[1], r[2], r[3])
LSeq(x) == [i \in 1..Len(x) |-> T2(x[i])]
LSet(x) == {T2(x[i]) : i \in 1..Len(x)}
LRet(x) == IF Len(x) = 0 THEN None ELSE T2(x)

Ev(a) == l <= TraceLen /\ Trace[l].a = a /\ l' = l + 1
Logged == /\ expected' = LSeq(Trace[l].E) /\ processed' = LSet(Trace[l].P)
          /\ cancelled' = (IF Has(Trace[l], "cancelled") THEN Trace[l].cancelled ELSE cancelled)
          /\ ret' = (IF Has(Trace[l], "ret") THEN LRet(Trace[l].ret) ELSE None)

TInit == Init /\ l = 1

Reset == /\ Ev("Reset")
         /\ expected' = <<>> /\ processed' = {} /\ ret' = None /\ cancelled' = FALSE
         /\ threshold' = Trace[l].th /\ restrict' = FALSE /\ feedOrdered' = TRUE
         /\ everExp' = {} /\ everProc' = {} /\ ckpts' = <<>> /\ shE' = <<>> /\ shP' = {} /\ shRet' = None
         /\ dupFree' = TRUE /\ accExp' = {} /\ shCkpts' = {} /\ hist' = <<>>

(* pass P: implementation variables := logged real state; ghosts advance from the logged inputs *)
PExpect       == Ev("Expect")       /\ Logged /\ GhostExpect(LSeq(Trace[l].toks))       /\ UNCHANGED hist
PAlreadyKnown == Ev("AlreadyKnown") /\ Logged /\ GhostAlreadyKnown(LSeq(Trace[l].toks)) /\ UNCHANGED hist
PProcessed    == Ev("Processed")    /\ Logged /\ GhostProcessed(T2(Trace[l].toks[1]))    /\ UNCHANGED hist
PTick         == Ev("Tick")         /\ Logged /\ GhostTick                            /\ UNCHANGED hist
PCancel       == Ev("Cancel")       /\ Logged /\ GhostCancel                          /\ UNCHANGED hist
PSort         == Ev("Sort")         /\ Logged /\ GhostSort                            /\ UNCHANGED hist
PNext == PSort \/ PCancel \/ Reset \/ PExpect \/ PAlreadyKnown \/ PProcessed \/ PTick
PSpec == TInit /\ [][PNext]_tvars

(* pass C: each logged step is an instance of the corresponding action, from the previous REAL state *)
CExpect       == Ev("Expect")       /\ ImplExpect(LSeq(Trace[l].toks))       /\ Logged /\ GhostExpect(LSeq(Trace[l].toks))       /\ UNCHANGED hist
CAlreadyKnown == Ev("AlreadyKnown") /\ ImplAlreadyKnown(LSeq(Trace[l].toks)) /\ Logged /\ GhostAlreadyKnown(LSeq(Trace[l].toks)) /\ UNCHANGED hist
CProcessed    == Ev("Processed")    /\ ImplProcessed(T2(Trace[l].toks[1]))    /\ Logged /\ GhostProcessed(T2(Trace[l].toks[1]))    /\ UNCHANGED hist
CTick         == Ev("Tick")         /\ ImplTick                            /\ Logged /\ GhostTick                            /\ UNCHANGED hist
CCancel       == Ev("Cancel")       /\ ImplCancel /\ Logged /\ GhostCancel           /\ UNCHANGED hist
CSort         == Ev("Sort")         /\ ImplSort /\ Logged /\ GhostSort               /\ UNCHANGED hist
CNext == CSort \/ CCancel \/ Reset \/ CExpect \/ CAlreadyKnown \/ CProcessed \/ CTick
CSpec == TInit /\ [][CNext]_tvars

Progress == Mark(l)
Accept == PrintHWM
(* property predicates that need the environment assumption use the logged feedOrdered; a trace whose
   inputs are not in feed order although it says so is a harness error, not a finding *)
=============================================================================
