--------------------------- MODULE Checkpointer ---------------------------
(* Replication checkpointer: db/active_replicator_checkpointer.go.
   One action per critical section (everything happens under c.lock):
     Expect        AddExpectedSeqs / AddExpectedSeqIDAndRevs   (append to expectedSeqs)
     AlreadyKnown  AddAlreadyKnownSeq                          (append + mark processed)
     Processed     AddProcessedSeq / AddProcessedSeqIDAndRev   (mark processed; may precede Expect)
     Tick          _updateCheckpointLists: sort by SequenceID.Before, longest processed prefix, trim both
                   lists, then - iff more than `threshold` entries remain - the backwards compaction loop.
   Impl* conjuncts define the implementation variables, Ghost* the history variables; Trace_Checkpointer
   reuses them (pass P: implementation variables bound to the logged real state + Ghost*; pass C: Impl* too).
   Decides C17. *)
EXTENDS SeqToken, TLC, FiniteSets

CONSTANTS Universe,     \* tokens that may be notified
          MaxSteps,     \* bound on the length of a behaviour
          Thresholds,   \* compaction thresholds explored (expectedSeqCompactionThreshold)
          FeedModes,    \* subset of BOOLEAN: TRUE = the environment only expects tokens in feed order
          MaxBatch      \* longest batch of one Expect / AlreadyKnown call

None == [l |-> -1, t |-> -1, s |-> -1]

VARIABLES expected, processed, ret,                 \* implementation: expectedSeqs, processedSeqs, value returned by the last tick
          cancelled,                                \* implementation: the replicator context is done (every Add* then returns at once)
          threshold, restrict, feedOrdered,         \* configuration of this behaviour; ghost: inputs were in feed order so far
          everExp, everProc, ckpts, shE, shP, shRet, \* ghosts: history, persisted values, uncompacted shadow
          dupFree,                                   \* ghost: no token has been expected twice so far
          accExp,                                    \* ghost: expectations registered before Cancel (everExp also holds the dropped ones)
          shCkpts,                                   \* ghost: every value the uncompacted shadow has returned so far
          hist                                       \* behaviour so far (exported for replay; hidden by VIEW)
impl   == <<expected, processed, ret, cancelled>>
ghost  == <<threshold, restrict, feedOrdered, everExp, everProc, ckpts, shE, shP, shRet, dupFree, accExp, shCkpts>>
vars   == <<impl, ghost, hist>>
view   == <<impl, ghost>>

Range(sq) == {sq[i] : i \in 1..Len(sq)}
RemoveAt(sq, i) == SubSeq(sq, 1, i - 1) \o SubSeq(sq, i + 1, Len(sq))

(* sort.Slice with less = Before: any arrangement without inversion (the linear extensions of Before
   over the listed occurrences), built by repeatedly taking an element that nothing else precedes *)
RECURSIVE SortedOf(_)
SortedOf(sq) ==
  IF sq = <<>> THEN {<<>>}
  ELSE UNION { {<<sq[i]>> \o r : r \in SortedOf(RemoveAt(sq, i))} :
               i \in {i \in 1..Len(sq) : /\ \A j \in 1..Len(sq) : ~Before(sq[j], sq[i])
                                          /\ \A k \in 1..(i - 1) : sq[k] # sq[i]} }   \* equal values: first occurrence only

(* _calculateSafeExpectedSeqsIdx on a sorted list (1-based; 0 = none) *)
SafeIdx(p, P) ==
  LET ok == {i \in 1..Len(p) : \A j \in 1..i : p[j] \in P} IN
  IF ok = {} THEN 0 ELSE CHOOSE i \in ok : \A k \in ok : k <= i

Trim(p, P) ==
  LET i == SafeIdx(p, P) IN
  [ret |-> IF i = 0 THEN None ELSE p[i],
   E   |-> SubSeq(p, i + 1, Len(p)),
   P   |-> P \ {p[j] : j \in 1..i}]

(* the backwards compaction loop, index by index as coded (note: deleting `current` from the processed
   set also un-processes an equal-valued neighbour - transcribed, see DESIGN 4.17) *)
RECURSIVE Cmp(_, _, _)
Cmp(E, P, i) ==
  IF i < 1 THEN [E |-> E, P |-> P]
  ELSE IF E[i] \in P /\ E[i + 1] \in P
       THEN Cmp(RemoveAt(E, i), P \ {E[i]}, i - 1)
       ELSE Cmp(E, P, i - 1)

Compact(E, P, th) == IF Len(E) > th THEN Cmp(E, P, Len(E) - 1) ELSE [E |-> E, P |-> P]

(* feedOrdered is a ghost: TRUE as long as no token was expected that is Before an earlier expected one
   (the source lists changes in order).  restrict = the environment is constrained to keep it TRUE. *)
OrderedAfter(ts) ==
  /\ \A i \in 1..Len(ts) : \A e \in everExp : ~Before(ts[i], e)
  /\ \A i, j \in 1..Len(ts) : i < j => ~Before(ts[j], ts[i])
FeedOK(ts) == restrict => OrderedAfter(ts)
Batches == UNION {[1..n -> Universe] : n \in 1..MaxBatch}

-----------------------------------------------------------------------------
Init ==
  /\ expected = <<>> /\ processed = {} /\ ret = None /\ cancelled = FALSE
  /\ threshold \in Thresholds /\ restrict \in FeedModes /\ feedOrdered = TRUE
  /\ everExp = {} /\ everProc = {} /\ ckpts = <<>> /\ shE = <<>> /\ shP = {} /\ shRet = None /\ dupFree = TRUE /\ accExp = {} /\ shCkpts = {}
  /\ hist = <<>>

(* after Cancel every notification is dropped (the `select <-c.ctx.Done()` at the top of each Add function) - but the
   ghosts still record that the replicator WAS told to expect / that the change WAS processed *)
Dropped == cancelled /\ UNCHANGED <<expected, processed>> /\ ret' = None /\ UNCHANGED cancelled
ImplExpect(ts)       == \/ Dropped
                        \/ ~cancelled /\ expected' = expected \o ts /\ processed' = processed /\ ret' = None /\ UNCHANGED cancelled
GhostExpect(ts)      == /\ everExp' = everExp \cup Range(ts) /\ shE' = (IF cancelled THEN shE ELSE shE \o ts) /\ shRet' = None
                        /\ dupFree' = (dupFree /\ Range(ts) \cap everExp = {} /\ Cardinality(Range(ts)) = Len(ts))
                        /\ feedOrdered' = (feedOrdered /\ OrderedAfter(ts))
                        /\ accExp' = (IF cancelled THEN accExp ELSE accExp \cup Range(ts))
                        /\ UNCHANGED <<threshold, restrict, everProc, ckpts, shP, shCkpts>>
ImplAlreadyKnown(ts) == \/ Dropped
                        \/ ~cancelled /\ expected' = expected \o ts /\ processed' = processed \cup Range(ts) /\ ret' = None /\ UNCHANGED cancelled
GhostAlreadyKnown(ts) == /\ everExp' = everExp \cup Range(ts) /\ everProc' = everProc \cup Range(ts)
                         /\ shE' = (IF cancelled THEN shE ELSE shE \o ts) /\ shP' = (IF cancelled THEN shP ELSE shP \cup Range(ts)) /\ shRet' = None
                         /\ dupFree' = (dupFree /\ Range(ts) \cap everExp = {} /\ Cardinality(Range(ts)) = Len(ts))
                         /\ feedOrdered' = (feedOrdered /\ OrderedAfter(ts))
                         /\ accExp' = (IF cancelled THEN accExp ELSE accExp \cup Range(ts))
                         /\ UNCHANGED <<threshold, restrict, ckpts, shCkpts>>
ImplProcessed(s)    == \/ Dropped
                       \/ ~cancelled /\ processed' = processed \cup {s} /\ expected' = expected /\ ret' = None /\ UNCHANGED cancelled
GhostProcessed(s)   == /\ everProc' = everProc \cup {s} /\ shP' = (IF cancelled THEN shP ELSE shP \cup {s}) /\ shRet' = None
                       /\ UNCHANGED <<threshold, restrict, feedOrdered, everExp, ckpts, shE, dupFree, accExp, shCkpts>>
ImplTick ==
  \E p \in SortedOf(expected) :
    LET r == Trim(p, processed)
        c == Compact(r.E, r.P, threshold) IN
    expected' = c.E /\ processed' = c.P /\ ret' = r.ret /\ UNCHANGED cancelled
GhostTick ==           \* refers to ret' (already determined by ImplTick or by the logged value)
  /\ ckpts' = IF ret' # None THEN Append(ckpts, ret') ELSE ckpts
  /\ \E q \in SortedOf(shE) :
       LET r == Trim(q, shP) IN /\ shE' = r.E /\ shP' = r.P /\ shRet' = r.ret
                                /\ shCkpts' = IF r.ret # None THEN shCkpts \cup {r.ret} ELSE shCkpts
  /\ UNCHANGED <<threshold, restrict, feedOrdered, everExp, everProc, dupFree, accExp>>

ImplCancel  == cancelled' = TRUE /\ UNCHANGED <<expected, processed>> /\ ret' = None
GhostCancel == shRet' = None /\ UNCHANGED <<threshold, restrict, feedOrdered, everExp, everProc, ckpts, shE, shP, dupFree, accExp, shCkpts>>

(* a status read (calculateSafeProcessedSeq) sorts expectedSeqs in place and changes nothing else *)
ImplSort  == expected' \in SortedOf(expected) /\ UNCHANGED <<processed, cancelled>> /\ ret' = None
GhostSort == shRet' = None /\ UNCHANGED <<threshold, restrict, feedOrdered, everExp, everProc, ckpts, shE, shP, dupFree, accExp, shCkpts>>

Step(a, ts) == hist' = Append(hist, [a |-> a, toks |-> ts])
Sort == Len(expected) > 1 /\ ImplSort /\ GhostSort /\ Step("Sort", <<>>)
Cancel == ~cancelled /\ ImplCancel /\ GhostCancel /\ Step("Cancel", <<>>)

Expect(ts)       == FeedOK(ts) /\ ImplExpect(ts) /\ GhostExpect(ts) /\ Step("Expect", ts)
AlreadyKnown(ts) == FeedOK(ts) /\ ImplAlreadyKnown(ts) /\ GhostAlreadyKnown(ts) /\ Step("AlreadyKnown", ts)
Processed(s)     == ImplProcessed(s) /\ GhostProcessed(s) /\ Step("Processed", <<s>>)
Tick             == ImplTick /\ GhostTick /\ Step("Tick", <<>>)

Next ==
  /\ Len(hist) < MaxSteps
  /\ \/ \E ts \in Batches : Expect(ts) \/ AlreadyKnown(ts)
     \/ \E s \in Universe : Processed(s)
     \/ Tick
     \/ Cancel
     \/ Sort
Spec == Init /\ [][Next]_vars

-----------------------------------------------------------------------------
(* C17 *)
SafeCkpt ==        \* the value handed to persistence never runs ahead of unprocessed expected changes
  ret # None => \A e \in everExp : (e = ret \/ Before(e, ret)) =>
                    (e \in everProc \/ (e \notin accExp /\ ~feedOrdered))
  \* a notification dropped during shutdown cannot hold back the final checkpoint; with an ordered feed it
  \* never needs to (nothing dropped sorts before something registered), which is what the clause demands
NoRegress ==     \* persisted checkpoints never move backwards (given an ordered feed)
  feedOrdered => \A i \in 1..(Len(ckpts) - 1) : ~Before(ckpts[i + 1], ckpts[i])
IsChain(S) == \A a, b \in S : a = b \/ Before(a, b) \/ Before(b, a)
(* compaction never changes what a tick returns - where the order is total and no token was expected
   twice.  With a duplicate above the threshold the code's `delete(processedSeqs, current)` also
   un-processes the retained equal neighbour: the checkpoint then lags (safe) - a named deviation. *)
CompactionTransparent ==
  (IsChain(everExp) /\ dupFree /\ feedOrdered) => ret = shRet
(* ... and in every case a compacted tick never returns a later position than the uncompacted one would *)
CompactionNeverAhead ==     \* the compacted lists may lag (and catch up at a later tick) but never lead the uncompacted ones
  IsChain(everExp) => (ret = None \/ \E c \in shCkpts : ret = c \/ Before(ret, c))
(* nothing expected is forgotten before it is processed *)
NoLoss == \A e \in accExp : e \in everProc \/ e \in Range(expected)
TypeOK == /\ expected \in Seq(Universe) /\ processed \subseteq Universe /\ ret \in Universe \cup {None}
=============================================================================
