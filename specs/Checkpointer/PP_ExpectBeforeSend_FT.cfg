CONSTANT N = 4
CONSTANT NSeq = 4
CONSTANT MaxBatchSize = 2
CONSTANT MaxInFlight = 2
CONSTANT Variant = "ExpectBeforeSend"
CONSTANT AllowIntraBatch = FALSE
CONSTANT AllowCrossBatch = TRUE
CONSTANT Universe <- UPush
CONSTANT MaxSteps = 40
CONSTANT Thresholds = {0, 100}
CONSTANT MaxBatch = 2
CONSTANT FeedModes = {FALSE}
SPECIFICATION PPSpec
VIEW ppview
INVARIANT SafeOffered
INVARIANT NoRegressOffered
INVARIANT SafeCkpt
INVARIANT CompactionNeverAhead
INVARIANT PPTypeOK
CHECK_DEADLOCK FALSE
