--------------------------- MODULE Trace_PushProtocol ---------------------------
(* Validation of REAL push replications (harness/rest/c17_pushprotocol_test.go) against PushProtocol's ground truth.
   Lines (ranks, produced by checks/C17.py convert_push_events from hook H6 + H6b events of one push checkpointer):
     {a:"Reset", th}
     {a:"Offered", seqs}          sendBatchOfChanges is about to send this changes batch (feed goroutine)
     {a:"Answer", want}           handleChangesResponse has the peer's answer: the offered tokens the peer asked for
     {a:"Expect"|"AlreadyKnown"|"Processed"|"Tick"|"Sort"|"Cancel", ...}   as in Trace_Checkpointer (hook H6, under c.lock)
   Ground truth is conservative: an offered token counts as "already known to the peer" until the peer's answer
   asking for it has been RECORDED, so SafeOffered can only fail for a change the replicator verifiably had been
   asked to send, had not had acknowledged, and nevertheless checkpointed at or beyond. *)
EXTENDS PushProtocol, Trace_Checkpointer

VARIABLE offerOrdered     \* ghost: the offers seen so far were in feed order (PushProtocol's construction, checked here)
ptvars == <<tvars, pvars, offerOrdered>>

TPInit == TInit /\ nextSeq = 1 /\ batches = <<>> /\ unacked = {} /\ everOffered = {} /\ peerKnown = {} /\ offerOrdered = TRUE

TPReset == /\ Reset
           /\ nextSeq' = 1 /\ batches' = <<>> /\ unacked' = {} /\ everOffered' = {} /\ peerKnown' = {} /\ offerOrdered' = TRUE

TOffered == /\ Ev("Offered")
            /\ LET ts == LSeq(Trace[l].seqs) IN
               /\ everOffered' = everOffered \cup Range(ts)
               /\ peerKnown' = peerKnown \cup Range(ts)
               /\ offerOrdered' = (offerOrdered /\ (\A i \in 1..Len(ts) : \A e \in everOffered : ~Before(ts[i], e))
                                                /\ (\A i, j \in 1..Len(ts) : i < j => ~Before(ts[j], ts[i])))
            /\ UNCHANGED <<vars, nextSeq, batches, unacked>>
TAnswer  == /\ Ev("Answer")
            /\ peerKnown' = peerKnown \ LSet(Trace[l].want)
            /\ UNCHANGED <<vars, nextSeq, batches, unacked, everOffered, offerOrdered>>

Quiet == UNCHANGED <<pvars, offerOrdered>>
TPNext == TPReset \/ TOffered \/ TAnswer
          \/ ((PSort \/ PCancel \/ PExpect \/ PAlreadyKnown \/ PProcessed \/ PTick) /\ Quiet)
TPSpec == TPInit /\ [][TPNext]_ptvars
TCNext == TPReset \/ TOffered \/ TAnswer
          \/ ((CSort \/ CCancel \/ CExpect \/ CAlreadyKnown \/ CProcessed \/ CTick) /\ Quiet)
TCSpec == TPInit /\ [][TCNext]_ptvars

(* property predicates on the recorded real run *)
TNoRegressOffered == offerOrdered => NoRegressOffered
(* auxiliary (pass C): the environment assumptions of PushProtocol hold on the real run *)
OffersInFeedOrder == offerOrdered
=============================================================================
