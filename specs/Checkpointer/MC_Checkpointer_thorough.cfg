CONSTANT N = 2
CONSTANT Universe <- UEmitted
CONSTANT MaxSteps = 6
CONSTANT Thresholds = {0, 100}
CONSTANT MaxBatch = 1
CONSTANT FeedModes = {FALSE}
SPECIFICATION Spec
VIEW view
INVARIANT SafeCkpt
INVARIANT NoRegress
INVARIANT CompactionTransparent
INVARIANT CompactionNeverAhead
INVARIANT NoLoss
INVARIANT TypeOK
CHECK_DEADLOCK FALSE
