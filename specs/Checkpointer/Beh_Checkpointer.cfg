CONSTANT N = 2
CONSTANT Universe <- USmall
CONSTANT MaxSteps = 4
CONSTANT Thresholds = {0, 100}
CONSTANT MaxBatch = 1
CONSTANT FeedModes = {FALSE}
SPECIFICATION Spec
INVARIANT BehaviourExport
CHECK_DEADLOCK FALSE
