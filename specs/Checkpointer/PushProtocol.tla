--------------------------- MODULE PushProtocol ---------------------------
(* The PUSH path around the replication checkpointer (C17, candidate F6):
     db/blip_handler.go       sendChanges / sendBatchOfChanges   one goroutine lists the source's changes in feed order,
                                                                 in batches; each batch's response is handled in its OWN
                                                                 goroutine (inFlightChangesThrottle of them in flight)
     db/blip_sync_context.go  handleChangesResponse              per batch: send the wanted revisions, THEN
                                                                 sgr2PushAlreadyKnownSeqsCallback (AddAlreadyKnownSeq),
                                                                 THEN sgr2PushAddExpectedSeqsCallback (AddExpectedSeqs)
                              sendRevisionWithProperties         per sent revision a goroutine awaits the peer's reply and
                                                                 calls sgr2PushProcessedSeqCallback (AddProcessedSeq)
     db/active_replicator_checkpointer.go  CheckpointNow         timer goroutine (and once more after Stop)
   The checkpointer itself is module Checkpointer, reused unchanged: every step here that touches it IS one of its actions
   (Expect, AlreadyKnown, Processed, Tick, Cancel).  What this module adds is the ground truth "what the replicator was
   OFFERED" (ghost everOffered / peerKnown) instead of "what the checkpointer was told to expect" (everExp).

   One action per step of a batch's handler goroutine.  Variant selects the order of those steps:
     "AsCoded"           Send, Known, Expect             the code as it is
     "ExpectFirst"       Send, Expect, Known             repair 1: swap the two callbacks
     "ExpectBeforeSend"  Expect, Send, Known             repair 2: register the expectations before sending the revisions
     "AtOffer"           Offer registers ALL the batch's sequences as expected (feed goroutine, feed order, before the
                         changes message leaves); handler: Send, then the already-known ones are marked processed one by one
   Named deviations of the code as it is (DESIGN 7 / F6):
     AllowIntraBatch = FALSE  forbids a Tick / Stop between the two callbacks of one batch        (hole a)
     AllowCrossBatch = FALSE  forbids a batch's callbacks before every earlier batch's callbacks   (hole b)
   With both FALSE SafeOffered is proved for "AsCoded"; each one TRUE yields the corresponding counterexample. *)
EXTENDS Checkpointer

CONSTANTS NSeq,             \* the source's feed is 1..NSeq (plain sequences)
          MaxBatchSize,     \* longest changes batch
          MaxInFlight,      \* batches whose handler has not finished
          Variant,
          AllowIntraBatch, AllowCrossBatch

VARIABLES nextSeq,          \* next feed position to offer
          batches,          \* sequence of [lo, hi, want, pc]: feed positions lo..hi, the ones the peer asked for, next handler step
          unacked,          \* revisions sent (or, AtOffer: already-known positions not yet marked) whose Processed is outstanding
          everOffered,      \* ghost: every change the replicator has been offered (sent in a changes message)
          peerKnown         \* ghost: offered changes the peer answered it already has
pvars  == <<nextSeq, batches, unacked, everOffered, peerKnown>>
ppvars == <<vars, pvars>>
ppview == <<impl, ghost, pvars>>

S(i) == Mk(0, 0, i)
RECURSIVE Asc(_, _, _)      \* the members of W between lo and hi in feed order, as tokens
Asc(lo, hi, W) == IF lo > hi THEN <<>> ELSE (IF lo \in W THEN <<S(lo)>> ELSE <<>>) \o Asc(lo + 1, hi, W)

Steps == CASE Variant = "AsCoded"          -> <<"Send", "Known", "Expect">>
           [] Variant = "ExpectFirst"      -> <<"Send", "Expect", "Known">>
           [] Variant = "ExpectBeforeSend" -> <<"Expect", "Send", "Known">>
           [] Variant = "AtOffer"          -> <<"Send">>
IsCallback(st) == st \in {"Known", "Expect"}
NSteps == Len(Steps)
Done(b) == batches[b].pc > NSteps
InFlight == {b \in 1..Len(batches) : ~Done(b)}
CallbackIdx == {i \in 1..NSteps : IsCallback(Steps[i])}
FirstCb == IF CallbackIdx = {} THEN NSteps + 1 ELSE CHOOSE i \in CallbackIdx : \A j \in CallbackIdx : i <= j
LastCb  == IF CallbackIdx = {} THEN 0 ELSE CHOOSE i \in CallbackIdx : \A j \in CallbackIdx : i >= j
(* batch b has run some but not all of its registration callbacks *)
HalfRegistered(b) == batches[b].pc > FirstCb /\ batches[b].pc <= LastCb
Registered(b)     == batches[b].pc > LastCb
Known(b) == (batches[b].lo .. batches[b].hi) \ batches[b].want

CkUnchanged == UNCHANGED vars

PPInit == /\ Init
         /\ nextSeq = 1 /\ batches = <<>> /\ unacked = {} /\ everOffered = {} /\ peerKnown = {}

(* sendBatchOfChanges: the changes message leaves; the peer's answer (which ones it wants) is fixed by the peer's state *)
Offer ==
  /\ nextSeq <= NSeq /\ Cardinality(InFlight) < MaxInFlight
  /\ \E k \in 1..MaxBatchSize : \E want \in SUBSET (nextSeq .. (nextSeq + k - 1)) :
       /\ nextSeq + k - 1 <= NSeq
       /\ batches' = Append(batches, [lo |-> nextSeq, hi |-> nextSeq + k - 1, want |-> want, pc |-> 1])
       /\ nextSeq' = nextSeq + k
       /\ everOffered' = everOffered \cup {S(i) : i \in nextSeq .. (nextSeq + k - 1)}
       /\ peerKnown' = peerKnown \cup {S(i) : i \in (nextSeq .. (nextSeq + k - 1)) \ want}
       /\ UNCHANGED unacked
       /\ IF Variant = "AtOffer" THEN Expect(Asc(nextSeq, nextSeq + k - 1, nextSeq .. (nextSeq + k - 1))) ELSE CkUnchanged

HandlerStep(b) ==
  /\ b \in InFlight
  /\ LET st == Steps[batches[b].pc] IN
     /\ (IsCallback(st) /\ ~AllowCrossBatch) => \A a \in 1..(b - 1) : Registered(a)
     /\ batches' = [batches EXCEPT ![b].pc = @ + 1]
     /\ UNCHANGED <<nextSeq, everOffered, peerKnown>>
     /\ CASE st = "Send"   -> /\ unacked' = unacked \cup {S(i) : i \in batches[b].want}
                                              \cup (IF Variant = "AtOffer" THEN {S(i) : i \in Known(b)} ELSE {})
                              /\ CkUnchanged
          [] st = "Known"  -> /\ UNCHANGED unacked           \* the callback is made even with no sequence: a no-op then
                              /\ IF Known(b) = {} THEN CkUnchanged ELSE AlreadyKnown(Asc(batches[b].lo, batches[b].hi, Known(b)))
          [] st = "Expect" -> /\ UNCHANGED unacked           \* only `if revSendCount > 0`
                              /\ IF batches[b].want = {} THEN CkUnchanged ELSE Expect(Asc(batches[b].lo, batches[b].hi, batches[b].want))

(* the peer's reply to one sent revision (AtOffer: also the handler marking one already-known position) *)
Ack(s) == /\ s \in unacked /\ unacked' = unacked \ {s}
          /\ Processed(s)
          /\ UNCHANGED <<nextSeq, batches, everOffered, peerKnown>>

NoHalf == AllowIntraBatch \/ \A b \in 1..Len(batches) : ~HalfRegistered(b)
PPTick == NoHalf /\ Tick   /\ UNCHANGED pvars
PPStop == NoHalf /\ Cancel /\ UNCHANGED pvars    \* Stop: context cancelled; the final CheckpointNow is a later PPTick

PPNext ==
  /\ Len(hist) < MaxSteps
  /\ \/ Offer
     \/ \E b \in 1..Len(batches) : HandlerStep(b)
     \/ \E s \in unacked : Ack(s)
     \/ PPTick
     \/ PPStop
PPSpec == PPInit /\ [][PPNext]_ppvars

-----------------------------------------------------------------------------
(* C17 against what the replicator was OFFERED *)
Handled == everProc \cup peerKnown
SafeOffered ==      \* a value handed to persistence is never at or beyond an offered change that is neither acknowledged nor already known
  ret # None => \A e \in everOffered : (e = ret \/ Before(e, ret)) => e \in Handled
NoRegressOffered == \* the source lists in feed order by construction: persisted checkpoints never move backwards, unconditionally
  \A i \in 1..(Len(ckpts) - 1) : ~Before(ckpts[i + 1], ckpts[i])
PPTypeOK == /\ TypeOK /\ nextSeq \in 1..(NSeq + 1) /\ unacked \subseteq everOffered /\ peerKnown \subseteq everOffered
=============================================================================
