--------------------------- MODULE MC_Checkpointer ---------------------------
EXTENDS Checkpointer, Json
(* token universes over values 0..N: the emitted (normal-form) tokens without the zero token *)
UEmitted == {k \in Emitted : k.s > 0 \/ k.t > 0}
(* a Before-chain mixing the three forms:  1 < 3:1 < 3:2 < 2::3 ... picked so that consecutive ones are ordered *)
UChain == {Mk(0,0,1), Mk(0,0,2), Mk(0,3,1), Mk(0,3,2), Mk(0,0,3), Mk(1,0,3)}
USmall == {Mk(0,2,1), Mk(0,0,2), Mk(1,0,2)}
UTwo == {Mk(0,2,1), Mk(0,0,2)}
(* Simulation: TLC picks uniformly among SUCCESSOR STATES, so with Next an action that has 70 argument choices
   is taken 70 times as often as Tick.  SimNext draws the arguments with RandomElement, giving one successor per
   action kind (Tick doubled, Cancel only near the end), so that ticks and late notifications interleave. *)
SimNext ==
  /\ Len(hist) < MaxSteps
  /\ \/ Expect(RandomElement(Batches))
     \/ AlreadyKnown(RandomElement(Batches))
     \/ Processed(RandomElement(Universe))
     \/ Processed(IF Range(expected) \ processed = {} THEN RandomElement(Universe) ELSE RandomElement(Range(expected) \ processed))
     \/ Tick
     \/ Sort
     \/ (Len(hist) >= MaxSteps - 4 /\ Cancel)
SimSpec == Init /\ [][SimNext]_vars
BehaviourExport == (Len(hist) = MaxSteps) => PrintT(<<"BEH", ToJson([th |-> threshold, steps |-> hist])>>)
=============================================================================
