CONSTANT N = 6
CONSTANT Universe <- UTrace
CONSTANT MaxSteps = 1000000
CONSTANT Thresholds = {0}
CONSTANT MaxBatch = 1
CONSTANT FeedModes = {FALSE}
SPECIFICATION CSpec
CONSTRAINT Progress
POSTCONDITION Accept
CHECK_DEADLOCK FALSE
INVARIANT CompactionTransparent
INVARIANT CompactionNeverAhead
INVARIANT NoLoss
