CONSTANT N = 2
CONSTANT Universe <- UEmitted
CONSTANT MaxSteps = 12
CONSTANT Thresholds = {0, 1, 2, 100}
CONSTANT MaxBatch = 2
CONSTANT FeedModes = {TRUE, FALSE}
SPECIFICATION SimSpec
INVARIANT BehaviourExport
CHECK_DEADLOCK FALSE
