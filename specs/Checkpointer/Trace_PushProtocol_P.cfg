CONSTANT N = 6
CONSTANT Universe <- UTrace
CONSTANT MaxSteps = 1000000
CONSTANT Thresholds = {0}
CONSTANT MaxBatch = 1
CONSTANT FeedModes = {FALSE}
CONSTANT NSeq = 1
CONSTANT MaxBatchSize = 1
CONSTANT MaxInFlight = 1
CONSTANT Variant = "AsCoded"
CONSTANT AllowIntraBatch = TRUE
CONSTANT AllowCrossBatch = TRUE
SPECIFICATION TPSpec
CONSTRAINT Progress
POSTCONDITION Accept
CHECK_DEADLOCK FALSE
INVARIANT SafeOffered
INVARIANT TNoRegressOffered
