--------------------------- MODULE Trace_AuthSession ---------------------------
(* Validation of traces recorded from the real auth.Authenticator (harness/auth/c12_authsession_test.go) and,
   for the disabled-user clause, from the REST layer (harness/rest/c12_rest_session_test.go).
   Lines:  {a:"Reset"}   {a:<action>, u, p, s, one, pr, kind, res:{op,u,p,s,pr,ok,who}, U, S, C, PC, L}   (S[s].aged = the stored
   Expiration/Ttl say that more than 10% of the TTL has elapsed)
   U / S / C / PC / L are the REAL user documents, session documents, verified-password cache probes,
   presenter control points and presenter copies after the step; res is the REAL outcome of the call. *)
EXTENDS AuthSession, TraceLib

TUsers == {"u1", "u2"}
TSessions == {"s1", "s2"}
TPresenters == {1, 2, 3}
TEpochs == 1..64
TOps == {}
TChecksDisabled == "VERIF_C12_SESSION_CHECKS_DISABLED" \in DOMAIN IOEnv   \* set by checks/C12.py when the probe saw the session path refuse a disabled owner

VARIABLE l
tvars == <<vars, l>>

Ev(a) == l <= TraceLen /\ Trace[l].a = a /\ l' = l + 1
R == Trace[l]
LSet(x) == {x[i] : i \in 1..Len(x)}
Logged == /\ user' = R.U /\ sess' = R.S /\ cache' = LSet(R.C)
          /\ pc' = [q \in Presenters |-> R.PC[q]] /\ loc' = [q \in Presenters |-> R.L[q]]
          /\ res' = R.res

TInit == Init /\ l = 1
Reset == /\ Ev("Reset")
         /\ user' = [u \in Users |-> NoUser] /\ sess' = [s \in Sessions |-> NoSess] /\ cache' = {}
         /\ pc' = [q \in Presenters |-> "idle"] /\ loc' = [q \in Presenters |-> NoLoc] /\ res' = NoRes
         /\ gUser' = [u \in Users |-> NoGU] /\ gSess' = [s \in Sessions |-> NoGS] /\ okCount' = [s \in Sessions |-> 0]
         /\ gt' = NoGt /\ pgt' = [q \in Presenters |-> NoGt]
         /\ hist' = <<>>

(* ghost of every event, from the logged INPUTS (and, where the ground truth is about an id the system chose or a
   call the system refused, the logged outcome) *)
GhostOf(a) ==
  CASE a = "CreateUser"    -> GhostCreateUser(R.u, R.p)
    [] a = "SetPassword"   -> GhostSetPassword(R.u, R.p)
    [] a = "Disable"       -> GhostSetDisabled(R.u, TRUE)
    [] a = "Enable"        -> GhostSetDisabled(R.u, FALSE)
    [] a = "DeleteUser"    -> GhostDeleteUser(R.u)
    [] a = "CreateSession" -> GhostCreateSession(R.s, R.u, R.one)
    [] a = "DeleteSession" -> GhostDropSession(R.s)
    [] a = "Expire"        -> GhostDropSession(R.s)
    [] a = "Age"           -> GhostAge(R.s)
    [] a = "AuthPassword"  -> GhostAuthPassword(R.u, R.p)
    [] a = "AuthCookie"    -> GhostAuthSess(R.s)
    [] a = "AuthOneTime"   -> GhostAuthSess(R.s)
    [] a = "PGetS"         -> GhostPStep(R.pr, R.s, GT(R.s))
    [] a = "PSet"          -> GhostPStep(R.pr, R.s, pgt[R.pr])
    [] a = "PGetU"         -> GhostPStep(R.pr, R.s, pgt[R.pr])
    [] a = "PDel"          -> GhostPStep(R.pr, R.s, pgt[R.pr])

(* the action instance a logged line must be (pass C), from the previous REAL state; a new SessionUUID may be any
   value not stored anywhere before the step *)
NewEpoch(u) == R.U[u].epoch
ImplOf(a) ==
  CASE a = "CreateUser"    -> ~user[R.u].exists /\ FreshEpoch(NewEpoch(R.u)) /\ ImplCreateUser(R.u, R.p, NewEpoch(R.u))
    [] a = "SetPassword"   -> user[R.u].exists /\ FreshEpoch(NewEpoch(R.u)) /\ ImplSetPassword(R.u, R.p, NewEpoch(R.u))
    [] a = "Disable"       -> user[R.u].exists /\ ImplSetDisabled("Disable", R.u, TRUE)
    [] a = "Enable"        -> user[R.u].exists /\ ImplSetDisabled("Enable", R.u, FALSE)
    [] a = "DeleteUser"    -> user[R.u].exists /\ ImplDeleteUser(R.u)
    [] a = "CreateSession" -> user[R.u].exists /\ ImplCreateSession(R.s, R.u, R.one)
    [] a = "DeleteSession" -> ImplDropSession("DeleteSession", R.s)
    [] a = "Expire"        -> ImplDropSession("Expire", R.s)
    [] a = "Age"           -> sess[R.s].exists /\ ImplAge(R.s)
    [] a = "AuthPassword"  -> ImplAuthPassword(R.u, R.p)
    [] a = "AuthCookie"    -> ImplAuthSess("AuthCookie", R.s)
    [] a = "AuthOneTime"   -> ImplAuthSess("AuthOneTime", R.s)
    [] a = "PGetS"         -> pc[R.pr] = "idle" /\ ImplPGetS(R.pr, R.s, R.kind)
    [] a = "PSet"          -> pc[R.pr] = "gotSr" /\ ImplPSet(R.pr)
    [] a = "PGetU"         -> pc[R.pr] = "gotS" /\ ImplPGetU(R.pr)
    [] a = "PDel"          -> pc[R.pr] = "gotU" /\ ImplPDel(R.pr)

Actions == {"CreateUser", "SetPassword", "Disable", "Enable", "DeleteUser", "CreateSession", "DeleteSession", "Expire",
            "Age", "AuthPassword", "AuthCookie", "AuthOneTime", "PGetS", "PSet", "PGetU", "PDel"}

(* pass P: implementation variables := logged real state; ghosts advance from the logged inputs; no guard *)
PEvent == \E a \in Actions : Ev(a) /\ Logged /\ GhostOf(a) /\ UNCHANGED hist
PNext == Reset \/ PEvent
PSpec == TInit /\ [][PNext]_tvars

(* pass C: each logged step is an instance of the corresponding action, from the previous REAL state *)
CEvent == \E a \in Actions : Ev(a) /\ ImplOf(a) /\ Logged /\ GhostOf(a) /\ UNCHANGED hist
CNext == Reset \/ CEvent
CSpec == TInit /\ [][CNext]_tvars

Progress == Mark(l)
Accept == PrintHWM

(* The disabled-owner clause of SessSound is bound at the level the defect was confirmed at; a clause whose keyed
   finding has already been reported from its minimal history is waived for the remaining traces (environment
   variable set by checks/C12.py), so that everything else is still decided on all of them. *)
Waived(n) == n \in DOMAIN IOEnv
SessDisabledCookieT  == Waived("VERIF_C12_WAIVE_SessDisabledCookie")  \/ SessDisabledCookie
SessDisabledOneTimeT == Waived("VERIF_C12_WAIVE_SessDisabledOneTime") \/ SessDisabledOneTime
=============================================================================
