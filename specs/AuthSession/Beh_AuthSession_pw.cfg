CONSTANT Users = {"u1"}
CONSTANT Sessions = {}
CONSTANT SetPws = {"p1", "p2"}
CONSTANT TryPws = {"p1", "p2"}
CONSTANT Presenters = {}
CONSTANT EpochIds = {1, 2, 3, 4, 5}
CONSTANT MaxSteps = 5
CONSTANT Ops <- PwOps
CONSTANT SessChecksDisabled = TRUE
CONSTANT RefreshUpserts = FALSE
CONSTANT InFlightOps = {}
SPECIFICATION Spec
INVARIANT BehaviourExport
CHECK_DEADLOCK FALSE
