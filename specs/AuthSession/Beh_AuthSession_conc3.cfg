CONSTANT Users = {"u1"}
CONSTANT Sessions = {"s1"}
CONSTANT SetPws = {"p1"}
CONSTANT TryPws = {}
CONSTANT Presenters = {1, 2, 3}
CONSTANT EpochIds = {1, 2, 3, 4, 5}
CONSTANT MaxSteps = 11
CONSTANT Ops <- ConcOps
CONSTANT SessChecksDisabled = TRUE
CONSTANT RefreshUpserts = FALSE
CONSTANT InFlightOps = {}
SPECIFICATION Spec
INVARIANT BehaviourExportConc
CHECK_DEADLOCK FALSE
