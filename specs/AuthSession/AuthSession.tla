--------------------------- MODULE AuthSession ---------------------------
(* Password / session authentication of sync_gateway: auth/user.go (AuthenticateWithReason, SetPassword,
   SessionUUID_), auth/password_hash.go (compareHashAndPassword + cachedHashes), auth/session.go
   (CreateSession, GetSession, AuthenticateCookie, AuthenticateOneTimeSession, deleteOneTimeSession,
   DeleteSession), auth/auth.go (GetUser, Save, DeleteUser, AuthenticateUser).  Decides C12.

   Implementation state (what the bucket and the process hold):
     user[u]  = [exists, disabled, hpw, epoch]   user document.  hpw = the password the stored bcrypt hash
                verifies under the FULL check ("" = no hash: PasswordHash_ == nil); epoch = SessionUUID_.
     sess[s]  = [exists, user, epoch, oneTime, aged]   session document (expiry = the store deleting it); aged = more
                than 10% of its TTL has elapsed since it was issued / last refreshed (environment action Age)
     cache    = set of <<pw, u>>: authKey(current hash of u, pw) is in cachedHashes.  Only pairs whose
                hash is still stored in a user document are represented: compareHashAndPassword is only
                ever called with a stored hash, other entries are unreachable (a fresh SetPassword has a
                fresh salt, so it starts with no entry).
     pc, loc  = per concurrent presenter: control point between the storage operations of one cookie /
                websocket-token presentation (Get session | Get user | Delete session) and its copy of the
                session document.
     res      = outcome of the last completed call.
   One action per storage-atomic section.  Administrative operations and the sequential Auth* calls are
   atomic (the harness runs them one at a time); a concurrent presentation is one action per storage operation:
   Get session, [Set session: TTL refresh, cookie path, aged regular sessions only], Get user, [Delete: one-time].
   Impl<A> constrain the implementation variables, Ghost<A> the ground truth / history; Trace_AuthSession
   reuses them (pass P: implementation variables := logged REAL state, ghosts from logged inputs). *)
EXTENDS Integers, Sequences, FiniteSets, TLC

CONSTANTS Users,               \* user names (strings)
          Sessions,            \* session slots (strings); a slot is issued at most once (ids are random secrets)
          SetPws,              \* passwords that may be set ("" = none)
          TryPws,              \* passwords that may be presented ("wrong" is never set)
          Presenters,          \* 1..K concurrent presenters ({} = none)
          EpochIds,            \* 1..n, names for SessionUUID values (compared by equality only)
          MaxSteps,
          Ops,                 \* names of the actions enabled in this configuration
          SessChecksDisabled,  \* TRUE = as coded since fix 64083be (the session paths refuse a disabled owner); FALSE = before it
          RefreshUpserts,      \* FALSE = as coded since fix b081bb5 (the TTL refresh is a CAS write); TRUE = before it: blind Set
          InFlightOps          \* administrative actions allowed while a presentation is in flight ({} in the families)

NoUser == [exists |-> FALSE, disabled |-> FALSE, hpw |-> "", epoch |-> 0]
NoSess == [exists |-> FALSE, user |-> "", epoch |-> 0, oneTime |-> FALSE, aged |-> FALSE]
NoLoc  == [s |-> "", kind |-> "", su |-> "", se |-> 0, so |-> FALSE]
NoRes  == [op |-> "none", u |-> "", p |-> "", s |-> "", pr |-> 0, ok |-> FALSE, who |-> ""]
NoGt   == [live |-> FALSE, uexists |-> FALSE, enabled |-> FALSE, fresh |-> FALSE, cred |-> FALSE, owner |-> ""]
NoGU   == [exists |-> FALSE, disabled |-> FALSE, pw |-> ""]
NoGS   == [created |-> FALSE, live |-> FALSE, user |-> "", oneTime |-> FALSE, fresh |-> FALSE]
SessOps == {"AuthCookie", "AuthOneTime"}

VARIABLES user, sess, cache, pc, loc, res,     \* implementation
          gUser,    \* ground truth per user: [exists, disabled, pw]   (from the inputs only)
          gSess,    \* ground truth per slot: [created, live, user, oneTime, fresh]; fresh = no password change /
                    \* deletion of the owner since the session was issued
          okCount,  \* successful presentations per slot over the whole behaviour (capped at 2)
          gt, pgt,  \* ground-truth verdict of the last completed call / of each presentation in flight
          hist
impl  == <<user, sess, cache, pc, loc, res>>
ghost == <<gUser, gSess, okCount, gt, pgt>>
vars  == <<impl, ghost, hist>>
view  == <<impl, ghost>>

Quiet == \A q \in Presenters : pc[q] \in {"idle", "done"}
Min2(n) == IF n > 2 THEN 2 ELSE n

UsedEpochs == {user[u].epoch : u \in Users} \cup {sess[s].epoch : s \in Sessions} \cup {loc[q].se : q \in Presenters}
FreshEpoch(e) == e # 0 /\ e \notin UsedEpochs          \* uuid.NewString(): differs from every stored value
MinFresh == CHOOSE e \in EpochIds : FreshEpoch(e) /\ \A f \in EpochIds : FreshEpoch(f) => e <= f

Result(op, u, p, s, pr, ok, who) == [op |-> op, u |-> u, p |-> p, s |-> s, pr |-> pr, ok |-> ok, who |-> IF ok THEN who ELSE ""]
DropCache(u) == {c \in cache : c[2] # u}

-----------------------------------------------------------------------------
Init ==
  /\ user = [u \in Users |-> NoUser] /\ sess = [s \in Sessions |-> NoSess] /\ cache = {}
  /\ pc = [q \in Presenters |-> "idle"] /\ loc = [q \in Presenters |-> NoLoc] /\ res = NoRes
  /\ gUser = [u \in Users |-> NoGU] /\ gSess = [s \in Sessions |-> NoGS] /\ okCount = [s \in Sessions |-> 0]
  /\ gt = NoGt /\ pgt = [q \in Presenters |-> NoGt]
  /\ hist = <<>>

(* ---- administrative operations ---------------------------------------------------------------- *)
\* NewUser + Save (also: the same name again after DeleteUser).  e = the new SessionUUID.
ImplCreateUser(u, p, e) ==
  /\ user' = [user EXCEPT ![u] = [exists |-> TRUE, disabled |-> FALSE, hpw |-> p, epoch |-> e]]
  /\ cache' = DropCache(u)
  /\ res' = Result("CreateUser", u, p, "", 0, TRUE, u)
  /\ UNCHANGED <<sess, pc, loc>>
GhostCreateUser(u, p) ==
  /\ gUser' = [gUser EXCEPT ![u] = [exists |-> TRUE, disabled |-> FALSE, pw |-> p]]
  /\ gt' = NoGt /\ UNCHANGED <<gSess, okCount, pgt>>

\* GetUser; SetPassword (UpdateSessionUUID + new salted hash, or no hash for ""); Save
ImplSetPassword(u, p, e) ==
  /\ user' = [user EXCEPT ![u].hpw = p, ![u].epoch = e]
  /\ cache' = DropCache(u)
  /\ res' = Result("SetPassword", u, p, "", 0, TRUE, u)
  /\ UNCHANGED <<sess, pc, loc>>
Stale(u) == [s \in Sessions |-> IF gSess[s].user = u THEN [gSess[s] EXCEPT !.fresh = FALSE] ELSE gSess[s]]
GhostSetPassword(u, p) ==
  /\ gUser' = [gUser EXCEPT ![u].pw = p]
  /\ gSess' = Stale(u)
  /\ gt' = NoGt /\ UNCHANGED <<okCount, pgt>>

ImplSetDisabled(op, u, d) ==
  /\ user' = [user EXCEPT ![u].disabled = d]
  /\ res' = Result(op, u, "", "", 0, TRUE, u)
  /\ UNCHANGED <<sess, cache, pc, loc>>
GhostSetDisabled(u, d) ==
  /\ gUser' = [gUser EXCEPT ![u].disabled = d]
  /\ gt' = NoGt /\ UNCHANGED <<gSess, okCount, pgt>>

ImplDeleteUser(u) ==
  /\ user' = [user EXCEPT ![u] = NoUser]
  /\ cache' = DropCache(u)
  /\ res' = Result("DeleteUser", u, "", "", 0, TRUE, u)
  /\ UNCHANGED <<sess, pc, loc>>
GhostDeleteUser(u) ==
  /\ gUser' = [gUser EXCEPT ![u] = NoGU]
  /\ gSess' = Stale(u)
  /\ gt' = NoGt /\ UNCHANGED <<okCount, pgt>>

\* GetUser; CreateSession (refused with 400 for a disabled user)
ImplCreateSession(s, u, one) ==
  /\ sess' = IF user[u].disabled THEN sess
             ELSE [sess EXCEPT ![s] = [exists |-> TRUE, user |-> u, epoch |-> user[u].epoch, oneTime |-> one, aged |-> FALSE]]
  /\ res' = Result("CreateSession", u, "", s, 0, ~user[u].disabled, u)
  /\ UNCHANGED <<user, cache, pc, loc>>
GhostCreateSession(s, u, one) ==        \* the id is chosen by the system: the slot is issued iff the call reported success
  /\ gSess' = IF res'.ok THEN [gSess EXCEPT ![s] = [created |-> TRUE, live |-> TRUE, user |-> u, oneTime |-> one,
                                                     fresh |-> gUser[u].exists]]
              ELSE gSess
  /\ gt' = NoGt /\ UNCHANGED <<gUser, okCount, pgt>>

\* DeleteSession / Expire = the store removing the document (what DeleteSession returns for an absent document is
\* the store's business and not part of the property: not modelled)
ImplDropSession(op, s) ==
  /\ sess' = [sess EXCEPT ![s] = NoSess]
  /\ res' = Result(op, "", "", s, 0, TRUE, "")
  /\ UNCHANGED <<user, cache, pc, loc>>
GhostDropSession(s) ==
  /\ gSess' = [gSess EXCEPT ![s].live = FALSE]
  /\ gt' = NoGt /\ UNCHANGED <<gUser, okCount, pgt>>

\* environment: time passes - more than 10% of the session's TTL has elapsed (nothing else changes)
ImplAge(s) ==
  /\ sess' = [sess EXCEPT ![s].aged = TRUE]
  /\ res' = Result("Age", "", "", s, 0, TRUE, "")
  /\ UNCHANGED <<user, cache, pc, loc>>
GhostAge(s) == gt' = NoGt /\ UNCHANGED <<gUser, gSess, okCount, pgt>>

(* ---- password authentication: AuthenticateUser -> AuthenticateWithReason -> compareHashAndPassword ---- *)
PwOk(u, p) ==
  /\ user[u].exists /\ ~user[u].disabled
  /\ IF user[u].hpw # "" THEN (<<p, u>> \in cache \/ user[u].hpw = p)      \* fast path, else bcrypt
     ELSE p = ""                                                             \* no hash: only the empty password
ImplAuthPassword(u, p) ==
  /\ res' = Result("AuthPassword", u, p, "", 0, PwOk(u, p), u)
  /\ cache' = IF PwOk(u, p) /\ user[u].hpw # "" THEN cache \cup {<<p, u>>} ELSE cache   \* only successes are cached
  /\ UNCHANGED <<user, sess, pc, loc>>
GhostAuthPassword(u, p) ==
  /\ gt' = [live |-> TRUE, uexists |-> gUser[u].exists, enabled |-> gUser[u].exists /\ ~gUser[u].disabled,
            fresh |-> TRUE, cred |-> gUser[u].exists /\ p = gUser[u].pw, owner |-> u]
  /\ UNCHANGED <<gUser, gSess, okCount, pgt>>

(* ---- session presentation -------------------------------------------------------------------------- *)
\* ground truth for presenting slot s now
GT(s) ==
  LET G == gSess[s] IN
  IF ~G.created THEN NoGt
  ELSE [live |-> G.live, uexists |-> gUser[G.user].exists, enabled |-> gUser[G.user].exists /\ ~gUser[G.user].disabled,
        fresh |-> G.fresh /\ gUser[G.user].exists, cred |-> TRUE, owner |-> G.user]
\* a completed presentation of s with verdict g: count it, a successful one-time presentation consumes the session
GhostPresented(s, g) ==
  /\ gt' = g
  /\ okCount' = IF res'.ok THEN [okCount EXCEPT ![s] = Min2(@ + 1)] ELSE okCount
  /\ gSess' = IF res'.ok /\ gSess[s].oneTime THEN [gSess EXCEPT ![s].live = FALSE] ELSE gSess

UserOk(u, e) == /\ user[u].exists /\ user[u].epoch = e          \* GetSession / AuthenticateCookie: user != nil && uuid equal
                /\ (SessChecksDisabled => ~user[u].disabled)    \* since fix 64083be (DESIGN section 7, F4)
\* the uninterrupted call: Get session; Get user + compare; delete iff one-time (the delete is the success decision)
SessOk(s) == sess[s].exists /\ UserOk(sess[s].user, sess[s].epoch)
\* AuthenticateCookie only: an aged regular session is written back with a new expiration right after it was read -
\* BEFORE its user is validated; one-time sessions are never refreshed (they are deleted by this request)
NeedsRefresh(S) == S.aged /\ ~S.oneTime
ImplAuthSess(op, s) ==
  LET refreshed == [sess EXCEPT ![s].aged = IF op = "AuthCookie" /\ sess[s].exists /\ NeedsRefresh(sess[s]) THEN FALSE ELSE @] IN
  /\ res' = Result(op, "", "", s, 0, SessOk(s), sess[s].user)
  /\ sess' = IF SessOk(s) /\ sess[s].oneTime THEN [refreshed EXCEPT ![s] = NoSess] ELSE refreshed
  /\ UNCHANGED <<user, cache, pc, loc>>
GhostAuthSess(s) == GhostPresented(s, GT(s)) /\ UNCHANGED <<gUser, pgt>>

\* the same call by presenter q, one action per storage operation; a finished presenter forgets its copy
Fin(L) == [NoLoc EXCEPT !.s = L.s, !.kind = L.kind]
ImplPGetS(q, s, kind) ==                \* datastore.Get(session)
  /\ IF sess[s].exists
     THEN /\ pc' = [pc EXCEPT ![q] = IF kind = "AuthCookie" /\ NeedsRefresh(sess[s]) THEN "gotSr" ELSE "gotS"]
          /\ loc' = [loc EXCEPT ![q] = [s |-> s, kind |-> kind, su |-> sess[s].user, se |-> sess[s].epoch, so |-> sess[s].oneTime]]
          /\ res' = NoRes
     ELSE /\ pc' = [pc EXCEPT ![q] = "done"]
          /\ loc' = [loc EXCEPT ![q] = [NoLoc EXCEPT !.s = s, !.kind = kind]]
          /\ res' = Result(kind, "", "", s, q, FALSE, "")
  /\ UNCHANGED <<user, sess, cache>>
ImplPSet(q) ==                          \* the refresh write of the session document with a new expiration
  LET L == loc[q]
      \* since fix b081bb5 a compare-and-swap against the document that was read.  Between the read and this write only a
      \* refresh by another presenter (aged becomes FALSE) or a deletion can have changed the document.
      same == sess[L.s].exists /\ sess[L.s].aged /\ sess[L.s].user = L.su /\ sess[L.s].epoch = L.se
      written == [sess EXCEPT ![L.s] = [exists |-> TRUE, user |-> L.su, epoch |-> L.se, oneTime |-> L.so, aged |-> FALSE]] IN
  IF RefreshUpserts                     \* before the fix: blind Set - re-creates a deleted document
  THEN /\ pc' = [pc EXCEPT ![q] = "gotS"] /\ sess' = written /\ res' = NoRes /\ UNCHANGED <<user, cache, loc>>
  ELSE IF same                          \* CAS succeeds
  THEN /\ pc' = [pc EXCEPT ![q] = "gotS"] /\ sess' = written /\ res' = NoRes /\ UNCHANGED <<user, cache, loc>>
  ELSE IF ~sess[L.s].exists             \* document gone: 401 "Session Invalid", nothing is written
  THEN /\ pc' = [pc EXCEPT ![q] = "done"] /\ loc' = [loc EXCEPT ![q] = Fin(L)] /\ res' = Result(L.kind, "", "", L.s, q, FALSE, "")
       /\ UNCHANGED <<user, sess, cache>>
  ELSE                                  \* CAS mismatch (refreshed concurrently): the refresh is skipped, the presentation goes on
       /\ pc' = [pc EXCEPT ![q] = "gotS"] /\ res' = NoRes /\ UNCHANGED <<user, sess, cache, loc>>
ImplPGetU(q) ==                         \* GetUser = datastore.Update(user doc, cancel) ; uuid comparison
  LET L == loc[q] IN
  /\ IF ~UserOk(L.su, L.se) THEN pc' = [pc EXCEPT ![q] = "done"] /\ loc' = [loc EXCEPT ![q] = Fin(L)] /\ res' = Result(L.kind, "", "", L.s, q, FALSE, "")
     ELSE IF L.so          THEN pc' = [pc EXCEPT ![q] = "gotU"] /\ loc' = loc /\ res' = NoRes
     ELSE                       pc' = [pc EXCEPT ![q] = "done"] /\ loc' = [loc EXCEPT ![q] = Fin(L)] /\ res' = Result(L.kind, "", "", L.s, q, TRUE, L.su)
  /\ UNCHANGED <<user, sess, cache>>
ImplPDel(q) ==                          \* deleteOneTimeSession: datastore.Delete(session); not found => 401
  LET L == loc[q] IN
  /\ pc' = [pc EXCEPT ![q] = "done"]
  /\ res' = Result(L.kind, "", "", L.s, q, sess[L.s].exists, L.su)
  /\ sess' = [sess EXCEPT ![L.s] = NoSess]
  /\ loc' = [loc EXCEPT ![q] = Fin(L)]
  /\ UNCHANGED <<user, cache>>
\* ghost of a presenter step on slot s whose verdict (fixed when it began) is g
GhostPStep(q, s, g) ==
  /\ pgt' = [pgt EXCEPT ![q] = g]
  /\ IF pc'[q] = "done" THEN GhostPresented(s, g) ELSE UNCHANGED <<gt, okCount, gSess>>
  /\ UNCHANGED gUser

-----------------------------------------------------------------------------
Step(a, u, p, s, one, q, kind) == hist' = Append(hist, [a |-> a, u |-> u, p |-> p, s |-> s, one |-> one, pr |-> q, kind |-> kind])

CreateUser(u, p)  == Quiet /\ ~user[u].exists /\ ImplCreateUser(u, p, MinFresh) /\ GhostCreateUser(u, p) /\ Step("CreateUser", u, p, "", FALSE, 0, "")
SetPassword(u, p) == Quiet /\ user[u].exists /\ ImplSetPassword(u, p, MinFresh) /\ GhostSetPassword(u, p) /\ Step("SetPassword", u, p, "", FALSE, 0, "")
Disable(u)        == Quiet /\ user[u].exists /\ ~user[u].disabled /\ ImplSetDisabled("Disable", u, TRUE) /\ GhostSetDisabled(u, TRUE) /\ Step("Disable", u, "", "", FALSE, 0, "")
Enable(u)         == Quiet /\ user[u].exists /\ user[u].disabled /\ ImplSetDisabled("Enable", u, FALSE) /\ GhostSetDisabled(u, FALSE) /\ Step("Enable", u, "", "", FALSE, 0, "")
DeleteUser(u)     == Quiet /\ user[u].exists /\ ImplDeleteUser(u) /\ GhostDeleteUser(u) /\ Step("DeleteUser", u, "", "", FALSE, 0, "")
CreateSession(s, u, one) == Quiet /\ user[u].exists /\ ~gSess[s].created /\ ImplCreateSession(s, u, one) /\ GhostCreateSession(s, u, one)
                            /\ Step("CreateSession", u, "", s, one, 0, "")
Age(s)            == Quiet /\ sess[s].exists /\ ~sess[s].aged /\ ImplAge(s) /\ GhostAge(s) /\ Step("Age", "", "", s, FALSE, 0, "")
DeleteSession(s)  == (Quiet \/ "DeleteSession" \in InFlightOps) /\ gSess[s].created /\ ImplDropSession("DeleteSession", s) /\ GhostDropSession(s) /\ Step("DeleteSession", "", "", s, FALSE, 0, "")
Expire(s)         == Quiet /\ sess[s].exists /\ ImplDropSession("Expire", s) /\ GhostDropSession(s) /\ Step("Expire", "", "", s, FALSE, 0, "")
AuthPassword(u, p) == Quiet /\ ImplAuthPassword(u, p) /\ GhostAuthPassword(u, p) /\ Step("AuthPassword", u, p, "", FALSE, 0, "")
AuthSess(op, s)   == Quiet /\ ImplAuthSess(op, s) /\ GhostAuthSess(s) /\ Step(op, "", "", s, FALSE, 0, "")

\* presenters begin in index order (they are interchangeable) and one episode is about one slot
PGetS(q, s, kind) == /\ pc[q] = "idle" /\ gSess[s].created
                     /\ \A r \in Presenters : r < q => pc[r] # "idle"
                     /\ \A r \in Presenters : pc[r] \in {"gotSr", "gotS", "gotU"} => loc[r].s = s
                     /\ ImplPGetS(q, s, kind) /\ GhostPStep(q, s, GT(s)) /\ Step("PGetS", "", "", s, FALSE, q, kind)
PSet(q)  == pc[q] = "gotSr" /\ ImplPSet(q) /\ GhostPStep(q, loc[q].s, pgt[q]) /\ Step("PSet", "", "", loc[q].s, FALSE, q, loc[q].kind)
PGetU(q) == pc[q] = "gotS" /\ ImplPGetU(q) /\ GhostPStep(q, loc[q].s, pgt[q]) /\ Step("PGetU", "", "", loc[q].s, FALSE, q, loc[q].kind)
PDel(q)  == pc[q] = "gotU" /\ ImplPDel(q)  /\ GhostPStep(q, loc[q].s, pgt[q]) /\ Step("PDel", "", "", loc[q].s, FALSE, q, loc[q].kind)

On(a) == a \in Ops
Next ==
  /\ Len(hist) < MaxSteps
  /\ \/ \E u \in Users :
          \/ \E p \in SetPws : (On("CreateUser") /\ CreateUser(u, p)) \/ (On("SetPassword") /\ SetPassword(u, p))
          \/ (On("Disable") /\ Disable(u))
          \/ (On("Enable") /\ Enable(u))
          \/ (On("DeleteUser") /\ DeleteUser(u))
          \/ \E p \in TryPws : On("AuthPassword") /\ AuthPassword(u, p)
          \/ \E s \in Sessions, one \in BOOLEAN : On("CreateSession") /\ CreateSession(s, u, one)
     \/ \E s \in Sessions :
          \/ (On("DeleteSession") /\ DeleteSession(s))
          \/ (On("Expire") /\ Expire(s))
          \/ (On("Age") /\ Age(s))
          \/ \E op \in SessOps : On(op) /\ AuthSess(op, s)
          \/ \E q \in Presenters, kind \in SessOps : On("PGetS") /\ PGetS(q, s, kind)
     \/ \E q \in Presenters : PSet(q) \/ PGetU(q) \/ PDel(q)
Spec == Init /\ [][Next]_vars

-----------------------------------------------------------------------------
(* C12.  All are statements about the outcome of the last completed call (res) against the ground truth at
   the time it was made (gt), and about the real cache / the per-session success count. *)
PwSound ==            \* a password authenticates only the existing, enabled user whose current password it is
  (res.op = "AuthPassword" /\ res.ok) => (gt.uexists /\ gt.enabled /\ gt.cred /\ res.who = gt.owner)
FastPathSound ==      \* every remembered (password, stored hash) pair is one the full bcrypt check accepts
  \A c \in cache : user[c[2]].exists /\ user[c[2]].hpw = c[1]
SessSound ==          \* a session authenticates only while live, for its own still-existing owner, issued after the
                      \* owner's last password change (and never across delete + re-create of the name)
  (res.op \in SessOps /\ res.ok) => (gt.live /\ gt.uexists /\ gt.fresh /\ (res.who = gt.owner \/ res.who = "?"))   \* "?" = identity not observable (REST websocket token)
SessDisabledRefused(op) ==   \* ... and never for a disabled owner (kept apart so that F4 is keyed on its own)
  (res.op = op /\ res.ok) => gt.enabled
SessDisabledCookie  == SessDisabledRefused("AuthCookie")
SessDisabledOneTime == SessDisabledRefused("AuthOneTime")
OneTimeOnce ==        \* a one-time session authenticates at most once, however it is presented
  \A s \in Sessions : gSess[s].oneTime => okCount[s] <= 1

(* design / conformance invariants *)
TypeOK ==
  /\ \A u \in Users : user[u].exists \/ user[u] = NoUser
  /\ \A s \in Sessions : sess[s].exists \/ sess[s] = NoSess
  /\ \A q \in Presenters : pc[q] \in {"idle", "gotSr", "gotS", "gotU", "done"}
ModelTracksTruth ==   \* the model's implementation state agrees with the ground truth it is judged against
  /\ \A u \in Users : user[u].exists = gUser[u].exists /\ user[u].disabled = gUser[u].disabled /\ user[u].hpw = gUser[u].pw
  /\ \A s \in Sessions : sess[s].exists = (gSess[s].created /\ gSess[s].live)
EpochTracksFresh ==   \* the stored uuid comparison is exactly the ground-truth freshness
  \A s \in Sessions : sess[s].exists => LET u == sess[s].user IN
      (user[u].exists /\ user[u].epoch = sess[s].epoch) = (gSess[s].fresh /\ gUser[u].exists)
=============================================================================
