--------------------------- MODULE MC_AuthSession ---------------------------
EXTENDS AuthSession, Json
AllOps  == {"CreateUser", "SetPassword", "Disable", "Enable", "DeleteUser", "CreateSession", "DeleteSession", "Expire",
            "AuthPassword", "AuthCookie", "AuthOneTime", "PGetS"}
SeqOps  == AllOps \ {"PGetS"}
ConcOps == {"CreateUser", "CreateSession", "PGetS"}   \* set-up, then only concurrent presentations
PwOps   == {"CreateUser", "SetPassword", "DeleteUser", "Disable", "Enable", "AuthPassword"}           \* credential histories
SessLifeOps == {"CreateUser", "SetPassword", "DeleteUser", "CreateSession", "DeleteSession", "AuthCookie", "AuthOneTime"}   \* session-life histories
ConcMixOps == ConcOps \cup {"AuthCookie", "AuthOneTime", "DeleteSession", "SetPassword"}   \* episodes mixed with sequential presentations
AllDone == Presenters # {} /\ \A q \in Presenters : pc[q] = "done"
Export == PrintT(<<"BEH", ToJson([steps |-> hist])>>)
(* sequential / mixed families: every behaviour of exactly MaxSteps steps that ends with no presentation in flight *)
BehaviourExport == (Len(hist) = MaxSteps /\ Quiet) => Export
(* concurrent family: set-up then K presentations of the one slot, every interleaving, run to completion *)
BehaviourExportConc == AllDone => Export
=============================================================================
