--------------------------- MODULE MC_AuthSession ---------------------------
EXTENDS AuthSession, Json
AllOps  == {"CreateUser", "SetPassword", "Disable", "Enable", "DeleteUser", "CreateSession", "DeleteSession", "Expire", "Age",
            "AuthPassword", "AuthCookie", "AuthOneTime", "PGetS"}
SeqOps  == AllOps \ {"PGetS"}
ConcOps == {"CreateUser", "CreateSession", "PGetS"}
ConcAgeOps == ConcOps \cup {"Age"}   \* set-up, then only concurrent presentations
PwOps   == {"CreateUser", "SetPassword", "DeleteUser", "Disable", "Enable", "AuthPassword"}           \* credential histories
SessLifeOps == {"CreateUser", "SetPassword", "DeleteUser", "CreateSession", "DeleteSession", "Age", "AuthCookie", "AuthOneTime"}   \* session-life histories
ConcMixOps == ConcOps \cup {"AuthCookie", "AuthOneTime", "DeleteSession", "SetPassword", "Age"}   \* episodes mixed with sequential presentations
(* Simulation: TLC picks uniformly among SUCCESSOR STATES, so under Next the actions with many argument choices
   (AuthPassword: users x passwords, CreateSession: slots x users x BOOLEAN) swamp Disable / DeleteUser / Expire.
   SimNext draws the arguments with RandomElement - one successor per action KIND (the quantifier over a singleton
   fixes the draw for the whole action).  Arguments are drawn among the values for which the action is enabled;
   AuthPassword and the presentations come twice: any argument, and the one most likely to succeed. *)
Pick(S) == {RandomElement(S)}
Ex   == {u \in Users : user[u].exists}
ExEn == {u \in Ex : ~user[u].disabled}
ExDi == {u \in Ex : user[u].disabled}
Free == {s \in Sessions : ~gSess[s].created}
Made == {s \in Sessions : gSess[s].created}
Live == {s \in Sessions : sess[s].exists}
LiveOne == {s \in Live : sess[s].oneTime}
Young == {s \in Live : ~sess[s].aged}
SimNext ==
  /\ Len(hist) < MaxSteps
  /\ \/ (On("CreateUser") /\ Users \ Ex # {} /\ \E u \in Pick(Users \ Ex), p \in Pick(SetPws) : CreateUser(u, p))
     \/ (On("SetPassword") /\ Ex # {} /\ \E u \in Pick(Ex), p \in Pick(SetPws) : SetPassword(u, p))
     \/ (On("Disable") /\ ExEn # {} /\ \E u \in Pick(ExEn) : Disable(u))
     \/ (On("Enable") /\ ExDi # {} /\ \E u \in Pick(ExDi) : Enable(u))
     \/ (On("DeleteUser") /\ Ex # {} /\ \E u \in Pick(Ex) : DeleteUser(u))
     \/ (On("CreateSession") /\ Ex # {} /\ Free # {} /\ \E s \in Pick(Free), u \in Pick(Ex), one \in Pick(BOOLEAN) : CreateSession(s, u, one))
     \/ (On("CreateSession") /\ On("PGetS") /\ ExEn # {} /\ Free # {} /\ \E s \in Pick(Free), u \in Pick(ExEn) : CreateSession(s, u, TRUE))
     \/ (On("DeleteSession") /\ Made # {} /\ \E s \in Pick(Made) : DeleteSession(s))
     \/ (On("Expire") /\ Live # {} /\ \E s \in Pick(Live) : Expire(s))
     \/ (On("Age") /\ Young # {} /\ \E s \in Pick(Young) : Age(s))
     \/ (On("AuthPassword") /\ TryPws # {} /\ \E u \in Pick(Users), p \in Pick(TryPws) : AuthPassword(u, p))
     \/ (On("AuthPassword") /\ Ex # {} /\ \E u \in Pick(Ex) : user[u].hpw \in TryPws /\ AuthPassword(u, user[u].hpw))
     \/ (\E op \in Pick(SessOps), s \in Pick(Sessions) : On(op) /\ AuthSess(op, s))
     \/ (Live # {} /\ \E op \in Pick(SessOps), s \in Pick(Live) : On(op) /\ AuthSess(op, s))
     \/ (On("PGetS") /\ Made # {} /\ \E q \in Presenters, s \in Pick(Made), kind \in Pick(SessOps) : PGetS(q, s, kind))
     \/ (On("PGetS") /\ Live # {} /\ \E q \in Presenters, s \in Pick(Live), kind \in Pick(SessOps) : PGetS(q, s, kind))
     \/ (On("PGetS") /\ LiveOne # {} /\ \E q \in Presenters, s \in Pick(LiveOne), kind \in Pick(SessOps) : PGetS(q, s, kind))
     \/ (On("PGetS") /\ LiveOne # {} /\ ~Quiet /\ \E q \in Presenters, s \in Pick(LiveOne), kind \in Pick(SessOps) : PGetS(q, s, kind))
     \/ (\E q \in Presenters : PSet(q))
     \/ (\E q \in Presenters : PGetU(q))
     \/ (\E q \in Presenters : PDel(q))
SimSpec == Init /\ [][SimNext]_vars
AllDone == Presenters # {} /\ \A q \in Presenters : pc[q] = "done"
Export == PrintT(<<"BEH", ToJson([steps |-> hist])>>)
(* sequential / mixed families: every behaviour of exactly MaxSteps steps that ends with no presentation in flight *)
BehaviourExport == (Len(hist) = MaxSteps /\ Quiet) => Export
(* concurrent family: set-up then K presentations of the one slot, every interleaving, run to completion *)
BehaviourExportConc == AllDone => Export
=============================================================================
