CONSTANT Users <- TUsers
CONSTANT Sessions <- TSessions
CONSTANT SetPws = {"p1", "p2", ""}
CONSTANT TryPws = {"p1", "p2", "", "wrong"}
CONSTANT Presenters <- TPresenters
CONSTANT EpochIds <- TEpochs
CONSTANT MaxSteps = 1000000
CONSTANT Ops <- TOps
CONSTANT SessChecksDisabled <- TChecksDisabled
CONSTANT RefreshUpserts = FALSE
CONSTANT InFlightOps = {}
SPECIFICATION PSpec
CONSTRAINT Progress
POSTCONDITION Accept
CHECK_DEADLOCK FALSE
INVARIANT PwSound
INVARIANT FastPathSound
INVARIANT SessSound
INVARIANT SessDisabledCookieT
INVARIANT SessDisabledOneTimeT
INVARIANT OneTimeOnce
