CONSTANT Users = {"u1"}
CONSTANT Sessions = {"s1"}
CONSTANT SetPws = {"p1"}
CONSTANT TryPws = {}
CONSTANT Presenters = {}
CONSTANT EpochIds = {1, 2, 3, 4, 5}
CONSTANT MaxSteps = 6
CONSTANT Ops <- SessLifeOps
CONSTANT SessChecksDisabled = TRUE
CONSTANT RefreshUpserts = FALSE
CONSTANT InFlightOps = {}
SPECIFICATION Spec
INVARIANT BehaviourExport
CHECK_DEADLOCK FALSE
