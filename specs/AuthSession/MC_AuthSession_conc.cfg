CONSTANT Users = {"u1"}
CONSTANT Sessions = {"s1"}
CONSTANT SetPws = {"p1"}
CONSTANT TryPws = {}
CONSTANT Presenters = {1, 2, 3}
CONSTANT EpochIds = {1, 2, 3, 4, 5}
CONSTANT MaxSteps = 12
CONSTANT Ops <- ConcMixOps
CONSTANT SessChecksDisabled = TRUE
CONSTANT RefreshUpserts = FALSE
CONSTANT InFlightOps = {}
SPECIFICATION Spec
VIEW view
INVARIANT PwSound
INVARIANT FastPathSound
INVARIANT SessSound
INVARIANT OneTimeOnce
INVARIANT SessDisabledCookie
INVARIANT SessDisabledOneTime
INVARIANT TypeOK
INVARIANT ModelTracksTruth
INVARIANT EpochTracksFresh
CHECK_DEADLOCK FALSE
