CONSTANT Users = {"u1", "u2"}
CONSTANT Sessions = {"s1", "s2"}
CONSTANT SetPws = {"p1", "p2", ""}
CONSTANT TryPws = {"p1", "p2", "", "wrong"}
CONSTANT Presenters = {1, 2}
CONSTANT EpochIds = {1, 2, 3, 4, 5}
CONSTANT MaxSteps = 5
CONSTANT Ops <- AllOps
CONSTANT SessChecksDisabled = TRUE
CONSTANT RefreshUpserts = FALSE
CONSTANT InFlightOps = {}
SPECIFICATION Spec
VIEW view
INVARIANT PwSound
INVARIANT FastPathSound
INVARIANT SessSound
INVARIANT OneTimeOnce
INVARIANT SessDisabledCookie
INVARIANT SessDisabledOneTime
INVARIANT TypeOK
INVARIANT ModelTracksTruth
INVARIANT EpochTracksFresh
CHECK_DEADLOCK FALSE
