CONSTANT Users = {"u1", "u2"}
CONSTANT Sessions = {"s1", "s2"}
CONSTANT SetPws = {"p1", "p2", ""}
CONSTANT TryPws = {"p1", "p2", "", "wrong"}
CONSTANT Presenters = {1, 2}
CONSTANT EpochIds = {1, 2, 3, 4, 5}
CONSTANT MaxSteps = 12
CONSTANT Ops <- AllOps
CONSTANT SessChecksDisabled = TRUE
CONSTANT RefreshUpserts = FALSE
CONSTANT InFlightOps = {}
SPECIFICATION SimSpec
INVARIANT BehaviourExport
CHECK_DEADLOCK FALSE
