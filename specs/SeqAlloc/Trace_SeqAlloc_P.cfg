CONSTANT Allocs = {1, 2, 3}
CONSTANT MaxCounter = 1000000
CONSTANT BatchCap = 10
CONSTANT MaxSteps = 1000000
CONSTANT GrowModes = {FALSE}
CONSTANT FloorAhead = 0
CONSTANT MaxPend = 1000
CONSTANT Fine = TRUE
CONSTANT Acts = {"Next", "GTLast", "GTBatch", "GTBegin", "GiveBack", "Idle", "Stop"}
SPECIFICATION PSpec
CONSTRAINT Progress
POSTCONDITION Accept
CHECK_DEADLOCK FALSE
INVARIANT ReportP
