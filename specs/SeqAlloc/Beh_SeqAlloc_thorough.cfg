CONSTANT Allocs = {1, 2}
CONSTANT MaxCounter = 24
CONSTANT BatchCap = 10
CONSTANT MaxSteps = 5
CONSTANT GrowModes = {TRUE, FALSE}
CONSTANT FloorAhead = 1
CONSTANT MaxPend = 1
CONSTANT Fine = TRUE
CONSTANT Acts = {"Next", "GTLast", "GTBatch", "GTBegin", "GiveBack", "Idle", "Stop"}
SPECIFICATION Spec
INVARIANT BehaviourExport
CHECK_DEADLOCK FALSE
