--------------------------- MODULE SeqDoc ---------------------------
(* Document-level part of C07: what happens to the numbers a write reserves.
   db/crud.go updateAndReturnDoc / documentUpdateFunc / assignSequence (CAS loop of one writer W on one document,
   with other writers committing in the window between W's callback and W's CAS write) and db/users.go
   UpdatePrincipal.  The allocator itself is abstract here (one node: fresh numbers ctr+1, ctr+2, ...; its
   internals are specs/SeqAlloc/SeqAlloc.tla).

   This module states the INTENDED bookkeeping ("release on failed write / carry on retry"):
     - a number W reserved in an earlier attempt and can no longer use is carried in W's unused list;
     - when W finally commits, the list is stored on the document (unused_sequences);
     - when W fails with anything but a timeout, its current number and the whole list are published as unused;
     - a principal update that does not store the principal publishes the number it reserved.
   The real code is compared with it by Trace_SeqDoc (pass P: Monotone / DocAccounted on the recorded real
   ledger; pass C: the real ledger equals the one this module predicts for the scenario). *)
EXTENDS Integers, Sequences, FiniteSets, TLC

CONSTANTS MaxTries,     \* CAS failures W may suffer
          Modes         \* subset of {"doc", "princ"}

VARIABLES mode,         \* what this scenario drives
          reject,       \* doc: the sync function rejects W's body (first attempt fails before a number is assigned)
          ctr,          \* highest number handed out
          docSeq, docCas,            \* the stored document (or principal): its sequence, a version counter
          wst, wSeq, wUnused, wCas, tries, sameSeen,   \* W: state, docSequence, unusedSequences, cas its callback saw
          used,         \* ledger: numbers stored as the sequence of a document / principal revision
          pubDoc,       \* ledger: numbers stored in unused_sequences of a committed revision
          pubRel,       \* ledger: numbers published through unused-sequence documents
          unknown,      \* ledger: numbers of a write whose outcome is unknown (timeout)
          monoBad,      \* <<old, new>> of a committed update whose number did not exceed the one it replaced
          hist
dvars == <<mode, reject, ctr, docSeq, docCas, wst, wSeq, wUnused, wCas, tries, sameSeen, used, pubDoc, pubRel, unknown, monoBad, hist>>
dview == <<mode, reject, ctr, docSeq, docCas, wst, wSeq, wUnused, wCas, tries, sameSeen, used, pubDoc, pubRel, unknown, monoBad>>

NZ(s) == IF s = 0 THEN {} ELSE {s}
DStep(a, k) == hist' = Append(hist, [a |-> a, k |-> k])

DInit ==
  /\ mode \in Modes /\ reject \in (IF mode = "doc" THEN BOOLEAN ELSE {FALSE})
  /\ ctr = (IF mode = "doc" THEN 1 ELSE 0)                  \* doc scenarios start from a stored revision with number 1
  /\ docSeq = ctr /\ docCas = 0
  /\ wst = "idle" /\ wSeq = 0 /\ wUnused = {} /\ wCas = 0 /\ tries = 0 /\ sameSeen = FALSE
  /\ used = NZ(ctr) /\ pubDoc = {} /\ pubRel = {} /\ unknown = {} /\ monoBad = {}
  /\ hist = <<>>

Commit(s, un) ==
  /\ monoBad' = monoBad \cup (IF s > docSeq THEN {} ELSE {<<docSeq, s>>})
  /\ docSeq' = s /\ docCas' = docCas + 1 /\ used' = used \cup {s} /\ pubDoc' = pubDoc \cup un

(* W's callback runs against the current document *)
Fails == (reject /\ tries = 0) \/ sameSeen                 \* sync rejection / "revision already known"
Attempt ==
  /\ mode = "doc" /\ wst \in {"idle", "retry"}
  /\ IF Fails
     THEN /\ pubRel' = pubRel \cup NZ(wSeq) \cup wUnused      \* error path: everything W still holds is published
          /\ wst' = "done"
          /\ UNCHANGED <<ctr, wSeq, wUnused, wCas>>
     ELSE /\ IF wSeq <= docSeq                                \* assignSequence
             THEN wUnused' = wUnused \cup NZ(wSeq) /\ wSeq' = ctr + 1 /\ ctr' = ctr + 1
             ELSE UNCHANGED <<wUnused, wSeq, ctr>>
          /\ wCas' = docCas /\ wst' = "ready" /\ UNCHANGED pubRel
  /\ UNCHANGED <<mode, reject, docSeq, docCas, tries, sameSeen, used, pubDoc, unknown, monoBad>>
  /\ DStep("Attempt", "")

(* another writer commits inside W's CAS window: a sibling revision, or the very revision W is pushing *)
Env(k) ==
  /\ mode = "doc" /\ wst = "ready" /\ wCas = docCas /\ tries < MaxTries
  /\ ctr' = ctr + 1 /\ Commit(ctr + 1, {})
  /\ sameSeen' = (sameSeen \/ k = "same")
  /\ UNCHANGED <<mode, reject, wst, wSeq, wUnused, wCas, tries, pubRel, unknown>>
  /\ DStep("Env", k)

(* W's CAS write: o = ok | err (storage error, not applied) | timeout (applied, reported as timeout) *)
Cas(o) ==
  /\ mode = "doc" /\ wst = "ready"
  /\ IF wCas # docCas
     THEN /\ o = "ok" /\ wst' = "retry" /\ tries' = tries + 1
          /\ UNCHANGED <<docSeq, docCas, used, pubDoc, pubRel, unknown, monoBad>>
     ELSE /\ tries' = tries /\ wst' = "done"
          /\ CASE o = "ok"      -> Commit(wSeq, wUnused) /\ UNCHANGED <<pubRel, unknown>>
               [] o = "err"     -> pubRel' = pubRel \cup {wSeq} \cup wUnused /\ UNCHANGED <<docSeq, docCas, used, pubDoc, unknown, monoBad>>
               [] o = "timeout" -> Commit(wSeq, wUnused) /\ unknown' = unknown \cup {wSeq} \cup wUnused /\ UNCHANGED pubRel
  /\ UNCHANGED <<mode, reject, ctr, wSeq, wUnused, wCas, sameSeen>>
  /\ DStep("Cas", o)

(* UpdatePrincipal: o = ok | cas (CAS mismatch, retried) | err (storage error) *)
Princ(o) ==
  /\ mode = "princ" /\ wst \in {"idle", "retry"}
  /\ ctr' = ctr + 1
  /\ CASE o = "ok"  -> Commit(ctr + 1, {}) /\ wst' = "done" /\ UNCHANGED <<pubRel, tries>>
       [] o = "cas" -> tries < MaxTries /\ pubRel' = pubRel \cup {ctr + 1} /\ wst' = "retry" /\ tries' = tries + 1
                       /\ UNCHANGED <<docSeq, docCas, used, pubDoc, monoBad>>
       [] o = "err" -> pubRel' = pubRel \cup {ctr + 1} /\ wst' = "done" /\ UNCHANGED <<docSeq, docCas, used, pubDoc, monoBad, tries>>
  /\ UNCHANGED <<mode, reject, wSeq, wUnused, wCas, sameSeen, unknown>>
  /\ DStep("Princ", o)

DNext == Attempt \/ (\E k \in {"branch", "same"} : Env(k)) \/ (\E o \in {"ok", "err", "timeout"} : Cas(o))
         \/ (\E o \in {"ok", "cas", "err"} : Princ(o))
DSpec == DInit /\ [][DNext]_dvars

-----------------------------------------------------------------------------
(* C07, document level.  Base = numbers settled before the scenario (0 in the model). *)
Ledger == used \cup pubDoc \cup pubRel
Monotone == monoBad = {}
DocAccountedFrom(base) ==
  wst = "done" =>
    /\ ((base + 1)..ctr) = Ledger                               \* nothing lost (timeouts included: the write was applied)
    /\ used \cap (pubDoc \cup pubRel) = {}                        \* nothing both carried as a sequence and published
DocAccounted == DocAccountedFrom(0)
=============================================================================
