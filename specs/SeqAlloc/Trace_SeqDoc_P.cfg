CONSTANT MaxTries = 100
CONSTANT Modes = {"princ"}
SPECIFICATION TDSpec
CONSTRAINT Progress
POSTCONDITION Accept
CHECK_DEADLOCK FALSE
INVARIANT ReportP
