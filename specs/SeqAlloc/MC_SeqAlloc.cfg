CONSTANT Allocs = {1, 2}
CONSTANT MaxCounter = 12
CONSTANT BatchCap = 4
CONSTANT MaxSteps = 7
CONSTANT GrowModes = {TRUE, FALSE}
CONSTANT FloorAhead = 2
CONSTANT MaxPend = 1
CONSTANT Fine = TRUE
CONSTANT Acts = {"Next", "GTLast", "GTBatch", "GTBegin", "GiveBack", "Idle", "Stop"}
SPECIFICATION Spec
VIEW view
INVARIANT Unique
INVARIANT Above
INVARIANT NoDoubleRelease
INVARIANT NoUsedAndReleased
INVARIANT NothingLost
INVARIANT WindowsDisjoint
INVARIANT WindowsFresh
INVARIANT Bookkeeping
INVARIANT DocsAreReleased
INVARIANT WithinCounter
INVARIANT PendFresh
INVARIANT TypeOK
CHECK_DEADLOCK FALSE
