--------------------------- MODULE Trace_SeqAlloc ---------------------------
(* Validation of traces recorded from real db.sequenceAllocator instances sharing one counter on one
   Rosmar datastore (harness/db/c07_seqalloc_test.go).  One line per executed step:
     {a:"Reset", grow, na, beh}
     {a:<action>, n, x, ret, fl, rel, give,  counter, last, max, batch, rsv, alive, pc, pend, docs}
   a     the action of specs/SeqAlloc the scheduler asked for (Next GTLast GTBatch GTBegin GTFinish PendRel
         GiveBack Idle Stop), or Drain (a call completed outside the modelled schedule; pass P only),
         or Quiesce (everything stopped; docs are re-read from the bucket)
   ret   the REAL number returned to the caller by this step (0: the call has not returned yet / returns nothing)
   fl    the floor that call was given (nextSequenceGreaterThan argument; -1: none)
   rel   the unused-sequence documents REALLY written during the step, seen at the storage boundary: [from, to, kind]
   give  the number the consumer gave back in this step (0: none)
   counter/last/max/batch/rsv/alive  REAL _sync:seq value and allocator fields after the step
   pc/pend  where the real in-flight calls are parked (observed at the storage gate; pend.ret back-filled
         with the value the call really returned later)
   docs  all unused-sequence documents written so far (at Quiesce: their content as read back) *)
EXTENDS SeqAlloc, TraceLib

VARIABLE l
tvars == <<vars, l>>

T == Trace[l]
ToSet(sq) == {sq[i] : i \in 1..Len(sq)}
Ev(a) == l <= TraceLen /\ T.a = a /\ l' = l + 1

Logged ==
  /\ counter' = T.counter /\ unusedDocs' = ToSet(T.docs)
  /\ last' = T.last /\ max' = T.max /\ batch' = T.batch /\ reserved' = T.rsv /\ alive' = T.alive
  /\ pc' = T.pc /\ pend' = [n \in Allocs |-> ToSet(T.pend[n])]

TGhost == Ghost(T.n, T.ret, T.fl, T.rel, T.give) /\ UNCHANGED hist

TInit == Init /\ l = 1

Reset == /\ Ev("Reset")
         /\ counter' = 0 /\ unusedDocs' = {}
         /\ last' = [n \in Allocs |-> 0] /\ max' = [n \in Allocs |-> 0] /\ batch' = [n \in Allocs |-> 1]
         /\ reserved' = [n \in Allocs |-> FALSE] /\ alive' = [n \in Allocs |-> n <= T.na]
         /\ pc' = [n \in Allocs |-> Idle0] /\ pend' = [n \in Allocs |-> {}]
         /\ grow' = T.grow
         /\ held' = [n \in Allocs |-> {}] /\ released' = {} /\ dups' = {} /\ relDup' = {} /\ aboveBad' = {}
         /\ hist' = <<>>

(* pass P: implementation variables := logged real state; ghosts advance from the logged real outputs.
   No action guard is imposed: every non-Reset line is taken as it is. *)
PStep == l <= TraceLen /\ T.a # "Reset" /\ l' = l + 1 /\ Logged /\ TGhost
PNext == Reset \/ PStep
PSpec == TInit /\ [][PNext]_tvars

(* pass C: each line is an instance of the named action from the previous REAL state, with the outputs
   (returned number, written notices) the action prescribes *)
CNextA   == Ev("Next")    /\ ImplNext(T.n)         /\ Logged /\ T.ret = last'[T.n] /\ T.rel = <<>> /\ TGhost
CGTLast  == Ev("GTLast")  /\ ImplGTLast(T.n, T.x)  /\ Logged /\ T.ret = last'[T.n] /\ T.fl = T.x /\ T.rel = <<>> /\ TGhost
CGTBatch == Ev("GTBatch") /\ ImplGTBatch(T.n, T.x) /\ Logged /\ T.ret = BatchRet(T.n, T.x) /\ T.rel = <<>>
                          /\ (T.ret # NoSeq => T.fl = T.x) /\ TGhost
CGTBegin == Ev("GTBegin") /\ ImplGTBegin(T.n, T.x) /\ Logged /\ T.ret = NoSeq /\ T.rel = BatchNotice(T.n) /\ TGhost
CGTFinish == Ev("GTFinish") /\ ImplGTFinish(T.n)   /\ Logged /\ T.ret = FinishRet(T.n) /\ T.rel = <<>>
                          /\ (T.ret # NoSeq => T.fl = pc[T.n].x) /\ TGhost
CPendRel == Ev("PendRel") /\ \E p \in pend[T.n] :
                               /\ p.from = T.x /\ ImplPendRel(T.n, p) /\ Logged
                               /\ T.ret = p.ret /\ T.fl = p.x /\ T.rel = <<<<p.from, p.to, 2>>>> /\ TGhost
CGiveBack == Ev("GiveBack") /\ T.give \in held[T.n] /\ ImplGiveBack(T.n, T.give) /\ Logged
                          /\ T.ret = NoSeq /\ T.rel = <<<<T.give, T.give, 1>>>> /\ TGhost
CIdle    == Ev("Idle")    /\ ImplIdle(T.n)         /\ Logged /\ T.ret = NoSeq /\ T.rel = IdleNotice(T.n) /\ TGhost
CStop    == Ev("Stop")    /\ ImplStop(T.n)         /\ Logged /\ T.ret = NoSeq /\ T.rel = IdleNotice(T.n) /\ TGhost
CQuiesce == Ev("Quiesce") /\ UNCHANGED impl        /\ Logged /\ T.ret = NoSeq /\ T.rel = <<>> /\ T.give = NoSeq /\ TGhost
CNext == Reset \/ CNextA \/ CGTLast \/ CGTBatch \/ CGTBegin \/ CGTFinish \/ CPendRel \/ CGiveBack \/ CIdle \/ CStop \/ CQuiesce
CSpec == TInit /\ [][CNext]_tvars

(* pass P evaluates the property predicates on every recorded state and reports each failure
   (<<"VIOL", predicate, line>>) without stopping, so that one run finds every failing behaviour *)
Viol(name, holds) == holds \/ PrintT(<<"VIOL", name, l>>)
ReportP == /\ Viol("Unique", Unique) /\ Viol("Above", Above) /\ Viol("NoDoubleRelease", NoDoubleRelease)
           /\ Viol("NoUsedAndReleased", NoUsedAndReleased) /\ Viol("NothingLost", NothingLost)

Progress == Mark(l)
Accept == PrintHWM
=============================================================================
