CONSTANT MaxTries = 3
CONSTANT Modes = {"doc", "princ"}
SPECIFICATION DSpec
INVARIANT Monotone
INVARIANT DocAccounted
INVARIANT ScenarioExport
CHECK_DEADLOCK FALSE
