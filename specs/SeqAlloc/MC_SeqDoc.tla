--------------------------- MODULE MC_SeqDoc ---------------------------
EXTENDS SeqDoc, Json
SetToSeq(S) == LET RECURSIVE F(_) F(T) == IF T = {} THEN <<>> ELSE LET m == CHOOSE x \in T : \A y \in T : x <= y IN <<m>> \o F(T \ {m}) IN F(S)
(* every finished scenario is exported with the ledger this module predicts for it *)
ScenarioExport ==
  wst = "done" =>
     PrintT(<<"BEH", ToJson([mode |-> mode, reject |-> reject, steps |-> hist, ctr |-> ctr,
                              used |-> SetToSeq(used), pubDoc |-> SetToSeq(pubDoc), pubRel |-> SetToSeq(pubRel)])>>)
=============================================================================
