CONSTANT Allocs = {1, 2}
CONSTANT MaxCounter = 40
CONSTANT BatchCap = 10
CONSTANT MaxSteps = 6
CONSTANT GrowModes = {TRUE}
CONSTANT FloorAhead = 0
CONSTANT MaxPend = 1
CONSTANT Fine = TRUE
CONSTANT Acts = {"Next", "GTBatch", "Idle"}
SPECIFICATION Spec
INVARIANT BehaviourExport
CHECK_DEADLOCK FALSE
