--------------------------- MODULE SeqAlloc ---------------------------
(* Sequence allocation: db/sequence_allocator.go.  1..3 allocators (nodes) share the bucket counter _sync:seq
   and publish unused numbers as documents (_sync:unusedSeq:<s>, _sync:unusedSeqs:<from>:<to>).

   One action per critical section of the real code.  The allocator mutex is held across each action
   except where the code unlocks:
     Next(n)        nextSequence            = lock; _nextSequence (+ _reserveSequenceBatch: Incr); unlock
     GTLast(n,x)    nextSequenceGreaterThan, x+1 <= last : _nextSequence
     GTBatch(n,x)   ..., last < x+1 <= max : last := x+1; unlock; then (after the unlock) PendRel
     GTBegin(n,x)   ..., x+1 > max : _releaseCurrentBatch (AddRaw); Get(_sync:seq)      -- mutex stays held
     GTFinish(n)    ... the Incr that follows that Get (other allocators may have moved the counter in
                    between): either _nextSequence (counter already >= x+1) or the catch-up increment
                    last := alloc - batch + 1; unlock; then (after the unlock) PendRel of the catch-up range
     PendRel(n,p)   the release written after the unlock (releaseSequenceRange: AddRaw), then the call returns
     GiveBack(n,s)  releaseSequence(s) by the consumer of a number handed out by n (failed write)
     Idle(n)        releaseUnusedSequences (idle timer): publish (last, max], shrink the batch
     Stop(n)        Stop: close terminator + releaseUnusedSequences
   AddRaw of a notice commutes with every other storage operation (notices are only read at quiescence), so
   the batch release in GTBegin is merged with the Get; the Get -> Incr window is the real race.

   Impl* conjuncts define the implementation variables, Ghost* the history variables (one shared operator
   Ghost: what was returned / which floor was asked / which notices were written / what was given back).
   Trace_SeqAlloc reuses them (pass P: implementation variables := logged REAL state + Ghost from logged
   outputs; pass C: Impl* too).  Decides C07 (component level). *)
EXTENDS Integers, Sequences, FiniteSets, TLC

CONSTANTS Allocs,       \* allocator ids (integers 1..k)
          MaxCounter,   \* bound on _sync:seq
          BatchCap,     \* maxBatchSize (code: 10)
          MaxSteps,     \* bound on the length of a behaviour
          GrowModes,    \* subset of BOOLEAN: batch growth (MaxSequenceIncrFrequency huge) on / off (0)
          FloorAhead,   \* GT floors explored: 0 .. counter + FloorAhead
          MaxPend,      \* calls per allocator that may sit between their unlock and their release
          Fine,         \* FALSE: API calls interleave at call granularity only; TRUE: at every action
          Acts          \* names of the actions that may START a call (behaviour generation can focus on a family)

VARIABLES counter,      \* _sync:seq
          unusedDocs,   \* published notices: <<from, to, kind>>, kind 1 = unusedSeq:<s>, 2 = unusedSeqs:<from>:<to>
          last, max, batch,   \* per allocator: sequenceAllocator.last / .max / .sequenceBatchSize
          reserved,     \* per allocator: lastSequenceReserveTime is set (a reserve happened before)
          alive,        \* per allocator: not stopped
          pc,           \* per allocator: Idle, or [st |-> "got", x, sync] = inside nextSequenceGreaterThan between Get and Incr
          pend,         \* per allocator: set of [from, to, ret, x] = calls after their unlock, release not yet written
          grow,         \* configuration of this behaviour
          held,         \* ghost, per allocator: numbers returned to a caller and not given back
          released,     \* ghost: numbers published as unused (by any notice write that was observed)
          dups,         \* ghost: numbers returned although already held by someone          (Unique)
          relDup,       \* ghost: numbers published more than once                           (Accounted)
          aboveBad,     \* ghost: <<x, s>> with GT(x) having returned s <= x                 (Above)
          hist          \* behaviour so far (exported for replay; hidden by VIEW)
impl   == <<counter, unusedDocs, last, max, batch, reserved, alive, pc, pend>>
ghost  == <<grow, held, released, dups, relDup, aboveBad>>
vars   == <<impl, ghost, hist>>
view   == <<impl, ghost, Len(hist)>>      \* depth kept: every state is expanded to the full bound whatever the search order

Idle0 == [st |-> "idle", x |-> 0, sync |-> 0]
Min2(a, b) == IF a < b THEN a ELSE b
Span(d) == d[1]..d[2]
Expand(D) == UNION {Span(d) : d \in D}
AllHeld == UNION {held[n] : n \in Allocs}
NoSeq == 0        \* "no number returned (yet)"
NoFloor == -1

-----------------------------------------------------------------------------
Init ==
  /\ counter = 0 /\ unusedDocs = {}
  /\ last = [n \in Allocs |-> 0] /\ max = [n \in Allocs |-> 0] /\ batch = [n \in Allocs |-> 1]
  /\ reserved = [n \in Allocs |-> FALSE] /\ alive = [n \in Allocs |-> TRUE]
  /\ pc = [n \in Allocs |-> Idle0] /\ pend = [n \in Allocs |-> {}]
  /\ grow \in GrowModes
  /\ held = [n \in Allocs |-> {}] /\ released = {} /\ dups = {} /\ relDup = {} /\ aboveBad = {}
  /\ hist = <<>>

(* ---- ghost: one operator for every action.  n = allocator, ret = number returned by this step (NoSeq if
   none), x = floor the returned number had to exceed (NoFloor if none), rel = sequence of notices
   <<from, to, kind>> written by this step, give = number given back by the consumer (NoSeq if none) *)
RECURSIVE RelDupOf(_, _)
RelDupOf(rel, seen) ==
  IF rel = <<>> THEN {}
  ELSE (Span(rel[1]) \cap seen) \cup RelDupOf(Tail(rel), seen \cup Span(rel[1]))
RelSet(rel) == UNION {Span(rel[i]) : i \in 1..Len(rel)}

Ghost(n, ret, x, rel, give) ==
  /\ held' = [held EXCEPT ![n] = (IF ret = NoSeq THEN @ ELSE @ \cup {ret}) \ {give}]
  /\ dups' = dups \cup (IF ret # NoSeq /\ ret \in AllHeld THEN {ret} ELSE {})
  /\ released' = released \cup RelSet(rel)
  /\ relDup' = relDup \cup RelDupOf(rel, released)
  /\ aboveBad' = aboveBad \cup (IF ret # NoSeq /\ x # NoFloor /\ ret <= x THEN {<<x, ret>>} ELSE {})
  /\ grow' = grow

(* ---- _nextSequence (+ _reserveSequenceBatch) on allocator n; the number it returns is last'[n] *)
NeedReserve(n) == last[n] >= max[n]
NextBatch(n)   == IF grow /\ reserved[n] THEN Min2(batch[n] * 2, BatchCap) ELSE batch[n]
NextIncr(n)    == IF NeedReserve(n) THEN NextBatch(n) ELSE 0
NextBody(n) ==
  IF NeedReserve(n)
  THEN LET b == NextBatch(n)  c == counter + b IN
       /\ counter' = c
       /\ batch' = [batch EXCEPT ![n] = b]
       /\ max' = [max EXCEPT ![n] = c]
       /\ last' = [last EXCEPT ![n] = c - b + 1]
       /\ reserved' = [reserved EXCEPT ![n] = TRUE]
  ELSE /\ last' = [last EXCEPT ![n] = @ + 1]
       /\ UNCHANGED <<counter, batch, max, reserved>>

CanCall(n) == alive[n] /\ pc[n] = Idle0          \* the mutex of n is free and n accepts calls

ImplNext(n)  == CanCall(n) /\ NextBody(n) /\ UNCHANGED <<unusedDocs, alive, pc, pend>>
GhostNext(n, ret) == Ghost(n, ret, NoFloor, <<>>, NoSeq)

ImplGTLast(n, x)  == CanCall(n) /\ x + 1 <= last[n] /\ NextBody(n) /\ UNCHANGED <<unusedDocs, alive, pc, pend>>
GhostGTLast(n, x, ret) == Ghost(n, ret, x, <<>>, NoSeq)

(* target inside the current batch.  The release of last+1 .. x is written after the unlock. *)
BatchPend(n, x) == [from |-> last[n] + 1, to |-> x, ret |-> x + 1, x |-> x]
ImplGTBatch(n, x) ==
  /\ CanCall(n) /\ last[n] < x + 1 /\ x + 1 <= max[n]
  /\ last' = [last EXCEPT ![n] = x + 1]
  /\ pend' = [pend EXCEPT ![n] = IF last[n] + 1 < x + 1 THEN @ \cup {BatchPend(n, x)} ELSE @]
  /\ UNCHANGED <<counter, unusedDocs, max, batch, reserved, alive, pc>>
BatchRet(n, x) == IF last[n] + 1 < x + 1 THEN NoSeq ELSE x + 1      \* returns at once iff nothing to release
GhostGTBatch(n, x, ret) == Ghost(n, ret, x, <<>>, NoSeq)

(* target above the current batch: release the batch, read the counter; mutex stays held.  Local computation up
   to the next storage operation belongs to this action: when the counter read is already >= x+1 the code goes
   on into _nextSequence/_reserveSequenceBatch, which grows the batch BEFORE it increments. *)
BatchNotice(n) == IF max[n] > last[n] THEN <<<<last[n] + 1, max[n], 2>>>> ELSE <<>>
ImplGTBegin(n, x) ==
  /\ CanCall(n) /\ x + 1 > max[n]
  /\ unusedDocs' = unusedDocs \cup {BatchNotice(n)[i] : i \in 1..Len(BatchNotice(n))}
  /\ last' = [last EXCEPT ![n] = IF max[n] > last[n] THEN max[n] ELSE @]
  /\ pc' = [pc EXCEPT ![n] = [st |-> "got", x |-> x, sync |-> counter]]
  /\ batch' = [batch EXCEPT ![n] = IF counter >= x + 1 THEN NextBatch(n) ELSE @]
  /\ UNCHANGED <<counter, max, reserved, alive, pend>>
GhostGTBegin(n, rel) == Ghost(n, NoSeq, NoFloor, rel, NoSeq)

(* the increment after the Get.  sync >= x+1: the increment of _reserveSequenceBatch (batch already grown).
   Otherwise catch-up: reserve (x - sync) + batch, keep the top `batch` numbers, hand out the first of them,
   release the rest after the unlock. *)
CatchUp(n)      == pc[n].sync < pc[n].x + 1
CatchRel(n)     == pc[n].x - pc[n].sync
FinishIncr(n)   == IF CatchUp(n) THEN CatchRel(n) + batch[n] ELSE batch[n]
FinishAlloc(n)  == counter + FinishIncr(n)
CatchPend(n)    == [from |-> FinishAlloc(n) - batch[n] - CatchRel(n) + 1, to |-> FinishAlloc(n) - batch[n],
                    ret |-> FinishAlloc(n) - batch[n] + 1, x |-> pc[n].x]
ImplGTFinish(n) ==
  /\ pc[n].st = "got"
  /\ pc' = [pc EXCEPT ![n] = Idle0]
  /\ counter' = FinishAlloc(n)
  /\ max' = [max EXCEPT ![n] = FinishAlloc(n)]
  /\ last' = [last EXCEPT ![n] = FinishAlloc(n) - batch[n] + 1]
  /\ reserved' = [reserved EXCEPT ![n] = TRUE]
  /\ pend' = [pend EXCEPT ![n] = IF CatchUp(n) /\ CatchRel(n) > 0 THEN @ \cup {CatchPend(n)} ELSE @]
  /\ UNCHANGED <<batch, unusedDocs, alive>>
FinishRet(n) == IF CatchUp(n) /\ CatchRel(n) > 0 THEN NoSeq ELSE FinishAlloc(n) - batch[n] + 1
GhostGTFinish(n, x, ret) == Ghost(n, ret, x, <<>>, NoSeq)

(* the release after the unlock, then the call returns p.ret *)
ImplPendRel(n, p) ==
  /\ p \in pend[n]
  /\ pend' = [pend EXCEPT ![n] = @ \ {p}]
  /\ unusedDocs' = unusedDocs \cup {<<p.from, p.to, 2>>}
  /\ UNCHANGED <<counter, last, max, batch, reserved, alive, pc>>
GhostPendRel(n, x, ret, rel) == Ghost(n, ret, x, rel, NoSeq)

(* the consumer gives a number back (failed write, or the number was not above the document's) *)
ImplGiveBack(n, s) ==
  /\ unusedDocs' = unusedDocs \cup {<<s, s, 1>>}
  /\ UNCHANGED <<counter, last, max, batch, reserved, alive, pc, pend>>
GhostGiveBack(n, s, rel) == Ghost(n, NoSeq, NoFloor, rel, s)

(* releaseUnusedSequences *)
ReleaseUnusedBody(n) ==
  IF last[n] < max[n]
  THEN LET unused == max[n] - last[n] IN
       /\ unusedDocs' = unusedDocs \cup {<<last[n] + 1, max[n], 2>>}
       /\ batch' = [batch EXCEPT ![n] = IF unused >= @ THEN 1 ELSE @ - unused]
       /\ last' = [last EXCEPT ![n] = max[n]]
  ELSE UNCHANGED <<unusedDocs, batch, last>>
ImplIdle(n) == CanCall(n) /\ ReleaseUnusedBody(n) /\ UNCHANGED <<counter, max, reserved, alive, pc, pend>>
GhostIdle(n, rel) == Ghost(n, NoSeq, NoFloor, rel, NoSeq)
ImplStop(n) == CanCall(n) /\ ReleaseUnusedBody(n) /\ alive' = [alive EXCEPT ![n] = FALSE]
               /\ UNCHANGED <<counter, max, reserved, pc, pend>>
GhostStop(n, rel) == Ghost(n, NoSeq, NoFloor, rel, NoSeq)
IdleNotice(n) == IF last[n] < max[n] THEN <<<<last[n] + 1, max[n], 2>>>> ELSE <<>>

Step(a, n, x) == hist' = Append(hist, [a |-> a, n |-> n, x |-> x])

-----------------------------------------------------------------------------
Floors == 0..Min2(counter + FloorAhead, MaxCounter - 1)
InFlight == \E n \in Allocs : pc[n] # Idle0 \/ pend[n] # {}
More   == Len(hist) < MaxSteps                      \* behaviour length bound
Start(a) == More /\ (Fine \/ ~InFlight) /\ a \in Acts    \* a new API call may begin (call granularity unless Fine)
(* a GT call that would need more counter than the bound allows is never started (it could not finish) *)
BeginFits(n, x) == x + NextBatch(n) <= MaxCounter /\ counter + NextBatch(n) <= MaxCounter

Next(n)        == Start("Next") /\ counter + NextIncr(n) <= MaxCounter
                  /\ ImplNext(n) /\ GhostNext(n, last'[n]) /\ Step("Next", n, 0)
GTLast(n, x)   == Start("GTLast") /\ counter + NextIncr(n) <= MaxCounter
                  /\ ImplGTLast(n, x) /\ GhostGTLast(n, x, last'[n]) /\ Step("GTLast", n, x)
GTBatch(n, x)  == Start("GTBatch") /\ Cardinality(pend[n]) < MaxPend
                  /\ ImplGTBatch(n, x) /\ GhostGTBatch(n, x, BatchRet(n, x)) /\ Step("GTBatch", n, x)
GTBegin(n, x)  == Start("GTBegin") /\ BeginFits(n, x)
                  /\ ImplGTBegin(n, x) /\ GhostGTBegin(n, BatchNotice(n)) /\ Step("GTBegin", n, x)
GTFinish(n)    == More /\ pc[n].st = "got" /\ counter + FinishIncr(n) <= MaxCounter
                  /\ (CatchUp(n) /\ CatchRel(n) > 0 => Cardinality(pend[n]) < MaxPend)
                  /\ ImplGTFinish(n) /\ GhostGTFinish(n, pc[n].x, FinishRet(n)) /\ Step("GTFinish", n, 0)
PendRel(n, p)  == More /\ ImplPendRel(n, p) /\ GhostPendRel(n, p.x, p.ret, <<<<p.from, p.to, 2>>>>) /\ Step("PendRel", n, p.from)
GiveBack(n, s) == Start("GiveBack") /\ s \in held[n] /\ ImplGiveBack(n, s) /\ GhostGiveBack(n, s, <<<<s, s, 1>>>>) /\ Step("GiveBack", n, s)
IdleRel(n)     == Start("Idle") /\ last[n] < max[n] /\ ImplIdle(n) /\ GhostIdle(n, IdleNotice(n)) /\ Step("Idle", n, 0)
Stop(n)        == Start("Stop") /\ ImplStop(n) /\ GhostStop(n, IdleNotice(n)) /\ Step("Stop", n, 0)

Nxt ==
  \E n \in Allocs :
     \/ Next(n)
     \/ \E x \in {0, last[n] - 1} \cap Floors : GTLast(n, x)    \* every x < last acts alike: lowest and boundary
     \/ \E x \in Floors : GTBatch(n, x)
     \/ \E x \in Floors : GTBegin(n, x)
     \/ GTFinish(n)
     \/ \E p \in pend[n] : PendRel(n, p)
     \/ \E s \in held[n] : GiveBack(n, s)
     \/ IdleRel(n)
     \/ Stop(n)
Spec == Init /\ [][Nxt]_vars

-----------------------------------------------------------------------------
(* C07, component level *)
Unique == dups = {}                          \* no number handed out twice (across allocators)
Above  == aboveBad = {}                      \* nextSequenceGreaterThan(x) returns a number > x
Quiescent == \A n \in Allocs : ~alive[n] /\ pc[n] = Idle0 /\ pend[n] = {}
NoDoubleRelease   == relDup = {}                          \* nothing published as unused twice
NoUsedAndReleased == AllHeld \cap (released \cup Expand(unusedDocs)) = {}    \* nothing both kept by a caller and published
NothingLost == Quiescent => (1..counter) = AllHeld \cup Expand(unusedDocs)   \* every reserved number accounted for
Accounted == NoDoubleRelease /\ NoUsedAndReleased /\ NothingLost

(* auxiliary / design invariants *)
Window(n) == (last[n] + 1)..max[n]
WindowsDisjoint == \A n, m \in Allocs : n # m => Window(n) \cap Window(m) = {}
WindowsFresh == \A n \in Allocs : Window(n) \cap (AllHeld \cup released) = {}
Bookkeeping == \A n \in Allocs : /\ last[n] <= max[n] /\ max[n] <= counter /\ batch[n] \in 1..BatchCap
                                 /\ (pc[n].st = "got" => last[n] = max[n])
DocsAreReleased == Expand(unusedDocs) = released
WithinCounter == AllHeld \cup released \subseteq 1..counter
PendFresh == \A n \in Allocs : \A p \in pend[n] :
               /\ (p.from..p.to) \cap (AllHeld \cup released) = {} /\ p.ret \notin AllHeld \cup released
               /\ p.to < p.ret /\ p.ret <= last[n]
TypeOK == /\ counter \in 0..MaxCounter
          /\ \A n \in Allocs : last[n] \in 0..MaxCounter /\ max[n] \in 0..MaxCounter
=============================================================================
