CONSTANT Allocs = {1, 2}
CONSTANT MaxCounter = 24
CONSTANT BatchCap = 10
CONSTANT MaxSteps = 6
CONSTANT GrowModes = {TRUE}
CONSTANT FloorAhead = 1
CONSTANT MaxPend = 1
CONSTANT Fine = FALSE
SPECIFICATION Spec
INVARIANT BehaviourExport
CHECK_DEADLOCK FALSE
