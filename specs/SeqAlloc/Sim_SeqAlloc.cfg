CONSTANT Allocs = {1, 2, 3}
CONSTANT MaxCounter = 90
CONSTANT BatchCap = 10
CONSTANT MaxSteps = 16
CONSTANT GrowModes = {TRUE}
CONSTANT FloorAhead = 3
CONSTANT MaxPend = 2
CONSTANT Fine = TRUE
CONSTANT Acts = {"Next", "GTLast", "GTBatch", "GTBegin", "GiveBack", "Idle", "Stop"}
SPECIFICATION SimSpec
INVARIANT BehaviourExport
CHECK_DEADLOCK FALSE
