--------------------------- MODULE MC_SeqAlloc ---------------------------
EXTENDS SeqAlloc, Json
(* a behaviour is exported when it is full length, or earlier when everything is stopped and drained
   (the harness drains in-flight calls and stops the allocators at the end of every behaviour anyway) *)
BehaviourExport ==
  (Len(hist) = MaxSteps \/ (Quiescent /\ AllHeld = {})) =>
     PrintT(<<"BEH", ToJson([grow |-> grow, na |-> Cardinality(Allocs), steps |-> hist])>>)
=============================================================================
