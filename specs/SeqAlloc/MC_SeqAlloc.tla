--------------------------- MODULE MC_SeqAlloc ---------------------------
EXTENDS SeqAlloc, Json
(* a behaviour is exported when it is full length, or earlier when everything is stopped and drained
   (the harness drains in-flight calls and stops the allocators at the end of every behaviour anyway) *)
BehaviourExport ==
  (Len(hist) = MaxSteps \/ (Quiescent /\ AllHeld = {})) =>
     PrintT(<<"BEH", ToJson([grow |-> grow, na |-> Cardinality(Allocs), steps |-> hist])>>)

(* Simulation: TLC picks uniformly among SUCCESSOR STATES, so with Nxt the actions with many argument choices
   (GiveBack of any held number, GTBegin with any floor, on any allocator) swamp the rare ones (in-batch
   nextSequenceGreaterThan, idle release).  SimNext draws the arguments with RandomElement from the set of ENABLED
   arguments of each action kind: one successor per kind.  Stop only in the second half (a stopped allocator is
   dead; the harness stops everything at the end anyway). *)
NextArgs    == {n \in Allocs : CanCall(n)}
GTLastArgs  == {a \in Allocs \X Floors : CanCall(a[1]) /\ a[2] + 1 <= last[a[1]]}
GTBatchArgs == {a \in Allocs \X Floors : CanCall(a[1]) /\ last[a[1]] < a[2] + 1 /\ a[2] + 1 <= max[a[1]]}
GTBeginArgs == {a \in Allocs \X Floors : CanCall(a[1]) /\ a[2] + 1 > max[a[1]] /\ BeginFits(a[1], a[2])}
FinishArgs  == {n \in Allocs : pc[n].st = "got"}
PendArgs    == UNION {{<<n, p>> : p \in pend[n]} : n \in Allocs}
GiveArgs    == UNION {{<<n, s>> : s \in held[n]} : n \in Allocs}
IdleArgs    == {n \in Allocs : CanCall(n) /\ last[n] < max[n]}
One(S) == IF S = {} THEN {} ELSE {RandomElement(S)}       \* bound once by the quantifier below
Coin == RandomElement({TRUE, FALSE})
SimNext ==                                                   \* weights: Next and in-batch GT doubled (they build and use
  \/ \E n \in One(NextArgs) : Next(n)                          \* batch windows), GTBegin (destroys the window) and GiveBack halved
  \/ \E n \in One(NextArgs) : Next(n)
  \/ \E a \in One(GTLastArgs) : GTLast(a[1], a[2])
  \/ \E a \in One(GTBatchArgs) : GTBatch(a[1], a[2])
  \/ \E a \in One(GTBatchArgs) : GTBatch(a[1], a[2])
  \/ (Coin /\ \E a \in One(GTBeginArgs) : GTBegin(a[1], a[2]))
  \/ \E n \in One(FinishArgs) : GTFinish(n)
  \/ \E a \in One(PendArgs) : PendRel(a[1], a[2])
  \/ (Coin /\ \E a \in One(GiveArgs) : GiveBack(a[1], a[2]))
  \/ \E n \in One(IdleArgs) : IdleRel(n)
  \/ (2 * Len(hist) >= MaxSteps /\ \E n \in One(NextArgs) : Stop(n))
SimSpec == Init /\ [][SimNext]_vars
=============================================================================
