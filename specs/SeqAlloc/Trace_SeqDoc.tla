--------------------------- MODULE Trace_SeqDoc ---------------------------
(* Validation of the ledger recorded from real document / principal writes on a real database
   (harness/db/c07_seqalloc_test.go, TestVerif_C07_DocLedger).  Lines:
     {a:"DReset", sc, base, exp:{ctr, used, pubDoc, pubRel}}   scenario start; every number <= base is settled
                                                   (the allocator's remainder was released); exp = ledger predicted by SeqDoc
     {a:"Stored", seq, unused}    a revision / principal was REALLY stored (read back from the bucket):
                                  its sequence and its unused_sequences
     {a:"Failed"}                 a write returned an error and stored nothing
     {a:"DQuiesce", ctr, docs}    allocator remainder released; REAL _sync:seq; the unused-sequence documents
                                  written since DReset (content read back): [from, to, kind]
   Pass P: Monotone, DocAccounted on this real ledger.  Pass C: it equals the predicted one. *)
EXTENDS SeqDoc, TraceLib

VARIABLES l, base, exp, docs
tdvars == <<dvars, l, base, exp, docs>>

T == Trace[l]
ToSet(sq) == {sq[i] : i \in 1..Len(sq)}
Ev(a) == l <= TraceLen /\ T.a = a /\ l' = l + 1
Shift(sq) == {sq[i] + base : i \in 1..Len(sq)}
NoExp == [ctr |-> 0, used |-> <<>>, pubDoc |-> <<>>, pubRel |-> <<>>]

TDInit == DInit /\ l = 1 /\ base = 0 /\ exp = NoExp /\ docs = {}

(* model variables that the ledger does not observe keep their initial values *)
Unobserved == UNCHANGED <<mode, reject, docCas, wSeq, wUnused, wCas, tries, sameSeen, unknown, hist>>

DReset == /\ Ev("DReset")
          /\ base' = T.base /\ exp' = T.exp /\ docs' = {}
          /\ ctr' = T.base /\ docSeq' = 0 /\ wst' = "busy"
          /\ used' = {} /\ pubDoc' = {} /\ pubRel' = {} /\ monoBad' = {}
          /\ Unobserved
Stored == /\ Ev("Stored")
          /\ monoBad' = monoBad \cup (IF T.seq > docSeq THEN {} ELSE {<<docSeq, T.seq>>})
          /\ docSeq' = T.seq /\ used' = used \cup {T.seq} /\ pubDoc' = pubDoc \cup ToSet(T.unused)
          /\ UNCHANGED <<ctr, wst, pubRel, base, exp, docs>> /\ Unobserved
Failed == /\ Ev("Failed")
          /\ UNCHANGED <<ctr, docSeq, wst, used, pubDoc, pubRel, monoBad, base, exp, docs>> /\ Unobserved
DQuiesce == /\ Ev("DQuiesce")
            /\ ctr' = T.ctr /\ docs' = ToSet(T.docs) /\ wst' = "done"
            /\ pubRel' = UNION {d[1]..d[2] : d \in ToSet(T.docs)}
            /\ UNCHANGED <<docSeq, used, pubDoc, monoBad, base, exp>> /\ Unobserved
TDNext == DReset \/ Stored \/ Failed \/ DQuiesce
TDSpec == TDInit /\ [][TDNext]_tdvars

TDocAccounted == DocAccountedFrom(base)

(* conformance: the real ledger is the predicted one; the allocator's remainder is one range above it *)
Singles == {d[1] : d \in {e \in docs : e[3] = 1}}
Ranges  == {e \in docs : e[3] = 2}
Conforms ==
  wst = "done" =>
    /\ used = Shift(exp.used) /\ pubDoc = Shift(exp.pubDoc) /\ Singles = Shift(exp.pubRel)
    /\ Ranges \subseteq {<<base + exp.ctr + 1, ctr, 2>>}

(* pass P reports each failure (<<"VIOL", predicate, line>>) without stopping *)
Viol(name, holds) == holds \/ PrintT(<<"VIOL", name, l>>)
ReportP == Viol("Monotone", Monotone) /\ Viol("DocAccounted", TDocAccounted)

Progress == Mark(l)
Accept == PrintHWM
=============================================================================
