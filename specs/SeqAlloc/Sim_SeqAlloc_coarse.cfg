CONSTANT Allocs = {1, 2, 3}
CONSTANT MaxCounter = 120
CONSTANT BatchCap = 10
CONSTANT MaxSteps = 24
CONSTANT GrowModes = {TRUE, FALSE}
CONSTANT FloorAhead = 3
CONSTANT MaxPend = 1
CONSTANT Fine = FALSE
CONSTANT Acts = {"Next", "GTLast", "GTBatch", "GTBegin", "GiveBack", "Idle", "Stop"}
SPECIFICATION SimSpec
INVARIANT BehaviourExport
CHECK_DEADLOCK FALSE
