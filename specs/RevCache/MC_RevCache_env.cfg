\* the environment of production: a writer hands over exactly what the bucket holds ("one CV => one body") and loads
\* fail only for keys that are not being written.  Here the accounting clauses hold without any exception (NoDev).
CONSTANT Threads = {"t1", "t2"}
CONSTANT Keys = {"k1", "k2"}
CONSTANT CvKeys = {"k1"}
CONSTANT RevKeys = {"k2"}
CONSTANT DocOf <- MCDocOf
CONSTANT Contents = {"c1", "c2"}
CONSTANT Configs <- CfEnv
CONSTANT Fails = {"ok", "fd", "fr"}
CONSTANT FailKeys = {"k2"}
CONSTANT OpSet = {"Get", "GetActive", "Put", "Upsert", "Remove", "Peek"}
CONSTANT FreePut = FALSE
CONSTANT MaxOps = 2
CONSTANT MaxSteps = 3
CONSTANT SplitLoad = FALSE
CONSTANT MaxUpd = 0
CONSTANT Pool = 4
CONSTANT SeqPrefix = 1
SPECIFICATION Spec
VIEW view
INVARIANT Bounded
INVARIANT ItemsExact
INVARIANT BytesExact
INVARIANT EmptyIsZero
INVARIANT Fresh
INVARIANT FreshAfterInvalidate
INVARIANT NoDev
INVARIANT SingleFlight
INVARIANT ListMapBij
INVARIANT ItemsUnlocked
INVARIANT SizedAtRest
INVARIANT MemBounded
INVARIANT ItemBytesTrack
INVARIANT BytesByItemBytes
INVARIANT PoolOK
CHECK_DEADLOCK FALSE
