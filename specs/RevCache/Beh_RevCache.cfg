\* every sequence of MaxSteps whole calls (one thread) over two keys of one document: exported for replay on the real cache
CONSTANT Threads = {"t1"}
CONSTANT Keys = {"k1", "k2"}
CONSTANT CvKeys = {"k1"}
CONSTANT RevKeys = {"k2"}
CONSTANT DocOf <- MCDocOf
CONSTANT Contents = {"c1", "c2"}
CONSTANT Configs <- CfBeh
CONSTANT Fails = {"ok", "fd"}
CONSTANT FailKeys = {"k1", "k2"}
CONSTANT OpSet = {"Get", "GetActive", "Put", "Upsert", "Remove", "Peek", "Inval"}
CONSTANT FreePut = TRUE
CONSTANT MaxOps = 3
CONSTANT MaxSteps = 3
CONSTANT SplitLoad = TRUE
CONSTANT MaxUpd = 1
CONSTANT Pool = 4
CONSTANT SeqPrefix = 1000000
SPECIFICATION Spec
INVARIANT BehaviourExport
CHECK_DEADLOCK FALSE
