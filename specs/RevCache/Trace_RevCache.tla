--------------------------- MODULE Trace_RevCache ---------------------------
(* Validation of traces recorded from the real revision cache (harness/db/c16_revcache_test.go).
   Lines:
     {a:"Reset", mode:"seq"|"conc"|"sched", cap, maxBytes, store:{A..D: content|"missing"}, csz:[[content,size]..]}
     {a:"Begin", t, op, k, c, f}                  the call is about to be issued
     {a:"End",   t, op, k, c, err, gd, gr [,S]}   the call returned c ("nil" = no revision); S = real snapshot (seq mode)
     {a:"Quiesce", S}                             no call in progress; S = real snapshot
     {a:"StoreUpdate", d, c}                      the scripted bucket now holds content c for document d (same revision, other channels)
   op "Inval" is the feed-side Remove (DocChanged) for a key of an updated document.
   S = {vals:[{key,c,e,ms,b,cb}..], lru:[ids front..back], map:[[key,id]..], numItems, total}: the REAL rc.cache / rc.lruList /
   values (body etc. as content name, err set, memState, itemBytes, recount of the stored content) and the REAL gauges.
   Pass P binds the implementation variables to S and evaluates the property; pass C (seq mode) runs the model's own
   actions between Begin and End and demands that the model's state and outputs equal the recorded ones. *)
EXTENDS RevCache, TraceLib

TKeys    == {"k1", "k2", "k3", "k4", "k5", "k6", "k7", "k8"}
TCvKeys  == {"k1", "k3", "k5", "k7"}
TRevKeys == {"k2", "k4", "k6", "k8"}
TDocOf(k) == CASE k \in {"k1", "k2"} -> "A" [] k \in {"k3", "k4"} -> "B" [] k \in {"k5", "k6"} -> "C" [] OTHER -> "D"

VARIABLES l, mode
tvars == <<vars, l, mode>>
tvars_but_l == <<vars, mode>>

Ev(a) == l <= TraceLen /\ Trace[l].a = a /\ l' = l + 1

CszFun(x) == [c \in {x[i][1] : i \in 1..Len(x)} |-> x[(CHOOSE i \in 1..Len(x) : x[i][1] = c)][2]]
SnapVal(S) == [i \in 1..Pool |->
                 IF i <= Len(S.vals)
                 THEN [key |-> S.vals[i].key, c |-> S.vals[i].c, e |-> S.vals[i].e, ms |-> S.vals[i].ms,
                       b |-> S.vals[i].b, cb |-> S.vals[i].cb, ld |-> 0, ldg |-> FALSE]
                 ELSE FreeVal]
SnapMap(S) == [k \in Keys |-> IF \E i \in 1..Len(S.map) : S.map[i][1] = k
                              THEN S.map[(CHOOSE i \in 1..Len(S.map) : S.map[i][1] = k)][2] ELSE 0]
Bind(S) == /\ cmap' = SnapMap(S) /\ lru' = S.lru /\ val' = SnapVal(S)
           /\ numItems' = S.numItems /\ total' = S.total
OutOfLine(r) == [op |-> r.op, k |-> r.k, c |-> r.c, err |-> r.err, gd |-> r.gd, gr |-> r.gr]

TInit ==      \* placeholder configuration; every trace starts with a Reset line
  /\ cmap = [k \in Keys |-> 0] /\ lru = <<>> /\ val = [i \in 1..Pool |-> FreeVal]
  /\ numItems = 0 /\ total = 0 /\ evLock = ""
  /\ pc = [t \in Threads |-> "idle"] /\ th = [t \in Threads |-> IdleTh] /\ out = [t \in Threads |-> NoOut]
  /\ cap = 1 /\ maxBytes = 0 /\ store = [d \in {"A", "B", "C", "D"} |-> Missing] /\ csize = <<>>
  /\ tainted = {} /\ stale = {} /\ dev = {} /\ nops = [t \in Threads |-> 0] /\ hist = <<>>
  /\ allowed = [k \in Keys |-> {}] /\ ever = [k \in Keys |-> {}] /\ okset = [t \in Threads |-> {}]
  /\ fl = [t \in Threads |-> NoFl] /\ pend = {} /\ nupd = 0 /\ raced = [t \in Threads |-> FALSE]
  /\ l = 1 /\ mode = "seq"

Reset ==
  /\ Ev("Reset")
  /\ cmap' = [k \in Keys |-> 0] /\ lru' = <<>> /\ val' = [i \in 1..Pool |-> FreeVal]
  /\ numItems' = 0 /\ total' = 0 /\ evLock' = ""
  /\ pc' = [t \in Threads |-> "idle"] /\ th' = [t \in Threads |-> IdleTh] /\ out' = [t \in Threads |-> NoOut]
  /\ cap' = Trace[l].cap /\ maxBytes' = Trace[l].maxBytes /\ store' = Trace[l].store /\ csize' = CszFun(Trace[l].csz)
  /\ tainted' = {} /\ stale' = {} /\ dev' = {} /\ nops' = [t \in Threads |-> 0] /\ hist' = <<>>
  /\ allowed' = [k \in Keys |-> {Trace[l].store[DocOf(k)]} \ {Missing}] /\ ever' = [k \in Keys |-> {Trace[l].store[DocOf(k)]} \ {Missing}]
  /\ okset' = [t \in Threads |-> {}] /\ fl' = [t \in Threads |-> NoFl] /\ pend' = {} /\ nupd' = 0
  /\ raced' = [t \in Threads |-> FALSE]
  /\ mode' = Trace[l].mode

(* ------------------------------- pass P ------------------------------- *)
(* named deviations as far as they can be recognised at call granularity from the recorded pre-state (seq mode) *)
BeginDev(r) ==
  IF mode = "seq" /\ r.op = "Put" /\ cmap[r.k] # 0 /\ val[cmap[r.k]].c # Nil /\ val[cmap[r.k]].c # r.c
  THEN {"dropput"} \cup (IF val[cmap[r.k]].ms = "S" /\ val[cmap[r.k]].b # csize[r.c] THEN {"resize"} ELSE {})
  ELSE {}
PBegin ==
  /\ Ev("Begin")
  /\ LET r == Trace[l] IN
       /\ GhostBegin(r.t, r.op, r.k, r.c)
       /\ dev' = dev \cup BeginDev(r)
       /\ pc' = [pc EXCEPT ![r.t] = "busy"]
  /\ UNCHANGED <<cmap, lru, val, numItems, total, evLock, th, out, conf, stale, allowed, ever, pend, nupd, nops, hist, mode>>
PEnd ==
  /\ Ev("End")
  /\ LET r == Trace[l] IN
       /\ out' = [out EXCEPT ![r.t] = OutOfLine(r)]
       /\ GhostEnd(r.t)
       /\ pc' = [pc EXCEPT ![r.t] = "idle"]
       /\ IF Has(r, "S") THEN Bind(r.S) ELSE UNCHANGED <<cmap, lru, val, numItems, total>>
  /\ UNCHANGED <<evLock, th, conf, tainted, ever, nupd, dev, nops, hist, mode>>
PStoreUpdate ==
  /\ Ev("StoreUpdate")
  /\ StoreUpdateTo(Trace[l].d, Trace[l].c)
  /\ UNCHANGED <<hist, mode>>
PQuiesce ==
  /\ Ev("Quiesce")
  /\ Bind(Trace[l].S)
  /\ pc' = [t \in Threads |-> "idle"]
  /\ UNCHANGED <<evLock, th, out, conf, ghost, hist, mode>>
PNext == Reset \/ PBegin \/ PEnd \/ PQuiesce \/ PStoreUpdate
PSpec == TInit /\ [][PNext]_tvars

(* ------------------------------- pass C ------------------------------- *)
Conforms(r) ==
  LET S == r.S IN
  /\ Len(lru') = Len(S.lru)
  /\ \A i \in 1..Len(S.lru) :
       LET x == val'[lru'[i]]
           y == S.vals[S.lru[i]] IN
       x.key = y.key /\ x.c = y.c /\ x.e = y.e /\ x.ms = y.ms /\ x.b = y.b /\ x.cb = y.cb
  /\ {k \in Keys : cmap'[k] # 0} = {S.map[i][1] : i \in 1..Len(S.map)}
  /\ \A i \in 1..Len(S.map) : val'[cmap'[S.map[i][1]]].key = S.vals[S.map[i][2]].key
  /\ numItems' = S.numItems /\ total' = S.total
  /\ out'[r.t].c = r.c /\ out'[r.t].err = r.err /\ out'[r.t].gd = r.gd /\ out'[r.t].gr = r.gr
CBegin ==
  /\ Ev("Begin")
  /\ LET r == Trace[l] IN Start(r.t, r.op, r.k, r.c, r.f)
  /\ UNCHANGED mode
CAct ==
  /\ l <= TraceLen /\ Trace[l].a = "End"
  /\ LET r == Trace[l] IN
       /\ Act(r.t)
       /\ IF pc'[r.t] = "idle" THEN l' = l + 1 /\ Conforms(r) ELSE l' = l
  /\ UNCHANGED mode
CNext == Reset \/ CBegin \/ CAct \/ PStoreUpdate
CSpec == TInit /\ [][CNext]_tvars

Progress == Mark(l)
Accept == PrintHWM
=============================================================================
