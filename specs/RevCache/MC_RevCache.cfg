\* quick exhaustive run: 2 threads, 3 calls (the first runs alone: SeqPrefix 1), 2 keys of one document, 4 configurations, any Put content;
\* accounting clauses modulo the named deviations (BytesExactND, EmptyIsZeroND), everything else strictly
CONSTANT Threads = {"t1", "t2"}
CONSTANT Keys = {"k1", "k2"}
CONSTANT CvKeys = {"k1"}
CONSTANT RevKeys = {"k2"}
CONSTANT DocOf <- MCDocOf
CONSTANT Contents = {"c1", "c2"}
CONSTANT Configs <- CfQuick
CONSTANT Fails = {"ok", "fd"}
CONSTANT FailKeys = {"k1", "k2"}
CONSTANT OpSet = {"Get", "GetActive", "Put", "Upsert", "Remove", "Peek"}
CONSTANT FreePut = TRUE
CONSTANT MaxOps = 2
CONSTANT MaxSteps = 3
CONSTANT SplitLoad = FALSE
CONSTANT MaxUpd = 0
CONSTANT Pool = 4
CONSTANT SeqPrefix = 1
SPECIFICATION Spec
VIEW view
INVARIANT Bounded
INVARIANT ItemsExact
INVARIANT BytesExactND
INVARIANT EmptyIsZeroND
INVARIANT Fresh
INVARIANT FreshAfterInvalidate
INVARIANT SingleFlight
INVARIANT ListMapBij
INVARIANT ItemsUnlocked
INVARIANT SizedAtRest
INVARIANT MemBounded
INVARIANT ItemBytesTrack
INVARIANT BytesByItemBytes
INVARIANT PoolOK
INVARIANT TypeOK
CHECK_DEADLOCK FALSE
