--------------------------- MODULE MC_RevCache ---------------------------
EXTENDS RevCache, Json
(* keys: k1 = (docA, current version), k2 = (docA, revision-tree id), k3 = (docB, current version), k4 = (docB, rev id) *)
MCDocOf(k) == IF k \in {"k1", "k2"} THEN "A" ELSE "B"
Sz == [c1 |-> 3, c2 |-> 5]            \* two sizes; no sum of one kind equals a sum of the other within the bounds
StA == [A |-> "c1", B |-> "c2"]
StM == [A |-> "c2", B |-> Missing]
Cf(cp, mb, st) == [cap |-> cp, maxBytes |-> mb, store |-> st, csize |-> Sz]
CfQuick    == {Cf(1, 0, StA), Cf(2, 0, StA), Cf(2, 4, StA), Cf(1, 0, StM)}
CfThorough == {Cf(cp, mb, st) : cp \in {1, 2}, mb \in {0, 4, 6}, st \in {StA, StM}}
CfEnv      == {Cf(1, 0, StA), Cf(2, 4, StA)}
CfEnvThorough == {Cf(cp, mb, StA) : cp \in {1, 2}, mb \in {0, 4, 6}}
Cf3        == {Cf(1, 0, StA)}
CfStale    == {Cf(2, 0, StA)}
CfBeh      == {Cf(1, 0, StA), Cf(2, 4, StA)}
CfSim      == {Cf(cp, mb, st) : cp \in {1, 2, 3}, mb \in {0, 4, 6, 9}, st \in {StA, StM, [A |-> "c2", B |-> "c1"]}}
(* Simulation: TLC picks uniformly among SUCCESSOR STATES, so with Next a call kind with many argument choices (Get: keys x
   loader outcomes) swamps the others.  SimNext draws the arguments with RandomElement: one successor per call KIND; keys are
   drawn half of the time among the keys currently cached (hits, re-puts, removals of present keys), loads fail one time in
   four, and writers hand over the bucket's content two times out of three (keeps Fresh demanded on most keys). *)
SimKey(S) == IF Mapped \cap S # {} /\ RandomElement(1..2) = 1 THEN RandomElement(Mapped \cap S) ELSE RandomElement(S)
SimFail(k) == IF k \in FailKeys /\ RandomElement(1..4) = 1 THEN RandomElement(Fails \ {"ok"}) ELSE "ok"
SimContent(k) == IF store[DocOf(k)] \in Contents /\ RandomElement(1..3) # 1 THEN store[DocOf(k)] ELSE RandomElement(Contents)
SimGet(t, k)    == Start(t, "Get", k, Nil, SimFail(k))
SimGetA(t, k)   == Start(t, "GetActive", k, Nil, SimFail(k))
SimPut(t, op, k) == Start(t, op, k, SimContent(k), "ok")
SimNext == \E t \in Threads :
  \/ Act(t)
  \/ SimGet(t, SimKey(Keys))
  \/ SimGetA(t, SimKey(RevKeys))
  \/ SimPut(t, "Put", SimKey(CvKeys))
  \/ SimPut(t, "Upsert", SimKey(CvKeys))
  \/ Start(t, "Remove", SimKey(Keys), Nil, "ok")
  \/ Start(t, "Peek", SimKey(Keys), Nil, "ok")
  \/ (pend # {} /\ Start(t, "Inval", RandomElement(pend), Nil, "ok"))
  \/ LET d == RandomElement(Docs) IN StoreUpdate(d, RandomElement(Contents \ {store[d]}))
SimSpec == Init /\ [][SimNext]_vars
BehaviourExport ==
  (Len(hist) = MaxSteps /\ Quiescent) =>
     PrintT(<<"BEH", ToJson([cap |-> cap, maxBytes |-> maxBytes, store |-> store, csize |-> csize, steps |-> hist])>>)
=============================================================================
