--------------------------- MODULE MC_RevCache ---------------------------
EXTENDS RevCache, Json
(* keys: k1 = (docA, current version), k2 = (docA, revision-tree id), k3 = (docB, current version), k4 = (docB, rev id) *)
MCDocOf(k) == IF k \in {"k1", "k2"} THEN "A" ELSE "B"
Sz == [c1 |-> 3, c2 |-> 5]            \* two sizes; no sum of one kind equals a sum of the other within the bounds
StA == [A |-> "c1", B |-> "c2"]
StM == [A |-> "c2", B |-> Missing]
Cf(cp, mb, st) == [cap |-> cp, maxBytes |-> mb, store |-> st, csize |-> Sz]
CfQuick    == {Cf(1, 0, StA), Cf(2, 0, StA), Cf(2, 4, StA), Cf(1, 0, StM)}
CfThorough == {Cf(cp, mb, st) : cp \in {1, 2}, mb \in {0, 4, 6}, st \in {StA, StM}}
CfEnv      == {Cf(1, 0, StA), Cf(2, 4, StA)}
CfEnvThorough == {Cf(cp, mb, StA) : cp \in {1, 2}, mb \in {0, 4, 6}}
Cf3        == {Cf(1, 0, StA)}
CfBeh      == {Cf(1, 0, StA), Cf(2, 4, StA)}
CfSim      == {Cf(cp, mb, st) : cp \in {1, 2, 3}, mb \in {0, 4, 6, 9}, st \in {StA, StM, [A |-> "c2", B |-> "c1"]}}
BehaviourExport ==
  (Len(hist) = MaxSteps /\ Quiescent) =>
     PrintT(<<"BEH", ToJson([cap |-> cap, maxBytes |-> maxBytes, store |-> store, csize |-> csize, steps |-> hist])>>)
=============================================================================
