\* pass P: the property on recorded real state; accounting clauses modulo deviations recognisable from the recorded pre-state (Put of another content on a cached key)
CONSTANT Threads = {"t1", "t2", "t3", "t4"}
CONSTANT Keys <- TKeys
CONSTANT CvKeys <- TCvKeys
CONSTANT RevKeys <- TRevKeys
CONSTANT DocOf <- TDocOf
CONSTANT Contents = {}
CONSTANT Configs = {}
CONSTANT Fails = {"ok", "fd", "fr"}
CONSTANT FailKeys <- TKeys
CONSTANT OpSet = {"Get", "GetActive", "Put", "Upsert", "Remove", "Peek", "Inval"}
CONSTANT FreePut = TRUE
CONSTANT MaxOps = 1000000
CONSTANT MaxSteps = 1000000
CONSTANT SplitLoad = TRUE
CONSTANT MaxUpd = 1000000
CONSTANT Pool = 12
CONSTANT SeqPrefix = 1000000
CONSTRAINT Progress
POSTCONDITION Accept
CHECK_DEADLOCK FALSE
SPECIFICATION PSpec
INVARIANT Fresh
INVARIANT FreshAfterInvalidate
INVARIANT NoTornPeek
INVARIANT Bounded
INVARIANT ItemsExact
INVARIANT BytesExactND
INVARIANT EmptyIsZeroND
