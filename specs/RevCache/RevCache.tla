--------------------------- MODULE RevCache ---------------------------
(* Revision cache: db/revision_cache_lru.go (LRURevisionCache), db/revision_cache_orchestrator.go
   (triggerMemoryEviction), db/cache_memory_controller.go.   Decides C16.

   One action per critical section / atomic step of the real code:
     Start          the call is issued (arguments fixed; ghost: a Put/Upsert of content that is not what the
                    bucket holds taints the key for Fresh)
     GaDoc          GetActive: backingStore.GetDocument (may fail)
     GetValue       getValue under rc.lock: hit -> MoveToFront; miss -> create (memStateLoading), PushFront,
                    numItems++, _numberCapacityEviction (tail: delete, Swap(Removed), bytes only if Sized)
     Load           value.load / loadForDoc under the value lock: cached (body or error) -> hit, else load from
                    the backing store (success: body, itemBytes.Store; failure: value.err)
     LoadFin        (only when the bucket can change, MaxUpd > 0) second half of a Get's load: Load is then the document READ
     StoreUpdate    environment: the bucket changes the channels of a document's revision (same rev id and version)
     Inval (call)   the feed-side Remove(k) after a StoreUpdate (ghost: from its completion only the bucket's content may be served)
     Cas, Add       Get/GetActive after a successful miss: CAS Loading->Sized, then incrementBytesCount(getItemBytes())
     FrmMark, FrmRem  removeValueForFailedLoad: memState.Store(Removed) outside the lock, then under rc.lock
                    remove iff the key still maps to this value, numItems--
     UpsertToCache  upsertDocToCache under rc.lock (old value: Swap(Removed), decrement iff Sized; new value;
                    numItems++ iff new key; capacity eviction - its item decrement is applied by UpDec *outside* the lock)
     SBytes, PCas, PAdd, PStore   Put/Upsert: itemBytes.Store(size) ; CAS Loading->Sized ; incrementBytesCount(size) ;
                    value.store (only if the value has no body)
     Remove         Remove under rc.lock
     PeekGet, PeekRead   peekCacheForKey under rc.lock, then asDocumentRevision (no lock)
     MeCheck, MeLock, MeEvict, MeFin   triggerMemoryEviction: IsOverCapacity ; evictionLock + bytesToEvict ;
                    evictLRUTail (one rc.lock section per item) ; one decrementBytesCount at the end
   Impl* define the implementation variables, Ghost* the ghosts.  The value-id pool is canonicalised (smallest free
   id, freed records reset) so that equal cache contents are equal states. *)
EXTENDS Integers, Sequences, FiniteSets, TLC

CONSTANTS Threads,      \* thread names (strings)
          Keys,         \* cache keys (strings); a key is (doc id, version string)
          CvKeys,       \* keys by current version: Put/Upsert allowed
          RevKeys,      \* keys by revision-tree id of the doc's current revision: GetActive allowed
          DocOf(_),     \* key -> document
          Contents,     \* contents a document revision can have (strings); the size is csize[c]
          Configs,      \* set of [cap, maxBytes, store, csize]
          Fails,        \* loader outcomes scripted per call: subset of {"ok","fd","fr"}
          FailKeys,     \* keys on which a scripted loader failure may be injected
          OpSet,        \* API calls explored
          FreePut,      \* TRUE: Put/Upsert may carry any content; FALSE: only the bucket's content ("one CV => one body")
          MaxOps,       \* calls per thread
          MaxSteps,     \* calls per behaviour
          Pool,         \* number of value ids
          SplitLoad,    \* TRUE: a Get's load is two steps (document read, then the rest) - needed when the bucket can change under a load
          MaxUpd,       \* metadata-only updates of the bucket (StoreUpdate) per behaviour; 0 = the bucket never changes (and the load is one step)
          SeqPrefix     \* the first SeqPrefix calls run alone, one whole call at a time (>= MaxSteps: the sequential behaviours that are replayed)

Nil     == "nil"
Missing == "missing"

VARIABLES cmap,      \* rc.cache: key -> value id (0 = absent)
          lru,       \* rc.lruList: value ids, front first
          val,       \* values: [key, c (body etc.; Nil until loaded/stored), e (value.err set), ms (memState L/S/R), b (itemBytes), cb (recount of the stored content), ld (ghost: loads)]
          numItems,  \* gauge RevisionCacheNumItems
          total,     \* gauge RevisionCacheTotalMemory (= bytesInUseForShard)
          evLock,    \* orchestrator evictionLock holder ("" = free)
          pc, th,    \* per thread: program counter, locals of the call in progress
          out,       \* per thread: what the last completed call returned
          cap, maxBytes, store, csize,    \* configuration of this behaviour; store: doc -> content | Missing
          tainted,   \* ghost: keys that received a Put/Upsert whose content is not the bucket's
          stale,     \* ghost: returned values that the bucket does not justify, for an untainted key: [k, c, old]; old = the bucket
                     \*        did hold c for k earlier (served after its invalidation), ~old = it never held it
          allowed,   \* ghost: per key, the contents that may still be served: the bucket's content, plus the earlier contents whose
                     \*        invalidation (the feed-side Remove after a StoreUpdate) has not completed yet
          okset,     \* ghost: per thread, what the call in progress may return: allowed[k] when it started + every later update
          fl,        \* ghost: per thread, the call in progress [k, op] (k = Nil: none)
          raced,     \* ghost: per thread, another call on the same key has been in progress during this call
          ever,      \* ghost: per key, every content the bucket has held
          pend,      \* ghost: keys whose invalidation is outstanding
          nupd,      \* ghost: number of StoreUpdates so far
          dev,       \* ghost: named deviations of the code that occurred in this behaviour (see Dev*)
          nops,      \* ghost: calls issued per thread
          hist       \* behaviour (exported for replay; hidden by VIEW)

impl  == <<cmap, lru, val, numItems, total, evLock, pc, th, out>>
conf  == <<cap, maxBytes, store, csize>>
ghost == <<tainted, stale, allowed, okset, fl, raced, ever, pend, nupd, dev, nops>>
vars  == <<impl, conf, ghost, hist>>
view  == <<cmap, lru, val, numItems, total, evLock, pc, th, conf, tainted, stale, allowed, okset, fl, ever, pend, nupd, dev, nops>>
        \* out is write-only and raced only classifies a stale Peek (never stale in the model): not part of the view

FreeVal == [key |-> Nil, c |-> Nil, e |-> FALSE, ms |-> "R", b |-> 0, cb |-> 0, ld |-> 0, ldg |-> FALSE]
NewVal(k) == [key |-> k, c |-> Nil, e |-> FALSE, ms |-> "L", b |-> 0, cb |-> 0, ld |-> 0, ldg |-> FALSE]   \* ldg: value.lock held by a load in progress
NoFl == [k |-> Nil, op |-> ""]
IdleTh == [op |-> "", k |-> Nil, c |-> Nil, f |-> "ok", v |-> 0, d |-> Nil, res |-> Nil, err |-> FALSE, gd |-> 0, gr |-> 0,
           need |-> 0, freed |-> 0, nrem |-> 0]
NoOut  == [op |-> "", k |-> Nil, c |-> Nil, err |-> FALSE, gd |-> 0, gr |-> 0]
OutOf(r) == [op |-> r.op, k |-> r.k, c |-> r.res, err |-> r.err, gd |-> r.gd, gr |-> r.gr]

Mapped == {k \in Keys : cmap[k] # 0}
FreeIds(cm, thr) == (1..Pool) \ ({cm[k] : k \in Keys} \cup {thr[t].v : t \in Threads})
NewId == CHOOSE i \in FreeIds(cmap, th) : \A j \in FreeIds(cmap, th) : i <= j
Norm(v, cm, thr) == LET fr == FreeIds(cm, thr) IN [i \in 1..Pool |-> IF i \in fr THEN FreeVal ELSE v[i]]

SeqRemove(s, x) == SelectSeq(s, LAMBDA y : y # x)
MoveFront(s, x) == <<x>> \o SeqRemove(s, x)

(* _numberCapacityEviction: l list, cm map, v values, n items evicted, b bytes evicted *)
RECURSIVE CapEvict(_, _, _, _, _)
CapEvict(l, cm, v, n, b) ==
  IF Len(l) <= cap THEN [l |-> l, cm |-> cm, v |-> v, n |-> n, b |-> b]
  ELSE LET w == l[Len(l)] IN
       CapEvict(SubSeq(l, 1, Len(l) - 1), [cm EXCEPT ![v[w].key] = 0], [v EXCEPT ![w].ms = "R"], n + 1,
                b + (IF v[w].ms = "S" THEN v[w].b ELSE 0))

SetImpl(cm, l, v, ni, tot, thr) ==
  /\ cmap' = cm /\ lru' = l /\ th' = thr /\ val' = Norm(v, cm, thr) /\ numItems' = ni /\ total' = tot

(* end of a call: either go on to the orchestrator's memory-eviction check or return *)
FinTh(t, thr, evict)  == IF evict /\ maxBytes > 0 THEN thr ELSE [thr EXCEPT ![t] = IdleTh]
FinPc(t, evict)       == [pc EXCEPT ![t] = IF evict /\ maxBytes > 0 THEN "mecheck" ELSE "idle"]
FinOut(t, thr, evict) == IF evict /\ maxBytes > 0 THEN out ELSE [out EXCEPT ![t] = OutOf(thr[t])]

-----------------------------------------------------------------------------
Init ==
  /\ cmap = [k \in Keys |-> 0] /\ lru = <<>> /\ val = [i \in 1..Pool |-> FreeVal]
  /\ numItems = 0 /\ total = 0 /\ evLock = ""
  /\ pc = [t \in Threads |-> "idle"] /\ th = [t \in Threads |-> IdleTh] /\ out = [t \in Threads |-> NoOut]
  /\ \E cf \in Configs : cap = cf.cap /\ maxBytes = cf.maxBytes /\ store = cf.store /\ csize = cf.csize
  /\ tainted = {} /\ stale = {} /\ dev = {} /\ nops = [t \in Threads |-> 0]
  /\ allowed = [k \in Keys |-> {store[DocOf(k)]} \ {Missing}] /\ ever = [k \in Keys |-> {store[DocOf(k)]} \ {Missing}]
  /\ okset = [t \in Threads |-> {}] /\ fl = [t \in Threads |-> NoFl] /\ pend = {} /\ nupd = 0
  /\ raced = [t \in Threads |-> FALSE]
  /\ hist = <<>>

FirstPc(op) == CASE op = "Get" -> "getval" [] op = "GetActive" -> "gadoc" [] op = "Put" -> "getval"
                 [] op = "Upsert" -> "upsert" [] op = "Remove" -> "remove" [] op = "Peek" -> "peekget"
                 [] op = "Inval" -> "remove"       \* the feed-side Remove (DocChanged) after a metadata-only update

ImplStart(t, op, k, c, f) ==
  /\ pc' = [pc EXCEPT ![t] = FirstPc(op)]
  /\ th' = [th EXCEPT ![t] = [IdleTh EXCEPT !.op = op, !.k = k, !.c = c, !.f = f]]
  /\ UNCHANGED <<cmap, lru, val, numItems, total, evLock, out>>
GhostBegin(t, op, k, c) ==
  /\ tainted' = IF op \in {"Put", "Upsert"} /\ c # store[DocOf(k)] THEN tainted \cup {k} ELSE tainted
  /\ okset' = [okset EXCEPT ![t] = allowed[k]] /\ fl' = [fl EXCEPT ![t] = [k |-> k, op |-> op]]
  /\ raced' = [u \in Threads |-> IF u = t THEN \E w \in Threads \ {t} : fl[w].k = k ELSE raced[u] \/ fl[u].k = k]

(* GetActive: bucket read first; an error returns without touching the cache *)
ImplGaDoc(t) ==
  LET thr == [th EXCEPT ![t].gd = 1, ![t].d = store[DocOf(th[t].k)]] IN      \* the document as read now
  IF th[t].f = "fd" \/ store[DocOf(th[t].k)] = Missing
  THEN LET th2 == [thr EXCEPT ![t].err = TRUE] IN
       /\ pc' = FinPc(t, FALSE) /\ out' = FinOut(t, th2, FALSE)
       /\ SetImpl(cmap, lru, val, numItems, total, FinTh(t, th2, FALSE)) /\ UNCHANGED evLock
  ELSE /\ pc' = [pc EXCEPT ![t] = "getval"] /\ th' = thr
       /\ UNCHANGED <<cmap, lru, val, numItems, total, evLock, out>>

ImplGetValue(t) ==
  LET k == th[t].k
      nx == IF th[t].op = "Put" THEN "sbytes" ELSE "load" IN
  /\ pc' = [pc EXCEPT ![t] = nx] /\ UNCHANGED <<evLock, out>>
  /\ IF cmap[k] # 0
     THEN SetImpl(cmap, MoveFront(lru, cmap[k]), val, numItems, total, [th EXCEPT ![t].v = cmap[k]])
     ELSE LET id == NewId
              r  == CapEvict(<<id>> \o lru, [cmap EXCEPT ![k] = id], [val EXCEPT ![id] = NewVal(k)], 0, 0) IN
          SetImpl(r.cm, r.l, r.v, numItems + 1 - r.n, total - r.b, [th EXCEPT ![t].v = id])

(* value.load / loadForDoc.  The value lock is held from the check until the result is written; when the bucket can change
   (MaxUpd > 0) a Get's load is two steps - GetDocument (the document is READ: snapshot th.d) and the rest - so that a
   StoreUpdate and its invalidation can fall between them.  GetActive loads from the document it read in GaDoc. *)
Split == SplitLoad
ImplLoad(t) ==
  LET v == th[t].v
      x == val[v]
      d == IF th[t].op = "GetActive" THEN th[t].d ELSE store[DocOf(th[t].k)]
      ga == th[t].op = "GetActive" IN
  /\ ~x.ldg /\ UNCHANGED evLock
  /\ IF x.c # Nil \/ x.e
     THEN \* cache hit on the value (body or cached error)
          LET thr == [th EXCEPT ![t].res = IF x.e THEN Nil ELSE x.c, ![t].err = x.e] IN
          IF x.e THEN /\ pc' = [pc EXCEPT ![t] = "frmmark"] /\ out' = out
                      /\ SetImpl(cmap, lru, val, numItems, total, thr)
                 ELSE /\ pc' = FinPc(t, FALSE) /\ out' = FinOut(t, thr, FALSE)
                      /\ SetImpl(cmap, lru, val, numItems, total, FinTh(t, thr, FALSE))
     ELSE LET docfail == (~ga) /\ (th[t].f = "fd" \/ d = Missing)      \* Get: GetDocument inside the load
              gd1 == th[t].gd + (IF ga THEN 0 ELSE 1)
              revfail == th[t].f = "fr"
              gr1 == IF docfail THEN 0 ELSE 1 IN
          IF docfail
          THEN /\ pc' = [pc EXCEPT ![t] = "frmmark"] /\ out' = out
               /\ SetImpl(cmap, lru, [val EXCEPT ![v].e = TRUE, ![v].ld = @ + 1], numItems, total,
                          [th EXCEPT ![t].err = TRUE, ![t].gd = gd1, ![t].gr = gr1])
          ELSE IF Split /\ ~ga
          THEN /\ pc' = [pc EXCEPT ![t] = "loadfin"] /\ out' = out
               /\ SetImpl(cmap, lru, [val EXCEPT ![v].ldg = TRUE], numItems, total, [th EXCEPT ![t].d = d, ![t].gd = gd1])
          ELSE IF revfail
          THEN /\ pc' = [pc EXCEPT ![t] = "frmmark"] /\ out' = out
               /\ SetImpl(cmap, lru, [val EXCEPT ![v].e = TRUE, ![v].ld = @ + 1], numItems, total,
                          [th EXCEPT ![t].err = TRUE, ![t].gd = gd1, ![t].gr = gr1])
          ELSE /\ pc' = [pc EXCEPT ![t] = "cas"] /\ out' = out
               /\ SetImpl(cmap, lru, [val EXCEPT ![v].c = d, ![v].b = csize[d], ![v].cb = csize[d], ![v].ld = @ + 1],
                          numItems, total, [th EXCEPT ![t].res = d, ![t].gd = gd1, ![t].gr = gr1])

ImplLoadFin(t) ==      \* second half of a Get's load: getRevision / getCurrentVersion on the document read earlier, write, unlock
  LET v == th[t].v
      d == th[t].d IN
  /\ UNCHANGED <<evLock, out>>
  /\ IF th[t].f = "fr"
     THEN /\ pc' = [pc EXCEPT ![t] = "frmmark"]
          /\ SetImpl(cmap, lru, [val EXCEPT ![v].e = TRUE, ![v].ld = @ + 1, ![v].ldg = FALSE], numItems, total,
                     [th EXCEPT ![t].err = TRUE, ![t].gr = 1])
     ELSE /\ pc' = [pc EXCEPT ![t] = "cas"]
          /\ SetImpl(cmap, lru, [val EXCEPT ![v].c = d, ![v].b = csize[d], ![v].cb = csize[d], ![v].ld = @ + 1, ![v].ldg = FALSE],
                     numItems, total, [th EXCEPT ![t].res = d, ![t].gr = 1])

ImplCas(t) ==
  LET v == th[t].v IN
  /\ UNCHANGED evLock
  /\ IF val[v].ms = "L"
     THEN /\ pc' = [pc EXCEPT ![t] = "add"] /\ out' = out
          /\ SetImpl(cmap, lru, [val EXCEPT ![v].ms = "S"], numItems, total, th)
     ELSE /\ pc' = FinPc(t, FALSE) /\ out' = FinOut(t, th, FALSE)
          /\ SetImpl(cmap, lru, val, numItems, total, FinTh(t, th, FALSE))

ImplAdd(t) ==
  /\ pc' = FinPc(t, TRUE) /\ out' = FinOut(t, th, TRUE) /\ UNCHANGED evLock
  /\ SetImpl(cmap, lru, val, numItems, total + val[th[t].v].b, FinTh(t, th, TRUE))

ImplFrmMark(t) ==
  /\ pc' = [pc EXCEPT ![t] = "frmrem"] /\ UNCHANGED <<evLock, out>>
  /\ SetImpl(cmap, lru, [val EXCEPT ![th[t].v].ms = "R"], numItems, total, th)

ImplFrmRem(t) ==
  LET v == th[t].v
      k == th[t].k IN
  /\ pc' = FinPc(t, FALSE) /\ out' = FinOut(t, th, FALSE) /\ UNCHANGED evLock
  /\ IF cmap[k] = v
     THEN SetImpl([cmap EXCEPT ![k] = 0], SeqRemove(lru, v), val, numItems - 1, total, FinTh(t, th, FALSE))
     ELSE SetImpl(cmap, lru, val, numItems, total, FinTh(t, th, FALSE))

ImplUpsertToCache(t) ==
  LET k   == th[t].k
      old == cmap[k]
      id  == NewId
      tot1 == IF old # 0 /\ val[old].ms = "S" THEN total - val[old].b ELSE total
      v0  == IF old # 0 THEN [val EXCEPT ![old].ms = "R"] ELSE val
      l0  == IF old # 0 THEN SeqRemove(lru, old) ELSE lru
      r   == CapEvict(<<id>> \o l0, [cmap EXCEPT ![k] = id], [v0 EXCEPT ![id] = NewVal(k)], 0, 0) IN
  /\ pc' = [pc EXCEPT ![t] = IF r.n > 0 THEN "updec" ELSE "sbytes"] /\ UNCHANGED <<evLock, out>>
  /\ SetImpl(r.cm, r.l, r.v, numItems + (IF old = 0 THEN 1 ELSE 0), tot1 - r.b, [th EXCEPT ![t].v = id, ![t].nrem = r.n])

ImplUpDec(t) ==
  /\ pc' = [pc EXCEPT ![t] = "sbytes"] /\ UNCHANGED <<evLock, out>>
  /\ SetImpl(cmap, lru, val, numItems - th[t].nrem, total, [th EXCEPT ![t].nrem = 0])

ImplSBytes(t) ==
  /\ pc' = [pc EXCEPT ![t] = "pcas"] /\ UNCHANGED <<evLock, out>>
  /\ SetImpl(cmap, lru, [val EXCEPT ![th[t].v].b = csize[th[t].c]], numItems, total, th)

ImplPCas(t) ==
  LET v == th[t].v IN
  /\ UNCHANGED <<evLock, out>>
  /\ IF val[v].ms = "L"
     THEN /\ pc' = [pc EXCEPT ![t] = "padd"] /\ SetImpl(cmap, lru, [val EXCEPT ![v].ms = "S"], numItems, total, th)
     ELSE /\ pc' = [pc EXCEPT ![t] = "pstore"] /\ SetImpl(cmap, lru, val, numItems, total, th)

ImplPAdd(t) ==
  /\ pc' = [pc EXCEPT ![t] = "pstore"] /\ UNCHANGED <<evLock, out>>
  /\ SetImpl(cmap, lru, val, numItems, total + csize[th[t].c], th)

ImplPStore(t) ==
  LET v == th[t].v
      c == th[t].c
      nv == IF val[v].c = Nil THEN [val EXCEPT ![v].c = c, ![v].e = FALSE, ![v].b = csize[c], ![v].cb = csize[c]] ELSE val IN
  /\ ~val[v].ldg                                  \* value.store takes the value lock
  /\ pc' = FinPc(t, TRUE) /\ out' = FinOut(t, th, TRUE) /\ UNCHANGED evLock
  /\ SetImpl(cmap, lru, nv, numItems, total, FinTh(t, th, TRUE))

ImplRemove(t) ==
  LET k == th[t].k
      w == cmap[k] IN
  /\ pc' = FinPc(t, FALSE) /\ out' = FinOut(t, th, FALSE) /\ UNCHANGED evLock
  /\ IF w # 0
     THEN SetImpl([cmap EXCEPT ![k] = 0], SeqRemove(lru, w), [val EXCEPT ![w].ms = "R"], numItems - 1,
                  IF val[w].ms = "S" THEN total - val[w].b ELSE total, FinTh(t, th, FALSE))
     ELSE SetImpl(cmap, lru, val, numItems, total, FinTh(t, th, FALSE))

ImplPeekGet(t) ==
  LET k == th[t].k IN
  /\ UNCHANGED evLock
  /\ IF cmap[k] # 0
     THEN /\ pc' = [pc EXCEPT ![t] = "peekread"] /\ out' = out
          /\ SetImpl(cmap, MoveFront(lru, cmap[k]), val, numItems, total, [th EXCEPT ![t].v = cmap[k]])
     ELSE /\ pc' = FinPc(t, FALSE) /\ out' = FinOut(t, th, FALSE)
          /\ SetImpl(cmap, lru, val, numItems, total, FinTh(t, th, FALSE))

ImplPeekRead(t) ==      \* value.lock.TryRLock + asDocumentRevision: a value that is being written (or whose lock is contended) reads as absent
  LET x == val[th[t].v]
      proper == IF x.e \/ x.ldg THEN Nil ELSE x.c
      \* TryRLock also fails while a writer is merely WAITING for the value lock: the lock counts as contended as long as another
      \* thread holds this value and has its load / store still ahead (between its getValue and its Load / PStore step)
      busy == \E u \in Threads \ {t} : th[u].v = th[t].v /\ pc[u] \in {"load", "loadfin", "sbytes", "pcas", "padd", "pstore"} IN
  \E r \in {proper} \cup (IF busy THEN {Nil} ELSE {}) :
    LET thr == [th EXCEPT ![t].res = r] IN
    /\ pc' = FinPc(t, FALSE) /\ out' = FinOut(t, thr, FALSE) /\ UNCHANGED evLock
    /\ SetImpl(cmap, lru, val, numItems, total, FinTh(t, thr, FALSE))

(* orchestrator: triggerMemoryEviction (only reached when maxBytes > 0) *)
RetTh(t, thr) == [thr EXCEPT ![t] = IdleTh]
ImplMeCheck(t) ==
  /\ UNCHANGED evLock
  /\ IF total > maxBytes
     THEN /\ pc' = [pc EXCEPT ![t] = "melock"] /\ UNCHANGED <<cmap, lru, val, numItems, total, th, out>>
     ELSE /\ pc' = [pc EXCEPT ![t] = "idle"] /\ out' = [out EXCEPT ![t] = OutOf(th[t])]
          /\ SetImpl(cmap, lru, val, numItems, total, RetTh(t, th))

ImplMeLock(t) ==
  /\ evLock = ""
  /\ IF total > maxBytes
     THEN /\ evLock' = t /\ pc' = [pc EXCEPT ![t] = "meevict"] /\ out' = out
          /\ SetImpl(cmap, lru, val, numItems, total, [th EXCEPT ![t].need = total - maxBytes, ![t].freed = 0])
     ELSE /\ evLock' = "" /\ pc' = [pc EXCEPT ![t] = "idle"] /\ out' = [out EXCEPT ![t] = OutOf(th[t])]
          /\ SetImpl(cmap, lru, val, numItems, total, RetTh(t, th))

ImplMeEvict(t) ==        \* one evictLRUTail; the loop goes on while freed < need and the list is not empty
  /\ UNCHANGED <<evLock, out>>
  /\ IF lru = <<>>
     THEN /\ pc' = [pc EXCEPT ![t] = "mefin"] /\ UNCHANGED <<cmap, lru, val, numItems, total, th>>
     ELSE LET w == lru[Len(lru)]
              fr == th[t].freed + (IF val[w].ms = "S" THEN val[w].b ELSE 0) IN
          /\ pc' = [pc EXCEPT ![t] = IF fr >= th[t].need THEN "mefin" ELSE "meevict"]
          /\ SetImpl([cmap EXCEPT ![val[w].key] = 0], SubSeq(lru, 1, Len(lru) - 1), [val EXCEPT ![w].ms = "R"],
                     numItems - 1, total, [th EXCEPT ![t].freed = fr])

ImplMeFin(t) ==
  /\ evLock' = "" /\ pc' = [pc EXCEPT ![t] = "idle"] /\ out' = [out EXCEPT ![t] = OutOf(th[t])]
  /\ SetImpl(cmap, lru, val, numItems, total - th[t].freed, RetTh(t, th))

-----------------------------------------------------------------------------
(* ghosts *)
IsStale(t, o) == o.c # Nil /\ o.k \notin tainted /\ o.c \notin okset[t]
GhostEnd(t) ==     \* refers to out' (determined by the Impl action or by the logged return value)
  LET o == out'[t] IN
  /\ stale' = IF IsStale(t, o)
              THEN stale \cup {[k |-> o.k, c |-> o.c, old |-> o.c \in ever[o.k],
                                torn |-> o.op = "Peek" /\ raced[t] /\ o.c \notin ever[o.k]]}   \* see NoTornPeek
              ELSE stale
  /\ okset' = [okset EXCEPT ![t] = {}] /\ fl' = [fl EXCEPT ![t] = NoFl] /\ raced' = [raced EXCEPT ![t] = FALSE]
  /\ IF fl[t].op = "Inval"        \* the invalidation has completed: from now on only the bucket's current content may be served
     THEN /\ allowed' = [allowed EXCEPT ![fl[t].k] = {store[DocOf(fl[t].k)]} \ {Missing}]
          /\ pend' = pend \ {fl[t].k}
     ELSE UNCHANGED <<allowed, pend>>
GhostRet(t) == IF pc'[t] = "idle" THEN GhostEnd(t) ELSE UNCHANGED <<stale, okset, fl, raced, allowed, pend>>

(* the bucket: a metadata-only update gives document d the content c (same revision id and version, other channels) *)
GhostStoreUpdate(d, c) ==
  LET ks == {k \in Keys : DocOf(k) = d} IN
  /\ allowed' = [k \in Keys |-> IF k \in ks THEN allowed[k] \cup {c} ELSE allowed[k]]
  /\ ever' = [k \in Keys |-> IF k \in ks THEN ever[k] \cup {c} ELSE ever[k]]
  /\ okset' = [t \in Threads |-> IF fl[t].k \in ks THEN okset[t] \cup {c} ELSE okset[t]]
  /\ pend' = pend \cup ks /\ nupd' = nupd + 1
  \* a writer whose Put/Upsert is in progress hands over what the bucket held when it started: no longer the bucket's content
  /\ tainted' = tainted \cup {fl[t].k : t \in {u \in Threads : fl[u].k \in ks /\ fl[u].op \in {"Put", "Upsert"}}}
StoreUpdateTo(d, c) ==
  /\ store[d] # Missing /\ c # store[d] /\ c # Missing
  /\ store' = [store EXCEPT ![d] = c] /\ GhostStoreUpdate(d, c)
  /\ UNCHANGED <<impl, cap, maxBytes, csize, stale, fl, raced, dev, nops>>

(* named deviations of the code from exact accounting (recorded when they happen; see NOTES.md):
   "resize"  itemBytes is overwritten (Put/Upsert SBytes, or a load finishing after a Put sized the value) while
             the value is already accounted (memState Sized) with a different size - later decrements use the new size (F8)
   "dropput" Put/Upsert accounted its revision's bytes but value.store kept the different content the value already had
   "stalefill" GetActive fills a value from a document it read BEFORE getValue although the invalidation of a later update of
             that document has already completed: the pre-update content is cached and served until evicted
   "revive"  removeValueForFailedLoad stores memStateRemoved over a value that a concurrent Put has already sized -
             the bytes added by that Put are never subtracted *)
GhostDev(t) ==
  dev' = dev \cup
    (IF \E i \in 1..Pool : val[i].ms = "S" /\ val'[i].ms = "S" /\ val[i].key = val'[i].key /\ val[i].b # val'[i].b THEN {"resize"} ELSE {})
    \cup (IF pc[t] = "frmmark" /\ val[th[t].v].ms = "S" THEN {"revive"} ELSE {})
    \cup (IF pc[t] \in {"add"} /\ val[th[t].v].b # csize[th[t].res] THEN {"resize"} ELSE {})
    \cup (IF pc[t] = "padd" /\ val[th[t].v].b # csize[th[t].c] THEN {"resize"} ELSE {})
    \cup (IF pc[t] = "load" /\ th[t].op = "GetActive" /\ val[th[t].v].c = Nil /\ ~val[th[t].v].e /\ th[t].f = "ok"
             /\ cmap[th[t].k] = th[t].v /\ th[t].d \notin allowed[th[t].k] THEN {"stalefill"} ELSE {})
    \cup (IF pc[t] = "pstore" /\ val[th[t].v].c # Nil /\ val[th[t].v].c # th[t].c THEN {"dropput"} ELSE {})

Step(t, op, k, c, f) == hist' = Append(hist, [t |-> t, op |-> op, k |-> k, c |-> c, f |-> f])

Start(t, op, k, c, f) ==
  /\ pc[t] = "idle" /\ nops[t] < MaxOps /\ Len(hist) < MaxSteps
  /\ Len(hist) <= SeqPrefix => \A u \in Threads : pc[u] = "idle"
  /\ ImplStart(t, op, k, c, f) /\ GhostBegin(t, op, k, c)
  /\ nops' = [nops EXCEPT ![t] = @ + 1] /\ Step(t, op, k, c, f)
  /\ UNCHANGED <<conf, stale, dev, allowed, ever, pend, nupd>>

StoreUpdate(d, c) ==
  /\ nupd < MaxUpd /\ Len(hist) < MaxSteps
  /\ Len(hist) <= SeqPrefix => \A u \in Threads : pc[u] = "idle"
  /\ StoreUpdateTo(d, c) /\ Step("env", "StoreUpdate", d, c, store[d])    \* f = the content before the update (to reconstruct the initial bucket)

Rest(t) == GhostRet(t) /\ GhostDev(t) /\ UNCHANGED <<conf, tainted, ever, nupd, nops, hist>>

At(t, p) == pc[t] = p
Act(t) ==
  \/ At(t, "gadoc")    /\ ImplGaDoc(t) /\ Rest(t)
  \/ At(t, "getval")   /\ ImplGetValue(t) /\ Rest(t)
  \/ At(t, "load")     /\ ImplLoad(t) /\ Rest(t)
  \/ At(t, "loadfin")  /\ ImplLoadFin(t) /\ Rest(t)
  \/ At(t, "cas")      /\ ImplCas(t) /\ Rest(t)
  \/ At(t, "add")      /\ ImplAdd(t) /\ Rest(t)
  \/ At(t, "frmmark")  /\ ImplFrmMark(t) /\ Rest(t)
  \/ At(t, "frmrem")   /\ ImplFrmRem(t) /\ Rest(t)
  \/ At(t, "upsert")   /\ ImplUpsertToCache(t) /\ Rest(t)
  \/ At(t, "updec")    /\ ImplUpDec(t) /\ Rest(t)
  \/ At(t, "sbytes")   /\ ImplSBytes(t) /\ Rest(t)
  \/ At(t, "pcas")     /\ ImplPCas(t) /\ Rest(t)
  \/ At(t, "padd")     /\ ImplPAdd(t) /\ Rest(t)
  \/ At(t, "pstore")   /\ ImplPStore(t) /\ Rest(t)
  \/ At(t, "remove")   /\ ImplRemove(t) /\ Rest(t)
  \/ At(t, "peekget")  /\ ImplPeekGet(t) /\ Rest(t)
  \/ At(t, "peekread") /\ ImplPeekRead(t) /\ Rest(t)
  \/ At(t, "mecheck")  /\ ImplMeCheck(t) /\ Rest(t)
  \/ At(t, "melock")   /\ ImplMeLock(t) /\ Rest(t)
  \/ At(t, "meevict")  /\ ImplMeEvict(t) /\ Rest(t)
  \/ At(t, "mefin")    /\ ImplMeFin(t) /\ Rest(t)

FailsOn(k) == IF k \in FailKeys THEN Fails ELSE {"ok"}
PutContents(k) == IF FreePut THEN Contents ELSE Contents \cap {store[DocOf(k)]}
Calls(t) ==
  \/ "Get" \in OpSet       /\ \E k \in Keys : \E f \in FailsOn(k) : Start(t, "Get", k, Nil, f)
  \/ "GetActive" \in OpSet /\ \E k \in RevKeys : \E f \in FailsOn(k) : Start(t, "GetActive", k, Nil, f)
  \/ "Put" \in OpSet       /\ \E k \in CvKeys : \E c \in PutContents(k) : Start(t, "Put", k, c, "ok")
  \/ "Upsert" \in OpSet    /\ \E k \in CvKeys : \E c \in PutContents(k) : Start(t, "Upsert", k, c, "ok")
  \/ "Remove" \in OpSet    /\ \E k \in Keys : Start(t, "Remove", k, Nil, "ok")
  \/ "Peek" \in OpSet      /\ \E k \in Keys : Start(t, "Peek", k, Nil, "ok")
  \/ "Inval" \in OpSet     /\ \E k \in pend : Start(t, "Inval", k, Nil, "ok")

Docs == {DocOf(k) : k \in Keys}
Next == \/ \E t \in Threads : Calls(t) \/ Act(t)
        \/ \E d \in Docs, c \in Contents : StoreUpdate(d, c)
Spec == Init /\ [][Next]_vars

-----------------------------------------------------------------------------
(* C16 *)
Quiescent == \A t \in Threads : pc[t] = "idle"
MappedIds == {cmap[k] : k \in Mapped}
RECURSIVE SumCB(_)
SumCB(s) == IF s = <<>> THEN 0 ELSE val[s[1]].cb + SumCB(Tail(s))                                   \* recount of stored contents
RECURSIVE SumIB(_)
SumIB(s) == IF s = <<>> THEN 0 ELSE (IF val[s[1]].ms = "S" THEN val[s[1]].b ELSE 0) + SumIB(Tail(s))  \* itemBytes of sized values

Bounded     == Len(lru) <= cap                                   \* every state is a state with rc.lock free
ItemsExact  == Quiescent => numItems = Cardinality(Mapped)
BytesExact  == Quiescent => total = SumCB(lru)              \* gauge = recount of what the cache actually holds
EmptyIsZero == (Quiescent /\ Mapped = {}) => (numItems = 0 /\ total = 0)
Fresh       == \A x \in stale : x.old \/ x.torn       \* nothing is served that the bucket never held for that key
(* Peek reads the value WITHOUT its lock (asDocumentRevision vs value.store / load: a data race).  The model reads atomically, so this
   never fails in the model; on recorded real runs a Peek that overlapped another call on the same key and returned something the
   bucket never held is classified here (a partially written revision) instead of under Fresh. *)
NoTornPeek  == \A x \in stale : ~x.torn
FreshAfterInvalidate == \A x \in stale : ~x.old         \* once the invalidation of an update has completed, no later call returns the pre-update content
FreshAfterInvalidateND == "stalefill" \in dev \/ FreshAfterInvalidate
(* the accounting clauses hold exactly in every behaviour free of the named deviations *)
NoDev            == dev = {}
OnlyStalefill    == dev \subseteq {"stalefill"}
OnlyRevive       == dev \subseteq {"revive"}      \* when writers hand over what the bucket holds, the only deviation left
BytesExactND     == NoDev => BytesExact
EmptyIsZeroND    == NoDev => EmptyIsZero

(* design / auxiliary invariants *)
SingleFlight == \A i \in 1..Pool : val[i].ld <= 1
ListMapBij ==
  /\ \A i, j \in 1..Len(lru) : i # j => lru[i] # lru[j]
  /\ {lru[i] : i \in 1..Len(lru)} = MappedIds
  /\ \A k \in Mapped : val[cmap[k]].key = k
  /\ \A k1, k2 \in Mapped : k1 # k2 => cmap[k1] # cmap[k2]
RECURSIVE SumNrem(_)
SumNrem(S) == IF S = {} THEN 0 ELSE LET x == CHOOSE y \in S : TRUE IN th[x].nrem + SumNrem(S \ {x})
PendingDec == SumNrem(Threads)
ItemsUnlocked == numItems - PendingDec = Cardinality(Mapped)      \* numItems is exact up to the deferred Upsert decrement
SizedAtRest == Quiescent => \A k \in Mapped : val[cmap[k]].ms = "S" /\ val[cmap[k]].c # Nil /\ ~val[cmap[k]].e
ItemBytesTrack == (Quiescent /\ NoDev) => \A k \in Mapped : val[cmap[k]].b = val[cmap[k]].cb
BytesByItemBytes == (Quiescent /\ NoDev) => total = SumIB(lru)
PoolOK == \A t \in Threads : pc[t] \in {"getval", "upsert"} => FreeIds(cmap, th) # {}
MemBounded == (Quiescent /\ maxBytes > 0 /\ NoDev) => total <= maxBytes
TypeOK == /\ numItems \in Int /\ total \in Int /\ evLock \in Threads \cup {""}
          /\ \A t \in Threads : th[t].v \in 0..Pool
=============================================================================
