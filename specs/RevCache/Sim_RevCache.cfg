\* longer random sequences of whole calls over four keys of two documents, more configurations (-simulate, SimNext: one successor per call kind)
CONSTANT Threads = {"t1"}
CONSTANT Keys = {"k1", "k2", "k3", "k4"}
CONSTANT CvKeys = {"k1", "k3"}
CONSTANT RevKeys = {"k2", "k4"}
CONSTANT DocOf <- MCDocOf
CONSTANT Contents = {"c1", "c2"}
CONSTANT Configs <- CfSim
CONSTANT Fails = {"ok", "fd", "fr"}
CONSTANT FailKeys = {"k1", "k2", "k3", "k4"}
CONSTANT OpSet = {"Get", "GetActive", "Put", "Upsert", "Remove", "Peek", "Inval"}
CONSTANT FreePut = TRUE
CONSTANT MaxOps = 10
CONSTANT MaxSteps = 10
CONSTANT SplitLoad = TRUE
CONSTANT MaxUpd = 2
CONSTANT Pool = 6
CONSTANT SeqPrefix = 1000000
SPECIFICATION SimSpec
INVARIANT BehaviourExport
CHECK_DEADLOCK FALSE
