\* pass C: the model run between Begin and End must reproduce the recorded state and outputs; auxiliary invariants
CONSTANT Threads = {"t1", "t2", "t3", "t4"}
CONSTANT Keys <- TKeys
CONSTANT CvKeys <- TCvKeys
CONSTANT RevKeys <- TRevKeys
CONSTANT DocOf <- TDocOf
CONSTANT Contents = {}
CONSTANT Configs = {}
CONSTANT Fails = {"ok", "fd", "fr"}
CONSTANT FailKeys <- TKeys
CONSTANT OpSet = {"Get", "GetActive", "Put", "Upsert", "Remove", "Peek", "Inval"}
CONSTANT FreePut = TRUE
CONSTANT MaxOps = 1000000
CONSTANT MaxSteps = 1000000
CONSTANT SplitLoad = TRUE
CONSTANT MaxUpd = 1000000
CONSTANT Pool = 12
CONSTANT SeqPrefix = 1000000
CONSTRAINT Progress
POSTCONDITION Accept
CHECK_DEADLOCK FALSE
SPECIFICATION CSpec
INVARIANT SingleFlight
INVARIANT ListMapBij
INVARIANT ItemsUnlocked
INVARIANT PoolOK
INVARIANT BytesExactND
INVARIANT ItemBytesTrack
