\* staleness clause: one metadata-only update of the bucket (StoreUpdate) and its feed-side invalidation (Inval = Remove of a key)
\* interleaved with Get/Peek by two threads; a Get's load is two steps (document read, then the rest).  Strict FreshAfterInvalidate.
CONSTANT Threads = {"t1", "t2"}
CONSTANT Keys = {"k1", "k2"}
CONSTANT CvKeys = {"k1"}
CONSTANT RevKeys = {"k2"}
CONSTANT DocOf <- MCDocOf
CONSTANT Contents = {"c1", "c2"}
CONSTANT Configs <- CfStale
CONSTANT Fails = {"ok"}
CONSTANT FailKeys = {}
CONSTANT OpSet = {"Get", "Peek", "Inval"}
CONSTANT FreePut = FALSE
CONSTANT MaxOps = 3
CONSTANT MaxSteps = 4
CONSTANT SplitLoad = TRUE
CONSTANT MaxUpd = 1
CONSTANT Pool = 4
CONSTANT SeqPrefix = 0
SPECIFICATION Spec
VIEW view
INVARIANT Fresh
INVARIANT FreshAfterInvalidate
INVARIANT Bounded
INVARIANT ItemsExact
INVARIANT BytesExact
INVARIANT EmptyIsZero
INVARIANT NoDev
INVARIANT SingleFlight
INVARIANT ListMapBij
INVARIANT PoolOK
CHECK_DEADLOCK FALSE
