\* as MC_RevCache_stale.cfg plus GetActive, which fills from a document read before getValue: FreshAfterInvalidate modulo the named deviation "stalefill"
CONSTANT Threads = {"t1", "t2"}
CONSTANT Keys = {"k1", "k2"}
CONSTANT CvKeys = {"k1"}
CONSTANT RevKeys = {"k2"}
CONSTANT DocOf <- MCDocOf
CONSTANT Contents = {"c1", "c2"}
CONSTANT Configs <- CfStale
CONSTANT Fails = {"ok"}
CONSTANT FailKeys = {}
CONSTANT OpSet = {"Get", "GetActive", "Peek", "Inval"}
CONSTANT FreePut = FALSE
CONSTANT MaxOps = 3
CONSTANT MaxSteps = 4
CONSTANT SplitLoad = TRUE
CONSTANT MaxUpd = 1
CONSTANT Pool = 4
CONSTANT SeqPrefix = 0
SPECIFICATION Spec
VIEW view
INVARIANT Fresh
INVARIANT FreshAfterInvalidateND
INVARIANT Bounded
INVARIANT ItemsExact
INVARIANT BytesExact
INVARIANT EmptyIsZero
INVARIANT OnlyStalefill
INVARIANT SingleFlight
INVARIANT ListMapBij
INVARIANT PoolOK
CHECK_DEADLOCK FALSE
