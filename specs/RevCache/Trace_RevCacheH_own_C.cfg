\* (own tests of the repository: key / thread name pools) step-level pass C (hook H3): every recorded event is the model action of that thread, with the recorded effect
CONSTANT Threads <- OThreads
CONSTANT Keys <- OKeys
CONSTANT CvKeys = {}
CONSTANT RevKeys = {}
CONSTANT DocOf <- HDocOf
CONSTANT Contents = {}
CONSTANT Configs = {}
CONSTANT Fails = {"ok", "fd", "fr"}
CONSTANT FailKeys = {}
CONSTANT OpSet = {"Get", "GetActive", "Put", "Upsert", "Remove", "Peek", "Inval"}
CONSTANT FreePut = TRUE
CONSTANT MaxOps = 1000000
CONSTANT MaxSteps = 1000000
CONSTANT SplitLoad = FALSE
CONSTANT MaxUpd = 1000000
CONSTANT Pool = 64
CONSTANT SeqPrefix = 0
CONSTRAINT Progress
POSTCONDITION Accept
CHECK_DEADLOCK FALSE
SPECIFICATION HCSpec
VIEW hview
INVARIANT SingleFlight
INVARIANT ListMapBij
INVARIANT ItemsUnlocked
INVARIANT PoolOK
INVARIANT Bounded
INVARIANT BytesExactND
INVARIANT EmptyIsZeroND
INVARIANT ListMapR
