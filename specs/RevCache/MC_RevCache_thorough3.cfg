\* thorough: three threads, one call each, all concurrent
CONSTANT Threads = {"t1", "t2", "t3"}
CONSTANT Keys = {"k1", "k2"}
CONSTANT CvKeys = {"k1"}
CONSTANT RevKeys = {"k2"}
CONSTANT DocOf <- MCDocOf
CONSTANT Contents = {"c1", "c2"}
CONSTANT Configs <- Cf3
CONSTANT Fails = {"ok", "fd"}
CONSTANT FailKeys = {"k1", "k2"}
CONSTANT OpSet = {"Get", "GetActive", "Put", "Upsert", "Remove", "Peek"}
CONSTANT FreePut = TRUE
CONSTANT MaxOps = 1
CONSTANT MaxSteps = 3
CONSTANT SplitLoad = FALSE
CONSTANT MaxUpd = 0
CONSTANT Pool = 5
CONSTANT SeqPrefix = 0
SPECIFICATION Spec
VIEW view
INVARIANT Bounded
INVARIANT ItemsExact
INVARIANT BytesExactND
INVARIANT EmptyIsZeroND
INVARIANT Fresh
INVARIANT FreshAfterInvalidate
INVARIANT SingleFlight
INVARIANT ListMapBij
INVARIANT ItemsUnlocked
INVARIANT SizedAtRest
INVARIANT MemBounded
INVARIANT ItemBytesTrack
INVARIANT BytesByItemBytes
INVARIANT PoolOK
INVARIANT TypeOK
CHECK_DEADLOCK FALSE
