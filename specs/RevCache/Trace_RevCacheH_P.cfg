\* step-level pass P (hook H3): recorded scalars at every step, the full property on real snapshots at quiescence
CONSTANT Threads = {"t1", "t2", "t3", "t4"}
CONSTANT Keys <- TKeys
CONSTANT CvKeys = {}
CONSTANT RevKeys = {}
CONSTANT DocOf <- HDocOf
CONSTANT Contents = {}
CONSTANT Configs = {}
CONSTANT Fails = {"ok", "fd", "fr"}
CONSTANT FailKeys = {}
CONSTANT OpSet = {"Get", "GetActive", "Put", "Upsert", "Remove", "Peek", "Inval"}
CONSTANT FreePut = TRUE
CONSTANT MaxOps = 1000000
CONSTANT MaxSteps = 1000000
CONSTANT SplitLoad = FALSE
CONSTANT MaxUpd = 1000000
CONSTANT Pool = 10
CONSTANT SeqPrefix = 0
CONSTRAINT Progress
POSTCONDITION Accept
CHECK_DEADLOCK FALSE
SPECIFICATION HPSpec
INVARIANT BoundedR
INVARIANT ItemsUnlockedR
INVARIANT SingleFlightR
INVARIANT Fresh
INVARIANT FreshAfterInvalidate
INVARIANT NoTornPeek
INVARIANT Bounded
INVARIANT ItemsExact
INVARIANT BytesExact
INVARIANT EmptyIsZero
