--------------------------- MODULE Trace_RevCacheH ---------------------------
(* Step-level validation of runs recorded through hook H3 (hooks/H3-revcache.patch): one recorded event per atomic step of the
   real revision cache, in the order in which the steps took effect (every hooked step runs inside one global mutex).
   Lines (checks/C16.py convert_steps builds them from the hook events; harness lines are emitted into the same stream):
     Reset / Begin / End / Quiesce / StoreUpdate        as in Trace_RevCache; the store of a Reset line is per KEY (DocOf = identity)
     {a:"Step", t, ev, ...facts}    ev = the specification action: GetValue UpsertToCache UpDec Load Cas Add SBytes PCas PAdd PStore
                                    FrmMark FrmRem Remove PeekGet MeLock MeEvict MeFin
                                    facts: items, total (gauges after the step); len, maplen (rc.lruList.Len(), len(rc.cache); steps under
                                    rc.lock only); hit / ok / found / stored / removed; ms (memState before a Swap), msnow (after), bytes,
                                    n, nrem, need, freed, vid (value identity, renumbered), vict = [[ms, bytes]..] capacity-eviction victims
   Pass P (HPSpec): recorded scalars only - Bounded (list length <= capacity) and ItemsExact up to the deferred Upsert decrement at every step
     made under rc.lock, SingleFlight (at most one real load per value), and the full property on the real snapshots at quiescence.
   Pass C (HCSpec): the model's threads replay the run: every event must be the model action of that thread at that point and leave the
     model with the recorded gauges / sizes / flags; steps that have no hook (GetActive's document read, the over-capacity check, Peek's
     read) are taken silently between events. *)
EXTENDS Trace_RevCache

HDocOf(k) == k
(* static name pools (a definition that reads the trace is re-evaluated at every use): the harness driver uses k1..k8 / t1..t4;
   for the repository's own tests checks/C16.py renames the keys and goroutines of one cache instance into these pools *)
OKeys    == {"k" \o ToString(i) : i \in 1..112}
OThreads == {"t" \o ToString(i) : i \in 1..32}

VARIABLES ritems, rtotal,   \* recorded gauges after the last step
          rlen, rmap,       \* recorded rc.lruList.Len() / len(rc.cache) at the last step made under rc.lock
          pendR,            \* recorded: Upsert capacity-eviction decrements not yet applied (sum of nrem minus UpDec n)
          loadedR, dblR,    \* recorded: values that have had a real load; a value was loaded twice
          cmpI              \* the item gauge belongs to this cache alone (not shared between shards)
hv == <<ritems, rtotal, rlen, rmap, pendR, loadedR, dblR, cmpI>>
hvars == <<tvars, hv>>

HInit == TInit /\ ritems = 0 /\ rtotal = 0 /\ rlen = 0 /\ rmap = 0 /\ pendR = 0 /\ loadedR = {} /\ dblR = FALSE /\ cmpI = TRUE
HReset == /\ Reset
          /\ ritems' = 0 /\ rtotal' = 0 /\ rlen' = 0 /\ rmap' = 0 /\ pendR' = 0 /\ loadedR' = {} /\ dblR' = FALSE
          /\ cmpI' = (IF Has(Trace[l], "cmpItems") THEN Trace[l].cmpItems ELSE TRUE)

(* ------------------------------- pass P ------------------------------- *)
RecordStep(e) ==
  /\ ritems' = (IF Has(e, "items") THEN e.items ELSE ritems) /\ rtotal' = (IF Has(e, "total") THEN e.total ELSE rtotal)
  /\ rlen' = (IF Has(e, "len") THEN e.len ELSE rlen) /\ rmap' = (IF Has(e, "maplen") THEN e.maplen ELSE rmap)
  /\ pendR' = pendR + (IF e.ev = "UpsertToCache" THEN e.nrem ELSE 0) - (IF e.ev = "UpDec" THEN e.nn ELSE 0)
  /\ loadedR' = (IF e.ev = "Load" /\ ~e.hit THEN loadedR \cup {e.vid} ELSE loadedR)
  /\ dblR' = (dblR \/ (e.ev = "Load" /\ ~e.hit /\ e.vid \in loadedR))
  /\ UNCHANGED cmpI
HPStep == /\ Ev("Step") /\ RecordStep(Trace[l]) /\ UNCHANGED tvars_but_l
HPQuiesce == /\ PQuiesce
             /\ ritems' = Trace[l].S.numItems /\ rtotal' = Trace[l].S.total /\ rlen' = Len(Trace[l].S.lru) /\ rmap' = Len(Trace[l].S.map)
             /\ UNCHANGED <<pendR, loadedR, dblR, cmpI>>
HPNext == HReset \/ (PBegin /\ UNCHANGED hv) \/ (PEnd /\ UNCHANGED hv) \/ HPQuiesce \/ (PStoreUpdate /\ UNCHANGED hv) \/ HPStep
HPSpec == HInit /\ [][HPNext]_hvars

BoundedR       == rlen <= cap                               \* recorded under rc.lock at the end of the critical section
ItemsUnlockedR == cmpI => ritems - pendR = rmap             \* the item gauge is exact up to the decrement Upsert applies after unlocking
ListMapR       == rlen = rmap
SingleFlightR  == ~dblR

(* ------------------------------- pass C ------------------------------- *)
PcOf(ev) == CASE ev = "GetValue" -> "getval" [] ev = "UpsertToCache" -> "upsert" [] ev = "UpDec" -> "updec" [] ev = "Load" -> "load"
              [] ev = "Cas" -> "cas" [] ev = "Add" -> "add" [] ev = "SBytes" -> "sbytes" [] ev = "PCas" -> "pcas" [] ev = "PAdd" -> "padd"
              [] ev = "PStore" -> "pstore" [] ev = "FrmMark" -> "frmmark" [] ev = "FrmRem" -> "frmrem" [] ev = "Remove" -> "remove"
              [] ev = "PeekGet" -> "peekget" [] ev = "MeLock" -> "melock" [] ev = "MeEvict" -> "meevict" [] ev = "MeFin" -> "mefin"

StepFacts(e, t) ==       \* pre-state: unprimed, post-state: primed
  LET v == th[t].v
      k == th[t].k IN
  /\ (Has(e, "items") /\ cmpI) => numItems' = e.items
  /\ Has(e, "total") => total' = e.total
  /\ Has(e, "len") => (Len(lru') = e.len /\ Cardinality({x \in Keys : cmap'[x] # 0}) = e.maplen)
  /\ CASE e.ev = "GetValue" -> /\ k = e.k /\ (cmap[k] # 0) = e.hit
                               /\ val'[th'[t].v].ms = e.msnow
       [] e.ev = "UpsertToCache" -> /\ k = e.k /\ (cmap[k] # 0) = (e.oldms # "")
                                    /\ (cmap[k] # 0 => val[cmap[k]].ms = e.oldms)
                                    /\ th'[t].nrem = e.nrem
       [] e.ev = "UpDec" -> th[t].nrem = e.nn
       [] e.ev = "Load" -> /\ (val[v].c # Nil \/ val[v].e) = e.hit
                           /\ IF e.hit THEN val[v].e = e.err /\ (~e.err => val[v].b = e.bytes)         \* (after a hit the thread lets go of the value)
                                    ELSE val'[v].e = e.err /\ (~e.err => val'[v].b = e.bytes)
       [] e.ev = "Cas" -> (val[v].ms = "L") = e.ok
       [] e.ev = "PCas" -> (val[v].ms = "L") = e.ok /\ val'[v].ms = e.msnow
       [] e.ev \in {"Add", "PAdd"} -> total' - total = e.bytes
       [] e.ev = "SBytes" -> val'[v].b = e.bytes
       [] e.ev = "PStore" -> (val[v].c = Nil) = e.stored
       [] e.ev = "FrmMark" -> val[v].ms = e.ms
       [] e.ev = "FrmRem" -> (cmap[k] = v) = e.removed
       [] e.ev = "Remove" -> /\ k = e.k /\ (cmap[k] # 0) = e.found
                             /\ (e.found => val[cmap[k]].ms = e.ms /\ val[cmap[k]].b = e.bytes)
       [] e.ev = "PeekGet" -> k = e.k /\ (cmap[k] # 0) = e.found
       [] e.ev = "MeLock" -> (IF total > maxBytes THEN total - maxBytes ELSE 0) = e.need
       [] e.ev = "MeEvict" -> /\ (lru # <<>>) = e.found
                              /\ (e.found => val[lru[Len(lru)]].ms = e.ms /\ val[lru[Len(lru)]].b = e.bytes)
       [] e.ev = "MeFin" -> th[t].freed = e.freed

HCBegin == CBegin /\ UNCHANGED hv
HCStep ==
  /\ l <= TraceLen /\ Trace[l].a = "Step"
  /\ LET e == Trace[l] IN
       /\ pc[e.t] = PcOf(e.ev) /\ Act(e.t) /\ StepFacts(e, e.t) /\ RecordStep(e)
  /\ l' = l + 1 /\ UNCHANGED mode
(* steps without a hook.  They are taken lazily, right before the next recorded line of the same thread (GetActive's document
   read and Peek's read touch no shared state, so their exact position is immaterial).  The orchestrator's over-capacity check reads
   the byte gauge at an unrecorded moment between the thread's neighbouring events: both outcomes are admitted here, the recorded
   MeLock step that follows re-reads the gauge and is checked exactly. *)
HMeCheck(t) ==
  /\ pc[t] = "mecheck" /\ UNCHANGED evLock
  /\ \/ (pc' = [pc EXCEPT ![t] = "melock"] /\ UNCHANGED <<cmap, lru, val, numItems, total, th, out>>)
     \/ (/\ pc' = [pc EXCEPT ![t] = "idle"] /\ out' = [out EXCEPT ![t] = OutOf(th[t])]
         /\ SetImpl(cmap, lru, val, numItems, total, RetTh(t, th)))
  /\ Rest(t)
HCSilent ==
  /\ l <= TraceLen /\ Has(Trace[l], "t")
  /\ LET t == Trace[l].t IN
       \/ (pc[t] \in {"gadoc", "peekread"} /\ Act(t))
       \/ HMeCheck(t)
       \* Peek's TryRLock happened somewhere between its PeekGet and its return: besides the lazy position it may be placed right
       \* before a step of another thread that works on the same value (there the value lock is contended and Peek may read absent)
       \/ (Trace[l].a = "Step" /\ \E u \in Threads \ {t} : pc[u] = "peekread" /\ th[u].v # 0 /\ th[u].v = th[t].v /\ Act(u))
  /\ UNCHANGED <<l, mode, hv>>
HCEnd ==
  /\ Ev("End")
  /\ LET r == Trace[l] IN
       /\ pc[r.t] = "idle"
       /\ (Has(r, "nf") \/ (out[r.t].c = r.c /\ out[r.t].err = r.err /\ out[r.t].gd = r.gd /\ out[r.t].gr = r.gr))
  /\ UNCHANGED <<vars, mode, hv>>
SameAsSnapshot(S) ==
  /\ Len(lru) = Len(S.lru)
  /\ \A i \in 1..Len(S.lru) :
       LET x == val[lru[i]]
           y == S.vals[S.lru[i]] IN
       x.key = y.key /\ x.c = y.c /\ x.e = y.e /\ x.ms = y.ms /\ x.b = y.b /\ x.cb = y.cb
  /\ {k \in Keys : cmap[k] # 0} = {S.map[i][1] : i \in 1..Len(S.map)}
  /\ (cmpI => numItems = S.numItems) /\ total = S.total
HCQuiesce ==
  /\ Ev("Quiesce")
  /\ \A t \in Threads : pc[t] = "idle"
  /\ SameAsSnapshot(Trace[l].S)
  /\ UNCHANGED <<vars, mode, hv>>
HCNext == HReset \/ HCBegin \/ HCStep \/ HCSilent \/ HCEnd \/ HCQuiesce \/ (PStoreUpdate /\ UNCHANGED hv)
HCSpec == HInit /\ [][HCNext]_hvars
hview == <<cmap, lru, val, numItems, total, evLock, pc, th, conf, ghost, l, mode, hv>>     \* own tests record no return values: out is immaterial
=============================================================================
