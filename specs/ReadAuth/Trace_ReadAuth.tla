--------------------------- MODULE Trace_ReadAuth ---------------------------
(* Binding of ReadAuth to the REST / BLIP read surfaces (harness/rest/c02_readauth_test.go).  ndjson lines:
     Meta  {pub : ids of all documents that were ever written to the public channel, n, ...}           (line 1)
     Case  {c, pass, shape, role, users, revs : <<[id, parent, del, rank, chans]>>, cur, win, doc}      (re-initialises: Reset)
     Read  {c, pass, surf, fl, u, rev, st, mk, am, ents : <<[rev, props, err, own]>>, listed, foreign, rq}
   Case carries only INPUTS (what the harness wrote: grants, the channels of every revision) plus `cur`, the
   revision the gateway reports as current to the administrator.  Read carries the projection of one real response
   given to a non-admin requester.
   Pass P: resp := the recorded response; the four property invariants are evaluated on it against the ground truth.
   Pass C: additionally the response must be inside the design's envelope (Conforms) and `cur` must be the winner the
           revision-tree rule predicts. *)
EXTENDS ReadAuth, TraceLib

VARIABLES l, pub
tvars == <<cfg, cur, resp, hist, l, pub>>

Line == Trace[l]
Ev(a) == l <= TraceLen /\ Line.a = a /\ l' = l + 1

StubProps == {"_id", "_rev", "_removed", "_deleted", "_revisions", "_cv", "_exp"}
KindOf(e) == IF e.err THEN "err" ELSE IF Range(e.props) \subseteq StubProps THEN "stub" ELSE "body"

CfgOf(t) ==
  [shape |-> t.shape, role |-> Range(t.role),
   users |-> [n \in UserNames |-> [direct |-> Range(t.users[n].direct), inRole |-> t.users[n].inRole]],
   revs  |-> [i \in DOMAIN t.revs |-> [id |-> t.revs[i].id, parent |-> t.revs[i].parent, del |-> t.revs[i].del,
                                        rank |-> t.revs[i].rank, chans |-> Range(t.revs[i].chans)]]]

VOf(t) ==
  CASE t.surf = "GetDoc"        -> [atts |-> t.fl.attachments, byCV |-> t.fl.byCV]
    [] t.surf = "OpenRevs"      -> [mode |-> t.fl.mode]
    [] t.surf = "BulkGet"       -> [atts |-> t.fl.attachments]
    [] t.surf = "AllDocs"       -> [body |-> t.fl.include_docs, keys |-> t.fl.keys # "none"]
    [] t.surf = "Changes"       -> [body |-> t.fl.include_docs, filter |-> t.fl.filter, active |-> t.fl.active_only]
    [] t.surf = "GetAttachment" -> [meta |-> t.fl.meta]
    [] t.surf = "BlipChanges"   -> [removals |-> t.fl.removals]
    [] t.surf = "BlipRev"       -> [delta |-> t.fl.delta, removals |-> t.fl.removals]
    [] t.surf = "BlipGetAttachment" -> [during |-> t.fl.during, single |-> t.fl.single]
    [] OTHER                    -> [x |-> 0]

RespOf(t) ==
  [surf |-> t.surf, u |-> t.u, rev |-> t.rev, v |-> VOf(t), st |-> IF t.st >= 200 /\ t.st < 300 THEN "ok" ELSE "err",
   mk |-> Range(t.mk), am |-> Range(t.am),
   ents |-> {[rev |-> t.ents[i].rev, kind |-> KindOf(t.ents[i])] : i \in DOMAIN t.ents},
   listed |-> t.listed, foreign |-> Range(t.foreign), pub |-> pub]

NoCfg == [shape |-> "", role |-> {}, users |-> [n \in UserNames |-> GuestType], revs |-> <<>>]
TInit == l = 1 /\ pub = {} /\ cfg = NoCfg /\ cur = "" /\ resp = None /\ hist = <<>>

Meta == Ev("Meta") /\ pub' = Range(Line.pub) /\ UNCHANGED <<cfg, cur, resp, hist>>
(* Reset: a new case *)
LoggedCase == cfg' = CfgOf(Line) /\ cur' = Line.cur /\ resp' = None /\ hist' = <<>> /\ UNCHANGED pub
LoggedRead == resp' = RespOf(Line) /\ UNCHANGED <<cur, pub>> /\ hist' = <<>>
RdOf(t) == Rd(t.surf, t.u, t.rev, VOf(t))

PCase == Ev("Case") /\ LoggedCase
PRead == Ev("Read") /\ LoggedRead /\ GhostRead(RdOf(Line))
PNext == Meta \/ PCase \/ PRead

(* Collect mode (environment variable VERIF_C02_COLLECT): instead of stopping at the first failing line the same
   predicates are evaluated on every line and each failure is printed as <<"VIOL", invariant, line, class>> /
   <<"NONCONF", line>>; used by checks/C02.py after a normal run has failed, to key every distinct failure. *)
Collect == "VERIF_C02_COLLECT" \in DOMAIN IOEnv
Soft(name, ok, cls) == ok \/ (Collect /\ PrintT(<<"VIOL", name, l - 1, cls>>))
(* which named deviation of the code (ReadAuth!Conforms) explains a disclosure - used only to KEY the failure *)
LeakClass ==
  LET u  == resp.u
      lb == (resp.mk \ Readable(u)) \cup {e.rev : e \in {x \in resp.ents : x.kind = "body" /\ x.rev \in RevIds /\ ~MayRead(u, x.rev)}}
      la == resp.am \ Readable(u)
      bk == BackupFiledUnderWinner(u)
      da == DocLevelAtt(u)
      unknown == \E x \in resp.ents : x.kind = "body" /\ x.rev \notin RevIds IN
  IF unknown THEN "other"
  ELSE IF (lb \cup la) # {} /\ (lb \cup la) \subseteq bk THEN "BackupFiledUnderWinner"
  ELSE IF lb = {} /\ la # {} /\ la \subseteq da THEN "DocLevelAtt"
  ELSE IF (lb \cup la) # {} /\ lb \subseteq bk /\ la \subseteq (bk \cup da) THEN "BackupFiledUnderWinner+DocLevelAtt"
  ELSE "other"
P_NoLeak          == Soft("NoLeak", NoLeak, LeakClass)
P_StubOnly        == Soft("StubOnly", StubOnly, LeakClass)
P_NoExistenceLeak == Soft("NoExistenceLeak", NoExistenceLeak, "other")
(* how the requester is entitled to the current revision - used only to KEY an availability failure *)
AvailClass ==
  LET u == resp.u
      c == Rev(cur).chans
      d == cfg.users[u].direct
      r == IF cfg.users[u].inRole THEN cfg.role ELSE {} IN
  (IF c = {} THEN "doc-in-no-channel" ELSE "doc-in-channel") \o "/" \o
  (IF c \cap d # {} THEN "direct" ELSE IF Pub \in c THEN "public" ELSE IF c \cap r # {} THEN "via-role"
   ELSE IF Star \in d THEN "star-direct" ELSE "star-via-role")
P_Available       == Soft("Available", Available, AvailClass)

CCase == Ev("Case") /\ LoggedCase /\ (cur' = WinnerIn(cfg'.revs) \/ (Collect /\ PrintT(<<"NONCONF", l>>)))
CRead == Ev("Read") /\ LoggedRead /\ GhostRead(RdOf(Line)) /\ (ImplRead(RdOf(Line)) \/ (Collect /\ PrintT(<<"NONCONF", l>>)))
CNext == Meta \/ CCase \/ CRead

PSpec == TInit /\ [][PNext]_tvars
CSpec == TInit /\ [][CNext]_tvars

Progress == Mark(l)
Accept == PrintHWM
=============================================================================
