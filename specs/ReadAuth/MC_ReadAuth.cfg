CONSTANT GrantSets <- GrantSetsQ
CONSTANT U2Types <- U2TypesQ
CONSTANT WideSets <- WideSetsC
CONSTANT NarrowSets <- NarrowSetsQ
CONSTANT Shapes <- AllShapes
CONSTANT Blip = TRUE
INIT Init
NEXT MCNext
VIEW view
CHECK_DEADLOCK FALSE
INVARIANT TypeOK
INVARIANT NoLeak
INVARIANT StubOnly
INVARIANT NoExistenceLeak
INVARIANT Available
INVARIANT IdealConforms
INVARIANT CaseExport
