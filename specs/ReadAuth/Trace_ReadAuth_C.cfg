CONSTANT GrantSets = {}
CONSTANT U2Types = {}
CONSTANT WideSets = {}
CONSTANT NarrowSets = {}
CONSTANT Shapes = {}
CONSTANT Blip = TRUE
INIT TInit
NEXT CNext
CONSTRAINT Progress
POSTCONDITION Accept
CHECK_DEADLOCK FALSE
