CONSTANT GrantSets = {}
CONSTANT U2Types = {}
CONSTANT WideSets = {}
CONSTANT NarrowSets = {}
CONSTANT Shapes = {}
CONSTANT Blip = TRUE
INIT TInit
NEXT PNext
CONSTRAINT Progress
POSTCONDITION Accept
CHECK_DEADLOCK FALSE
INVARIANT P_NoLeak
INVARIANT P_StubOnly
INVARIANT P_NoExistenceLeak
INVARIANT P_Available
