--------------------------- MODULE MC_ReadAuth ---------------------------
(* Exhaustive evaluation of the C02 predicates on the design (Ideal responses) over the whole case product, and
   export of the cases.  Model states = access configurations x document shapes (initial states); every read
   (surface x abstract flags x user x revision) is one successor.  It is a product, not a deep search: depth 2.

   Every case is printed as <<"BEH", json>> when its initial state is checked (Beh-style export; initial states are
   generated and checked by one thread before the workers start, so the lines are whole) - these are the cases the
   harness then hosts side by side on the real code.  With the environment variable VERIF_C02_EXPORT set only the
   initial states are generated (cheap export without the exhaustive run). *)
EXTENDS ReadAuth, Json, IOUtils

Exporting == "VERIF_C02_EXPORT" \in DOMAIN IOEnv

A == "A"
B == "B"
GrantSetsQ  == {{}, {A}, {Star}}
GrantSetsT  == {{}, {A}, {Star}, {A, Star}}
U2TypesQ    == {[direct |-> {B}, inRole |-> FALSE]}
U2TypesT    == {[direct |-> {B}, inRole |-> FALSE], [direct |-> {}, inRole |-> TRUE]}
WideSetsC   == {{}, {A}, {B}, {Pub}, {A, B}}
NarrowSetsQ == {{A}, {B}}
NarrowSetsT == {{}, {A}, {B}}

MCNext == ~Exporting /\ Next

CaseJson == [shape |-> cfg.shape, role |-> cfg.role, users |-> cfg.users, revs |-> cfg.revs, win |-> cur]
CaseExport == (resp.surf = "none") => PrintT(<<"BEH", ToJson(CaseJson)>>)
=============================================================================
