--------------------------- MODULE ReadAuth ---------------------------
(* C02 - no document content is disclosed outside the reader's channels.

   A state is ONE CASE: an access configuration (one role, users u1 / u2 with direct grants and role membership, the
   guest g who only has the public channel) and one document given as the ORDERED list of revisions that were written
   (revision tree + the channel set each revision was written with).  Everything in `cfg` is ground truth = what the
   environment wrote; the gateway's own opinion about access never enters it.

   One action per READ SURFACE (rest/doc_api.go handleGetDoc / open_revs / handleGetAttachment, rest/bulk_api.go
   handleBulkGet / handleAllDocs, rest/changes_api.go; thorough: the replication protocol's subChanges->changes->rev,
   getAttachment and the connected-client getRev in db/blip_handler.go; rev with deltaSrc is enterprise-only, see NOTES.md).  A read puts the RESPONSE, projected to
       [u, surf, rev, v, st, mk, am, ents, listed, foreign]
   into the implementation variable `resp`:
       mk / am  = revisions whose body marker / attachment marker occurs in the raw response bytes,
       ents     = the revision entries the response carries, each classified body / stub / err,
       listed   = a listing response mentions the document,   foreign = other documents it mentions.
   The property is the four invariants NoLeak, StubOnly, NoExistenceLeak, Available over `resp`.

   Impl/Ghost split (FRAMEWORK.md): implementation variables are resp and cur (which revision is current), ghost =
   cfg (never changes after the case is set up).  Ideal(rd) is the response the design intends; Conforms(rd, r) is the
   envelope a real response must stay in (pass C).  *)
EXTENDS Integers, Sequences, FiniteSets, TLC

CONSTANTS
  GrantSets,     \* channel sets that a role / u1 can be granted (subsets of {"A","B","*"})
  U2Types,       \* the types u2 ranges over (u1 ranges over all [direct : GrantSets, inRole : BOOLEAN])
  WideSets,      \* channel sets of a live revision in shapes with <= 2 revisions
  NarrowSets,    \* ... in shapes with >= 3 revisions
  Shapes,        \* which revision-tree shapes
  Blip           \* TRUE: the replication-protocol surfaces are part of Next

VARIABLES cfg, cur, resp, hist
vars == <<cfg, cur, resp, hist>>
view == <<cfg, cur, resp>>

Star  == "*"
Pub   == "!"
Guest == "g"
UserNames == {"u1", "u2", Guest}
None  == [surf |-> "none"]

Range(s) == {s[i] : i \in DOMAIN s}

-----------------------------------------------------------------------------
(* revision trees *)
R(id, parent, del, rank) == [id |-> id, parent |-> parent, del |-> del, rank |-> rank]
(* rank breaks the tie between two leaves of equal generation the way the revision-id digest does
   (db/revtree.go winner rule: live before deleted, then higher generation, then higher digest).  The first-written
   sibling gets rank 1; the harness gives the second sibling a digest above (rank 2) or below (rank 0) it. *)
ShapeRevs(s) ==
  CASE s = "single"  -> <<R("r1", "", FALSE, 1)>>
    [] s = "chain2"  -> <<R("r1", "", FALSE, 1), R("r2", "r1", FALSE, 1)>>
    [] s = "tomb"    -> <<R("r1", "", FALSE, 1), R("r2", "r1", TRUE, 1)>>
    [] s = "chain3"  -> <<R("r1", "", FALSE, 1), R("r2", "r1", FALSE, 1), R("r3", "r2", FALSE, 1)>>
    [] s = "forkLo"  -> <<R("r1", "", FALSE, 1), R("r2", "r1", FALSE, 1), R("r3", "r1", FALSE, 0)>>   \* first branch stays current
    [] s = "forkHi"  -> <<R("r1", "", FALSE, 1), R("r2", "r1", FALSE, 1), R("r3", "r1", FALSE, 2)>>   \* second branch takes over
    [] s = "forkDel" -> <<R("r1", "", FALSE, 1), R("r2", "r1", FALSE, 1), R("r3", "r1", TRUE, 2)>>    \* second branch is a tombstone
    [] s = "forkExt" -> <<R("r1", "", FALSE, 1), R("r2", "r1", FALSE, 1), R("r3", "r1", FALSE, 0),
                          R("r4", "r3", FALSE, 1)>>                                                    \* losing branch is extended and wins
AllShapes == {"single", "chain2", "tomb", "chain3", "forkLo", "forkHi", "forkDel", "forkExt"}

RECURSIVE GenIn(_, _)
GenIn(revs, id) == LET r == CHOOSE x \in Range(revs) : x.id = id IN IF r.parent = "" THEN 1 ELSE 1 + GenIn(revs, r.parent)
LeavesIn(revs) == {r \in Range(revs) : ~\E c \in Range(revs) : c.parent = r.id}
Beats(revs, a, b) ==   \* a is preferred to b as the winning revision
  \/ ~a.del /\ b.del
  \/ a.del = b.del /\ GenIn(revs, a.id) > GenIn(revs, b.id)
  \/ a.del = b.del /\ GenIn(revs, a.id) = GenIn(revs, b.id) /\ a.rank > b.rank
WinnerIn(revs) == (CHOOSE a \in LeavesIn(revs) : \A b \in LeavesIn(revs) \ {a} : Beats(revs, a, b)).id
(* every revision that was the current one after some write (revs is the write order) *)
WasCurrentIn(revs) == {WinnerIn(SubSeq(revs, 1, k)) : k \in 1..Len(revs)}

-----------------------------------------------------------------------------
(* the case space *)
UserTypes == [direct : GrantSets, inRole : BOOLEAN]
GuestType == [direct |-> {}, inRole |-> FALSE]
ChanDom(s) == IF Len(ShapeRevs(s)) <= 2 THEN WideSets ELSE NarrowSets
ChanAssignments(s) ==
  LET rs == ShapeRevs(s) IN
  {f \in [DOMAIN rs -> ChanDom(s) \cup {{}}] : \A i \in DOMAIN rs : IF rs[i].del THEN f[i] = {} ELSE f[i] \in ChanDom(s)}
MkRevs(s, f) == [i \in DOMAIN ShapeRevs(s) |->
  [id |-> ShapeRevs(s)[i].id, parent |-> ShapeRevs(s)[i].parent, del |-> ShapeRevs(s)[i].del, rank |-> ShapeRevs(s)[i].rank, chans |-> f[i]]]
MkCase(s, rc, t1, t2, f) ==
  [shape |-> s, role |-> rc, users |-> [n \in UserNames |-> IF n = "u1" THEN t1 ELSE IF n = "u2" THEN t2 ELSE GuestType], revs |-> MkRevs(s, f)]
Cases == UNION {{MkCase(s, rc, t1, t2, f) : rc \in GrantSets, t1 \in UserTypes, t2 \in U2Types, f \in ChanAssignments(s)} : s \in Shapes}

-----------------------------------------------------------------------------
(* ground truth derived from cfg *)
Revs      == Range(cfg.revs)
RevIds    == {r.id : r \in Revs}
Rev(id)   == CHOOSE r \in Revs : r.id = id
Del(id)   == Rev(id).del
Leaves    == {r.id : r \in LeavesIn(cfg.revs)}
UserChans(u) == cfg.users[u].direct \cup (IF cfg.users[u].inRole THEN cfg.role ELSE {}) \cup {Pub}
HasStar(u)   == Star \in UserChans(u)
MayRead(u, id) == (Rev(id).chans \cap UserChans(u) # {}) \/ HasStar(u)
Readable(u)  == {id \in RevIds : MayRead(u, id)}
(* the document was at some time in one of u's channels (any revision counts: the clause is an "only if") *)
EverIn(u) == \E id \in RevIds : MayRead(u, id)

-----------------------------------------------------------------------------
(* THE PROPERTY, over the recorded response *)
IsRead == resp.surf # "none"
StubKinds == {"stub", "err"}

(* body / attachment data found in the raw bytes only for revisions the requester may read; tombstones carry none *)
NoLeak == IsRead => (resp.mk \cup resp.am) \subseteq Readable(resp.u)

(* what the response says about a revision the requester may not read is an error or a body-less stub *)
StubOnly == IsRead => \A e \in resp.ents :
   (e.kind = "body") => (e.rev \in RevIds /\ MayRead(resp.u, e.rev))

ListingSurfs == {"AllDocs", "Changes", "BlipChanges"}
(* listings mention the document only to users in whose channels it has been at some time; other documents they
   mention (other cases hosted in the same database) are public ones unless the requester has the wildcard *)
NoExistenceLeak == (IsRead /\ resp.surf \in ListingSurfs) =>
   /\ resp.listed => EverIn(resp.u)
   /\ resp.foreign # {} => (HasStar(resp.u) \/ resp.foreign \subseteq resp.pub)

(* the live current revision is delivered to everybody who may read it.
   Attachments are stored per DOCUMENT (the attachment map of the revision written last), and a version vector names
   the document's last write: what the current revision's attachment / CV address is therefore only pinned down when the
   current revision is also the one written last (always, unless a losing branch was written afterwards). *)
(* "a document that is in one of the user's channels": the wildcard stands for every channel, but a document that is in
   no channel at all is in none of them - the availability clause does not speak about it (the design still intends a
   wildcard holder to read it: CurReadable, used by Ideal) *)
InUsersChannel(u, id) == Rev(id).chans \cap UserChans(u) # {} \/ (HasStar(u) /\ Rev(id).chans # {})
CurLive(u)     == ~Del(cur) /\ InUsersChannel(u, cur)
CurReadable(u) == ~Del(cur) /\ MayRead(u, cur)
LastWritten == cfg.revs[Len(cfg.revs)].id
CurIsLast   == cur = LastWritten
Available == IsRead => LET u == resp.u  v == resp.v IN
   /\ (resp.surf = "GetDoc" /\ resp.rev \in {"", cur} /\ (v.byCV => CurIsLast) /\ CurLive(u))
          => (cur \in resp.mk /\ ((v.atts /\ CurIsLast) => cur \in resp.am))
   /\ (resp.surf = "OpenRevs" /\ CurLive(u)) => cur \in resp.mk
   /\ (resp.surf = "BulkGet" /\ CurLive(u)) => (cur \in resp.mk /\ ((v.atts /\ CurIsLast) => cur \in resp.am))
   /\ (resp.surf = "AllDocs" /\ CurLive(u)) => (resp.listed /\ (v.body => cur \in resp.mk))
   /\ (resp.surf = "Changes" /\ CurLive(u) /\ (v.filter = "bychannel" => Rev(cur).chans \cap UserChans(u) # {}))
          => (resp.listed /\ (v.body => cur \in resp.mk))
   /\ (resp.surf = "GetAttachment" /\ resp.rev \in {"", cur} /\ CurLive(u) /\ CurIsLast) => (resp.st = "ok" /\ (~v.meta => cur \in resp.am))
   /\ (resp.surf = "BlipChanges" /\ CurLive(u)) => resp.listed
   /\ (resp.surf = "BlipRev" /\ CurLive(u)) => cur \in resp.mk
   /\ (resp.surf = "BlipGetAttachment" /\ resp.rev = cur /\ v.during /\ v.single /\ CurLive(u) /\ CurIsLast) => cur \in resp.am
   /\ (resp.surf = "BlipGetRev" /\ CurLive(u)) => cur \in resp.mk

-----------------------------------------------------------------------------
(* read descriptors: what is asked.  v abstracts the flags to what the design makes the outcome depend on:
     GetDoc        v = [atts, byCV]            (revs / atts_since / show_cv / multipart do not change what is disclosed)
     OpenRevs      v = [mode : all | list]
     BulkGet       v = [atts]
     AllDocs       v = [body, keys]
     Changes       v = [body, filter : "" | bychannel | doc_ids, active]
     GetAttachment v = [meta]
     BlipChanges / BlipRev v = [removals]  (v2, or v3+ with revocations=true: removals are announced and requested)
     BlipGetAttachment v = [during]  (asked while the rev message that lists the attachment is being handled, or after) *)
Rd(surf, u, rev, v) == [surf |-> surf, u |-> u, rev |-> rev, v |-> v]

(* a tombstone may carry a body too (written with new_edits=false); like any body it is for entitled readers only *)
Ent(u, id) == [rev |-> id, kind |-> IF MayRead(u, id) THEN "body" ELSE "stub"]
Atts(ids)  == {id \in ids : ~Del(id)}          \* tombstones have no attachment
Bodies(ents) == {e.rev : e \in {x \in ents : x.kind = "body"}}
Mk(rd, st, mk, am, ents, listed) ==
  [surf |-> rd.surf, u |-> rd.u, rev |-> rd.rev, v |-> rd.v, st |-> st, mk |-> mk, am |-> am, ents |-> ents, listed |-> listed,
   foreign |-> {}, pub |-> {}]
ErrResp(rd) == Mk(rd, "err", {}, {}, {}, FALSE)

WasCurrent == WasCurrentIn(cfg.revs)
SeenByFeed(u, chs) ==   \* some revision that was current is in a channel u gets (restricted to chs when a channel filter is given)
  \E id \in WasCurrent : LET c == Rev(id).chans IN
     IF chs = {} THEN HasStar(u) \/ c \cap UserChans(u) # {}
     ELSE c \cap chs \cap (IF HasStar(u) THEN chs ELSE UserChans(u)) # {}

(* replication: protocol v2 announces a document that left the puller's channels like any other change, v3+ only when the
   puller asked for revocations; otherwise (v3+ default) plain removals are not announced; tombstones always are.  An
   announced removal is requested by the puller and must be answered with the body-less removal stub. *)
SeenByReplication(u, removals) == SeenByFeed(u, {}) /\ (removals \/ MayRead(u, cur) \/ Del(cur))

(* the response the design intends *)
Ideal(rd) ==
  LET u == rd.u IN
  CASE rd.surf = "GetDoc" ->
         IF rd.rev = "" THEN (IF CurReadable(u) THEN Mk(rd, "ok", {cur}, IF rd.v.atts THEN {cur} ELSE {}, {Ent(u, cur)}, FALSE) ELSE ErrResp(rd))
         ELSE IF rd.v.byCV /\ rd.rev # LastWritten THEN ErrResp(rd)  \* a superseded version vector is not addressable (no delta sync)
         ELSE LET e == Ent(u, IF rd.v.byCV THEN cur ELSE rd.rev) IN   \* the version vector of the last write names the current revision
              Mk(rd, "ok", Bodies({e}), IF rd.v.atts THEN Atts(Bodies({e})) ELSE {}, {e}, FALSE)
    [] rd.surf = "OpenRevs" ->
         LET ents == {Ent(u, id) : id \in (IF rd.v.mode = "all" THEN Leaves ELSE RevIds)} IN Mk(rd, "ok", Bodies(ents), Atts(Bodies(ents)), ents, FALSE)
    [] rd.surf = "BulkGet" ->
         LET ents == {Ent(u, id) : id \in RevIds} IN Mk(rd, "ok", Bodies(ents), IF rd.v.atts THEN Atts(Bodies(ents)) ELSE {}, ents, FALSE)
    [] rd.surf = "AllDocs" ->
         IF CurReadable(u) THEN Mk(rd, "ok", IF rd.v.body THEN {cur} ELSE {}, {}, IF rd.v.body THEN {Ent(u, cur)} ELSE {}, TRUE)
         ELSE Mk(rd, "ok", {}, {}, {}, FALSE)
    [] rd.surf = "Changes" ->
         LET chs == IF rd.v.filter = "bychannel" THEN {"A", "B", Pub} ELSE {}
             listed == IF rd.v.active THEN CurReadable(u) /\ SeenByFeed(u, chs) ELSE SeenByFeed(u, chs)
             \* under a channel filter a document whose current revision left the requested channels is listed by its removal row
             curRow == chs = {} \/ Rev(cur).chans \cap chs # {} IN
         IF listed THEN Mk(rd, "ok", IF rd.v.body /\ CurReadable(u) /\ curRow THEN {cur} ELSE {}, {}, IF rd.v.body /\ curRow THEN {Ent(u, cur)} ELSE {}, TRUE)
         ELSE Mk(rd, "ok", {}, {}, {}, FALSE)
    [] rd.surf = "GetAttachment" ->
         LET id == IF rd.rev = "" THEN cur ELSE rd.rev IN
         IF ~Del(id) /\ MayRead(u, id) THEN Mk(rd, "ok", {}, IF rd.v.meta THEN {} ELSE {id}, {}, FALSE) ELSE ErrResp(rd)
    [] rd.surf = "BlipChanges" -> Mk(rd, "ok", {}, {}, {}, SeenByReplication(u, rd.v.removals))
    [] rd.surf = "BlipRev" ->
         LET ents == IF SeenByReplication(u, rd.v.removals) THEN {Ent(u, cur)} ELSE {} IN Mk(rd, "ok", Bodies(ents), {}, ents, FALSE)
    [] rd.surf = "BlipGetAttachment" ->   \* only the attachments of a revision that is being delivered to this connection
         \* (the allow-list entry is dropped when the gateway has processed the reply to the rev message, which races with
         \*  a request sent right after replying: "after" may still be answered - Available only demands "during")
         IF rd.rev = cur /\ CurReadable(u) THEN Mk(rd, "ok", {}, {cur}, {}, FALSE) ELSE ErrResp(rd)
    [] rd.surf = "BlipGetRev" ->
         IF CurReadable(u) THEN Mk(rd, "ok", {cur}, {}, {Ent(u, cur)}, FALSE) ELSE ErrResp(rd)

(* envelope of a real response (pass C).  The gateway may be STRICTER than the design for revisions that are not
   current (e.g. a losing branch whose channels were not kept, a superseded body whose backup is gone): stubs or
   errors where Ideal has a body are inside the envelope.  Three NAMED DEVIATIONS of the code from the design are part
   of the envelope (they are what the code does; whether they break the property is decided by pass P, not here):
     DocLevelAtt   - attachments are kept per document: whoever is served the current revision's body gets the
                     attachment of the revision written LAST, also when that is a losing branch (db/crud.go
                     storeOldBodyInRevTreeAndUpdateCurrent: doc.SetAttachments(newDoc.Attachments())), and a revision
                     demoted by a sibling is archived with the sibling's attachment stamped into it;
     BackupFiledUnderWinner - when a revision is superseded its body is archived together with the channels of the
                     revision that was CURRENT at that moment (db/crud.go documentUpdateFunc: oldChannels :=
                     doc.getCurrentChannels()), which is another revision when a losing branch is extended. *)
HasFork == \E a, b \in Revs : a.id # b.id /\ a.parent = b.parent /\ a.parent # ""
DocLevelAtt(u) ==   \* in a conflicting tree, whose attachment a readable revision is served with is not pinned down
  IF Readable(u) = {} THEN {} ELSE IF HasFork THEN {y \in RevIds : ~Del(y)} ELSE {}
FiledUnder(id) ==   \* channels the archived body of a superseded revision is filed under
  LET ks == {k \in 2..Len(cfg.revs) : cfg.revs[k].parent = id} IN
  IF ks = {} THEN Rev(id).chans
  ELSE LET k == CHOOSE x \in ks : \A y \in ks : x <= y IN Rev(WinnerIn(SubSeq(cfg.revs, 1, k - 1))).chans
BackupFiledUnderWinner(u) == {id \in RevIds \ Leaves : FiledUnder(id) \cap UserChans(u) # {}}
(*   InheritedStarNoChannel - a document that is in no channel is readable only through the wildcard; the code paths
                     disagree on whether a wildcard INHERITED from a role counts (auth/role.go authorizeAnyChannel looks at
                     the principal's own channels only; db/changes.go createChangesEntry likewise), so for such a requester
                     the envelope allows denial as well as delivery. *)
Weak(u) == Rev(cur).chans = {} /\ Star \notin cfg.users[u].direct
Conforms(rd, r) ==
  LET i  == Ideal(rd)
      bk == BackupFiledUnderWinner(rd.u)
      w  == Weak(rd.u) IN
  /\ r.surf = rd.surf /\ r.u = rd.u /\ r.rev = rd.rev
  /\ r.mk \subseteq i.mk \cup bk \cup (IF rd.surf \in {"Changes", "BlipRev"} THEN Readable(rd.u) ELSE {})   \* a rebuilt feed may list an older revision too (C01's business)
  /\ r.am \subseteq i.am \cup DocLevelAtt(rd.u) \cup bk
                     \cup (IF rd.surf = "BlipGetAttachment" /\ MayRead(rd.u, rd.rev) THEN {rd.rev} ELSE {})   \* an older revision announced too
  /\ Bodies(r.ents) \subseteq Bodies(i.ents) \cup bk \cup (IF rd.surf \in {"Changes", "BlipRev"} THEN Readable(rd.u) ELSE {})
  /\ (~w /\ ~Del(cur)) => ((cur \in i.mk => cur \in r.mk) /\ ((cur \in i.am /\ CurIsLast /\ (rd.surf = "BlipGetAttachment" => (rd.v.during /\ rd.v.single))) => cur \in r.am))
  /\ IF w THEN r.listed => i.listed ELSE r.listed = i.listed
  /\ (~w /\ rd.surf \in {"GetDoc", "GetAttachment"} /\ rd.rev = "" /\ (rd.surf = "GetAttachment" => CurIsLast)) => r.st = i.st

-----------------------------------------------------------------------------
(* actions *)
Users == UserNames
B2 == BOOLEAN
GetDocV        == [atts : B2, byCV : B2]
ChangesV       == [body : B2, filter : {"", "bychannel", "doc_ids"}, active : B2]

Step(rd) == hist' = Append(hist, rd)
ImplRead(rd)  == Conforms(rd, resp')          \* what the code may answer
GhostRead(rd) == UNCHANGED cfg                \* ground truth does not move
Read(rd) ==
  /\ resp.surf = "none"                       \* one read per behaviour: the space is a product, not a deep search
  /\ resp' = Ideal(rd) /\ ImplRead(rd) /\ GhostRead(rd) /\ UNCHANGED cur /\ Step(rd)

GetDoc(u, rev, v)        == (v.byCV => rev # "") /\ Read(Rd("GetDoc", u, rev, v))
OpenRevs(u, mode)        == Read(Rd("OpenRevs", u, "", [mode |-> mode]))
BulkGet(u, atts)         == Read(Rd("BulkGet", u, "", [atts |-> atts]))
AllDocs(u, body, keys)   == Read(Rd("AllDocs", u, "", [body |-> body, keys |-> keys]))
Changes(u, v)            == Read(Rd("Changes", u, "", v))
GetAttachment(u, rev, m) == Read(Rd("GetAttachment", u, rev, [meta |-> m]))
BlipChanges(u, removals) == Blip /\ Read(Rd("BlipChanges", u, "", [removals |-> removals]))
BlipRev(u, delta, removals) == Blip /\ Read(Rd("BlipRev", u, "", [delta |-> delta, removals |-> removals]))
BlipGetAttachment(u, rev, during) == Blip /\ Read(Rd("BlipGetAttachment", u, rev, [during |-> during, single |-> TRUE]))
BlipGetRev(u)            == Blip /\ Read(Rd("BlipGetRev", u, "", [x |-> 0]))

Init == cfg \in Cases /\ cur = WinnerIn(cfg.revs) /\ resp = None /\ hist = <<>>
Next ==
  \/ \E u \in Users, rev \in RevIds \cup {""}, v \in GetDocV : GetDoc(u, rev, v)
  \/ \E u \in Users, mode \in {"all", "list"} : OpenRevs(u, mode)
  \/ \E u \in Users, atts \in B2 : BulkGet(u, atts)
  \/ \E u \in Users, body \in B2, keys \in B2 : AllDocs(u, body, keys)
  \/ \E u \in Users, v \in ChangesV : Changes(u, v)
  \/ \E u \in Users, rev \in RevIds \cup {""}, m \in B2 : GetAttachment(u, rev, m)
  \/ \E u \in Users, rm \in B2 : BlipChanges(u, rm)
  \/ \E u \in Users, rm \in B2 : BlipRev(u, FALSE, rm)   \* delta = TRUE needs the enterprise build
  \/ \E u \in Users, rev \in RevIds, d \in B2 : BlipGetAttachment(u, rev, d)
  \/ \E u \in Users : BlipGetRev(u)

(* design-level sanity (auxiliary): the intended response is inside its own envelope, the winner is a leaf *)
TypeOK == cur \in Leaves /\ (IsRead => resp.u \in Users)
IdealConforms == IsRead => Conforms(Rd(resp.surf, resp.u, resp.rev, resp.v), resp)
=============================================================================
