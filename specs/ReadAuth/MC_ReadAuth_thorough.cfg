CONSTANT GrantSets <- GrantSetsT
CONSTANT U2Types <- U2TypesT
CONSTANT WideSets <- WideSetsC
CONSTANT NarrowSets <- NarrowSetsT
CONSTANT Shapes <- AllShapes
CONSTANT Blip = TRUE
INIT Init
NEXT MCNext
VIEW view
CHECK_DEADLOCK FALSE
INVARIANT TypeOK
INVARIANT NoLeak
INVARIANT StubOnly
INVARIANT NoExistenceLeak
INVARIANT Available
INVARIANT IdealConforms
INVARIANT CaseExport
