--------------------------- MODULE Trace_SeqToken ---------------------------
(* Binding of SeqToken to db/sequence_id.go.  The harness (harness/db/c20_seqtoken_test.go) evaluates the
   REAL functions on the whole cube (ranks 0..N bound to seeded 64-bit values) and records
     line 1            meta  {n, vals}
     lines 2..T+1      tok   {a, fmt, parsed, safe, jq, jrt}        (cube order)
     lines T+2..2T+1   row   {a, before : <<bool x T>>}             (row of the real Before table)
     then              syn   {c, ok, parsed, viaJson}               (component-list grammar, incl. malformed)
     then              str   {cls, ok}                              (character-level malformed classes)
   Pass P evaluates the C20 predicates on the recorded tables; pass C compares with the transcription. *)
EXTENDS SeqToken, TraceLib

T == (N + 1) * (N + 1) * (N + 1)
Idx(a) == a.l * (N + 1) * (N + 1) + a.t * (N + 1) + a.s        \* 0-based cube index
TokOf(s) == Mk(s[1], s[2], s[3])
TokLine(a) == Trace[2 + Idx(a)]
RowLine(a) == Trace[2 + T + Idx(a)]

RB(a, b)   == RowLine(a).before[1 + Idx(b)]      \* real Before
RFmt(a)    == TokLine(a).fmt                      \* real String(), as component ranks
RParsedOK(a) == TokLine(a).pok                    \* real parse of the real rendering succeeded
RParsed(a) == TokOf(TokLine(a).parsed)
RSafe(a)   == TokLine(a).safe                     \* real SafeSequence
RJq(a)     == TokLine(a).jq                       \* real MarshalJSON produced a quoted string
RJrt(a)    == TokOf(TokLine(a).jrt)               \* real UnmarshalJSON(MarshalJSON(a))

VARIABLE k
Init == k \in Tok
Next == UNCHANGED k

Shape ==   \* the trace has the layout this module indexes into
  /\ Trace[1].k = "meta" /\ Trace[1].n = N
  /\ TokLine(k).k = "tok" /\ TokOf(TokLine(k).a) = k
  /\ RowLine(k).k = "row" /\ TokOf(RowLine(k).a) = k /\ Len(RowLine(k).before) = T

REm == {x \in Tok : RParsedOK(x) /\ RParsed(x) = x}   \* emitted domain, by the real functions
InREm == k \in REm

-----------------------------------------------------------------------------
(* pass P: the property on the recorded real tables *)
P_Irreflexive == ~RB(k, k)
P_Asymmetric  == InREm => \A b \in REm : RB(k, b) => ~RB(b, k)
P_Transitive  == InREm => \A b, c \in REm : (RB(k, b) /\ RB(b, c)) => RB(k, c)
P_RoundTrip ==
  /\ RParsedOK(k)
  /\ LET p == RParsed(k) IN
       /\ RSafe(p) = RSafe(k)
       /\ p.s = k.s
       /\ BackfillActive(k) => (p.t = k.t /\ BackfillActive(p))
       /\ ~BackfillActive(k) => ~BackfillActive(p)
       /\ RFmt(p) = RFmt(k)
       /\ RJrt(k) = p                      \* JSON form denotes the same token as the plain form
(* a resume position never lies beyond the entry's own sequence (resuming from it would skip entries), and
   a token without a low sequence resumes exactly after itself *)
P_SafeBound == RSafe(k) <= k.s /\ (k.l = 0 => RSafe(k) = k.s)
(* order used for merging agrees between a token and what the client gets back for it *)
P_NormOrder == RParsedOK(k) => \A b \in REm : RB(RParsed(k), b) = RB(RParsed(k), RParsed(b))

SynLines == {i \in 1..TraceLen : Trace[i].k = "syn"}
StrLines == {i \in 1..TraceLen : Trace[i].k = "str"}
(* malformed component lists and malformed strings are rejected, never mis-parsed; evaluated once *)
P_Malformed == (Idx(k) = 0) =>
  /\ \A i \in SynLines : ~WellFormed(Trace[i].c) => (~Trace[i].ok /\ ~Trace[i].jok)
  /\ \A i \in StrLines : ~Trace[i].ok
  /\ SynLines # {} /\ StrLines # {}
(* well-formed renderings are accepted and denote what the grammar says, plain and via JSON *)
P_WellFormedAccepted == (Idx(k) = 0) =>
  \A i \in SynLines : WellFormed(Trace[i].c) =>
        (Trace[i].ok /\ TokOf(Trace[i].parsed) = Parse(Trace[i].c) /\ Trace[i].jok /\ TokOf(Trace[i].jparsed) = Parse(Trace[i].c))

-----------------------------------------------------------------------------
(* pass C: the real functions equal the transcription (the exhaustive MC_ result then speaks about the code) *)
C_Before == \A b \in Tok : RB(k, b) = Before(k, b)
C_Fmt    == RFmt(k) = Fmt(k)
C_Parse  == RParsedOK(k) /\ RParsed(k) = Parse(Fmt(k))
C_Safe   == RSafe(k) = Safe(k)
C_Json   == RJq(k) = JsonQuoted(k)
=============================================================================
