CONSTANT N = 4
INIT Init
NEXT Next
CHECK_DEADLOCK FALSE
INVARIANT Shape
INVARIANT P_Irreflexive
INVARIANT P_Asymmetric
INVARIANT P_Transitive
INVARIANT P_RoundTrip
INVARIANT P_NormOrder
INVARIANT P_Malformed
INVARIANT P_WellFormedAccepted
INVARIANT P_SafeBound
