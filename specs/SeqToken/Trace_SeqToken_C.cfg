CONSTANT N = 4
INIT Init
NEXT Next
CHECK_DEADLOCK FALSE
INVARIANT Shape
INVARIANT C_Before
INVARIANT C_Fmt
INVARIANT C_Parse
INVARIANT C_Safe
INVARIANT C_Json
