--------------------------- MODULE SeqToken ---------------------------
(* Position tokens of the changes feed: db/sequence_id.go.
   Transcription of SequenceID.String / parseIntegerSequenceID / SafeSequence / Before over the cube
   Tok == [l, t, s : 0..N]  (l = LowSeq, t = TriggeredBy, s = Seq).  Rendered tokens are sequences of
   components, Empty (-1) standing for the empty optional middle component of "l::s".
   Decides C20 (order laws, round trip); used by Checkpointer, ChangeCache, Changes. *)
EXTENDS Integers, Sequences, FiniteSets

CONSTANT N
Val   == 0..N
Tok   == [l : Val, t : Val, s : Val]
Empty == -1
Mk(l, t, s) == [l |-> l, t |-> t, s |-> s]

(* intSeqToString *)
BackfillActive(k) == k.t > 0 /\ k.s < k.t
Fmt(k) ==
  IF BackfillActive(k)
  THEN IF k.l > 0 /\ k.l < k.t THEN <<k.l, k.t, k.s>> ELSE <<k.t, k.s>>
  ELSE IF k.l > 0 /\ k.l < k.s THEN <<k.l, Empty, k.s>> ELSE <<k.s>>

(* parseIntegerSequenceID on a well-formed component list; malformed classes below *)
Parse(c) ==
  CASE Len(c) = 1 -> IF c[1] = Empty THEN Mk(0, 0, 0) ELSE Mk(0, 0, c[1])   \* "" = no position
    [] Len(c) = 2 -> Mk(0, c[1], c[2])
    [] Len(c) = 3 -> Mk(c[1], IF c[2] = Empty THEN 0 ELSE c[2], c[3])

(* which component lists the parser must refuse (HTTP 400): wrong arity, Empty anywhere but the middle of three *)
WellFormed(c) ==
  /\ Len(c) \in 1..3
  /\ \A i \in 1..Len(c) : c[i] = Empty => ((Len(c) = 3 /\ i = 2) \/ Len(c) = 1)

(* SafeSequence *)
Safe(k) == IF k.l > 0 /\ k.l < k.s THEN k.l ELSE k.s

(* MarshalJSON: quoted string form iff compound *)
JsonQuoted(k) == k.t > 0 \/ k.l > 0

(* Before: line-by-line transcription *)
RECURSIVE Before(_, _)
Before(a, b) ==
  IF a.l # 0 THEN
      IF a.l = b.l THEN Before(Mk(0, a.t, a.s), Mk(0, b.t, b.s))
      ELSE IF b.l # 0 THEN a.l < b.l
      ELSE IF b.t # 0 THEN a.l < b.t
      ELSE a.l < b.s
  ELSE IF a.t # 0 THEN
      IF b.l # 0 THEN a.t <= b.l
      ELSE IF b.t # 0 THEN (IF a.t = b.t THEN a.s < b.s ELSE a.t < b.t)
      ELSE a.t <= b.s
  ELSE
      IF b.l # 0 THEN a.s <= b.l
      ELSE IF b.t # 0 THEN a.s < b.t
      ELSE a.s < b.s

-----------------------------------------------------------------------------
(* Property predicates, parameterised by the relation / functions they speak about, so that the same
   text is evaluated on the transcription (MC_SeqToken) and on tables recorded from the real
   functions (Trace_SeqToken). *)

Irreflexive(B(_, _), D)  == \A a \in D : ~B(a, a)
Asymmetric(B(_, _), D)   == \A a, b \in D : B(a, b) => ~B(b, a)
Transitive(B(_, _), D)   == \A a, b, c \in D : (B(a, b) /\ B(b, c)) => B(a, c)

(* the tokens a server can emit: what String() keeps of a token is what reaches a client, so the
   emitted domain is the set of normal forms (a token equal to the parse of its own rendering) *)
Norm(k)     == Parse(Fmt(k))
Emitted     == {k \in Tok : Norm(k) = k}

(* "parses back to a token that denotes the same resume position" *)
SameResume(k, p) ==
  /\ Safe(p) = Safe(k)
  /\ p.s = k.s
  /\ BackfillActive(k) => (p.t = k.t /\ BackfillActive(p))
  /\ ~BackfillActive(k) => ~BackfillActive(p)

RoundTripOK(k) == SameResume(k, Parse(Fmt(k))) /\ Fmt(Parse(Fmt(k))) = Fmt(k) /\ WellFormed(Fmt(k))
=============================================================================
