--------------------------- MODULE MC_SeqToken ---------------------------
(* Exhaustive evaluation of the C20 predicates on the transcription.  One state per token k of the
   cube; the invariants quantify the remaining arguments, so all pairs and triples are covered. *)
EXTENDS SeqToken, TLC
VARIABLE k
Init == k \in Tok
Next == UNCHANGED k

InEm == k \in Emitted
Irr    == ~Before(k, k)
Asym   == InEm => \A b \in Emitted : Before(k, b) => ~Before(b, k)
Trans  == InEm => \A b, c \in Emitted : (Before(k, b) /\ Before(b, c)) => Before(k, c)
(* the same laws on the whole cube (stronger than the property needs; holds on the pinned tree) *)
AsymCube  == \A b \in Tok : Before(k, b) => ~Before(b, k)
TransCube == \A b, c \in Tok : (Before(k, b) /\ Before(b, c)) => Before(k, c)
RoundTrip == RoundTripOK(k)
(* a token and its normal form are interchangeable for the order on the emitted domain *)
NormOrder == \A b \in Emitted : (Before(Norm(k), b) <=> Before(Norm(k), Norm(b)))
=============================================================================
