CONSTANT N = 4
INIT Init
NEXT Next
INVARIANT Irr
INVARIANT Asym
INVARIANT Trans
INVARIANT AsymCube
INVARIANT TransCube
INVARIANT RoundTrip
CHECK_DEADLOCK FALSE
