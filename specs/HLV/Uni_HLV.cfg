CONSTANT Rep = {"a", "b", "c"}
CONSTANT MaxSteps = 0
CONSTANT Resolutions = {}
CONSTANT RepOrder <- NoOrder
INIT UInit
NEXT UNext
INVARIANT UniExport
CHECK_DEADLOCK FALSE
