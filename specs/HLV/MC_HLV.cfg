CONSTANT Rep = {"a", "b", "c"}
CONSTANT MaxSteps = 6
CONSTANT Resolutions = {"RemoteWins", "LocalWins", "Merge"}
CONSTANT EditCap = 99
CONSTANT Editors = {"a", "b", "c"}
CONSTANT Directed = FALSE
CONSTANT RepOrder <- Order3
SPECIFICATION Spec
VIEW view
INVARIANT TypeOK
INVARIANT NoDupSource
INVARIANT ConflictSound
INVARIANT KnownSound
INVARIANT NothingInvented
INVARIANT NothingLost
INVARIANT Monotone
INVARIANT GenIncreasing
INVARIANT CvTopsMv
INVARIANT MvPairs
CHECK_DEADLOCK FALSE
