--------------------------- MODULE HLV ---------------------------
(* Hybrid logical vectors: db/hybrid_logical_vector.go + the conflict call site in db/crud.go
   (PutExistingCurrentVersion / resolveRemoteWinsHLV / resolveLocalWinsHLV / resolveDocMergeHLV / maxValueForSource floor).

   Three replicas, each owning one source (its name).  hlv[r] is the vector replica r holds for one document:
     [src, ver]  current version (cv)      mv : source -> version (0 = absent)  merge versions
                                            pv : source -> version (0 = absent)  previous versions
   Operators are transcribed operation by operation from the Go code (names kept).  Only comparisons and
   "+1" (hlc.Now(floor) with a clock that is behind) are applied to versions, so versions are small naturals
   per source (ranks); the harness binds rank k of source x to base_x + k for seeded 64-bit bases.

   Actions (one per call of the real API sequence):
     Edit(r, v)         updateHLV NewVersion: v := hlc.Now(maxValueForSource(own source)); AddVersion
     Pull(r, s, res)    PutExistingCurrentVersion: no local vector -> take the incoming one; else IsInConflict and
                        NoConflict -> UpdateWithIncomingHLV, AlreadyPresent -> skip, Conflict -> res in
                        {RemoteWins, LocalWins, Merge} (the three resolve*HLV helpers)
   Ghost (ground truth): seen[r] classic version vector (source -> highest version whose effects r incorporated),
   mrg[r] the merge the revision held by r is the result of (set of the two merged versions, {} if none),
   gen[x] last version generated for source x.  Impl* / Ghost* split as in FRAMEWORK.md.  Decides C10. *)
EXTENDS Integers, Sequences, FiniteSets, TLC

CONSTANTS Rep,          \* replicas = sources (strings)
          MaxSteps,     \* bound on the length of a behaviour
          Resolutions,  \* subset of {"RemoteWins", "LocalWins", "Merge"}
          EditCap,      \* a replica edits only while it has generated fewer than EditCap versions (99 = unrestricted)
          Editors,      \* replicas that edit at all (the others only pull / resolve)
          Directed,     \* TRUE: directed family "merge, edit on, merge again, cross pull" - a pull is only taken when it
                        \* classifies as Conflict, brings a non-editing replica its first vector, or crosses two merge results;
                        \* two consecutive events that commute (different writers, neither reads the other's
                        \* writer) are only taken with the writers in replica order (one interleaving per class)
          RepOrder      \* <<>> or an arrangement of Rep: replicas receive their first vector in this order
                        \* (symmetry reduction: every action and predicate is invariant under renaming replicas;
                        \*  the harness binds the names to real source ids by a seeded permutation)

ASSUME Rep = {"a", "b", "c"}
(* functions over Rep are built as explicit records: eager values in TLC (a function constructor is a closure that is
   re-evaluated on every application until the state is fingerprinted) *)
Fn(F(_)) == [a |-> F("a"), b |-> F("b"), c |-> F("c")]
NoSrc == ""
Zero  == Fn(LAMBDA x : 0)
EmptyHLV == [src |-> NoSrc, ver |-> 0, mv |-> Zero, pv |-> Zero]
Max(a, b) == IF a >= b THEN a ELSE b

-----------------------------------------------------------------------------
(* transcription of the vector API *)

(* GetValue: cv first, then mv, then pv *)
Found(h, x) == x # NoSrc /\ (x = h.src \/ h.mv[x] # 0 \/ h.pv[x] # 0)
Val(h, x)   == IF x = NoSrc THEN 0 ELSE IF x = h.src THEN h.ver ELSE IF h.mv[x] # 0 THEN h.mv[x] ELSE h.pv[x]
(* DominatesSource / IsVersionKnown / isDominating *)
Dominates(h, x, v) == Found(h, x) /\ Val(h, x) >= v
(* maxValueForSource: the floor handed to hlc.Now *)
MaxForSource(h, x) ==
  IF x = NoSrc THEN 0
  ELSE IF x = h.src THEN Max(h.ver, h.mv[x])
  ELSE IF h.pv[x] # 0 THEN h.pv[x] ELSE h.mv[x]

(* InvalidateMV: every mv entry except the one sharing the cv source is written (unconditionally) to pv *)
InvalidateMV(h) ==
  [h EXCEPT !.pv = Fn(LAMBDA x : IF h.mv[x] # 0 /\ x # h.src THEN h.mv[x] ELSE h.pv[x]), !.mv = Zero]

(* AddVersion -> [ok, h] *)
AddVersion(h, s, v) ==
  IF h.src = NoSrc THEN [ok |-> TRUE, h |-> [h EXCEPT !.src = s, !.ver = v]]
  ELSE IF Found(h, s) /\ Val(h, s) > v THEN [ok |-> FALSE, h |-> h]
  ELSE LET i == InvalidateMV(h) IN
       IF s = h.src THEN [ok |-> TRUE, h |-> [i EXCEPT !.ver = v]]
       ELSE [ok |-> TRUE, h |-> [i EXCEPT !.pv = Fn(LAMBDA x : IF x = s THEN 0 ELSE IF x = h.src THEN h.ver ELSE i.pv[x]),
                                          !.src = s, !.ver = v]]

(* AddVersionToPV: outcome, and the vector after it *)
PVStatus(h, x, v) ==
  IF h.src = x THEN "sourceIsCV"
  ELSE IF h.mv[x] # 0 THEN (IF h.mv[x] >= v THEN "versionInMVNewer" ELSE "versionInMVOlder")
  ELSE IF h.pv[x] = 0 \/ h.pv[x] < v THEN "versionAddedToPV" ELSE "versionInPVNewer"
AddToPV(h, x, v) == IF PVStatus(h, x, v) = "versionAddedToPV" THEN [h EXCEPT !.pv[x] = v] ELSE h
(* a loop of AddVersionToPV over the entries of a map: each entry reads cv, mv and its own pv slot and writes only
   its own pv slot, so the loop is order independent and is written pointwise *)
AddAllToPV(h, m) ==
  [h EXCEPT !.pv = Fn(LAMBDA x : IF m[x] # 0 /\ PVStatus(h, x, m[x]) = "versionAddedToPV" THEN m[x] ELSE h.pv[x])]

(* UpdateHistory(hlv = h, incomingHLV = inc): cv (return value ignored), mv loop with break on versionInMVOlder ->
   InvalidateMV and re-add every mv entry, then pv (return values ignored).  Entries added before the break are
   re-added afterwards, so "break" does not show in the result. *)
UpdateHistory(h, inc) ==
  LET h1 == IF inc.src # NoSrc THEN AddToPV(h, inc.src, inc.ver) ELSE h
      inval == \E x \in Rep : inc.mv[x] # 0 /\ PVStatus(h1, x, inc.mv[x]) = "versionInMVOlder"
      h2 == AddAllToPV(IF inval THEN InvalidateMV(h1) ELSE h1, inc.mv)
  IN AddAllToPV(h2, inc.pv)

(* UpdateWithIncomingHLV: incomingHLV.UpdateHistory(hlv); *hlv = *incomingHLV *)
UpdateWith(h, inc) == UpdateHistory(inc, h)

(* MergeWithIncomingHLV(newCV = s@v, inc) -> [ok, h] *)
MergeWith(h, s, v, inc) ==
  LET a == AddVersion(h, s, v) IN
  IF ~a.ok THEN [ok |-> FALSE, h |-> h]
  ELSE LET m1 == [a.h EXCEPT !.mv[inc.src] = inc.ver, !.pv[inc.src] = 0]     \* AddMergeVersion(incoming cv)
           m2 == [m1 EXCEPT !.mv[h.src] = h.ver, !.pv[h.src] = 0]             \* AddMergeVersion(previous cv)
       IN [ok |-> TRUE, h |-> UpdateHistory(m2, inc)]

(* IsInConflict(localHLV = l, incomingHLV = i) *)
Classify(l, i) ==
  IF l.src = i.src /\ l.ver = i.ver THEN "AlreadyPresent"
  ELSE IF Dominates(i, l.src, l.ver) THEN "NoConflict"
  ELSE IF Dominates(l, i.src, i.ver) THEN "AlreadyPresent"
  ELSE IF i.mv # Zero /\ l.mv # Zero /\ i.mv = l.mv THEN "NoConflict"
  ELSE "Conflict"

(* the version value resolveDocMergeHLV / documentUpdateFunc generate: strictly above the floor *)
EditFloor(h, r)       == MaxForSource(h, r)
MergeFloor(l, i, r)   == Max(MaxForSource(l, r), MaxForSource(i, r))

(* what the vector of r is after a pull that classified as c and (if Conflict) resolved with res generating v *)
Resolve(l, i, r, res, v) ==
  CASE res = "RemoteWins" -> UpdateWith(l, i)          \* newHLV := local.Copy(); newHLV.UpdateWithIncomingHLV(remote)
    [] res = "LocalWins"  -> UpdateWith(i, l)          \* newHLV := remote.Copy(); newHLV.UpdateWithIncomingHLV(local)
    [] res = "Merge"      -> MergeWith(l, r, v, i).h
    [] OTHER -> l
AfterPull(l, i, r, c, res, v) ==
  CASE c = "NoConflict"     -> UpdateWith(l, i)
    [] c = "AlreadyPresent" -> l
    [] c = "Conflict"       -> Resolve(l, i, r, res, v)

-----------------------------------------------------------------------------
VARIABLES hlv,      \* implementation: the vector each replica holds
          out,      \* implementation: outcome of the last call [a, cls, v] (classification returned, version generated)
          seen, mrg, gen,            \* ghosts: ground truth
          gcls,                      \* ghost: ground-truth classification of the last pull ("None" otherwise)
          mono, genok,               \* ghosts: no value ever decreased / generated versions strictly increased
          lost,                      \* ghost: lost[r] = sources for which hlv[r] is behind seen[r] because of a REPORTED named deviation
          dev,                       \* ghost: named deviation observed in the last step ("" if none) - reported by the driver
          hist
impl  == <<hlv, out>>
ghost == <<seen, mrg, gen, gcls, mono, genok, lost, dev>>
vars  == <<impl, ghost, hist>>
view  == <<impl, ghost>>

NoOut == [a |-> "None", cls |-> "None", v |-> 0]
CV(h) == [src |-> h.src, ver |-> h.ver]
(* per-source value recorded by a vector, wherever the source is listed *)
Value(h, x) == Max(IF h.src = x THEN h.ver ELSE 0, Max(h.mv[x], h.pv[x]))

Init ==
  /\ hlv = Fn(LAMBDA r : EmptyHLV) /\ out = NoOut
  /\ seen = Fn(LAMBDA r : Zero) /\ mrg = Fn(LAMBDA r : {}) /\ gen = Zero
  /\ gcls = "None" /\ mono = TRUE /\ genok = TRUE /\ lost = Fn(LAMBDA r : {}) /\ dev = ""
  /\ hist = <<>>

(* ---- ground truth ---- *)
HasSeen(r, c) == c.src # NoSrc /\ seen[r][c.src] >= c.ver
SameMerge(r, s) == mrg[r] # {} /\ mrg[r] = mrg[s]
(* Named deviation D1 (NOTES.md): both replicas already hold the other's cv although the cvs differ.  Only reachable
   through opposite local-wins resolutions (they keep the cv and fold the loser in, so a cv no longer names one
   revision).  The statement's "already known" clause is ambiguous here; the code accepts (incoming-dominates is
   tested first).  Not conflicting either way, so ConflictSound is still evaluated; KnownSound is not. *)
MutualSeen(r, s) == CV(hlv[r]) # CV(hlv[s]) /\ HasSeen(r, CV(hlv[s])) /\ HasSeen(s, CV(hlv[r]))
Tainted(r, s) == lost[r] # {} \/ lost[s] # {}
Truth(r, s) ==
  IF hlv[r].src = NoSrc THEN "NoConflict"
  ELSE IF Tainted(r, s) THEN "Tainted"              \* a vector is already behind its replica's knowledge (reported)
  ELSE IF MutualSeen(r, s) THEN "MutualSeen"
  ELSE IF HasSeen(r, CV(hlv[s])) THEN "AlreadyPresent"
  ELSE IF HasSeen(s, CV(hlv[r])) THEN "NoConflict"
  ELSE IF SameMerge(r, s) THEN "NoConflict"
  ELSE "Conflict"
PMax(f, g) == Fn(LAMBDA x : Max(f[x], g[x]))

(* Named deviation D2 (genuine loss, reproduced on the real code - NOTES.md): UpdateHistory(h, inc) ignores the outcome
   of AddVersionToPV for inc's cv and pv entries.  A version of source x carried by inc is silently dropped when
     MvShadow: h lists x among its merge versions with an OLDER value (versionInMVOlder ignored), or
     CvShadow: x is h's cv source and h's cv is OLDER (sourceIsCV ignored; needs D1).
   Only inc's mv entries get the InvalidateMV treatment. *)
MvShadow(h, inc, x) ==
  /\ x # h.src /\ h.mv[x] # 0
  /\ \/ inc.src = x /\ inc.ver > h.mv[x]
     \/ /\ inc.pv[x] > h.mv[x]
        /\ ~\E y \in Rep : inc.mv[y] # 0 /\ y # h.src /\ h.mv[y] # 0 /\ h.mv[y] < inc.mv[y]      \* mv not invalidated
CvShadow(h, inc, x) == x = h.src /\ Value(inc, x) > h.ver
ShadowClass(h, inc, x) == IF MvShadow(h, inc, x) THEN "MvShadow" ELSE IF CvShadow(h, inc, x) THEN "CvShadow" ELSE ""
(* which UpdateHistory(h, inc) a pull executes *)
Survivor(l, i, c, res) == IF c = "Conflict" /\ res = "LocalWins" THEN l ELSE i
Folded(l, i, c, res)   == IF c = "Conflict" /\ res = "LocalWins" THEN i ELSE l

(* bookkeeping shared by all steps.  r = replica whose vector changed, want[x] = the value its vector should now list
   for x given the vectors that went in, cls[x] = named deviation that may excuse x ("" = none) *)
GhostBook(r, want, cls) ==
  LET drop == {x \in Rep : Value(hlv'[r], x) < want[x]}                      \* dropped by this very step
      excused == {x \in drop : cls[x] # ""}
  IN /\ lost' = [lost EXCEPT ![r] = {x \in Rep : Value(hlv'[r], x) < seen'[r][x] /\ (x \notin drop \/ x \in excused)}]
     /\ dev' = IF excused = {} THEN "" ELSE cls[CHOOSE x \in excused : TRUE]
     /\ mono' = (mono /\ \A q \in Rep, x \in Rep : Value(hlv'[q], x) >= Value(hlv[q], x) \/ (q = r /\ x \in excused))

(* ---- Edit ---- *)
ImplEdit(r, v) ==
  /\ v > EditFloor(hlv[r], r)
  /\ LET a == AddVersion(hlv[r], r, v) IN
       /\ a.ok
       /\ hlv' = [hlv EXCEPT ![r] = a.h]
       /\ out' = [a |-> "Edit", cls |-> "None", v |-> v]
GhostEdit(r) ==        \* refers to out'.v (already determined by ImplEdit or by the logged value)
  LET v == out'.v IN
  /\ seen' = [seen EXCEPT ![r][r] = Max(@, v)]
  /\ mrg' = [mrg EXCEPT ![r] = {}]
  /\ gen' = [gen EXCEPT ![r] = Max(@, v)]
  /\ genok' = (genok /\ (v > gen[r] \/ r \in lost[r]))     \* floor+1 from a vector that lost its own source: consequence of D2
  /\ gcls' = "None"
  /\ GhostBook(r, Fn(LAMBDA x : IF x = r THEN Max(v, Value(hlv[r], x)) ELSE Value(hlv[r], x)), Fn(LAMBDA x : ""))

(* ---- Pull ---- *)
ImplPull(r, s, res, v) ==
  LET l == hlv[r]
      i == hlv[s]
      c == IF l.src = NoSrc THEN "NoConflict" ELSE Classify(l, i)
  IN /\ (c = "Conflict") => (res \in Resolutions /\ (res = "Merge" => v > MergeFloor(l, i, r)))
     /\ (c # "Conflict") => res = "None"
     /\ (res # "Merge") => v = 0
     /\ hlv' = [hlv EXCEPT ![r] = AfterPull(l, i, r, c, res, v)]
     /\ out' = [a |-> "Pull", cls |-> c, v |-> v]
GhostPull(r, s, res) ==     \* follows what the replica really did: out'.cls (returned), res (environment), out'.v (generated)
  LET c == out'.cls
      v == out'.v
      l == hlv[r]
      i == hlv[s]
      took == c = "NoConflict" \/ (c = "Conflict" /\ res \in {"RemoteWins", "LocalWins", "Merge"})
      mrgd == c = "Conflict" /\ res = "Merge"
      m == PMax(seen[r], seen[s])
      want == Fn(LAMBDA x : IF ~took THEN Value(l, x)
                             ELSE IF mrgd /\ x = r THEN Max(v, Max(Value(l, x), Value(i, x)))
                             ELSE Max(Value(l, x), Value(i, x)))
      cls == Fn(LAMBDA x : IF ~took \/ mrgd THEN "" ELSE ShadowClass(Survivor(l, i, c, res), Folded(l, i, c, res), x))
  IN /\ gcls' = Truth(r, s)
     /\ seen' = [seen EXCEPT ![r] = IF ~took THEN @ ELSE IF mrgd THEN [m EXCEPT ![r] = Max(@, v)] ELSE m]
     /\ mrg' = [mrg EXCEPT ![r] = CASE c = "NoConflict" \/ (c = "Conflict" /\ res = "RemoteWins") -> mrg[s]
                                     [] mrgd -> {CV(l), CV(i)}
                                     [] OTHER -> @]
     /\ gen' = IF mrgd THEN [gen EXCEPT ![r] = Max(@, v)] ELSE gen
     /\ genok' = (genok /\ (mrgd => (v > gen[r] \/ r \in lost[r] \/ r \in lost[s])))
     /\ GhostBook(r, want, cls)

(* x: the step pulls between two replicas that both hold a merge result (the directed family exports on it) *)
Step(a, r, s, res, v, lag) ==
  hist' = Append(hist, [a |-> a, r |-> r, s |-> s, res |-> res, v |-> v, lag |-> lag,
                        x |-> (a = "Pull" /\ hlv[r].mv # Zero /\ hlv[s].mv # Zero)])

Edit(r, v)         == ImplEdit(r, v) /\ GhostEdit(r) /\ Step("Edit", r, r, "None", v, v = EditFloor(hlv[r], r) + 1)
Pull(r, s, res, v) == /\ r # s /\ hlv[s].src # NoSrc
                      /\ ImplPull(r, s, res, v) /\ GhostPull(r, s, res)
                      /\ Step("Pull", r, s, res, v, res = "Merge" /\ v = MergeFloor(hlv[r], hlv[s], r) + 1)

(* the version a node generates: a clock that never runs behind its own last value, or (another node of the same
   cluster / a restart, wall clock behind) exactly floor + 1 *)
EditVersions(r)     == {Max(gen[r], EditFloor(hlv[r], r)) + 1, EditFloor(hlv[r], r) + 1}
MergeVersions(r, s) == {Max(gen[r], MergeFloor(hlv[r], hlv[s], r)) + 1, MergeFloor(hlv[r], hlv[s], r) + 1}

Pos(x) == CHOOSE k \in 1..Len(RepOrder) : RepOrder[k] = x
Activation(r) == (RepOrder # <<>> /\ hlv[r].src = NoSrc) => \A q \in Rep : Pos(q) < Pos(r) => hlv[q].src # NoSrc

(* w writes its vector and reads the vectors of the replicas in R *)
Canon(w, R) ==
  (Directed /\ RepOrder # <<>> /\ hist # <<>>) =>
     LET e  == hist[Len(hist)]
         R1 == IF e.a = "Pull" THEN {e.s} ELSE {}
     IN (e.r # w /\ e.r \notin R /\ w \notin R1) => Pos(e.r) < Pos(w)
PullClass(r, s) == IF hlv[r].src = NoSrc THEN "NoConflict" ELSE Classify(hlv[r], hlv[s])
Next ==
  /\ Len(hist) < MaxSteps
  /\ \/ \E r \in Rep : Activation(r) /\ r \in Editors /\ gen[r] < EditCap /\ Canon(r, {}) /\ \E v \in EditVersions(r) : Edit(r, v)
     \/ \E r, s \in Rep :
          /\ r # s /\ hlv[s].src # NoSrc /\ Activation(r) /\ Canon(r, {s})
          /\ Directed => (PullClass(r, s) = "Conflict" \/ (hlv[r].src = NoSrc /\ r \notin Editors) \/ (hlv[r].mv # Zero /\ hlv[s].mv # Zero))
          /\ IF PullClass(r, s) = "Conflict"
             THEN \/ \E res \in Resolutions \ {"Merge"} : Pull(r, s, res, 0)
                  \/ "Merge" \in Resolutions /\ \E v \in MergeVersions(r, s) : Pull(r, s, "Merge", v)
             ELSE Pull(r, s, "None", 0)
Spec == Init /\ [][Next]_vars

-----------------------------------------------------------------------------
(* C10 *)
IsPull == out.a = "Pull"
Decided == gcls \in {"Conflict", "NoConflict", "AlreadyPresent"}
(* reported as conflicting exactly when concurrent and not the same merge *)
ConflictSound == (IsPull /\ (Decided \/ gcls = "MutualSeen")) => ((out.cls = "Conflict") <=> (gcls = "Conflict"))
(* reported as already known exactly when the local replica has seen it *)
KnownSound    == (IsPull /\ Decided) => ((out.cls = "AlreadyPresent") <=> (gcls = "AlreadyPresent"))
(* the vector records precisely the versions its replica has seen (modulo reported named drops) *)
NothingLost     == \A r \in Rep, x \in Rep : Value(hlv[r], x) >= seen[r][x] \/ x \in lost[r]
NothingInvented == \A r \in Rep, x \in Rep : Value(hlv[r], x) <= seen[r][x]
VectorIsSeen    == NothingLost /\ NothingInvented
(* a source is listed at most once among cv/pv and at most once among mv/pv (cv and mv may share a source) *)
NoDup(h) == \A x \in Rep : ~(x = h.src /\ h.pv[x] # 0) /\ ~(h.mv[x] # 0 /\ h.pv[x] # 0)
NoDupSource == \A r \in Rep : NoDup(hlv[r])
(* no source's value lowered; locally generated versions strictly increase per source *)
Monotone      == mono
GenIncreasing == genok

TypeOK ==
  /\ \A r \in Rep : /\ hlv[r].src \in Rep \cup {NoSrc} /\ hlv[r].ver \in Nat
                    /\ hlv[r].mv \in [Rep -> Nat] /\ hlv[r].pv \in [Rep -> Nat]
                    /\ (hlv[r].src = NoSrc) = (hlv[r].ver = 0)
  /\ out.cls \in {"None", "NoConflict", "AlreadyPresent", "Conflict"}
(* design-level facts about reachable vectors (model / pass C only) *)
CvTopsMv  == \A r \in Rep : hlv[r].src # NoSrc => hlv[r].mv[hlv[r].src] < hlv[r].ver
MvPairs   == \A r \in Rep : Cardinality({x \in Rep : hlv[r].mv[x] # 0}) \in {0, 2}
(* the named deviations are the only way the transcription loses a version *)
NoDeviation == dev = ""
=============================================================================
