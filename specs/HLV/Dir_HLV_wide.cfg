CONSTANT Rep = {"a", "b", "c"}
CONSTANT MaxSteps = 9
CONSTANT Resolutions = {"Merge"}
CONSTANT EditCap = 2
CONSTANT Editors = {"a", "b", "c"}
CONSTANT Directed = TRUE
CONSTANT RepOrder <- Order3
SPECIFICATION Spec
INVARIANT DirectedExport
INVARIANT TypeOK
INVARIANT NoDupSource
INVARIANT ConflictSound
INVARIANT KnownSound
INVARIANT NothingInvented
INVARIANT NothingLost
INVARIANT Monotone
INVARIANT GenIncreasing
INVARIANT CvTopsMv
INVARIANT MvPairs
CHECK_DEADLOCK FALSE
