CONSTANT Rep = {"a", "b", "c"}
CONSTANT MaxSteps = 1000000
CONSTANT Resolutions = {"RemoteWins", "LocalWins", "Merge"}
CONSTANT EditCap = 99
CONSTANT Editors = {"a", "b", "c"}
CONSTANT Directed = FALSE
CONSTANT RepOrder <- TNoOrder
SPECIFICATION CSpec
CONSTRAINT Progress
POSTCONDITION Accept
CHECK_DEADLOCK FALSE
INVARIANT TypeOK
INVARIANT C_CvTopsMv
INVARIANT C_MvPairs
INVARIANT SynKnown
INVARIANT ValidAccepted
