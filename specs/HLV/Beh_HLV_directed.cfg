CONSTANT Rep = {"a", "b", "c"}
CONSTANT MaxSteps = 8
CONSTANT Resolutions = {"Merge"}
CONSTANT EditCap = 2
CONSTANT Directed = TRUE
CONSTANT RepOrder <- Order3
SPECIFICATION Spec
INVARIANT BehaviourExport
CHECK_DEADLOCK FALSE
