--------------------------- MODULE MC_HLV ---------------------------
EXTENDS HLV, Json
Order3  == <<"a", "b", "c">>
NoOrder == <<>>
BehaviourExport == (Len(hist) = MaxSteps) => PrintT(<<"BEH", ToJson([steps |-> hist])>>)
(* directed family: every behaviour (of any length up to MaxSteps) that ends in a pull between two merge holders *)
DirectedExport == (hist # <<>> /\ hist[Len(hist)].x) => PrintT(<<"BEH", ToJson([steps |-> hist])>>)

(* codec universe: every structurally valid vector over the three sources and three values
   (cv anywhere; every other source absent, in mv or in pv; the cv source may also sit in mv with another value) *)
UniVals  == 1..3
Universe == {h \in [src : Rep, ver : UniVals, mv : [Rep -> {0} \cup UniVals], pv : [Rep -> {0} \cup UniVals]] :
               NoDup(h) /\ h.mv[h.src] # h.ver}
(* exported once, from the initial state of the behaviour-generation run *)
UniverseExport == (hist = <<>>) => \A u \in Universe : PrintT(<<"UNI", ToJson(u)>>)
=============================================================================
