CONSTANT Rep = {"a", "b", "c"}
CONSTANT MaxSteps = 1000000
CONSTANT Resolutions = {"RemoteWins", "LocalWins", "Merge"}
CONSTANT EditCap = 99
CONSTANT Editors = {"a", "b", "c"}
CONSTANT Directed = FALSE
CONSTANT RepOrder <- TNoOrder
SPECIFICATION PSpec
CONSTRAINT Progress
POSTCONDITION Accept
CHECK_DEADLOCK FALSE
INVARIANT ConflictSound
INVARIANT KnownSound
INVARIANT NothingLost
INVARIANT NothingInvented
INVARIANT NoDupSource
INVARIANT Monotone
INVARIANT GenIncreasing
INVARIANT CodecStable
INVARIANT MalformedRejected
INVARIANT WireStable
INVARIANT DevReport
INVARIANT InfoReport
