CONSTANT Rep = {"a", "b", "c"}
CONSTANT MaxSteps = 6
CONSTANT Resolutions = {"RemoteWins", "LocalWins", "Merge"}
CONSTANT EditCap = 99
CONSTANT Editors = {"a", "b", "c"}
CONSTANT Directed = FALSE
CONSTANT RepOrder <- Order3
SPECIFICATION Spec
INVARIANT BehaviourExport
CHECK_DEADLOCK FALSE
INVARIANT UniverseExport
