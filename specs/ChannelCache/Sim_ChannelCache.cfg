CONSTANT DocSeq <- D3
CONSTANT MaxSeq = 8
CONSTANT MaxSteps = 12
CONSTANT MaxLens = {1, 2, 3}
CONSTANT MinLens = {0, 1}
CONSTANT Lims = {0, 1, 2}
CONSTANT AOs = {TRUE, FALSE}
CONSTANT MaxPending = 2
CONSTANT MaxInter = 2
CONSTANT Acts <- AllActs
CONSTANT PurgeRace = FALSE
CONSTANT RecordReads = TRUE
CONSTANT HitSteps = FALSE
SPECIFICATION SimSpec
INVARIANT BehaviourExport
CHECK_DEADLOCK FALSE
