CONSTANT DocSeq <- D3
CONSTANT MaxSeq = 4
CONSTANT MaxSteps = 5
CONSTANT MaxLens = {1, 2, 3}
CONSTANT MinLens = {0}
CONSTANT Lims = {0, 1, 2}
CONSTANT AOs = {TRUE, FALSE}
CONSTANT MaxPending = 1
CONSTANT MaxInter = 2
CONSTANT Acts <- AllActs
CONSTANT PurgeRace = FALSE
CONSTANT RecordReads = FALSE
CONSTANT HitSteps = FALSE
SPECIFICATION Spec
VIEW view
INVARIANT Asc
INVARIANT OnePerDoc
INVARIANT Complete
INVARIANT ReadCorrect
INVARIANT PurgedNotServed
INVARIANT ReadCorrectAll
INVARIANT PurgedNotServedAll
INVARIANT DocsIndex
INVARIANT VFBound
INVARIANT LenBound
INVARIANT TypeOK
CHECK_DEADLOCK FALSE
