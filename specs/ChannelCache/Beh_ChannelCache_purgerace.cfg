CONSTANT DocSeq <- D2
CONSTANT MaxSeq = 2
CONSTANT MaxSteps = 6
CONSTANT MaxLens = {1, 2}
CONSTANT MinLens = {0}
CONSTANT Lims = {0, 1}
CONSTANT AOs = {FALSE}
CONSTANT MaxPending = 0
CONSTANT MaxInter = 1
CONSTANT Acts <- RaceActs
CONSTANT PurgeRace = TRUE
CONSTANT RecordReads = TRUE
CONSTANT HitSteps = FALSE
SPECIFICATION Spec
INVARIANT BehaviourExport
CHECK_DEADLOCK FALSE
