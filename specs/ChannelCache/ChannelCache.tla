--------------------------- MODULE ChannelCache ---------------------------
(* One channel's cache against its ground truth: db/channel_cache_single.go (singleChannelCacheImpl).
   One action per critical section of c.lock:
     Add / Deliver   addToCache: wouldBeImmediatelyPruned | _appendChange (append, replace-same-doc, or
                     insertChange for an out-of-order sequence) ; _pruneCacheLength
     PruneAge(k)     pruneCacheAge with the k oldest entries forged older than ChannelCacheAge
     Purge(d)        Remove({d}, startTime) (document purged from the bucket)
     Recreate        the cache is evicted and re-created by channelCacheImpl.addChannelCache: validFrom = hcs + 1
     Read(s,lim,ao)  GetChanges: cached read; if validFrom > s+1: query [s+1, validFrom] with limit, prependChanges
                     (all early-outs), concatenation with one-row overlap removal.  Atomic, or split at the query
                     (ReadBegin / ReadQuery / ReadEnd) so that other actions interleave as they can under queryLock.
   Environment (ghost): the bucket.  truth = the rows the channel query returns now - one row per document: its
   latest sequence in this channel, removal rows included.  Every write that changes truth is also handed to the
   cache (immediately = Add, or later/out of order = WriteLater ... Deliver); pending = written, not yet delivered.
   Impl* conjuncts define the implementation variables, Ghost* the environment/history; Trace_ChannelCache reuses them.
   Decides C01 at component level. *)
EXTENDS Integers, Sequences, FiniteSets, TLC

CONSTANTS DocSeq,      \* documents, in the order in which a behaviour may first use them (symmetry reduction)
          MaxSeq,      \* sequences 1..MaxSeq
          MaxSteps,    \* bound on the length of a behaviour
          MaxLens,     \* ChannelCacheMaxLength values explored
          MinLens,     \* ChannelCacheMinLength values explored
          Lims,        \* limits of a read (0 = none)
          AOs,         \* active-only values of a read (subset of BOOLEAN)
          MaxPending,  \* bound on writes in flight
          MaxInter,    \* bound on the actions that interleave with one split read
          Acts,        \* enabled action names (configs restrict the alphabet)
          HitSteps,    \* FALSE: a read answered from the cache alone (no effect on the cache) is not a step of a behaviour
          PurgeRace,   \* TRUE: a purge may land between the query and the prepend of a split read (named deviation, NOTES.md)
          RecordReads  \* FALSE (model checking only): results of uninterrupted reads are not kept in the state,
                       \* ReadCorrectAll evaluates every such read in every state instead

VARIABLES logs, validFrom, cachedDocs,        \* implementation
          maxLen, minLen,                     \* configuration of this behaviour
          truth, pending, nextSeq, hcs, ever, \* environment: bucket rows, in flight, _sync:seq, high cached sequence, all entries ever written
          res,                                \* result of the read that just completed (NoRes after any other action)
          rd,                                 \* GetChanges in progress between its cached read and its prepend (NoRd if none)
          hist
impl  == <<logs, validFrom, cachedDocs>>
ghost == <<maxLen, minLen, truth, pending, nextSeq, hcs, ever, res, rd>>
vars  == <<impl, ghost, hist>>
view  == <<impl, ghost>>

Docs == {DocSeq[i] : i \in 1..Len(DocSeq)}
NoRes == [s |-> -1]
NoRd  == [s |-> -1]
Entry(n, d, rm) == [seq |-> n, doc |-> d, rm |-> rm]

Min2(a, b) == IF a < b THEN a ELSE b
Max2(a, b) == IF a > b THEN a ELSE b
SetMax(S) == CHOOSE x \in S : \A y \in S : y <= x
Range(sq) == {sq[i] : i \in 1..Len(sq)}
DocsOf(sq) == {sq[i].doc : i \in 1..Len(sq)}
RemoveAt(sq, i) == SubSeq(sq, 1, i - 1) \o SubSeq(sq, i + 1, Len(sq))
InsertAfter(sq, n, e) == SubSeq(sq, 1, n) \o <<e>> \o SubSeq(sq, n + 1, Len(sq))
RECURSIVE SortBySeq(_)
SortBySeq(S) == IF S = {} THEN <<>>
                ELSE LET m == CHOOSE r \in S : \A q \in S : r.seq <= q.seq IN <<m>> \o SortBySeq(S \ {m})

-----------------------------------------------------------------------------
(* the cache as a value c = [logs, vf, docs]; operators transcribe the methods *)
Cur == [logs |-> logs, vf |-> validFrom, docs |-> cachedDocs]
TruthSeq == SortBySeq(truth)     \* what the bucket index holds for this channel, in key order

(* insertChange: walk backwards; insertAtIndex = position after the last entry older than e; the first entry of
   the same document met from the end decides: newer-or-equal => ignore, older => it is dropped and e takes the
   slot before insertAtIndex.  The document search only happens when cachedDocIDs says the document is cached. *)
InsertChange(c, e) ==
  LET L   == c.logs
      J   == {j \in 1..Len(L) : L[j].seq < e.seq}
      ins == IF J = {} THEN 0 ELSE SetMax(J)
      M   == IF e.doc \in c.docs THEN {j \in 1..Len(L) : L[j].doc = e.doc} ELSE {}
      m   == IF M = {} THEN 0 ELSE SetMax(M)
  IN IF m > 0 /\ L[m].seq >= e.seq THEN [c EXCEPT !.docs = @ \cup {e.doc}]
     ELSE IF m > 0 THEN [c EXCEPT !.logs = InsertAfter(RemoveAt(L, m), ins - 1, e), !.docs = @ \cup {e.doc}]
     ELSE [c EXCEPT !.logs = InsertAfter(L, ins, e), !.docs = @ \cup {e.doc}]

(* _appendChange *)
AppendChange(c, e) ==
  LET L == c.logs IN
  IF Len(L) = 0 THEN [logs |-> <<e>>, vf |-> Min2(c.vf, e.seq), docs |-> c.docs \cup {e.doc}]
  ELSE IF e.seq <= L[Len(L)].seq THEN InsertChange(c, e)
  ELSE LET M == IF e.doc \in c.docs THEN {j \in 1..Len(L) : L[j].doc = e.doc} ELSE {} IN
       IF M # {} THEN [c EXCEPT !.logs = Append(RemoveAt(L, SetMax(M)), e)]
       ELSE [c EXCEPT !.logs = Append(L, e), !.docs = @ \cup {e.doc}]

(* _pruneCacheLength *)
PruneLen(c, mx) ==
  IF Len(c.logs) > mx
  THEN LET p == Len(c.logs) - mx IN
       [logs |-> SubSeq(c.logs, p + 1, Len(c.logs)), vf |-> c.logs[p].seq + 1,
        docs |-> c.docs \ {c.logs[i].doc : i \in 1..p}]
  ELSE c

(* addToCache *)
AddToCache(c, e, mx) == IF e.seq < c.vf THEN c ELSE PruneLen(AppendChange(c, e), mx)

(* pruneCacheAge when exactly the k oldest entries are older than ChannelCacheAge *)
PruneAgeOp(c, k, mn, mx) ==
  IF mn >= mx THEN c
  ELSE LET n == Min2(k, Max2(0, Len(c.logs) - mn)) IN
       IF n = 0 THEN c
       ELSE [logs |-> SubSeq(c.logs, n + 1, Len(c.logs)), vf |-> c.logs[n].seq + 1,
             docs |-> c.docs \ {c.logs[i].doc : i \in 1..n}]

(* Remove(docIDs, startTime) with every cached entry received before startTime *)
RemoveOp(c, D) ==
  LET F == D \cap c.docs IN
  [c EXCEPT !.logs = SelectSeq(@, LAMBDA x : x.doc \notin F), !.docs = @ \ (F \cap DocsOf(c.logs))]

(* prependChanges: the backwards scan over the query rows *)
RECURSIVE PrepScan(_, _, _, _, _, _, _)
PrepScan(rows, i, acc, docs, cap, vf, from) ==
  IF i < 1 THEN [acc |-> acc, docs |-> docs, from |-> from]
  ELSE IF rows[i].seq < vf /\ rows[i].doc \notin docs
       THEN LET acc2 == <<rows[i]>> \o acc IN
            IF Len(acc2) >= cap
            THEN [acc |-> acc2, docs |-> docs \cup {rows[i].doc}, from |-> rows[i].seq]
            ELSE PrepScan(rows, i - 1, acc2, docs \cup {rows[i].doc}, cap, vf, from)
       ELSE PrepScan(rows, i - 1, acc, docs, cap, vf, from)

PrependOp(c, rows, from, to, mx) ==
  IF Len(rows) = 0 THEN (IF from < c.vf /\ to >= c.vf THEN [c EXCEPT !.vf = from] ELSE c)   \* early-out 1
  ELSE IF to < c.vf THEN c                                                                    \* early-out 2
  ELSE IF Len(c.logs) = 0
       THEN LET ex == Len(rows) - mx
                rs == IF ex > 0 THEN SubSeq(rows, ex + 1, Len(rows)) ELSE rows
                f  == IF ex > 0 THEN rs[1].seq ELSE from
            IN [logs |-> rs, vf |-> f, docs |-> c.docs \cup DocsOf(rs)]
  ELSE IF mx - Len(c.logs) <= 0 THEN c                                                        \* early-out 3
  ELSE IF from >= c.vf THEN c                                                                 \* early-out 4
  ELSE LET r == PrepScan(rows, Len(rows), <<>>, c.docs, mx - Len(c.logs), c.vf, from) IN
       [logs |-> r.acc \o c.logs, vf |-> r.from, docs |-> r.docs]

(* _getCachedChanges *)
GetCached(c, s, lim) ==
  LET L == c.logs IN
  IF Len(L) = 0 THEN [vf |-> c.vf, rows |-> <<>>]
  ELSE LET K  == {i \in 1..Len(L) : L[i].seq <= s}
           st == IF K = {} THEN 0 ELSE SetMax(K)
           n0 == Len(L) - st
           n  == IF lim > 0 /\ n0 > lim THEN lim ELSE n0
       IN [vf |-> IF st > 0 THEN L[st].seq + 1 ELSE c.vf, rows |-> SubSeq(L, st + 1, st + n)]

(* the channel query (environment): rows of T (given in ascending order) with lo <= seq <= hi, active only if
   asked, first lim *)
Query(T, lo, hi, lim, ao) ==
  LET S == SelectSeq(T, LAMBDA r : lo <= r.seq /\ r.seq <= hi /\ (ao => ~r.rm)) IN
  IF lim > 0 /\ Len(S) > lim THEN SubSeq(S, 1, lim) ELSE S

(* GetChanges, first part: the cached read (limit ignored for active-only) *)
ReadStart(c, s, lim, ao) ==
  LET g == GetCached(c, s, IF ao THEN 0 ELSE lim) IN [hit |-> g.vf <= s + 1, vf |-> g.vf, fc |-> g.rows]
(* ... the prepend after the query returned q for the range [s+1, vf] ... *)
AfterQuery(c, s, lim, ao, vf, fc, q, mx) ==
  IF ~ao /\ Len(fc) < mx
  THEN PrependOp(c, q, s + 1, IF lim # 0 /\ Len(q) >= lim THEN q[Len(q)].seq ELSE vf, mx)
  ELSE c
(* ... and the concatenation *)
Compose(lim, fc, q) ==
  LET room == lim - Len(q) IN
  IF (lim = 0 \/ room > 0) /\ Len(fc) > 0
  THEN LET f2 == IF Len(q) > 0 /\ fc[1].seq = q[Len(q)].seq THEN Tail(fc) ELSE fc
           n  == IF lim > 0 /\ room > 0 /\ room < Len(f2) THEN room ELSE Len(f2)
       IN q \o SubSeq(f2, 1, n)
  ELSE q
(* the whole call without interleaving *)
AtomicRead(c, T, s, lim, ao, mx) ==
  LET st == ReadStart(c, s, lim, ao) IN
  IF st.hit THEN [c |-> c, rows |-> st.fc, hit |-> TRUE]
  ELSE LET q == Query(T, s + 1, st.vf, lim, ao) IN
       [c |-> AfterQuery(c, s, lim, ao, st.vf, st.fc, q, mx), rows |-> Compose(lim, st.fc, q), hit |-> FALSE]

-----------------------------------------------------------------------------
Init ==
  /\ logs = <<>> /\ validFrom = 1 /\ cachedDocs = {}
  /\ maxLen \in MaxLens /\ minLen \in MinLens
  /\ truth = {} /\ pending = {} /\ nextSeq = 1 /\ hcs = 0 /\ ever = {}
  /\ res = NoRes /\ rd = NoRd
  /\ hist = <<>>

SetCache(c) == logs' = c.logs /\ validFrom' = c.vf /\ cachedDocs' = c.docs
Dirty(r) == IF r = NoRd THEN r ELSE [r EXCEPT !.clean = FALSE, !.n = @ + 1]
Free == IF rd = NoRd THEN TRUE ELSE rd.n < MaxInter
ActiveIn(d) == \E r \in truth : r.doc = d /\ ~r.rm
Used == {e.doc : e \in ever}
DocOK(d) == \E i \in 1..Len(DocSeq) : DocSeq[i] = d /\ \A j \in 1..(i - 1) : DocSeq[j] \in Used
WriteOK(d, rm) == nextSeq <= MaxSeq /\ DocOK(d) /\ (rm => ActiveIn(d))

ImplDeliver(e) == LET c == AddToCache(Cur, e, maxLen) IN SetCache(c)
GhostWrite(e, now) ==      \* a write that concerns this channel; now = handed to the cache in the same step
  /\ truth' = {r \in truth : r.doc # e.doc} \cup {e}
  /\ pending' = IF now THEN pending ELSE pending \cup {e}
  /\ nextSeq' = Max2(nextSeq, e.seq + 1) /\ hcs' = IF now THEN Max2(hcs, e.seq) ELSE hcs
  /\ ever' = ever \cup {e} /\ res' = NoRes /\ rd' = Dirty(rd)
  /\ UNCHANGED <<maxLen, minLen>>
GhostDeliver(e) ==
  /\ pending' = pending \ {e} /\ hcs' = Max2(hcs, e.seq) /\ res' = NoRes /\ rd' = Dirty(rd)
  /\ UNCHANGED <<maxLen, minLen, truth, nextSeq, ever>>
GhostGap ==                \* a sequence used by a document of other channels: only the counters move
  /\ hcs' = Max2(hcs, nextSeq) /\ nextSeq' = nextSeq + 1 /\ res' = NoRes /\ rd' = Dirty(rd)
  /\ UNCHANGED <<maxLen, minLen, truth, pending, ever>>
ImplPruneAge(k) == LET c == PruneAgeOp(Cur, k, minLen, maxLen) IN SetCache(c)
GhostQuiet == res' = NoRes /\ rd' = Dirty(rd) /\ UNCHANGED <<maxLen, minLen, truth, pending, nextSeq, hcs, ever>>
ImplPurge(d) == LET c == RemoveOp(Cur, {d}) IN SetCache(c)
GhostPurge(d) ==
  /\ truth' = {r \in truth : r.doc # d} /\ res' = NoRes /\ rd' = Dirty(rd)
  /\ UNCHANGED <<maxLen, minLen, pending, nextSeq, hcs, ever>>
ImplRecreate == logs' = <<>> /\ cachedDocs' = {} /\ validFrom' = hcs + 1

ImplRead(s, lim, ao) == LET c == AtomicRead(Cur, TruthSeq, s, lim, ao, maxLen).c IN SetCache(c)
ReadRows(s, lim, ao) == AtomicRead(Cur, TruthSeq, s, lim, ao, maxLen).rows
GhostRead(s, lim, ao, rows) ==
  /\ res' = IF RecordReads THEN [s |-> s, lim |-> lim, ao |-> ao, rows |-> rows, clean |-> TRUE] ELSE NoRes
  /\ UNCHANGED <<maxLen, minLen, truth, pending, nextSeq, hcs, ever, rd>>

(* split read; rd holds the locals of GetChanges *)
GhostReadBegin(s, lim, ao) ==
  LET st == ReadStart(Cur, s, lim, ao) IN
  /\ rd' = [s |-> s, lim |-> lim, ao |-> ao, vf |-> st.vf, fc |-> st.fc, q |-> <<>>, stage |-> "query", clean |-> TRUE, n |-> 0]
  /\ res' = NoRes /\ UNCHANGED <<maxLen, minLen, truth, pending, nextSeq, hcs, ever>>
GhostReadQuery(q) ==
  /\ rd' = [rd EXCEPT !.q = q, !.stage = "prepend"]
  /\ res' = NoRes /\ UNCHANGED <<maxLen, minLen, truth, pending, nextSeq, hcs, ever>>
QueryNow == Query(TruthSeq, rd.s + 1, rd.vf, rd.lim, rd.ao)
ImplReadEnd == LET c == AfterQuery(Cur, rd.s, rd.lim, rd.ao, rd.vf, rd.fc, rd.q, maxLen) IN SetCache(c)
EndRows == Compose(rd.lim, rd.fc, rd.q)
GhostReadEnd(rows) ==
  /\ res' = IF RecordReads \/ ~rd.clean THEN [s |-> rd.s, lim |-> rd.lim, ao |-> rd.ao, rows |-> rows, clean |-> rd.clean] ELSE NoRes
  /\ rd' = NoRd /\ UNCHANGED <<maxLen, minLen, truth, pending, nextSeq, hcs, ever>>

Step(r) == hist' = Append(hist, r)
On(a) == a \in Acts

Add(d, rm) ==
  LET e == Entry(nextSeq, d, rm) IN
  On("Add") /\ Free /\ WriteOK(d, rm) /\ ImplDeliver(e) /\ GhostWrite(e, TRUE)
  /\ Step([a |-> "Add", seq |-> e.seq, doc |-> d, rm |-> rm])
WriteLater(d, rm) ==
  LET e == Entry(nextSeq, d, rm) IN
  On("WriteLater") /\ Free /\ WriteOK(d, rm) /\ Cardinality(pending) < MaxPending /\ UNCHANGED impl /\ GhostWrite(e, FALSE)
  /\ Step([a |-> "WriteLater", seq |-> e.seq, doc |-> d, rm |-> rm])
Deliver(e) ==
  On("WriteLater") /\ Free /\ e \in pending /\ ImplDeliver(e) /\ GhostDeliver(e)
  /\ Step([a |-> "Deliver", seq |-> e.seq, doc |-> e.doc, rm |-> e.rm])
Gap == On("Gap") /\ Free /\ nextSeq <= MaxSeq /\ UNCHANGED impl /\ GhostGap /\ Step([a |-> "Gap"])
PruneAge(k) ==
  On("PruneAge") /\ Free /\ minLen < maxLen /\ Len(logs) > minLen /\ k \in 1..(Len(logs) - minLen)
  /\ ImplPruneAge(k) /\ GhostQuiet /\ Step([a |-> "PruneAge", k |-> k])
Purge(d) ==      \* assumption: no write of d is in flight when it is purged (the code guards that race by TimeReceived).
                 \* PurgeRace = FALSE additionally assumes that no query backfill is in flight: with PurgeRace = TRUE the
                 \* prepend after the purge re-inserts the purged row (PurgedNotServed fails - a finding on the real code,
                 \* see NOTES.md); everything else is proved under PurgeRace = FALSE
  On("Purge") /\ (IF PurgeRace THEN Free ELSE rd = NoRd) /\ (\E r \in truth : r.doc = d) /\ (\A p \in pending : p.doc # d)
  /\ ImplPurge(d) /\ GhostPurge(d) /\ Step([a |-> "Purge", doc |-> d])
Recreate ==
  On("Recreate") /\ rd = NoRd /\ (Len(logs) > 0 \/ validFrom # hcs + 1)
  /\ ImplRecreate /\ GhostQuiet /\ Step([a |-> "Recreate"])
Read(s, lim, ao) ==
  LET r == AtomicRead(Cur, TruthSeq, s, lim, ao, maxLen)
      c == r.c IN            \* = ImplRead(s, lim, ao) /\ GhostRead(s, lim, ao, ReadRows(s, lim, ao)), evaluated once
  On("Read") /\ rd = NoRd /\ (HitSteps \/ ~ReadStart(Cur, s, lim, ao).hit)
  /\ SetCache(c) /\ GhostRead(s, lim, ao, r.rows)
  /\ Step([a |-> "Read", s |-> s, lim |-> lim, ao |-> ao])
ReadBegin(s, lim, ao) ==
  On("Split") /\ rd = NoRd /\ ~ReadStart(Cur, s, lim, ao).hit /\ UNCHANGED impl /\ GhostReadBegin(s, lim, ao)
  /\ Step([a |-> "ReadBegin", s |-> s, lim |-> lim, ao |-> ao])
ReadQuery ==
  On("Split") /\ rd # NoRd /\ rd.stage = "query" /\ UNCHANGED impl /\ GhostReadQuery(QueryNow)
  /\ Step([a |-> "ReadQuery"])
ReadEnd ==
  On("Split") /\ rd # NoRd /\ rd.stage = "prepend" /\ ImplReadEnd /\ GhostReadEnd(EndRows)
  /\ Step([a |-> "ReadEnd"])

Sinces == 0..(nextSeq - 1)
Next ==
  /\ Len(hist) < MaxSteps
  /\ \/ \E d \in Docs, rm \in BOOLEAN : Add(d, rm) \/ WriteLater(d, rm)
     \/ \E e \in pending : Deliver(e)
     \/ Gap
     \/ \E k \in 1..Len(logs) : PruneAge(k)
     \/ \E d \in Docs : Purge(d)
     \/ Recreate
     \/ \E s \in Sinces, lim \in Lims, ao \in AOs : Read(s, lim, ao) \/ ReadBegin(s, lim, ao)
     \/ ReadQuery \/ ReadEnd
Spec == Init /\ [][Next]_vars

-----------------------------------------------------------------------------
(* C01, component level.  Cache invariants as functions of a cache value so that the trace module can apply
   them to probed copies as well. *)
AscOf(L) == \A i, j \in 1..Len(L) : i < j => L[i].seq < L[j].seq
OnePerDocOf(L) == \A i, j \in 1..Len(L) : i # j => L[i].doc # L[j].doc
CompleteOf(c) == \A r \in truth : (r.seq >= c.vf /\ r \notin pending) => r \in Range(c.logs)

Asc == AscOf(logs)
OnePerDoc == OnePerDocOf(logs)
(* every row of the channel at or after the validity point that has been handed to the cache is cached *)
Complete == CompleteOf(Cur)
(* auxiliary *)
DocsIndex == cachedDocs = DocsOf(logs)
VFBound == \A i \in 1..Len(logs) : logs[i].seq >= validFrom
LenBound == Len(logs) <= maxLen

(* What a read from s with limit lim must return, for EVERY cache state.  With nothing in flight this is:
   R = the first lim rows of {r \in truth : r.seq > s} in ascending order (active-only: the non-active rows it
   may still carry are genuine, and every active row up to the last returned sequence is there).  A row in
   flight may be missing, and the cached predecessor of a row in flight may be returned in its place. *)
ReadOK(R, s, lim, ao) ==
  LET cut == IF lim > 0 /\ Len(R) >= lim THEN R[Len(R)].seq ELSE MaxSeq + 1 IN
  /\ AscOf(R) /\ OnePerDocOf(R)
  /\ \A i \in 1..Len(R) : /\ R[i].seq > s
                          /\ \/ R[i] \in truth
                             \/ R[i] \in ever /\ \E p \in pending : p.doc = R[i].doc /\ p.seq > R[i].seq
  /\ \A r \in truth : (r.seq > s /\ r.seq <= cut /\ r \notin pending /\ (ao => ~r.rm)) => r \in Range(R)
  /\ (~ao /\ lim > 0) => Len(R) <= lim
(* a read that overlapped other actions: order, no repetition, only rows that were written, the limit *)
ReadWeak(R, s, lim, ao) ==
  /\ AscOf(R) /\ OnePerDocOf(R)
  /\ \A i \in 1..Len(R) : R[i].seq > s /\ R[i] \in ever
  /\ (~ao /\ lim > 0) => Len(R) <= lim
ReadCorrect ==
  res # NoRes => IF res.clean THEN ReadOK(res.rows, res.s, res.lim, res.ao) ELSE ReadWeak(res.rows, res.s, res.lim, res.ao)
(* A purged document (no row in the bucket any more, no later write) is not served by any read that starts after the
   purge completed.  Reads that overlapped the purge (res.clean = FALSE) are exempt. *)
PurgedDocs == {e.doc : e \in ever} \ {r.doc : r \in truth}
ServedOK(R) == \A i \in 1..Len(R) : R[i].doc \notin PurgedDocs
PurgedNotServed == (res # NoRes /\ res.clean) => ServedOK(res.rows)
PurgedNotServedAll == rd = NoRd => ServedOK(AtomicRead(Cur, TruthSeq, 0, 0, FALSE, maxLen).rows)
(* model only: every possible read in every reachable state, and the cache it leaves behind *)
ReadCorrectAll ==
  rd = NoRd =>
    LET ts == TruthSeq IN
    \A s \in Sinces, lim \in Lims, ao \in AOs :
      LET r == AtomicRead(Cur, ts, s, lim, ao, maxLen) IN
      /\ ReadOK(r.rows, s, lim, ao)
      /\ AscOf(r.c.logs) /\ OnePerDocOf(r.c.logs) /\ CompleteOf(r.c) /\ r.c.docs = DocsOf(r.c.logs)
TypeOK ==
  /\ validFrom \in 0..(MaxSeq + 1) /\ cachedDocs \subseteq Docs /\ nextSeq \in 1..(MaxSeq + 1) /\ hcs \in 0..MaxSeq
  /\ \A i \in 1..Len(logs) : logs[i] \in ever
  /\ pending \subseteq ever /\ truth \subseteq ever
=============================================================================
