--------------------------- MODULE MC_ChannelCache ---------------------------
EXTENDS ChannelCache, Json
D2 == <<"a", "b">>
D3 == <<"a", "b", "c">>
AllActs  == {"Add", "WriteLater", "Gap", "PruneAge", "Purge", "Recreate", "Read", "Split"}
SeqActs  == {"Add", "WriteLater", "Gap", "PruneAge", "Purge", "Recreate", "Read"}
BehActs  == {"Add", "WriteLater", "PruneAge", "Purge", "Recreate", "Read"}
BehaviourExport ==
  (Len(hist) = MaxSteps) => PrintT(<<"BEH", ToJson([mx |-> maxLen, mn |-> minLen, steps |-> hist])>>)
=============================================================================
