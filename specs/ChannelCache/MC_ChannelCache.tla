--------------------------- MODULE MC_ChannelCache ---------------------------
EXTENDS ChannelCache, Json, IOUtils
D2 == <<"a", "b">>
D3 == <<"a", "b", "c">>
AllActs  == {"Add", "WriteLater", "Gap", "PruneAge", "Purge", "Recreate", "Read", "Split"}
SeqActs  == {"Add", "WriteLater", "Gap", "PruneAge", "Purge", "Recreate", "Read"}
BehActs  == {"Add", "WriteLater", "PruneAge", "Purge", "Recreate", "Read"}
CoreActs == {"Add", "WriteLater", "PruneAge", "Read"}
RaceActs == {"Add", "PruneAge", "Purge", "Split", "Recreate"}
D1 == <<"a">>
(* quick tier: the deeper exhaustive set is generated for one cache length per run (chosen by the seed) *)
EnvMaxLens == {atoi(IOEnv.VERIF_C01_MAXLEN)}
(* Simulation: TLC picks uniformly among SUCCESSOR STATES, so with Next the many-argument actions (reads, writes) swamp
   PruneAge / Deliver / ReadQuery / ReadEnd.  SimNext draws the arguments with RandomElement: one successor per action
   kind, so that prunes, late deliveries, query-backed reads and the steps of a split read interleave. *)
RE(S) == RandomElement(S)
ActiveDocs == {d \in Docs : ActiveIn(d)}
KnownDocs == {d \in Docs : \E r \in truth : r.doc = d}
MissSinces(lim, ao) == {s \in Sinces : ~ReadStart(Cur, s, lim, ao).hit}
SimNext ==
  /\ Len(hist) < MaxSteps
  /\ \/ Add(RE(Docs), FALSE)
     \/ (ActiveDocs # {} /\ Add(RE(ActiveDocs), TRUE))
     \/ WriteLater(RE(Docs), FALSE)
     \/ (ActiveDocs # {} /\ WriteLater(RE(ActiveDocs), TRUE))
     \/ (pending # {} /\ Deliver(RE(pending)))
     \/ (pending # {} /\ Deliver(RE(pending)))
     \/ (RE(1..3) = 1 /\ Gap)
     \/ (Len(logs) > minLen /\ PruneAge(RE(1..(Len(logs) - minLen))))
     \/ (Len(logs) > minLen /\ PruneAge(1))
     \/ (RE(1..2) = 1 /\ KnownDocs # {} /\ Purge(RE(KnownDocs)))
     \/ (RE(1..4) = 1 /\ Recreate)
     \/ LET lim == RE(Lims)
            ao == RE(AOs) IN
        MissSinces(lim, ao) # {} /\ Read(RE(MissSinces(lim, ao)), lim, ao)
     \/ LET lim == RE(Lims)
            ao == RE(AOs) IN
        MissSinces(lim, ao) # {} /\ ReadBegin(RE(MissSinces(lim, ao)), lim, ao)
     \/ ReadQuery \/ ReadEnd
SimSpec == Init /\ [][SimNext]_vars
BehaviourExport ==
  (Len(hist) = MaxSteps) => PrintT(<<"BEH", ToJson([mx |-> maxLen, mn |-> minLen, steps |-> hist])>>)
=============================================================================
