CONSTANT DocSeq <- D2
CONSTANT MaxSeq = 3
CONSTANT MaxSteps = 6
CONSTANT MaxLens = {1, 2}
CONSTANT MinLens = {0}
CONSTANT Lims = {0, 1}
CONSTANT AOs = {FALSE}
CONSTANT MaxPending = 0
CONSTANT MaxInter = 1
CONSTANT Acts <- RaceActs
CONSTANT PurgeRace = TRUE
CONSTANT RecordReads = FALSE
CONSTANT HitSteps = FALSE
SPECIFICATION Spec
VIEW view
INVARIANT PurgedNotServedAll
CHECK_DEADLOCK FALSE
