CONSTANT DocSeq <- D2
CONSTANT MaxSeq = 6
CONSTANT MaxSteps = 5
CONSTANT MaxLens <- EnvMaxLens
CONSTANT MinLens = {0}
CONSTANT Lims = {0, 1}
CONSTANT AOs = {FALSE}
CONSTANT MaxPending = 1
CONSTANT MaxInter = 2
CONSTANT Acts <- CoreActs
CONSTANT RecordReads = TRUE
CONSTANT HitSteps = FALSE
SPECIFICATION Spec
INVARIANT BehaviourExport
CHECK_DEADLOCK FALSE
