--------------------------- MODULE Trace_ChannelCache ---------------------------
(* Validation of traces recorded from a real db.singleChannelCacheImpl (harness/db/c01_channelcache_test.go).
   Every line carries the REAL cache after the call, read under c.lock:
       logs:[{seq,doc,rm}..]  vf  docs:[..]
   Lines:  {a:"Reset", beh, mx, mn}
           {a:"Add"|"WriteLater"|"Deliver", seq, doc, rm}    {a:"Gap"}   {a:"PruneAge", k}   {a:"Purge", doc}
           {a:"Recreate"}
           {a:"Read", s, lim, ao, rows}                          GetChanges without interleaving
           {a:"ReadBegin", s, lim, ao}                           GetChanges started; it is now blocked in the query
           {a:"ReadQuery", lo, hi, qlim, qao, q}                 arguments the real code passed to the query, and the answer
           {a:"ReadEnd", rows}
           {a:"Probe", results:[{s, lim, ao, rows, same, logs, vf, docs}..]}   every read (s, lim, ao) executed on a COPY
                                                                  of the real cache in its current state; the copy afterwards
                                                                  (logs, vf, docs omitted when same = the copy did not change)
           {a:"Back", n}                                          the following lines continue from the state after step n
                                                                  of the current behaviour (the harness re-executed that
                                                                  prefix on a fresh real cache) - shared prefixes are logged once
   rows/q = [{seq,doc,rm}..]. *)
EXTENDS ChannelCache, TraceLib

VARIABLES l, probe, stack
tvars == <<vars, l, probe, stack>>

DTrace == <<>>     \* DocSeq / Acts are only used by Next of the base spec, never by the trace specs
ATrace == {}
T == Trace[l]
LSet(x) == {x[i] : i \in 1..Len(x)}
E(r) == Entry(r.seq, r.doc, r.rm)
Ev(a) == l <= TraceLen /\ Trace[l].a = a /\ l' = l + 1
Logged == logs' = Trace[l].logs /\ validFrom' = Trace[l].vf /\ cachedDocs' = LSet(Trace[l].docs)
NoProbe == probe' = <<>>

Snap == [logs |-> logs, validFrom |-> validFrom, cachedDocs |-> cachedDocs, truth |-> truth, pending |-> pending,
         nextSeq |-> nextSeq, hcs |-> hcs, ever |-> ever, rd |-> rd]
Snap1 == [logs |-> logs', validFrom |-> validFrom', cachedDocs |-> cachedDocs', truth |-> truth', pending |-> pending',
          nextSeq |-> nextSeq', hcs |-> hcs', ever |-> ever', rd |-> rd']
TInit == Init /\ l = 1 /\ probe = <<>> /\ stack = <<>>

Reset == /\ Ev("Reset") /\ NoProbe
         /\ logs' = <<>> /\ validFrom' = 1 /\ cachedDocs' = {}
         /\ maxLen' = Trace[l].mx /\ minLen' = Trace[l].mn
         /\ truth' = {} /\ pending' = {} /\ nextSeq' = 1 /\ hcs' = 0 /\ ever' = {}
         /\ res' = NoRes /\ rd' = NoRd /\ hist' = <<>>
         /\ stack' = <<Snap1>>
Back == /\ Ev("Back") /\ NoProbe
        /\ LET k == T.n + 1
               st == stack[k] IN
           /\ k <= Len(stack)
           /\ logs' = st.logs /\ validFrom' = st.validFrom /\ cachedDocs' = st.cachedDocs /\ truth' = st.truth
           /\ pending' = st.pending /\ nextSeq' = st.nextSeq /\ hcs' = st.hcs /\ ever' = st.ever /\ rd' = st.rd
           /\ res' = NoRes /\ stack' = SubSeq(stack, 1, k)
        /\ UNCHANGED <<maxLen, minLen, hist>>

(* pass P: implementation variables := logged real state; environment/ghosts advance from the logged inputs *)
PAdd        == Ev("Add")        /\ Logged /\ GhostWrite(E(T), TRUE)
PWriteLater == Ev("WriteLater") /\ Logged /\ GhostWrite(E(T), FALSE)
PDeliver    == Ev("Deliver")    /\ Logged /\ GhostDeliver(E(T))
PGap        == Ev("Gap")        /\ Logged /\ GhostGap
PPruneAge   == Ev("PruneAge")   /\ Logged /\ GhostQuiet
PPurge      == Ev("Purge")      /\ Logged /\ GhostPurge(T.doc)
PRecreate   == Ev("Recreate")   /\ Logged /\ GhostQuiet
PRead       == Ev("Read")       /\ Logged /\ GhostRead(T.s, T.lim, T.ao, T.rows)
PReadBegin  == Ev("ReadBegin")  /\ Logged /\ GhostReadBegin(T.s, T.lim, T.ao)
PReadQuery  == Ev("ReadQuery")  /\ Logged /\ GhostReadQuery(T.q)
PReadEnd    == Ev("ReadEnd")    /\ Logged /\ GhostReadEnd(T.rows)
PProbe      == Ev("Probe") /\ probe' = T.results /\ UNCHANGED <<impl, ghost, stack>>
Push == stack' = Append(stack, Snap1)
PStep == \/ (PAdd \/ PWriteLater \/ PDeliver \/ PGap \/ PPruneAge \/ PPurge \/ PRecreate \/ PRead
             \/ PReadBegin \/ PReadQuery \/ PReadEnd) /\ NoProbe /\ Push
         \/ PProbe
PSpec == TInit /\ [][Reset \/ Back \/ (PStep /\ UNCHANGED hist)]_tvars

(* pass C: each logged step is an instance of the corresponding action from the previous REAL state *)
CAdd        == PAdd        /\ ImplDeliver(E(T))
CWriteLater == PWriteLater /\ UNCHANGED impl
CDeliver    == PDeliver    /\ E(T) \in pending /\ ImplDeliver(E(T))
CGap        == PGap        /\ UNCHANGED impl
CPruneAge   == PPruneAge   /\ ImplPruneAge(T.k)
CPurge      == PPurge      /\ ImplPurge(T.doc)
CRecreate   == PRecreate   /\ ImplRecreate
CRead       == PRead       /\ ImplRead(T.s, T.lim, T.ao) /\ T.rows = ReadRows(T.s, T.lim, T.ao)
CReadBegin  == PReadBegin  /\ UNCHANGED impl /\ ~ReadStart(Cur, T.s, T.lim, T.ao).hit
CReadQuery  == PReadQuery  /\ UNCHANGED impl /\ T.lo = rd.s + 1 /\ T.hi = rd.vf /\ T.qlim = rd.lim /\ T.qao = rd.ao
                           /\ T.q = QueryNow       \* the harness answered from the same truth as the ghost
CReadEnd    == PReadEnd    /\ ImplReadEnd /\ T.rows = EndRows
CProbe      == PProbe /\ LET ts == TruthSeq IN \A i \in 1..Len(T.results) :
                 LET x == T.results[i]
                     r == AtomicRead(Cur, ts, x.s, x.lim, x.ao, maxLen) IN
                 /\ x.rows = r.rows
                 /\ IF x.same THEN r.c = Cur ELSE x.logs = r.c.logs /\ x.vf = r.c.vf /\ LSet(x.docs) = r.c.docs
CStep == \/ (CAdd \/ CWriteLater \/ CDeliver \/ CGap \/ CPruneAge \/ CPurge \/ CRecreate \/ CRead
             \/ CReadBegin \/ CReadQuery \/ CReadEnd) /\ NoProbe /\ Push
         \/ CProbe
CSpec == TInit /\ [][Reset \/ Back \/ (CStep /\ UNCHANGED hist)]_tvars

Progress == Mark(l)
Accept == PrintHWM

(* property on probed copies: every read of every visited real state is correct and leaves a correct cache *)
ProbeCorrect ==
  \A i \in 1..Len(probe) :
    LET x == probe[i] IN
    /\ ReadOK(x.rows, x.s, x.lim, x.ao)
    /\ x.same \/ (AscOf(x.logs) /\ OnePerDocOf(x.logs) /\ CompleteOf([logs |-> x.logs, vf |-> x.vf, docs |-> LSet(x.docs)]))
(* PurgedNotServed on the probes: no read of the current real state returns a row of a purged document *)
ProbePurgedNotServed == \A i \in 1..Len(probe) : ServedOK(probe[i].rows)
ProbeDocsIndex == \A i \in 1..Len(probe) : probe[i].same \/ LSet(probe[i].docs) = DocsOf(probe[i].logs)
=============================================================================
