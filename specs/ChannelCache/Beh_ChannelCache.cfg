CONSTANT DocSeq <- D3
CONSTANT MaxSeq = 6
CONSTANT MaxSteps = 4
CONSTANT MaxLens = {1, 2, 3}
CONSTANT MinLens = {0}
CONSTANT Lims = {0, 1}
CONSTANT AOs = {FALSE}
CONSTANT MaxPending = 1
CONSTANT MaxInter = 2
CONSTANT Acts <- BehActs
CONSTANT PurgeRace = FALSE
CONSTANT RecordReads = TRUE
CONSTANT HitSteps = FALSE
SPECIFICATION Spec
INVARIANT BehaviourExport
CHECK_DEADLOCK FALSE
