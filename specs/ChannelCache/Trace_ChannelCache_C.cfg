CONSTANT DocSeq <- DTrace
CONSTANT MaxSeq = 1000000
CONSTANT MaxSteps = 1000000
CONSTANT MaxLens = {1}
CONSTANT MinLens = {0}
CONSTANT Lims = {0}
CONSTANT AOs = {FALSE}
CONSTANT MaxPending = 0
CONSTANT MaxInter = 2
CONSTANT Acts <- ATrace
CONSTANT PurgeRace = FALSE
CONSTANT RecordReads = TRUE
CONSTANT HitSteps = TRUE
SPECIFICATION CSpec
CONSTRAINT Progress
POSTCONDITION Accept
CHECK_DEADLOCK FALSE
INVARIANT DocsIndex
INVARIANT VFBound
INVARIANT LenBound
INVARIANT ProbeDocsIndex
