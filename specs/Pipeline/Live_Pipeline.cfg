\* liveness under fairness of feed delivery, the cache timers, writers finishing and clients asking (FairSpec).
\* No VIEW, no history, no step bound, no state constraint: boundedness comes from the guards on the counter and the redelivery budget.
CONSTANT Docs <- EDocs
CONSTANT Writers <- EWriters
CONSTANT Base <- EBase
CONSTANT Conflicts <- EConflicts
CONSTANT AllowFail <- EFail
CONSTANT AllowDie <- EDie
CONSTANT AllowAbandon <- EAbandon
CONSTANT AllowReconnect <- EReconnect
CONSTANT MaxDup <- EDup
CONSTANT TimedAbandon <- ETimed
CONSTANT Clients <- EClients
CONSTANT ContKeepsLow <- EKeepLow
CONSTANT RecentCutAtUnused <- ERecentCut
CONSTANT Mut <- EMut
CONSTANT MaxSeq <- EMaxSeq
CONSTANT MaxNum <- EMaxNum
CONSTANT MaxSteps = 0
CONSTANT RecordHist = FALSE
SPECIFICATION FairSpec
INVARIANT TypeOK
PROPERTY NoStall
PROPERTY EachAccounted
PROPERTY FeedAnnouncesFinal
PROPERTY NoLostChange
CHECK_DEADLOCK FALSE
