\* every behaviour of length PL_MAXSTEPS (8) of a tiny instance: CachePendingSeqMaxNum 0 (a waiting entry makes the cache skip at once)
CONSTANT Docs <- EDocs
CONSTANT Writers <- EWriters
CONSTANT Base <- EBase
CONSTANT Conflicts <- EConflicts
CONSTANT AllowFail <- EFail
CONSTANT AllowDie <- EDie
CONSTANT AllowAbandon <- EAbandon
CONSTANT AllowReconnect <- EReconnect
CONSTANT MaxDup <- EDup
CONSTANT TimedAbandon <- ETimed
CONSTANT Clients <- EClients
CONSTANT ContKeepsLow <- EKeepLow
CONSTANT RecentCutAtUnused <- ERecentCut
CONSTANT Mut <- EMut
CONSTANT MaxSeq <- EMaxSeq
CONSTANT MaxNum <- EMaxNum0
CONSTANT MaxSteps <- EMaxSteps
CONSTANT RecordHist = TRUE
SPECIFICATION Spec
INVARIANT BehaviourExport
INVARIANT ResumeSafe
INVARIANT FeedSound
INVARIANT OrderedPerResponse
INVARIANT LedgerAccounted
INVARIANT QuietAccounted
INVARIANT TypeOK
CHECK_DEADLOCK FALSE
