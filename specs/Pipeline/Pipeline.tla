--------------------------- MODULE Pipeline ---------------------------
(* GROWTH module (DESIGN section 5 item 1): the end-to-end pipeline
       writer -> shared counter -> bucket -> mutation feed -> change cache -> channel cache -> changes client
   as ONE state machine.  It composes what SeqAlloc/SeqDoc (C07), DocUpdate (C05), ChangeCache (C08), ChannelCache and
   Changes (C01) and SeqToken (C20) cover separately and states the properties that live at their seams.

   Anchors (one action per critical section; the harness parks real goroutines at exactly these boundaries):
     Reserve(w,d)   crud.go updateAndReturnDoc: read the document (CAS), documentUpdateFunc -> assignSequence ->
                    sequenceAllocator.nextSequence (the shared counter moves), stop in front of the CAS write
     Cas(w)         the CAS write.  CAS still valid: the revision is stored with sequence, unused_sequences,
                    recent_sequences and the bucket emits a mutation.  CAS lost: the callback runs again -
                    allow_conflicts: assignSequence keeps the number if it is still above the document's, else moves it
                    to the unused list and reserves a new one (retry); otherwise 409 and every number held is published
                    as unused (releaseSequence -> _sync:unusedSeq:N documents, which travel on the feed too)
     Fail(w)        a non-timeout storage error of the write: everything held is published as unused
     Die(w)         a timeout whose write was not applied / a node that dies: the numbers stay reserved for ever
     Deliver(e,k)   change_listener.go ProcessFeedEvent -> change_cache.go DocChanged / releaseUnusedSequence ->
                    processEntry (+ _addPendingLogs).  The feed is the environment: any order across documents, per-document
                    order kept, an event may be delivered again (k), and
     Coalesce(e)    an undelivered mutation is replaced by a later mutation of the same document (de-duplication by key) -
                    which is why documents carry recent_sequences
     Tick           InsertPendingEntries after CachePendingSeqMaxWait: every waiting entry is overdue, gaps are skipped
     Abandon        CleanSkippedSequenceQueue after CacheSkippedSeqMaxWait
     Request        one-shot _changes (changes.go SimpleMultiChangesFeed, one iteration) from the client's token; the client
                    keeps the last_seq it is handed (rows are stamped with lowSequence = oldest skipped - 1)
     Connect        a continuous _changes feed is opened from the client's last token and runs its first iteration (the
                    late-sequence feeds are registered, not read)
     Iter           a later iteration, after a notification: late-sequence feed and channel feed merged
     Disconnect     the connection drops; the client keeps the token of the last row it received
   Sequences are offsets from a point before the database's start; Base = the database's sequence at start.  One channel
   (the all-documents channel), an admin reader: visibility is C01/C02's subject, not this module's.  A revision is
   identified with its sequence.

   Impl = what the harness reads back from the real system (Post* operators compute the implementation's next state, SetImpl
   assigns it); Env = writers' program counters and the feed's content; Ghost = history variables. *)
EXTENDS Integers, Sequences, FiniteSets, TLC

CONSTANTS Docs,            \* document ids (strings)
          Writers,         \* writer ids (strings)
          Base,            \* the database's sequence at start-up (initialSequence); the first number handed out is Base + 1.
                           \* Base = 0 is the brand-new database, where "oldest skipped - 1" = 0 reads as "nothing skipped" (NOTES.md, F-b)
          MaxSeq,          \* bound on the counter (guard of Reserve / retry)
          MaxNum,          \* CachePendingSeqMaxNum
          Conflicts,       \* BOOLEAN: allow_conflicts (a writer that lost the CAS race retries and succeeds) or 409
          AllowFail, AllowDie, AllowAbandon, AllowReconnect,
          MaxDup,          \* redeliveries the feed may make
          TimedAbandon,    \* TRUE: abandonment only fires for sequences nothing in flight can still declare (feed delay << CacheSkippedSeqMaxWait)
          Clients,         \* subset of {"os","ct"}: one-shot resume loop / continuous feed
          ContKeepsLow,    \* FALSE = as coded (named deviation ContResumeDropsLow, NOTES.md F-a); TRUE = intended
          RecentCutAtUnused, \* TRUE = as coded (named deviation, NOTES.md F-c): with unused_sequences present DocChanged only looks at
                           \* recent_sequences below unused_sequences[0]; FALSE = intended (below the revision's own sequence)
          Mut,             \* model-level mirrors of the self-test mutations (non-vacuity runs): subset of
                           \* {"norelease","norecent","nolow","nowake_late"}; {} = the specification
          MaxSteps, RecordHist

VARIABLES counter,         \* _sync:seq
          doc,             \* bucket: [Docs -> [seq, recent, unused, ver]]   (seq = 0: absent; ver = CAS, model-internal)
          notices,         \* unused-sequence documents written (set of sequences)
          next, pend, skipped,   \* change cache: nextSequence, pendingLogs (set of [seq,k,d]), skipped list
          chan,            \* all-documents channel cache: [Docs -> sequence of the cached entry, 0 = none]
          late,            \* its late-sequence log: Seq of [d, seq]
          wake,            \* a notification is pending for the waiting continuous feed
          os,              \* one-shot client: the token [l,s] it will send next
          ct,              \* continuous feed + its client: [on, since, lpos, tok]
          resp,            \* rows of the last response / iteration: Seq of [d, seq, l]  (observable output)
          wr, feed, dup,   \* environment: writers [pc,d,seq,unused,base], undelivered feed events, redelivery budget
          got, commits, abandoned, ordOK, dead,   \* ghosts
          hist
impl  == <<counter, doc, notices, next, pend, skipped, chan, late, wake, os, ct, resp>>
env   == <<wr, feed, dup>>
ghost == <<got, commits, abandoned, ordOK, dead>>
vars  == <<impl, env, ghost, hist>>
view  == <<impl, env, ghost>>

-----------------------------------------------------------------------------
Max(a, b) == IF a > b THEN a ELSE b
SetMin(S) == CHOOSE x \in S : \A y \in S : x <= y
SetMax(S) == CHOOSE x \in S : \A y \in S : x >= y
(* SequenceID.String / parse for tokens without TriggeredBy (specs/SeqToken): the low part survives iff 0 < l < s *)
Norm(l, s) == [l |-> IF l > 0 /\ l < s THEN l ELSE 0, s |-> s]
Safe(k) == IF k.l > 0 /\ k.l < k.s THEN k.l ELSE k.s
Before(a, b) == IF a.l # 0 THEN (IF a.l = b.l THEN a.s < b.s ELSE IF b.l # 0 THEN a.l < b.l ELSE a.l < b.s)
                ELSE (IF b.l # 0 THEN a.s <= b.l ELSE a.s < b.s)
StartTok == [l |-> 0, s |-> Base]                                    \* a client that has everything up to the start

IdleW == [pc |-> "idle", d |-> "", seq |-> 0, unused |-> {}, base |-> 0]
MutEv(d, s, rc, un) == [k |-> "mut", d |-> d, seq |-> s, recent |-> rc, unused |-> un]
Un(s) == [k |-> "un", d |-> "", seq |-> s, recent |-> {}, unused |-> {}]
Ent(s, k, d) == [seq |-> s, k |-> k, d |-> d]

(* the implementation state as one record *)
CurI == [counter |-> counter, doc |-> doc, notices |-> notices, next |-> next, pend |-> pend, skip |-> skipped,
         chan |-> chan, late |-> late, wake |-> wake, os |-> os, ct |-> ct, resp |-> resp]
SetImpl(r) == /\ counter' = r.counter /\ doc' = r.doc /\ notices' = r.notices /\ next' = r.next /\ pend' = r.pend
              /\ skipped' = r.skip /\ chan' = r.chan /\ late' = r.late /\ wake' = r.wake /\ os' = r.os /\ ct' = r.ct
              /\ resp' = r.resp

-----------------------------------------------------------------------------
(* change cache: transcription of processEntry / _addToCache / _addPendingLogs for legal feeds (no ties in the heap);
   policy: a gap is skipped when more than MaxNum entries wait, or - old - when the sweep finds them overdue.
   The cache part of the state record: next, pend, skip, chan, late, wake. *)
PendSeqs(st) == {p.seq : p \in st.pend}
Add(st, e, isLate) ==
  [st EXCEPT !.next = Max(@, e.seq + 1),
             !.chan = IF e.k = "doc" THEN [@ EXCEPT ![e.d] = Max(@, e.seq)] ELSE @,
             !.late = IF e.k = "doc" /\ isLate THEN Append(@, [d |-> e.d, seq |-> e.seq]) ELSE @,
             !.wake = @ \/ (e.k = "doc" /\ ~(isLate /\ "nowake_late" \in Mut))]
RECURSIVE Drain(_, _)
Drain(st, old) ==
  IF st.pend = {} THEN st
  ELSE LET h == CHOOSE p \in st.pend : \A q \in st.pend : p.seq <= q.seq IN
       IF h.seq = st.next THEN Drain(Add([st EXCEPT !.pend = @ \ {h}], h, FALSE), old)
       ELSE IF h.seq < st.next THEN Drain([st EXCEPT !.pend = @ \ {h}], old)
       ELSE IF Cardinality(st.pend) > MaxNum \/ old
            THEN Drain([st EXCEPT !.skip = @ \cup (st.next..(h.seq - 1)), !.next = h.seq], old)
            ELSE st
Arrive(st, e, sk) ==
  LET sk2 == sk \/ (e.seq < st.next /\ e.seq \in st.skip) IN
  IF e.seq <= Base THEN st                                           \* older than the cache (initialSequence)
  ELSE IF e.seq < st.next /\ ~sk2 THEN st                            \* duplicate of a processed sequence
  ELSE IF e.seq \in PendSeqs(st) THEN st                             \* duplicate of a pending sequence
  ELSE IF e.seq = st.next THEN Drain(Add(st, e, FALSE), FALSE)
  ELSE IF e.seq > st.next THEN
       LET s2 == [st EXCEPT !.pend = @ \cup {e}] IN IF Cardinality(s2.pend) > MaxNum THEN Drain(s2, FALSE) ELSE s2
  ELSE [Add(st, e, TRUE) EXCEPT !.skip = @ \ {e.seq}]               \* late arrival: cache, then RemoveSkipped
(* DocChanged of a document mutation: unused_sequences, qualifying recent_sequences, then the revision *)
RECURSIVE UnusedFold(_, _)
UnusedFold(st, S) == IF S = {} THEN st ELSE LET u == SetMin(S) IN UnusedFold(Arrive(st, Ent(u, "un", ""), FALSE), S \ {u})
RECURSIVE RecentFold(_, _, _, _)
RecentFold(st, S, cur, snap) ==
  IF S = {} THEN st
  ELSE LET r == SetMin(S)
           isSk == r < cur /\ r < snap /\ r \in st.skip
           st2 == IF (r >= snap /\ r < cur) \/ isSk THEN Arrive(st, Ent(r, "un", ""), isSk) ELSE st
       IN RecentFold(st2, S \ {r}, cur, snap)
Process(st, e) ==
  IF e.k = "un" THEN Arrive(st, Ent(e.seq, "un", ""), FALSE)
  ELSE LET s1 == UnusedFold(st, e.unused)
           cur == IF RecentCutAtUnused /\ e.unused # {} THEN SetMin(e.unused) ELSE e.seq
           s2 == IF "norecent" \in Mut THEN s1 ELSE RecentFold(s1, e.recent, cur, s1.next)
       IN Arrive(s2, Ent(e.seq, "doc", e.d), FALSE)
Low == IF skipped # {} /\ "nolow" \notin Mut THEN SetMin(skipped) - 1 ELSE 0    \* lowSequence = oldest skipped - 1
Hcs == next - 1                                                      \* high cache sequence at action boundaries (C08: HcsBehind)
Stable == IF skipped # {} THEN SetMin(skipped) - 1 ELSE next - 1     \* _getMaxStableCached

-----------------------------------------------------------------------------
(* writers *)
Held(x) == (IF x.seq > 0 THEN {x.seq} ELSE {}) \cup x.unused
Released(x) == IF "norelease" \in Mut THEN {} ELSE Held(x)
CasKind(w) == LET x == wr[w] IN
              IF x.base = doc[x.d].ver THEN "commit"
              ELSE IF ~Conflicts THEN "conflict"
              ELSE IF x.seq <= doc[x.d].seq THEN "retrynew" ELSE "retrykeep"
NewDoc(x) == [seq |-> x.seq, recent |-> doc[x.d].recent \cup x.unused \cup {x.seq}, unused |-> x.unused, ver |-> doc[x.d].ver + 1]

PostReserve(w, d) == [CurI EXCEPT !.counter = @ + 1]
EnvReserve(w, d)  == /\ wr' = [wr EXCEPT ![w] = [pc |-> "res", d |-> d, seq |-> counter', unused |-> {}, base |-> doc[d].ver]]
                     /\ UNCHANGED <<feed, dup>>
Reserve(w, d) == /\ wr[w].pc = "idle" /\ counter < MaxSeq
                 /\ SetImpl(PostReserve(w, d)) /\ EnvReserve(w, d) /\ UNCHANGED ghost

PostCas(w) ==
  LET x == wr[w] k == CasKind(w) IN
  [CurI EXCEPT !.counter = IF k = "retrynew" THEN @ + 1 ELSE @,
               !.doc = IF k = "commit" THEN [@ EXCEPT ![x.d] = NewDoc(x)] ELSE @,
               !.notices = IF k = "conflict" THEN @ \cup Released(x) ELSE @]
(* the environment follows the outcome k (in the model CasKind; pass P hands in the OBSERVED one) and the primed
   implementation variables (the stored revision is what the bucket emits) *)
EnvCasK(w, k) ==
  LET x == wr[w] IN
  /\ wr' = CASE k = "retrynew"  -> [wr EXCEPT ![w] = [x EXCEPT !.seq = counter', !.unused = @ \cup {x.seq}, !.base = doc[x.d].ver]]
             [] k = "retrykeep" -> [wr EXCEPT ![w] = [x EXCEPT !.base = doc[x.d].ver]]
             [] OTHER           -> [wr EXCEPT ![w] = IdleW]
  /\ feed' = CASE k = "commit"   -> feed \cup {MutEv(x.d, doc'[x.d].seq, doc'[x.d].recent, doc'[x.d].unused)}
               [] k = "conflict" -> feed \cup {Un(s) : s \in (notices' \ notices)}
               [] OTHER          -> feed
  /\ dup' = dup
GhostCasK(w, k) == /\ commits' = IF k = "commit" THEN commits \cup {<<wr[w].d, doc'[wr[w].d].seq>>} ELSE commits
                   /\ UNCHANGED <<got, abandoned, ordOK, dead>>
Cas(w) == /\ wr[w].pc = "res" /\ (CasKind(w) = "retrynew" => counter < MaxSeq)
          /\ SetImpl(PostCas(w)) /\ EnvCasK(w, CasKind(w)) /\ GhostCasK(w, CasKind(w))

PostFail(w) == [CurI EXCEPT !.notices = @ \cup Released(wr[w])]
EnvFail(w)  == /\ wr' = [wr EXCEPT ![w] = IdleW] /\ feed' = feed \cup {Un(s) : s \in (notices' \ notices)} /\ dup' = dup
Fail(w) == AllowFail /\ wr[w].pc = "res" /\ SetImpl(PostFail(w)) /\ EnvFail(w) /\ UNCHANGED ghost

EnvDie(w)  == wr' = [wr EXCEPT ![w].pc = "dead"] /\ UNCHANGED <<feed, dup>>
GhostDie(w) == dead' = dead \cup Held(wr[w]) /\ UNCHANGED <<got, commits, abandoned, ordOK>>
Die(w) == AllowDie /\ wr[w].pc = "res" /\ SetImpl(CurI) /\ EnvDie(w) /\ GhostDie(w)

-----------------------------------------------------------------------------
(* the feed *)
Older(e) == {f \in feed : f.k = "mut" /\ e.k = "mut" /\ f.d = e.d /\ f.seq < e.seq}
Newer(e) == {f \in feed : f.k = "mut" /\ e.k = "mut" /\ f.d = e.d /\ f.seq > e.seq}
PostDeliver(e) == Process(CurI, e)
EnvDeliver(e, keep) == /\ feed' = IF keep THEN feed ELSE feed \ {e}
                       /\ dup' = IF keep THEN dup - 1 ELSE dup
                       /\ wr' = wr
Deliver(e, keep) == /\ e \in feed /\ Older(e) = {} /\ (keep => dup > 0)
                    /\ SetImpl(PostDeliver(e)) /\ EnvDeliver(e, keep) /\ UNCHANGED ghost
EnvCoalesce(e) == feed' = feed \ {e} /\ UNCHANGED <<wr, dup>>
Coalesce(e) == /\ e \in feed /\ Newer(e) # {}
               /\ EnvCoalesce(e) /\ SetImpl(CurI) /\ UNCHANGED ghost

PostTick == Drain(CurI, TRUE)
Tick == pend # {} /\ SetImpl(PostTick) /\ UNCHANGED env /\ UNCHANGED ghost

(* what something still in flight can declare: an undelivered event, a writer that has not finished *)
Declares(e) == {e.seq} \cup e.unused \cup e.recent
InFlight == UNION {Declares(e) : e \in feed} \cup UNION {Held(wr[w]) : w \in {v \in Writers : wr[v].pc = "res"}}
PostAbandon == [CurI EXCEPT !.skip = {}]
GhostAbandon == abandoned' = abandoned \cup (skipped \ skipped') /\ UNCHANGED <<got, commits, ordOK, dead>>
Abandon == /\ AllowAbandon /\ skipped # {} /\ (TimedAbandon => skipped \cap InFlight = {})
           /\ SetImpl(PostAbandon) /\ UNCHANGED env /\ GhostAbandon

-----------------------------------------------------------------------------
(* changes clients.  Rows: sequence-ordered entries of the channel cache after the effective start, not beyond the high
   cache sequence, each stamped with the low sequence of this iteration *)
RECURSIVE SortRows(_)
SortRows(S) == IF S = {} THEN <<>> ELSE LET m == CHOOSE x \in S : \A y \in S : x.seq <= y.seq IN <<m>> \o SortRows(S \ {m})
Adj(t) == IF t.l # 0 /\ t.l = Low THEN [t EXCEPT !.l = 0] ELSE t          \* "ignore the low sequence" (changes.go)
ChanRows(start) == {[d |-> d, seq |-> chan[d]] : d \in {x \in Docs : chan[x] > start /\ chan[x] <= Hcs}}
Stamp(R) == [i \in 1..Len(R) |-> [d |-> R[i].d, seq |-> R[i].seq, l |-> Norm(Low, R[i].seq).l]]
LastTok(R, t) == IF Len(R) = 0 THEN t ELSE [l |-> R[Len(R)].l, s |-> R[Len(R)].seq]
RowSet(R) == {<<R[i].d, R[i].seq>> : i \in 1..Len(R)}
Ordered(R) == \A i \in 1..(Len(R) - 1) : R[i].seq < R[i + 1].seq
GhostResp(c) == /\ got' = [got EXCEPT ![c] = @ \cup RowSet(resp')]
                /\ ordOK' = (ordOK /\ Ordered(resp'))
                /\ UNCHANGED <<commits, abandoned, dead>>

PostRequest == LET R == Stamp(SortRows(ChanRows(Safe(Adj(os))))) IN [CurI EXCEPT !.resp = R, !.os = LastTok(R, os)]
Request == "os" \in Clients /\ SetImpl(PostRequest) /\ UNCHANGED env /\ GhostResp("os")

RECURSIVE Advance(_, _, _)
Advance(t, R, i) == IF i > Len(R) THEN t
                    ELSE Advance(IF Before(t, [l |-> 0, s |-> R[i].seq]) THEN [l |-> 0, s |-> R[i].seq] ELSE t, R, i + 1)
(* one iteration of the continuous feed whose position is `since`; lr = what the late-sequence feed hands over *)
IterPost(since, lr) ==
  LET a   == Adj(since)
      R   == Stamp(SortRows(lr \cup ChanRows(Safe(a))))
      adv == Advance(a, R, 1)
      (* as coded (ContResumeDropsLow) the loop variable loses LowSeq for good once it matched the current low sequence;
         intended: it is only ignored while it matches, and is honoured again as soon as the low sequence moves *)
      ns  == IF ContKeepsLow /\ a # since THEN [l |-> since.l, s |-> adv.s] ELSE adv
  IN [CurI EXCEPT !.resp = R, !.wake = FALSE,
                  !.ct = [on |-> TRUE, since |-> ns, lpos |-> Len(late), tok |-> LastTok(R, ct.tok)]]
PostConnect == IterPost(ct.tok, {})                                  \* late-sequence feeds are registered at the current end
Connect == "ct" \in Clients /\ ~ct.on /\ SetImpl(PostConnect) /\ UNCHANGED env /\ GhostResp("ct")
PostIter == IterPost(ct.since, {late[i] : i \in (ct.lpos + 1)..Len(late)})
(* The intended variant of F-a (ContKeepsLow) needs a second half: the low sequence also moves WITHOUT any document being
   forwarded - by abandonment, or by a late unused-sequence notice - and neither notifies the channels a feed waits on.  A feed
   that is holding back a low part therefore polls: it iterates as soon as the low sequence is no longer its low part
   (TLC: NoLostChange fails for ContKeepsLow without this; as coded the question does not arise, the low part is gone). *)
LowMoved == ContKeepsLow /\ ct.since.l # 0 /\ ct.since.l # Low
Iter == "ct" \in Clients /\ ct.on /\ (wake \/ LowMoved) /\ SetImpl(PostIter) /\ UNCHANGED env /\ GhostResp("ct")
PostDisconnect == [CurI EXCEPT !.ct = [@ EXCEPT !.on = FALSE]]
Disconnect == AllowReconnect /\ ct.on /\ SetImpl(PostDisconnect) /\ UNCHANGED env /\ UNCHANGED ghost

-----------------------------------------------------------------------------
Rec(a, w, d, s, keep) == [a |-> a, w |-> w, d |-> d, seq |-> s, keep |-> keep]
Step(r) == hist' = IF RecordHist THEN Append(hist, r) ELSE hist
Bound == RecordHist => Len(hist) < MaxSteps

TokT == [l : 0..MaxSeq, s : 0..MaxSeq]
InitImpl ==
  /\ counter = Base /\ doc = [d \in Docs |-> [seq |-> 0, recent |-> {}, unused |-> {}, ver |-> 0]] /\ notices = {}
  /\ next = Base + 1 /\ pend = {} /\ skipped = {} /\ chan = [d \in Docs |-> 0] /\ late = <<>> /\ wake = FALSE
  /\ os = StartTok /\ ct = [on |-> FALSE, since |-> StartTok, lpos |-> 0, tok |-> StartTok] /\ resp = <<>>
InitRest ==
  /\ wr = [w \in Writers |-> IdleW] /\ feed = {} /\ dup = MaxDup
  /\ got = [c \in {"os", "ct"} |-> {}] /\ commits = {} /\ abandoned = {} /\ ordOK = TRUE /\ dead = {}
Init == InitImpl /\ InitRest /\ hist = <<>>

Next ==
  /\ Bound
  /\ \/ \E w \in Writers, d \in Docs : Reserve(w, d) /\ Step(Rec("Reserve", w, d, 0, FALSE))
     \/ \E w \in Writers : Cas(w)  /\ Step(Rec("Cas", w, wr[w].d, 0, FALSE))
     \/ \E w \in Writers : Fail(w) /\ Step(Rec("Fail", w, wr[w].d, 0, FALSE))
     \/ \E w \in Writers : Die(w)  /\ Step(Rec("Die", w, wr[w].d, 0, FALSE))
     \/ \E e \in feed, keep \in BOOLEAN : Deliver(e, keep) /\ Step(Rec(IF e.k = "mut" THEN "Deliver" ELSE "DeliverUn", "", e.d, e.seq, keep))
     \/ \E e \in feed : Coalesce(e) /\ Step(Rec("Coalesce", "", e.d, e.seq, FALSE))
     \/ Tick /\ Step(Rec("Tick", "", "", 0, FALSE))
     \/ Abandon /\ Step(Rec("Abandon", "", "", 0, FALSE))
     \/ Request /\ Step(Rec("Request", "", "", 0, FALSE))
     \/ Connect /\ Step(Rec("Connect", "", "", 0, FALSE))
     \/ Disconnect /\ Step(Rec("Disconnect", "", "", 0, FALSE))
     \/ Iter /\ Step(Rec("Iter", "", "", 0, FALSE))
Spec == Init /\ [][Next]_vars

(* fairness (only with RecordHist = FALSE): the feed delivers, the cache's timers fire, writers finish one way or
   another, clients keep asking.  Not fair: redelivery, coalescing, disconnecting. *)
NoHist == hist' = hist
WriterStep(w) == Cas(w) \/ Fail(w) \/ Die(w)
FairSpec ==
  /\ Spec
  /\ WF_vars((\E e \in feed : Deliver(e, FALSE)) /\ NoHist)
  /\ WF_vars(Tick /\ NoHist)
  /\ WF_vars(Abandon /\ NoHist)
  /\ \A w \in Writers : WF_vars(WriterStep(w) /\ NoHist)
  /\ WF_vars(Request /\ NoHist)
  /\ WF_vars(Connect /\ NoHist)
  /\ WF_vars(Iter /\ NoHist)

-----------------------------------------------------------------------------
(* ---- the seam properties ---- *)
Tok(c) == IF c = "os" THEN os ELSE ct.tok
Final(d) == doc[d].seq                                          \* the document's final (current) revision = its sequence
Lost(s) == s \in abandoned                                      \* given up on before it arrived ("until then")
Seen(c, d) == Final(d) = 0 \/ <<d, Final(d)>> \in got[c]

(* C08/C01 ResumeSafe: the position a client would resume from never passes a committed revision it has not been sent
   (unless the cache gave up on that sequence before it arrived) - across skipped sequences and late arrivals *)
ResumeSafeFor(c) == \A d \in Docs : (~Seen(c, d) /\ ~Lost(Final(d))) => Final(d) > Safe(Tok(c))
ResumeSafe == \A c \in Clients : ResumeSafeFor(c)
(* C05 soundness half: the channel cache only ever announces committed revisions, never one newer than the bucket's *)
FeedSound == /\ \A d \in Docs : chan[d] # 0 => (<<d, chan[d]>> \in commits /\ chan[d] <= doc[d].seq)
             /\ \A c \in Clients : got[c] \subseteq commits
(* C01/C08 OrderedPerResponse: every response / iteration is strictly increasing in sequence *)
OrderedPerResponse == ordOK
(* C07 ledger: every number taken from the counter is carried by a stored revision (as its sequence or in its
   unused_sequences / recent_sequences), published as unused, or still held by a writer (in flight, or dead = unknown outcome) *)
Carried == UNION {doc[d].recent \cup doc[d].unused : d \in Docs} \cup {p[2] : p \in commits}
LedgerAccounted == ((Base + 1)..counter) = Carried \cup notices \cup UNION {Held(wr[w]) : w \in Writers}
(* C07+C08 NoStall, safety form: when nothing is in flight any more and no entry waits, everything below the cache's
   high-water mark is accounted (forwarded, or abandoned) and only dead reservations are outstanding *)
Quiet == feed = {} /\ \A w \in Writers : wr[w].pc # "res"
Top == IF ((Base + 1)..counter) \ dead = {} THEN Base ELSE SetMax(((Base + 1)..counter) \ dead)
QuietAccounted == (Quiet /\ pend = {}) => (skipped \subseteq dead /\ next > Top)
(* design invariants *)
TypeOK == /\ counter \in Base..MaxSeq /\ next \in (Base + 1)..(MaxSeq + 1) /\ skipped \subseteq (Base + 1)..MaxSeq /\ os \in TokT /\ ct.tok \in TokT
          /\ \A p \in pend : p.seq > next - 1
          /\ \A s \in skipped : s < next
          /\ Cardinality(pend) <= MaxNum

(* ---- liveness (FairSpec) ---- *)
(* NoStall: the stable sequence ends up at (or beyond) every number that will ever be declared, nothing stays pending *)
NoStall == <>[](pend = {} /\ Stable >= Top /\ skipped = {})
(* every number at or below the counter is eventually accounted in the cache, or it is a dead reservation at the very top *)
Accounted(s) == (s < next /\ s \notin skipped) \/ (s \in dead /\ s > Top)
EachAccounted == \A s \in (Base + 1)..MaxSeq : [](counter >= s => <>Accounted(s))
(* C05 FeedAnnouncesFinal: the cache ends up announcing each document's final revision *)
FeedAnnouncesFinal == \A d \in Docs : <>[](Final(d) = 0 \/ chan[d] = Final(d) \/ Lost(Final(d)))
(* C08/C01 NoLostChange: a client that keeps resuming from the tokens it was handed ends up with every final revision *)
NoLostChange == \A c \in Clients, d \in Docs : <>[](Seen(c, d) \/ Lost(Final(d)))
=============================================================================
