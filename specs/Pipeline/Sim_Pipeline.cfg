\* -simulate: 6 reservations, both clients, action-uniform SimNext
CONSTANT Docs <- EDocs
CONSTANT Writers <- EWriters
CONSTANT Base <- EBase
CONSTANT Conflicts <- EConflicts
CONSTANT AllowFail <- EFail
CONSTANT AllowDie <- EDie
CONSTANT AllowAbandon <- EAbandon
CONSTANT AllowReconnect <- EReconnect
CONSTANT MaxDup <- EDup
CONSTANT TimedAbandon <- ETimed
CONSTANT Clients <- EClients
CONSTANT ContKeepsLow <- EKeepLow
CONSTANT RecentCutAtUnused <- ERecentCut
CONSTANT Mut <- EMut
CONSTANT MaxSeq <- EMaxSeqS
CONSTANT MaxNum <- EMaxNum
CONSTANT MaxSteps <- EMaxStepsS
CONSTANT RecordHist = TRUE
SPECIFICATION SimSpec
INVARIANT BehaviourExport
CHECK_DEADLOCK FALSE
