\* quick, exhaustive safety: 2 documents, 2 writers, counter <= 4, one-shot resume client, every feed behaviour
\* (reorder, one redelivery, coalescing), failing and dying writers, timed abandonment
CONSTANT Docs <- D2
CONSTANT Writers <- W2
CONSTANT Base = 1
CONSTANT MaxSeq = 5
CONSTANT MaxNum = 1
CONSTANT Conflicts = FALSE
CONSTANT AllowFail = TRUE
CONSTANT AllowDie = TRUE
CONSTANT AllowAbandon = TRUE
CONSTANT AllowReconnect = FALSE
CONSTANT MaxDup = 1
CONSTANT TimedAbandon = TRUE
CONSTANT Clients <- COs
CONSTANT ContKeepsLow = FALSE
CONSTANT RecentCutAtUnused = TRUE
CONSTANT Mut = {}
CONSTANT MaxSteps = 0
CONSTANT RecordHist = FALSE
SPECIFICATION Spec
VIEW view
INVARIANT ResumeSafe
INVARIANT FeedSound
INVARIANT OrderedPerResponse
INVARIANT LedgerAccounted
INVARIANT QuietAccounted
INVARIANT TypeOK
CHECK_DEADLOCK FALSE
