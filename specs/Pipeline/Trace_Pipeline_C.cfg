\* pass C: every recorded step is the step the model computes from the previous real state
CONSTANT Docs = {"a", "b"}
CONSTANT Writers = {"w1", "w2", "w3"}
CONSTANT Base <- TBase
CONSTANT MaxSeq = 1000000
CONSTANT MaxNum <- TMaxNum
CONSTANT Conflicts <- TConflicts
CONSTANT AllowFail = TRUE
CONSTANT AllowDie = TRUE
CONSTANT AllowAbandon = TRUE
CONSTANT AllowReconnect = TRUE
CONSTANT MaxDup = 1000000
CONSTANT TimedAbandon <- TTimed
CONSTANT Clients = {"os", "ct"}
CONSTANT ContKeepsLow <- TKeepLow
CONSTANT RecentCutAtUnused <- TRecentCut
CONSTANT Mut = {}
CONSTANT MaxSteps = 0
CONSTANT RecordHist = FALSE
CONSTRAINT Progress
POSTCONDITION Accept
CHECK_DEADLOCK FALSE
SPECIFICATION CSpec
INVARIANT TypeOK
