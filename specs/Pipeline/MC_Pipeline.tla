--------------------------- MODULE MC_Pipeline ---------------------------
EXTENDS Pipeline, Json, IOUtils
(* Instances are selected through environment variables so that one cfg serves the variants the check script runs side by
   side (clients, conflict mode, the as-coded/intended switches of the named deviations, model-level mutations):
     PL_CLIENTS os|ct|both   PL_CONFLICTS 0|1   PL_RECONNECT 0|1   PL_KEEPLOW 0|1   PL_RECENTCUT 0|1   PL_MUT name
     PL_FAIL 0|1   PL_DIE 0|1   PL_ABANDON 0|1
     PL_MAXSEQ n   PL_BASE n   PL_MAXNUM n   PL_MAXSTEPS n   PL_WRITERS 1|2|3   PL_DOCS 1|2   PL_TIMED 0|1   PL_DUP n *)
Env(n, dflt) == IF n \in DOMAIN IOEnv THEN IOEnv[n] ELSE dflt
EInt(n, dflt) == IF n \in DOMAIN IOEnv THEN atoi(IOEnv[n]) ELSE dflt
EBool(n, dflt) == IF n \in DOMAIN IOEnv THEN IOEnv[n] = "1" ELSE dflt
EDocs == IF EInt("PL_DOCS", 2) = 1 THEN {"a"} ELSE {"a", "b"}
EWriters == CASE EInt("PL_WRITERS", 2) = 1 -> {"w1"} [] EInt("PL_WRITERS", 2) = 3 -> {"w1", "w2", "w3"} [] OTHER -> {"w1", "w2"}
EClients == CASE Env("PL_CLIENTS", "os") = "ct" -> {"ct"} [] Env("PL_CLIENTS", "os") = "both" -> {"os", "ct"}
              [] Env("PL_CLIENTS", "os") = "none" -> {} [] OTHER -> {"os"}
EBase == EInt("PL_BASE", 1)
EMaxSeq == EInt("PL_MAXSEQ", 4)
EMaxSeqT == EInt("PL_MAXSEQ", 5)
EMaxSeqS == EInt("PL_MAXSEQ", 7)
EMaxNum == EInt("PL_MAXNUM", 1)
EMaxNum0 == EInt("PL_MAXNUM", 0)
EConflicts == EBool("PL_CONFLICTS", FALSE)
EReconnect == EBool("PL_RECONNECT", FALSE)
EKeepLow == EBool("PL_KEEPLOW", FALSE)
ERecentCut == EBool("PL_RECENTCUT", TRUE)
ETimed == EBool("PL_TIMED", TRUE)
EDup == EInt("PL_DUP", 1)
EFail == EBool("PL_FAIL", TRUE)
EDie == EBool("PL_DIE", TRUE)
EAbandon == EBool("PL_ABANDON", TRUE)
EMut == IF "PL_MUT" \in DOMAIN IOEnv /\ IOEnv["PL_MUT"] # "" THEN {IOEnv["PL_MUT"]} ELSE {}
EMaxSteps == EInt("PL_MAXSTEPS", 8)
EMaxStepsS == EInt("PL_MAXSTEPS", 18)

(* Simulation: one successor per action KIND (FRAMEWORK: simulation bias), arguments drawn with RandomElement among the
   enabled ones; one delivery aimed at an event that closes the current gap or arrives late. *)
RE(S) == RandomElement(S)
IdleWs == {w \in Writers : wr[w].pc = "idle"}
ResWs  == {w \in Writers : wr[w].pc = "res"}
Deliverable == {e \in feed : Older(e) = {}}
GapClosers == {e \in Deliverable : Declares(e) \cap (skipped \cup {next}) # {}}
Leapers == {e \in Deliverable : e.seq > next}
HotDocs == {d \in Docs : \E e \in feed : e.k = "mut" /\ e.d = d} \cup {wr[w].d : w \in ResWs}
Coalescable == {e \in feed : Newer(e) # {}}
SDeliver(S, keep) == S # {} /\ \E e \in {RE(S)} : Deliver(e, keep) /\ Step(Rec(IF e.k = "mut" THEN "Deliver" ELSE "DeliverUn", "", e.d, e.seq, keep))
SimNext ==
  /\ Bound
  /\ \/ IdleWs # {} /\ \E w \in {RE(IdleWs)}, d \in {RE(Docs)} : Reserve(w, d) /\ Step(Rec("Reserve", w, d, 0, FALSE))
     \/ IdleWs # {} /\ HotDocs # {} /\ \E w \in {RE(IdleWs)}, d \in {RE(HotDocs)} : Reserve(w, d) /\ Step(Rec("Reserve", w, d, 0, FALSE))
     \/ ResWs # {} /\ \E w \in {RE(ResWs)} : Cas(w) /\ Step(Rec("Cas", w, wr[w].d, 0, FALSE))
     \/ ResWs # {} /\ RE(1..4) = 1 /\ \E w \in {RE(ResWs)} : Fail(w) /\ Step(Rec("Fail", w, wr[w].d, 0, FALSE))
     \/ ResWs # {} /\ RE(1..6) = 1 /\ \E w \in {RE(ResWs)} : Die(w) /\ Step(Rec("Die", w, wr[w].d, 0, FALSE))
     \/ SDeliver(Deliverable, FALSE)
     \/ SDeliver(Leapers, FALSE)
     \/ SDeliver(GapClosers, FALSE)
     \/ dup > 0 /\ RE(1..3) = 1 /\ SDeliver(Deliverable, TRUE)
     \/ Coalescable # {} /\ \E e \in {RE(Coalescable)} : Coalesce(e) /\ Step(Rec("Coalesce", "", e.d, e.seq, FALSE))
     \/ Tick /\ Step(Rec("Tick", "", "", 0, FALSE))
     \/ RE(1..3) = 1 /\ Abandon /\ Step(Rec("Abandon", "", "", 0, FALSE))
     \/ RE(1..3) = 1 /\ Request /\ Step(Rec("Request", "", "", 0, FALSE))
     \/ Connect /\ Step(Rec("Connect", "", "", 0, FALSE))
     \/ RE(1..3) = 1 /\ Disconnect /\ Step(Rec("Disconnect", "", "", 0, FALSE))
     \/ Iter /\ Step(Rec("Iter", "", "", 0, FALSE))
SimSpec == Init /\ [][SimNext]_vars
Cfg == [mn |-> MaxNum, conflicts |-> Conflicts, docs |-> Docs, writers |-> Writers, base |-> Base, clients |-> Clients,
        timed |-> TimedAbandon]
BehaviourExport == (Len(hist) = MaxSteps) => PrintT(<<"BEH", ToJson([cfg |-> Cfg, steps |-> hist])>>)
=============================================================================
