--------------------------- MODULE MC_Pipeline ---------------------------
EXTENDS Pipeline, Json
D1 == {"a"}
D2 == {"a", "b"}
W1 == {"w1"}
W2 == {"w1", "w2"}
W3 == {"w1", "w2", "w3"}
COs == {"os"}
CCt == {"ct"}
CBoth == {"os", "ct"}
CNone == {}
(* Simulation: one successor per action KIND (FRAMEWORK: simulation bias), arguments drawn with RandomElement among the
   enabled ones; deliveries doubled, and one delivery aimed at an event that closes the current gap or arrives late. *)
RE(S) == RandomElement(S)
IdleWs == {w \in Writers : wr[w].pc = "idle"}
ResWs  == {w \in Writers : wr[w].pc = "res"}
Deliverable == {e \in feed : Older(e) = {}}
GapClosers == {e \in Deliverable : Declares(e) \cap (skipped \cup {next}) # {}}
Coalescable == {e \in feed : Newer(e) # {}}
SDeliver(S, keep) == S # {} /\ \E e \in {RE(S)} : Deliver(e, keep) /\ Step(Rec(IF e.k = "mut" THEN "Deliver" ELSE "DeliverUn", "", e.d, e.seq, keep))
SimNext ==
  /\ Bound
  /\ \/ IdleWs # {} /\ \E w \in {RE(IdleWs)}, d \in {RE(Docs)} : Reserve(w, d) /\ Step(Rec("Reserve", w, d, 0, FALSE))
     \/ ResWs # {} /\ \E w \in {RE(ResWs)} : Cas(w) /\ Step(Rec("Cas", w, wr[w].d, 0, FALSE))
     \/ ResWs # {} /\ RE(1..3) = 1 /\ \E w \in {RE(ResWs)} : Fail(w) /\ Step(Rec("Fail", w, wr[w].d, 0, FALSE))
     \/ ResWs # {} /\ RE(1..4) = 1 /\ \E w \in {RE(ResWs)} : Die(w) /\ Step(Rec("Die", w, wr[w].d, 0, FALSE))
     \/ SDeliver(Deliverable, FALSE)
     \/ SDeliver(GapClosers, FALSE)
     \/ dup > 0 /\ RE(1..3) = 1 /\ SDeliver(Deliverable, TRUE)
     \/ Coalescable # {} /\ \E e \in {RE(Coalescable)} : Coalesce(e) /\ Step(Rec("Coalesce", "", e.d, e.seq, FALSE))
     \/ Tick /\ Step(Rec("Tick", "", "", 0, FALSE))
     \/ RE(1..3) = 1 /\ Abandon /\ Step(Rec("Abandon", "", "", 0, FALSE))
     \/ Request /\ Step(Rec("Request", "", "", 0, FALSE))
     \/ Connect /\ Step(Rec("Connect", "", "", 0, FALSE))
     \/ RE(1..3) = 1 /\ Disconnect /\ Step(Rec("Disconnect", "", "", 0, FALSE))
     \/ Iter /\ Step(Rec("Iter", "", "", 0, FALSE))
SimSpec == Init /\ [][SimNext]_vars
Cfg == [mn |-> MaxNum, conflicts |-> Conflicts, docs |-> Docs, writers |-> Writers, base |-> Base, clients |-> Clients]
BehaviourExport == (Len(hist) = MaxSteps) => PrintT(<<"BEH", ToJson([cfg |-> Cfg, steps |-> hist])>>)
=============================================================================
