--------------------------- MODULE Trace_Pipeline ---------------------------
(* Validation of traces recorded from a REAL database (harness/db/pipeline_test.go: TestVerif_Pipeline_Replay).
   One line per executed step of a behaviour; all sequences are offsets (real - shift; 0 stays 0) so that the database's
   sequence at the start of the behaviour is Base.  Every line carries the real state AFTER the step:
     ctr      _sync:seq                                   docs   {a:{seq,recent[],unused[],rev}, b:{..}}  read back from the bucket
     notices  unused-sequence documents written so far     (recorded at the allocator's storage boundary, ranges expanded)
     next, pend[{seq,k,d}], skip[], wake                   the change cache (under its lock); wake = the listener's counter for the
                                                           all-documents channel moved since the continuous feed last looked
     chan {a:seq,b:seq}                                    the all-documents channel cache (real singleChannelCacheImpl)
     late [{d,seq}]                                        late forwards of this behaviour (recording ChannelCache decorator, under changeCache.lock)
     os [l,s], cton, ctok [l,s]                            the clients' tokens, parsed from the last_seq / row STRINGS they were handed
     resp [{d,seq,l,rev}]                                  rows of this response / iteration (seq strings parsed)
   and the step:  {a:"Reset", beh, fam, cfg:{mn,conflicts,base,clients[],timed}}
     Reserve{w,d}  Cas{w,d,kind,rev}  Fail{w,d}  Die{w,d}  Deliver|DeliverUn{d,seq,keep}  Coalesce{d,seq}  Tick  Abandon
     Request  Connect  Iter{stall}  Disconnect  Quiesce{phase}
   kind = the OBSERVED outcome of the CAS write (commit | conflict | retrynew | retrykeep).  stall = the behaviour asked for an
   iteration but the real feed had nothing to wake up for.

   Pass P: implementation variables := logged real state; the environment (writers, feed) and the ghosts advance from the
   logged inputs and outcomes.  ReportP prints every property predicate that is false on a recorded state.  Named
   deviations (NOTES.md F-a, F-b, F-c) are judged separately: the lenient predicates exempt exactly the blind spot of a
   deviation that is switched to "as coded", the Dev_* reporters say when a blind spot was actually hit.
   Pass C: additionally the logged state must be the one the model computes (Match(Post...)) and the guards must hold. *)
EXTENDS Pipeline, TraceLib

VARIABLES l, phase, declared, blindA, blindB, blindC, bclients, revOf, revOK,
          cur      \* the last free-running line (Storm / TimerAbandon): judged as a whole, see the end of the module
tghost == <<phase, declared, blindA, blindB, blindC, bclients, revOf, revOK, cur>>
tvars == <<vars, l, tghost>>

TEnvI(n, dflt) == IF n \in DOMAIN IOEnv THEN atoi(IOEnv[n]) ELSE dflt
TEnvB(n, dflt) == IF n \in DOMAIN IOEnv THEN IOEnv[n] = "1" ELSE dflt
TBase == TEnvI("PL_BASE", 1)
TMaxNum == TEnvI("PL_MAXNUM", 1)
TConflicts == TEnvB("PL_CONFLICTS", FALSE)
TKeepLow == TEnvB("PL_KEEPLOW", FALSE)
TRecentCut == TEnvB("PL_RECENTCUT", TRUE)
TTimed == TEnvB("PL_TIMED", TRUE)

T == Trace[l]
LSet(x) == {x[i] : i \in 1..Len(x)}
Tk(x) == [l |-> x[1], s |-> x[2]]
Ev(a) == l <= TraceLen /\ T.a = a /\ l' = l + 1
Rows(x) == [i \in 1..Len(x) |-> [d |-> x[i].d, seq |-> x[i].seq, l |-> x[i].l]]
LDoc(d) == LET n == [seq |-> T.docs[d].seq, recent |-> LSet(T.docs[d].recent), unused |-> LSet(T.docs[d].unused)] IN
           [seq |-> n.seq, recent |-> n.recent, unused |-> n.unused,
            ver |-> IF n.seq = doc[d].seq /\ n.recent = doc[d].recent /\ n.unused = doc[d].unused THEN doc[d].ver ELSE doc[d].ver + 1]
(* ct.since / ct.lpos live inside the server: they are advanced by the model from the previous REAL state *)
LoggedCt(m) == ct' = [on |-> T.cton, since |-> m.since, lpos |-> m.lpos, tok |-> Tk(T.ctok)]
LoggedRest ==
  /\ counter' = T.ctr /\ notices' = LSet(T.notices)
  /\ next' = T.next /\ pend' = {Ent(p.seq, p.k, p.d) : p \in LSet(T.pend)} /\ skipped' = LSet(T.skip)
  /\ chan' = [d \in Docs |-> T.chan[d]] /\ late' = [i \in 1..Len(T.late) |-> [d |-> T.late[i].d, seq |-> T.late[i].seq]]
  /\ wake' = T.wake /\ os' = Tk(T.os) /\ resp' = Rows(T.resp)
LoggedBut == LoggedRest /\ doc' = [d \in Docs |-> LDoc(d)]
Logged == LoggedBut /\ LoggedCt(ct)

(* what the model computes must be what was recorded (pass C) *)
Match(r) ==
  /\ r.counter = T.ctr /\ r.notices = LSet(T.notices)
  /\ \A d \in Docs : r.doc[d].seq = T.docs[d].seq /\ r.doc[d].recent = LSet(T.docs[d].recent) /\ r.doc[d].unused = LSet(T.docs[d].unused)
  /\ r.next = T.next /\ r.pend = {Ent(p.seq, p.k, p.d) : p \in LSet(T.pend)} /\ r.skip = LSet(T.skip)
  /\ \A d \in Docs : r.chan[d] = T.chan[d]
  /\ r.late = [i \in 1..Len(T.late) |-> [d |-> T.late[i].d, seq |-> T.late[i].seq]]
  /\ r.wake = T.wake /\ r.os = Tk(T.os) /\ r.ct.on = T.cton /\ r.ct.tok = Tk(T.ctok) /\ r.resp = Rows(T.resp)

TInit == Init /\ l = 1 /\ phase = 0 /\ declared = {} /\ blindA = {} /\ blindB = {} /\ blindC = {} /\ bclients = {}
         /\ revOf = [x \in {} |-> ""] /\ revOK = TRUE /\ cur = [a |-> "none"]

Reset == /\ Ev("Reset") /\ LoggedRest
         /\ doc' = [d \in Docs |-> [seq |-> T.docs[d].seq, recent |-> LSet(T.docs[d].recent), unused |-> LSet(T.docs[d].unused), ver |-> 0]]
         /\ ct' = [on |-> T.cton, since |-> StartTok, lpos |-> 0, tok |-> Tk(T.ctok)]
         /\ wr' = [w \in Writers |-> IdleW] /\ feed' = {} /\ dup' = 1000000
         /\ got' = [c \in {"os", "ct"} |-> {}] /\ commits' = {} /\ abandoned' = {} /\ ordOK' = TRUE /\ dead' = {}
         /\ hist' = <<>> /\ phase' = 0 /\ declared' = {} /\ blindA' = {} /\ blindB' = {} /\ blindC' = {}
         /\ bclients' = LSet(T.cfg.clients) /\ revOf' = [x \in {} |-> ""] /\ revOK' = TRUE /\ cur' = [a |-> "none"]
CReset == Reset /\ InitImpl'

FeedEv(k) == {e \in feed : e.k = k /\ e.d = T.d /\ e.seq = T.seq}
(* F-c blind spot: numbers the as-coded DocChanged does not look at although the mutation carries them *)
CutBlind(e) == IF RecentCutAtUnused /\ e.k = "mut" /\ e.unused # {}
               THEN {s \in e.recent : s >= SetMin(e.unused) /\ s < e.seq /\ s \notin e.unused} ELSE {}
KeepT == UNCHANGED <<hist, phase, bclients, cur>>
NoBlind == UNCHANGED <<blindA, blindB, blindC>>
NoRev == UNCHANGED <<revOf, revOK>>
(* F-b blind spot: a response made while the very first sequence of a new database is the oldest skipped one stamps nothing *)
BlindB1 == IF Base = 0 /\ skipped # {} /\ SetMin(skipped) = 1 THEN blindB \cup skipped ELSE blindB
RowsOK == \A i \in 1..Len(T.resp) : LET k == <<T.resp[i].d, T.resp[i].seq>> IN k \in DOMAIN revOf /\ revOf[k] = T.resp[i].rev
GhostRespT(c) == /\ GhostResp(c) /\ revOK' = (revOK /\ RowsOK) /\ revOf' = revOf /\ blindB' = BlindB1
                 /\ UNCHANGED <<declared, blindC>>

PReserve == Ev("Reserve") /\ Logged /\ EnvReserve(T.w, T.d) /\ UNCHANGED ghost /\ KeepT /\ NoBlind /\ NoRev /\ UNCHANGED declared
PCas     == /\ Ev("Cas") /\ Logged /\ EnvCasK(T.w, T.kind) /\ GhostCasK(T.w, T.kind) /\ KeepT /\ NoBlind /\ UNCHANGED declared
            /\ revOf' = IF T.kind = "commit" THEN (<<T.d, T.docs[T.d].seq>> :> T.docs[T.d].rev) @@ revOf ELSE revOf
            /\ revOK' = revOK
PFail    == Ev("Fail") /\ Logged /\ EnvFail(T.w) /\ UNCHANGED ghost /\ KeepT /\ NoBlind /\ NoRev /\ UNCHANGED declared
PDie     == Ev("Die") /\ Logged /\ EnvDie(T.w) /\ GhostDie(T.w) /\ KeepT /\ NoBlind /\ NoRev /\ UNCHANGED declared
PDeliverK(a, k) == /\ Ev(a) /\ Logged /\ UNCHANGED ghost /\ KeepT /\ NoRev
                   /\ \E e \in FeedEv(k) : /\ EnvDeliver(e, T.keep)
                                           /\ declared' = declared \cup (Declares(e) \ CutBlind(e))
                                           /\ blindC' = blindC \cup CutBlind(e)
                   /\ UNCHANGED <<blindA, blindB>>
PDeliver == PDeliverK("Deliver", "mut") \/ PDeliverK("DeliverUn", "un")
PCoalesce == /\ Ev("Coalesce") /\ Logged /\ UNCHANGED ghost /\ KeepT /\ NoBlind /\ NoRev /\ UNCHANGED declared
             /\ \E e \in FeedEv("mut") : EnvCoalesce(e)
PTick    == Ev("Tick") /\ Logged /\ UNCHANGED env /\ UNCHANGED ghost /\ KeepT /\ NoBlind /\ NoRev /\ UNCHANGED declared
(* only sequences that had NOT been declared to the cache count as given up on *)
PAbandon == /\ Ev("Abandon") /\ Logged /\ UNCHANGED env /\ KeepT /\ NoBlind /\ NoRev /\ UNCHANGED declared
            /\ abandoned' = abandoned \cup ((skipped \ skipped') \ declared) /\ UNCHANGED <<got, commits, ordOK, dead>>
PRequest == Ev("Request") /\ Logged /\ UNCHANGED env /\ GhostRespT("os") /\ KeepT /\ blindA' = blindA
(* F-a blind spot: a continuous feed opened from a compound token whose low part still is the low sequence never
   looks at what is already cached between the low part and the position *)
ConnBlind == IF ~ContKeepsLow /\ ct.tok.l # 0 /\ ct.tok.l = Low
             THEN {chan[d] : d \in {x \in Docs : chan[x] > ct.tok.l /\ chan[x] <= ct.tok.s /\ <<x, chan[x]>> \notin got["ct"]}}
             ELSE {}
PConnect == /\ Ev("Connect") /\ LoggedBut /\ LoggedCt(PostConnect.ct) /\ UNCHANGED env /\ GhostRespT("ct") /\ KeepT
            /\ blindA' = blindA \cup ConnBlind
PIter    == /\ Ev("Iter") /\ LoggedBut /\ LoggedCt(IF T.stall THEN ct ELSE PostIter.ct) /\ UNCHANGED env /\ GhostRespT("ct") /\ KeepT
            /\ blindA' = blindA
PDisconnect == Ev("Disconnect") /\ Logged /\ UNCHANGED env /\ UNCHANGED ghost /\ KeepT /\ NoBlind /\ NoRev /\ UNCHANGED declared
PQuiesce == /\ Ev("Quiesce") /\ Logged /\ UNCHANGED env /\ UNCHANGED ghost /\ NoBlind /\ NoRev /\ UNCHANGED declared
            /\ phase' = T.phase /\ UNCHANGED <<hist, bclients, cur>>
PFree == /\ l <= TraceLen /\ T.a \in {"Storm", "TimerAbandon"} /\ l' = l + 1 /\ cur' = T
         /\ UNCHANGED <<vars, phase, declared, blindA, blindB, blindC, bclients, revOf, revOK>>
PNext == PFree \/ Reset \/ PReserve \/ PCas \/ PFail \/ PDie \/ PDeliver \/ PCoalesce \/ PTick \/ PAbandon \/ PRequest \/ PConnect
         \/ PIter \/ PDisconnect \/ PQuiesce
PSpec == TInit /\ [][PNext]_tvars

(* pass C *)
CReserve == PReserve /\ wr[T.w].pc = "idle" /\ Match(PostReserve(T.w, T.d))
CCas     == PCas /\ wr[T.w].pc = "res" /\ T.kind = CasKind(T.w) /\ Match(PostCas(T.w))
CFail    == PFail /\ wr[T.w].pc = "res" /\ Match(PostFail(T.w))
CDie     == PDie /\ wr[T.w].pc = "res" /\ Match(CurI)
CDeliver == PDeliver /\ \E e \in FeedEv(IF T.a = "Deliver" THEN "mut" ELSE "un") : Older(e) = {} /\ Match(PostDeliver(e))
CCoalesce == PCoalesce /\ (\E e \in FeedEv("mut") : Newer(e) # {}) /\ Match(CurI)
CTick    == PTick /\ pend # {} /\ Match(PostTick)
CAbandon == PAbandon /\ skipped # {} /\ (TimedAbandon => skipped \cap InFlight = {}) /\ Match(PostAbandon)
CRequest == PRequest /\ Match(PostRequest)
CConnect == PConnect /\ ~ct.on /\ Match(PostConnect)
CIter    == PIter /\ ct.on /\ (IF T.stall THEN ~wake /\ Match([CurI EXCEPT !.resp = <<>>]) ELSE wake /\ Match(PostIter))
CDisconnect == PDisconnect /\ ct.on /\ Match(PostDisconnect)
CQuiesce == PQuiesce /\ Match(CurI)
CNext == PFree \/ CReset \/ CReserve \/ CCas \/ CFail \/ CDie \/ CDeliver \/ CCoalesce \/ CTick \/ CAbandon \/ CRequest \/ CConnect
         \/ CIter \/ CDisconnect \/ CQuiesce
CSpec == TInit /\ [][CNext]_tvars

-----------------------------------------------------------------------------
(* the properties on recorded real state *)
Blind(c) == (IF c = "ct" THEN blindA ELSE {}) \cup blindB
(* lenient = the statement minus the blind spots of deviations that are switched to "as coded" *)
ResumeSafeL == \A c \in bclients, d \in Docs : (~Seen(c, d) /\ ~Lost(Final(d)) /\ Final(d) \notin Blind(c)) => Final(d) > Safe(Tok(c))
QuietAccountedL == (Quiet /\ pend = {}) => (skipped \subseteq (dead \cup blindC) /\ next > Top)
(* end of a behaviour: everything delivered, the pending sweep ran, clients asked once more (phase 1); then the abandonment
   sweep and one more request / iteration per client (phase 2) - a late arrival below a sequence that is still skipped is only
   re-sent once the low sequence moves, so NoLostChange is judged at phase 2 *)
NoLostChangeFor(c) == (phase >= 2 /\ c \in bclients) => \A d \in Docs : Seen(c, d) \/ Lost(Final(d)) \/ Final(d) \in Blind(c)
NoLostChangeQ == NoLostChangeFor("os")        \* C08: the resume loop
ContDeliversQ == NoLostChangeFor("ct")        \* C01: the continuous feed, without being re-issued
FeedAnnouncesFinalQ == phase >= 1 => \A d \in Docs : Final(d) = 0 \/ chan[d] = Final(d) \/ Lost(Final(d))
NoStallQ == /\ phase = 1 => (pend = {} /\ skipped \subseteq (dead \cup blindC) /\ next > Top)
            /\ phase = 2 => (pend = {} /\ skipped = {} /\ Stable >= Top)
RowsAreCommitted == revOK                 \* every row names a revision some writer was acknowledged for, with that sequence
(* deviation reporters (strict statement restricted to a blind spot) *)
DevFa == /\ \A d \in Docs : Final(d) \in blindA => (Seen("ct", d) \/ Lost(Final(d)) \/ Final(d) > Safe(ct.tok))
         /\ phase >= 2 => \A d \in Docs : Final(d) \in blindA => (Seen("ct", d) \/ Lost(Final(d)))
DevFb == /\ \A c \in bclients, d \in Docs : Final(d) \in blindB => (Seen(c, d) \/ Lost(Final(d)) \/ Final(d) > Safe(Tok(c)))
         /\ phase >= 2 => \A c \in bclients, d \in Docs : Final(d) \in blindB => (Seen(c, d) \/ Lost(Final(d)))
DevFc == ((Quiet /\ pend = {}) \/ phase = 1) => (skipped \cap blindC) \subseteq dead

Viol(name, holds) == holds \/ PrintT(<<"VIOL", name, l>>)
ReportPReplay == /\ Viol("ResumeSafe", ResumeSafeL) /\ Viol("FeedSound", FeedSound) /\ Viol("RowsAreCommitted", RowsAreCommitted)
           /\ Viol("OrderedPerResponse", OrderedPerResponse) /\ Viol("LedgerAccounted", LedgerAccounted)
           /\ Viol("QuietAccounted", QuietAccountedL) /\ Viol("NoLostChange", NoLostChangeQ) /\ Viol("ContDelivers", ContDeliversQ)
           /\ Viol("FeedAnnouncesFinal", FeedAnnouncesFinalQ) /\ Viol("NoStall", NoStallQ)
           /\ Viol("DevFa", DevFa) /\ Viol("DevFb", DevFb) /\ Viol("DevFc", DevFc)

-----------------------------------------------------------------------------
(* Free-running runs (TestVerif_Pipeline_Storm / _Abandon): one line per run, judged at quiescence.  Real sequence numbers.
   Storm line: c0, c1 (counter before / after), docs [{id,seq,rev,recent,unused,chan}] read back from the bucket (chan = the
   all-documents channel cache's entry), attempts [{id,seq,unused,out,rev}] = per tagged write the numbers of its last attempt as
   seen at the storage boundary and what the caller was told (ack | timeout_applied | conflict | fail | die), notices, dead,
   delivered [{id,seq,unused,recent}] = document mutations the feed dispatcher handed to the cache, cache1 (at quiescence) and
   cache2 (after the abandonment sweep) {next,pend,skip,stable}, top, os {resps, last}, ct {rows}. *)
IsStorm == cur.a = "Storm"
SAtt == LSet(cur.attempts)
SHeld(a) == (IF a.seq > 0 THEN {a.seq} ELSE {}) \cup LSet(a.unused)
SCommitted == {a \in SAtt : a.out \in {"ack", "timeout_applied"}}
SUsed == {a.seq : a \in SCommitted}
SCarried == UNION {LSet(a.unused) : a \in SCommitted}
SMustRelease == UNION {SHeld(a) : a \in {x \in SAtt : x.out \in {"conflict", "fail"}}}
SDead == LSet(cur.dead)
SNot == LSet(cur.notices)
SAll == (cur.c0 + 1)..cur.c1
SDocs == LSet(cur.docs)
SDel == LSet(cur.delivered)
SBlindC == IF RecentCutAtUnused
           THEN UNION {{s \in LSet(e.recent) : Len(e.unused) > 0 /\ s >= SetMin(LSet(e.unused)) /\ s < e.seq /\ s \notin LSet(e.unused)} : e \in SDel}
           ELSE {}
SRowsOs == UNION {LSet(cur.os.resps[i]) : i \in 1..Len(cur.os.resps)}
SRowsCt == LSet(cur.ct.rows)
SHas(R, d) == \E r \in R : r.id = d.id /\ r.seq = d.seq /\ r.rev = d.rev
(* C07: every number taken from the counter is used by a committed write, carried in its unused_sequences, published as unused,
   or held by a write that timed out without effect; what a failed write held has been published; nothing is both *)
StormLedger == IsStorm => /\ SAll = (SUsed \cup SCarried \cup SNot \cup SDead) \cap SAll
                          /\ SAll \subseteq (SUsed \cup SCarried \cup SNot \cup SDead)
                          /\ SMustRelease \subseteq SNot
                          /\ SNot \cap (SUsed \cup SCarried) = {}
(* C07+C08: at quiescence nothing waits, only dead reservations (and the F-c blind spot, as coded) are still skipped, the cache is past
   every live number; after the abandonment sweep nothing is skipped and the stable sequence is there too *)
StormNoStall == IsStorm => /\ cur.cache1.pend = 0 /\ LSet(cur.cache1.skip) \subseteq (SDead \cup SBlindC) /\ cur.cache1.next > cur.top
                           /\ cur.cache2.skip = <<>> /\ cur.cache2.stable >= cur.top
StormDevFc == IsStorm => (LSet(cur.cache1.skip) \cap SBlindC) \subseteq SDead
(* C05: the cache ends up announcing each document's final revision (nothing was given up on before it arrived) *)
StormFeedAnnouncesFinal == IsStorm => \A d \in SDocs : d.chan = d.seq
(* C08: the resume loop, C01: the continuous feed - every document's final revision was delivered *)
StormNoLostChange == IsStorm => \A d \in SDocs : SHas(SRowsOs, d)
StormContDelivers == IsStorm => \A d \in SDocs : SHas(SRowsCt, d)
(* every row names a sequence some write of that document was committed with *)
StormRowsAreCommitted == IsStorm => \A r \in SRowsOs \cup SRowsCt : \E a \in SCommitted : a.id = r.id /\ a.seq = r.seq
StormOrdered == IsStorm => \A i \in 1..Len(cur.os.resps) : LET R == cur.os.resps[i] IN \A j \in 1..(Len(R) - 1) : R[j].seq < R[j + 1].seq
StormResumeSafe == IsStorm => \A d \in SDocs : SHas(SRowsOs, d) \/ d.seq > Safe(Tk(cur.os.last))
(* the cache's own timer gives up on a reservation that never arrives: the stable sequence gets past it *)
AbandonNoStall == cur.a = "TimerAbandon" => (cur.timeout_error /\ cur.saw_skipped /\ cur.cleared /\ cur.stable >= cur.second /\ cur.next > cur.second)

ReportFree == /\ Viol("StormLedger", StormLedger) /\ Viol("StormNoStall", StormNoStall) /\ Viol("DevFc", StormDevFc)
              /\ Viol("StormFeedAnnouncesFinal", StormFeedAnnouncesFinal) /\ Viol("StormNoLostChange", StormNoLostChange)
              /\ Viol("StormContDelivers", StormContDelivers) /\ Viol("StormRowsAreCommitted", StormRowsAreCommitted)
              /\ Viol("StormOrdered", StormOrdered) /\ Viol("StormResumeSafe", StormResumeSafe) /\ Viol("AbandonNoStall", AbandonNoStall)
ReportP == ReportPReplay /\ ReportFree

Progress == Mark(l)
Accept == PrintHWM
=============================================================================
