\* thorough: 4 reservations (counter <= Base + 4)
CONSTANT Docs <- EDocs
CONSTANT Writers <- EWriters
CONSTANT Base <- EBase
CONSTANT Conflicts <- EConflicts
CONSTANT AllowFail <- EFail
CONSTANT AllowDie <- EDie
CONSTANT AllowAbandon <- EAbandon
CONSTANT AllowReconnect <- EReconnect
CONSTANT MaxDup <- EDup
CONSTANT TimedAbandon <- ETimed
CONSTANT Clients <- EClients
CONSTANT ContKeepsLow <- EKeepLow
CONSTANT RecentCutAtUnused <- ERecentCut
CONSTANT Mut <- EMut
CONSTANT MaxSeq <- EMaxSeqT
CONSTANT MaxNum <- EMaxNum
CONSTANT MaxSteps = 0
CONSTANT RecordHist = FALSE
SPECIFICATION Spec
VIEW view
INVARIANT ResumeSafe
INVARIANT FeedSound
INVARIANT OrderedPerResponse
INVARIANT LedgerAccounted
INVARIANT QuietAccounted
INVARIANT TypeOK
CHECK_DEADLOCK FALSE
