CONSTANT Nodes = {n1, n2}
CONSTANT n1 = n1
CONSTANT n2 = n2
CONSTANT DBs = {"A", "B"}
CONSTANT CollChoices <- CC2
CONSTANT MaxOps = 2
CONSTANT MaxLoads = 0
CONSTANT MaxCrashes = 1
CONSTANT MaxAttempts = 2
CONSTANT MaxAttemptsU = 2
CONSTANT MaxReload = 3
CONSTANT MaxSteps = 1000
CONSTANT Sequential = FALSE
CONSTANT AllowStalePrev = TRUE
CONSTANT AllowOrphanDeleteLive = TRUE
CONSTANT AllowDeleteFinalizeLive = TRUE
SPECIFICATION Spec
VIEW view
INVARIANT LoadAtomic
INVARIANT OwnershipExclusive
INVARIANT NoLostAck
INVARIANT RejectedIsNoop
INVARIANT Recoverable
INVARIANT NoInvalid
INVARIANT TypeOK
CHECK_DEADLOCK TRUE
SYMMETRY NodeSym
