CONSTANT Nodes = {1, 2, 3}
CONSTANT DBs = {"A", "B"}
CONSTANT CollChoices <- CCT
CONSTANT MaxOps = 1000000
CONSTANT MaxLoads = 1000000
CONSTANT MaxCrashes = 1000000
CONSTANT MaxAttempts = 5
CONSTANT MaxAttemptsU = 25
CONSTANT MaxReload = 5
CONSTANT MaxSteps = 1000000
CONSTANT Sequential = FALSE
CONSTANT Verbose = FALSE
CONSTANT AllowStalePrev = FALSE
CONSTANT AllowOrphanDeleteLive = FALSE
CONSTANT AllowDeleteFinalizeLive = FALSE
SPECIFICATION PSpec
CONSTRAINT Progress
CHECK_DEADLOCK FALSE
INVARIANT LoadAtomic
INVARIANT OwnershipExclusive
INVARIANT NoLostAck
INVARIANT RejectedIsNoop
INVARIANT Recoverable
