--------------------------- MODULE Trace_ConfigRegistry ---------------------------
(* Validation of traces recorded from the real rest.bootstrapContext (harness/rest/c15_configregistry_test.go).
   Lines (ndjson):
     {a:"Reset", id, kind, reg, cfg}                          new scenario on an empty bucket
     {a:"Start", n, t, db, colls, pay}                        node n calls InsertConfig/UpdateConfig/DeleteConfig/GetDatabaseConfigs
     {a:"St", n, k, db, ok, val, reg, cfg}                    one storage operation of node n; reg/cfg = the REAL documents after it
     {a:"Crash", n}                                           node n dies (its pending and all later writes are refused)
     {a:"Ret", n, res, out:{cfgs, reg}, reg, cfg}             the call returned res; a load returned cfgs having last read registry reg
     {a:"Hang", n}                                            the call did not return within the liveness bound (reproduced twice)
   Every scenario is an independent behaviour: one initial state per Reset line (short error traces, parallel checking).
   The driver runs TLC with -continue: a violated property predicate is reported and that scenario is cut one step later
   (halt), the others go on.  Acceptance: a scenario is consumed when its last line is passed (END marker).

   Pass P (PSpec): reg/cfg := the logged REAL documents, node bookkeeping only remembers which call is in flight, ghosts
     advance by the specification's Ghost* operators from the logged inputs/outputs; no action guard is imposed.
   Pass C (CSpec): additionally every St line must be the storage step the specification's program takes next for that
     node (same kind, key, outcome, value written, resulting documents) and every Ret the result it computes. *)
EXTENDS ConfigRegistry, TraceLib

CONSTANT Verbose          \* print a marker at every consumed line (to locate a scenario that is not accepted)
VARIABLES l, sc, halt
tvars == <<vars, l, sc, halt>>

CCT == [d \in DBs |-> {}]
ToSet(sq) == {sq[i] : i \in 1..Len(sq)}
LPrev(x) == [gen |-> x.gen, tag |-> x.tag, colls |-> ToSet(x.colls)]
LEnt(x)  == [gen |-> x.gen, tag |-> x.tag, colls |-> ToSet(x.colls), prev |-> LPrev(x.prev)]
LCfg(x)  == [gen |-> x.gen, tag |-> x.tag, colls |-> ToSet(x.colls), pay |-> x.pay]
LReg(r)  == [d \in DBs |-> LEnt(r[d])]
LCfgs(c) == [d \in DBs |-> LCfg(c[d])]
LOp(r)   == [t |-> r.t, db |-> r.db, colls |-> ToSet(r.colls), pay |-> r.pay, gen |-> 0]

ResetLines == {i \in 1..TraceLen : Trace[i].a = "Reset"}
AtEnd == l > TraceLen \/ Trace[l].a = "Reset"
Ev(a) == ~AtEnd /\ Trace[l].a = a /\ l' = l + 1 /\ sc' = sc

PropOK == LoadAtomic /\ OwnershipExclusive /\ NoLostAck /\ RejectedIsNoop /\ Recoverable
Halt == halt' = ~PropOK

TInit == /\ Init
         /\ sc \in ResetLines /\ l = sc + 1 /\ halt = FALSE
         /\ LReg(Trace[sc].reg) = EmptyReg /\ LCfgs(Trace[sc].cfg) = EmptyCfgs      \* the bucket really was empty

Logged == reg' = LReg(Trace[l].reg) /\ cfg' = LCfgs(Trace[l].cfg)
N == Trace[l].n

(* ------------------------------------------------ pass P ------------------------------------------------ *)
PStart == /\ Ev("Start") /\ Halt
          /\ loc' = [loc EXCEPT ![N] = [Idle EXCEPT !.pc = "rreg", !.op = LOp(Trace[l])]]
          /\ UNCHANGED <<reg, cfg, env, hist>>
          /\ GhostStart(N)
PSt    == /\ Ev("St") /\ Halt
          /\ Logged /\ UNCHANGED <<env, hist>>
          /\ loc' = IF Trace[l].k = "Rr" THEN [loc EXCEPT ![N].rl = LReg(Trace[l].reg)] ELSE loc    \* what the node last read
          /\ GhostStep(N, loc[N].op, Trace[l].k, Trace[l].db, Trace[l].ok, LCfg(Trace[l].val), "", NoOut)
PRet   == /\ Ev("Ret") /\ Halt
          /\ Logged /\ loc' = [loc EXCEPT ![N] = Idle] /\ UNCHANGED <<env, hist>>
          /\ GhostStep(N, loc[N].op, "Ret", "-", TRUE, NoCfg, Trace[l].res,
                       [cfgs |-> LCfgs(Trace[l].out.cfgs), reg |-> LReg(Trace[l].out.reg)])
PCrash == /\ Ev("Crash") /\ Halt
          /\ loc' = [loc EXCEPT ![N] = Idle] /\ UNCHANGED <<reg, cfg, env, hist>>
          /\ GhostCrash(N)
PHang  == /\ Ev("Hang") /\ Halt          \* a follow-up that never returns: Recoverable is broken
          /\ okRec' = FALSE
          /\ UNCHANGED <<impl, env, hist, abs, written, committed, chg, wr, solo, cleanStart, staleBy, tainted, devs, okLoad, okOwnLoad, okRej, okAck>>
PNext == PStart \/ PSt \/ PRet \/ PCrash \/ PHang
PSpec == TInit /\ [][PNext]_tvars

(* ------------------------------------------------ pass C ------------------------------------------------ *)
(* which error a failed call reports (and with which text) is not part of the conformance relation: e.g. a CAS failure of
   waitForConfigDelete's clean-up delete surfaces as "failed to persist updated registry after 5 attempts" *)
ErrResults == {"err_reload", "err_retries", "err_vermismatch", "err_rollback_cancelled", "err_cleanup", "err_cfgwrite",
               "err_finalize", "err_cas", "err_rollback", "err_other"}
ErrClass(r) == IF r \in ErrResults THEN "err" ELSE r
CStart == /\ Ev("Start") /\ Halt
          /\ LET o == LOp(Trace[l]) IN
             /\ ImplStart(N, o)
             /\ IF o.t = "L" THEN UNCHANGED env
                ELSE o.pay = nops + 1 /\ nops' = nops + 1 /\ UNCHANGED <<nloads, ncrash>>
          /\ GhostStart(N) /\ UNCHANGED hist
CSt    == /\ Ev("St") /\ Halt
          /\ \E e \in Effs(N) :
               /\ e.kind = Trace[l].k /\ e.d = Trace[l].db /\ e.ok = Trace[l].ok
               /\ e.kind \in {"Ic", "Wc"} => e.val = LCfg(Trace[l].val)
               /\ ImplStepF(N, e, [e.nl EXCEPT !.pc = "ret", !.res = e.res])      \* Impl: the model's step ...
               /\ reg' = LReg(Trace[l].reg) /\ cfg' = LCfgs(Trace[l].cfg)         \* ... yields the real documents
               /\ GhostStep(N, loc[N].op, e.kind, e.d, e.ok, e.val, "", NoOut)
          /\ UNCHANGED hist
CRet   == /\ Ev("Ret") /\ Halt
          /\ loc[N].pc = "ret" /\ ErrClass(loc[N].res) = ErrClass(Trace[l].res)
          /\ Logged /\ reg' = reg /\ cfg' = cfg
          /\ LET out == [cfgs |-> LCfgs(Trace[l].out.cfgs), reg |-> LReg(Trace[l].out.reg)] IN
             /\ (loc[N].op.t = "L" /\ loc[N].res = "ok") => out = [cfgs |-> loc[N].acc, reg |-> loc[N].rl]
             /\ GhostStep(N, loc[N].op, "Ret", "-", TRUE, NoCfg, Trace[l].res, out)
          /\ loc' = [loc EXCEPT ![N] = Idle] /\ UNCHANGED <<env, hist>>
CCrash == /\ Ev("Crash") /\ Halt
          /\ loc[N].pc # "idle"
          /\ loc' = [loc EXCEPT ![N] = Idle] /\ UNCHANGED <<reg, cfg, env, hist>>
          /\ GhostCrash(N)
CNext == CStart \/ CSt \/ CRet \/ CCrash \/ PHang
CSpec == TInit /\ [][CNext]_tvars

(* progress / acceptance markers read by checks/C15.py *)
Progress == /\ ~halt
            /\ (Verbose => PrintT(<<"AT", sc, l>>))
            /\ (AtEnd => PrintT(<<"END", sc, devs>>))
=============================================================================
