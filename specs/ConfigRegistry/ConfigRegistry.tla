--------------------------- MODULE ConfigRegistry ---------------------------
(* The registry / database-config two-document protocol of rest/config_manager.go + rest/config_registry.go.
   Store = the registry document (one entry per database: version, collections, previous version) and one
   config document per database, every write CAS-guarded.  Each of InsertConfig / UpdateConfig / DeleteConfig /
   GetDatabaseConfigs is a per-node sequential program; ONE ACTION PER STORAGE OPERATION (the local computation
   that follows a storage operation is folded into it), explicit pc:

     rreg    getGatewayRegistry                       (getRegistryAndDatabase loop / GetDatabaseConfigs attempt)
     rcfg1   getConfigVersionWithRetry, first read    (match -> go on; newer -> error; older/missing -> wait)
     rcfg2   ... the read after which the wait gives up (configRetryTimeout) -> registry rollback
     touch   TouchMetadataDocument  (fences a slow writer; CAS of the config read at rcfg2)
     wrb     rollbackRegistry: CAS write of the registry         -> reload
     wd1/wd2 waitForConfigDelete reads;  wddel  its CAS delete of the orphan config;  wdrb  registry CAS write
     wreg    setGatewayRegistry: the operation's registry write (upsert / mark deleted), CAS
     wcfg    the config document write (insert / CAS write / CAS delete)    <- commit point of insert, update
     freg    finalize: re-read registry;  fwr  finalize: CAS write (remove previous version / deleted entry)

   CAS is modelled by validity flags (rv, cv): a CAS write by n succeeds iff nobody wrote the document since n
   read (or itself wrote) it - exact, and much smaller than counters.
   Crash(n): node n loses its in-flight operation between two storage steps and performs no further writes
   (it comes back as a fresh idle node = "another node" for recovery).
   Timing assumption (named, TimeoutOK): a waiter gives up (rcfg2/wd2) only when no live node is between its
   registry write and its config write for that database - configRetryTimeout exceeds that window of a live node.

   Every action is Impl (store + node state) /\ Ghost (history variables; may read primed store) /\ Step (hist).
   Ghosts are driven by what is observable at the storage boundary / API (kind, key, success, value written,
   return value), so that Trace_ConfigRegistry can advance them from recorded real runs.                    *)
EXTENDS Integers, Sequences, FiniteSets, TLC

CONSTANTS Nodes, DBs,
          CollChoices,   \* [DBs -> set of collection sets an operation may ask for]
          MaxOps,        \* insert/update/delete operations started in a behaviour (payload marker = ordinal)
          MaxLoads,      \* GetDatabaseConfigs started
          MaxCrashes,
          MaxAttempts,   \* configUpdateMaxRetryAttempts (5)
          MaxAttemptsU,  \* updateConfigRegistryPersistMaxRetryAttempts (25): UpdateConfig's persist loop
          MaxReload,     \* maxRegistryLoadCount / configFetchMaxRetryAttempts (5)
          MaxSteps,      \* bound on Len(hist)
          Sequential,    \* TRUE: an operation starts only when every node is idle (crash/recovery exploration)
          (* named deviations of the code from the property (found by this model, reproduced on the real code by the
             binding).  TRUE = the deviation is accepted (the model-checking configurations: everything else is verified
             modulo these); FALSE = the property as stated (the trace-validation pass P on real runs). *)
          AllowStalePrev,        \* StalePreviousVersion        (see RecoverableAt)
          AllowOrphanDeleteLive, \* OrphanDeleteDestroysLive    (see GhostStep)
          AllowDeleteFinalizeLive \* DeleteFinalizeRemovesRecreated (see GhostStep)

NoPrev == [gen |-> -9, tag |-> 0, colls |-> {}]
NoEnt  == [gen |-> -9, tag |-> 0, colls |-> {}, prev |-> NoPrev]
NoCfg  == [gen |-> -9, tag |-> 0, colls |-> {}, pay |-> 0]
NoOp   == [t |-> "none", db |-> "-", colls |-> {}, pay |-> 0, gen |-> 0]
EmptyReg  == [d \in DBs |-> NoEnt]
EmptyCfgs == [d \in DBs |-> NoCfg]
NoOut  == [cfgs |-> EmptyCfgs, reg |-> EmptyReg]

(* registry entry: gen >= 1 a version "gen-tag"; 0 = deletedDatabaseVersion "0-0"; -1 = invalid "0-1"; -9 absent *)
Present(e)   == e.gen # -9
IsDeleted(e) == e.gen = 0
Loadable(e)  == e.gen >= 1
SameVer(a, b) == a.gen = b.gen /\ a.tag = b.tag
VerOf(e) == [gen |-> e.gen, tag |-> e.tag, colls |-> e.colls]

Idle == [pc |-> "idle", op |-> NoOp, cur |-> "-", rl |-> EmptyReg, cl |-> NoCfg, att |-> 0, rld |-> 0,
         todo |-> {}, acc |-> EmptyCfgs, rv |-> FALSE, cv |-> {}, res |-> ""]

VARIABLES reg, cfg,          \* the store: registry entries, config documents
          loc,               \* per node: pc, op, cur (db being fetched), rl/cl (local copies), att, rld, todo, acc, rv, cv
          nops, nloads, ncrash,
          abs, written, committed,            \* ghosts: committed configuration per db; complete configs ever written; pays committed
          chg, wr, solo, cleanStart,          \* ghosts per node used by RejectedIsNoop / Recoverable
          staleBy,                            \* ghost: databases whose update died after its config write, before finalizing
          tainted, devs,                      \* ghosts: databases hit by an accepted deviation (their NoLostAck is waived); names of the deviations accepted so far
          okLoad, okOwnLoad, okRej, okRec, okAck,  \* verdicts of the checks made at operation return
          hist
impl  == <<reg, cfg, loc>>
env   == <<nops, nloads, ncrash>>
ghost == <<abs, written, committed, chg, wr, solo, cleanStart, staleBy, tainted, devs, okLoad, okOwnLoad, okRej, okRec, okAck>>
vars  == <<impl, env, ghost, hist>>
view  == <<impl, env, ghost>>

(* what a node that loads would end up with: the config document is the truth as long as the registry lists the db *)
Visible(r, c) == [d \in DBs |-> IF Loadable(r[d]) /\ c[d] # NoCfg THEN c[d] ELSE NoCfg]
Clean(r, c) == \A d \in DBs : IF Present(r[d]) THEN Loadable(r[d]) /\ r[d].prev = NoPrev /\ c[d] # NoCfg /\ SameVer(c[d], r[d])
                                                 ELSE c[d] = NoCfg
AllIdle == \A m \in Nodes : loc[m].pc = "idle"
InWindow(m, d) == loc[m].pc = "wcfg" /\ loc[m].op.db = d
TimeoutOK(n, d) == \A m \in Nodes \ {n} : ~InWindow(m, d)

Rejections == {"exists", "notfound", "conflict", "conflict_inprogress"}

-----------------------------------------------------------------------------
(* local computations (no storage access).  Each yields [nl |-> next local record, res |-> "" | result]. *)
Cont(L)      == [nl |-> L, res |-> ""]
Fin(L, r)    == [nl |-> L, res |-> r]
Reload(L)    == IF L.rld >= MaxReload THEN Fin(L, "err_reload") ELSE Cont([L EXCEPT !.pc = "rreg"])
Retry(L)     == IF L.att >= (IF L.op.t = "U" THEN MaxAttemptsU ELSE MaxAttempts) THEN Fin(L, "err_retries")
                ELSE Cont([L EXCEPT !.att = @ + 1, !.cur = L.op.db, !.rld = 0, !.todo = {}, !.pc = "rreg"])

OtherConflict(r, db, colls) == \E d \in DBs \ {db} : Present(r[d]) /\ r[d].colls \cap colls # {}
PrevConflicts(r, db, colls) == {d \in DBs \ {db} : Present(r[d]) /\ r[d].prev # NoPrev /\ r[d].prev.colls \cap colls # {}}

(* upsertDatabaseConfig + what InsertConfig/UpdateConfig do with its result.  A conflict with the previous version of
   another database's in-flight update is returned as an error together with the list of those databases, and both
   callers test the error first: the request is rejected at once (their WaitForConflictingUpdates branch is dead code). *)
Upsert(L, g) ==
  LET db == L.op.db  cs == L.op.colls IN
  IF OtherConflict(L.rl, db, cs) THEN Fin(L, "conflict")
  ELSE IF PrevConflicts(L.rl, db, cs) # {} THEN Fin(L, "conflict_inprogress")
  ELSE Cont([L EXCEPT !.op.gen = g, !.pc = "wreg",
                      !.rl[db] = [gen |-> g, tag |-> L.op.pay, colls |-> cs,
                                  prev |-> IF Present(L.rl[db]) THEN VerOf(L.rl[db]) ELSE NoPrev]])

(* getRegistryAndDatabase returned (registry L.rl, config c) without error *)
AfterGRD(L, c) ==
  CASE L.op.t = "I" -> IF c # NoCfg THEN Fin(L, "exists") ELSE Upsert(L, 1)
    [] L.op.t = "U" -> IF c = NoCfg THEN Fin(L, "notfound") ELSE Upsert(L, IF c.gen >= 1 THEN c.gen + 1 ELSE 1)
    [] L.op.t = "D" -> IF c = NoCfg THEN Fin(L, "notfound")
                       ELSE Cont([L EXCEPT !.pc = "wreg",        \* deleteDatabase: scopes are not kept
                                   !.rl[L.op.db] = [gen |-> 0, tag |-> 0, colls |-> {},
                                                    prev |-> [gen |-> @.gen, tag |-> @.tag, colls |-> {}]]])

(* getDatabaseConfig succeeded with c for L.cur: a load collects it, an operation goes on.  nxt = the db a load
   fetches next (Go map order: any), "-" when not applicable *)
Got(L, c, nxt) ==
  IF L.op.t = "L" THEN
       LET acc2 == [L.acc EXCEPT ![L.cur] = c]  todo2 == L.todo \ {L.cur} IN
       IF todo2 = {} THEN Fin([L EXCEPT !.acc = acc2, !.todo = {}], "ok")
       ELSE Cont([L EXCEPT !.acc = acc2, !.todo = todo2, !.cur = nxt, !.pc = "rcfg1"])
  ELSE AfterGRD(L, c)
NxtOK(L, nxt) == IF L.op.t = "L" /\ L.todo \ {L.cur} # {} THEN nxt \in L.todo \ {L.cur} ELSE nxt = "-"

(* rollbackDatabaseConfig *)
RollbackEntry(r, d, c) ==
  IF r[d].prev = NoPrev
  THEN [gen |-> IF OtherConflict(r, d, c.colls) THEN -1 ELSE c.gen, tag |-> c.tag, colls |-> c.colls, prev |-> NoPrev]
  ELSE [gen |-> r[d].prev.gen, tag |-> r[d].prev.tag, colls |-> r[d].prev.colls, prev |-> NoPrev]

(* effect of one storage operation of node n: kind, key (db), success, value written, new store, continuation *)
Eff(k, d, ok, val, r2, c2, k2) == [kind |-> k, d |-> d, ok |-> ok, val |-> val, reg |-> r2, cfg |-> c2, nl |-> k2.nl, res |-> k2.res]

EffReadReg(n, nxt) ==          \* pc = rreg
  LET L  == loc[n]
      L1 == [L EXCEPT !.rl = reg, !.rv = TRUE, !.rld = @ + 1]
      e  == reg[L.cur] IN
  IF L.op.t = "L" THEN
       LET td == {d \in DBs : Present(reg[d]) /\ ~IsDeleted(reg[d])} IN
       Eff("Rr", "-", TRUE, NoCfg, reg, cfg,
           IF td = {} THEN Fin([L1 EXCEPT !.acc = EmptyCfgs, !.todo = {}], "ok")
           ELSE Cont([L1 EXCEPT !.acc = EmptyCfgs, !.todo = td, !.cur = nxt, !.pc = "rcfg1"]))
  ELSE Eff("Rr", "-", TRUE, NoCfg, reg, cfg,
           IF ~Present(e) THEN Cont([L1 EXCEPT !.pc = "wd1"])
           ELSE IF ~IsDeleted(e) THEN Cont([L1 EXCEPT !.pc = "rcfg1"])
           ELSE IF e.prev # NoPrev THEN Cont([L1 EXCEPT !.pc = "wd1"])
           ELSE AfterGRD(L1, NoCfg))
ReadRegNxtOK(n, nxt) ==
  IF loc[n].op.t = "L" /\ {d \in DBs : Present(reg[d]) /\ ~IsDeleted(reg[d])} # {}
  THEN nxt \in DBs /\ Present(reg[nxt]) /\ ~IsDeleted(reg[nxt]) ELSE nxt = "-"

EffReadCfg(n, final, nxt) ==   \* pc = rcfg1 (final = FALSE) / rcfg2 (final = TRUE): getConfigVersionWithRetry
  LET L  == loc[n]   d == L.cur   c == cfg[d]   want == L.rl[d]
      L1 == [L EXCEPT !.cl = c, !.cv = @ \cup {d}] IN
  Eff("Rc", d, TRUE, NoCfg, reg, cfg,
      IF c # NoCfg /\ (SameVer(c, want) \/ want.gen = -1) THEN Got(L1, c, nxt)
      ELSE IF c # NoCfg /\ c.gen > want.gen THEN Fin(L1, "err_vermismatch")
      ELSE IF ~final THEN Cont([L1 EXCEPT !.pc = "rcfg2"])
      ELSE IF c = NoCfg THEN Cont([L1 EXCEPT !.rl[d] = NoEnt, !.pc = "wrb"])     \* rollbackRegistry(nil): removeDatabase
      ELSE Cont([L1 EXCEPT !.pc = "touch"]))

EffTouch(n) ==                 \* pc = touch
  LET L == loc[n]  d == L.cur  ok == d \in L.cv /\ cfg[d] # NoCfg IN
  Eff("Tc", d, ok, NoCfg, reg, cfg,
      IF ok THEN Cont([L EXCEPT !.rl[d] = RollbackEntry(L.rl, d, L.cl), !.pc = "wrb"])
      ELSE Fin(L, "err_rollback_cancelled"))

EffWriteRollback(n) ==         \* pc = wrb: success or CAS mismatch both mean "reload"
  LET L == loc[n]  ok == L.rv IN
  Eff("Wr", "-", ok, NoCfg, IF ok THEN L.rl ELSE reg, cfg, Reload(L))

EffWaitDelete(n, final) ==     \* pc = wd1 / wd2: waitForConfigDelete
  LET L == loc[n]  d == L.cur  c == cfg[d]  e == L.rl[d]
      L1 == [L EXCEPT !.cl = c, !.cv = @ \cup {d}] IN
  Eff("Rc", d, TRUE, NoCfg, reg, cfg,
      IF c = NoCfg THEN AfterGRD(L1, NoCfg)
      ELSE IF Present(e) /\ ~SameVer(c, e.prev) THEN Reload(L1)
      ELSE IF ~final THEN Cont([L1 EXCEPT !.pc = "wd2"])
      ELSE Cont([L1 EXCEPT !.pc = "wddel"]))

(* In getRegistryAndDatabase the branch for a deleted entry with a previous version declares `err := waitForConfigDelete(..)`
   in an inner scope: whatever it returns except "reload required" is dropped and the function returns (registry, nil, nil)
   with the registry object rollbackRegistry has already edited (and, on success, re-stamped with the new CAS). *)
EffWaitDeleteRemove(n) ==      \* pc = wddel: delete the config that is (still) there
  LET L == loc[n]  d == L.cur  ok == d \in L.cv /\ cfg[d] # NoCfg IN
  Eff("Dc", d, ok, NoCfg, reg, IF ok THEN [cfg EXCEPT ![d] = NoCfg] ELSE cfg,
      IF ~Present(L.rl[d]) THEN (IF ok THEN AfterGRD(L, NoCfg) ELSE Fin(L, "err_cleanup"))
      ELSE IF ok THEN Cont([L EXCEPT !.rl[d] = NoEnt, !.pc = "wdrb"])
      ELSE AfterGRD(L, NoCfg))

EffWaitDeleteRollback(n) ==    \* pc = wdrb
  LET L == loc[n]  ok == L.rv IN
  Eff("Wr", "-", ok, NoCfg, IF ok THEN L.rl ELSE reg, cfg, AfterGRD(L, NoCfg))

EffWriteReg(n) ==              \* pc = wreg
  LET L == loc[n]  ok == L.rv IN
  Eff("Wr", "-", ok, NoCfg, IF ok THEN L.rl ELSE reg, cfg,
      IF ok THEN Cont([L EXCEPT !.pc = "wcfg"]) ELSE Retry(L))

Target(L) == [gen |-> L.op.gen, tag |-> L.op.pay, colls |-> L.op.colls, pay |-> L.op.pay]
EffWriteCfg(n) ==              \* pc = wcfg
  LET L == loc[n]  d == L.op.db  t == L.op.t
      ok == IF t = "I" THEN cfg[d] = NoCfg ELSE d \in L.cv /\ cfg[d] # NoCfg
      v  == IF t = "D" THEN NoCfg ELSE Target(L) IN
  Eff(IF t = "I" THEN "Ic" ELSE IF t = "U" THEN "Wc" ELSE "Dc", d, ok, v, reg,
      IF ok THEN [cfg EXCEPT ![d] = v] ELSE cfg,
      IF ~ok THEN Fin(L, "err_cfgwrite")
      ELSE IF t = "I" THEN Fin(L, "ok")
      ELSE Cont([L EXCEPT !.att = 1, !.pc = "freg"]))

EffFinalizeRead(n) ==          \* pc = freg
  LET L == loc[n]  d == L.op.db  e == reg[d]
      L1 == [L EXCEPT !.rl = reg, !.rv = TRUE] IN
  Eff("Rr", "-", TRUE, NoCfg, reg, cfg,
      IF L.op.t = "U"
      THEN IF ~Present(e) \/ e.prev = NoPrev \/ ~SameVer(e.prev, L.cl) THEN Fin(L1, "ok")   \* removePreviousVersion
           ELSE Cont([L1 EXCEPT !.rl[d].prev = NoPrev, !.pc = "fwr"])
      ELSE IF ~Present(e) THEN Fin(L1, "ok")                                                 \* removeDatabase
           ELSE Cont([L1 EXCEPT !.rl[d] = NoEnt, !.pc = "fwr"]))

EffFinalizeWrite(n) ==         \* pc = fwr
  LET L == loc[n]  ok == L.rv IN
  Eff("Wr", "-", ok, NoCfg, IF ok THEN L.rl ELSE reg, cfg,
      IF ok THEN Fin(L, "ok")
      ELSE IF L.att >= MaxAttempts THEN Fin(L, "err_finalize")
      ELSE Cont([L EXCEPT !.att = @ + 1, !.pc = "freg"]))

(* the storage operations node n may perform next (more than one only where a load picks the next database, and where
   the wait may already be over after its first read: the timer runs from before that read) *)
Fin1(n) == IF TimeoutOK(n, loc[n].cur) THEN {FALSE, TRUE} ELSE {FALSE}
Effs(n) ==
  LET p == loc[n].pc  Nx == DBs \cup {"-"} IN
  CASE p = "rreg"  -> {EffReadReg(n, x) : x \in {y \in Nx : ReadRegNxtOK(n, y)}}
    [] p = "rcfg1" -> {EffReadCfg(n, f, x) : f \in Fin1(n), x \in {y \in Nx : NxtOK(loc[n], y)}}
    [] p = "rcfg2" -> IF TimeoutOK(n, loc[n].cur) THEN {EffReadCfg(n, TRUE, x) : x \in {y \in Nx : NxtOK(loc[n], y)}} ELSE {}
    [] p = "touch" -> {EffTouch(n)}
    [] p = "wrb"   -> {EffWriteRollback(n)}
    [] p = "wd1"   -> {EffWaitDelete(n, f) : f \in Fin1(n)}
    [] p = "wd2"   -> IF TimeoutOK(n, loc[n].cur) THEN {EffWaitDelete(n, TRUE)} ELSE {}
    [] p = "wddel" -> {EffWaitDeleteRemove(n)}
    [] p = "wdrb"  -> {EffWaitDeleteRollback(n)}
    [] p = "wreg"  -> {EffWriteReg(n)}
    [] p = "wcfg"  -> {EffWriteCfg(n)}
    [] p = "freg"  -> {EffFinalizeRead(n)}
    [] p = "fwr"   -> {EffFinalizeWrite(n)}
    [] OTHER       -> {}

-----------------------------------------------------------------------------
Init ==
  /\ reg = EmptyReg /\ cfg = EmptyCfgs /\ loc = [n \in Nodes |-> Idle]
  /\ nops = 0 /\ nloads = 0 /\ ncrash = 0
  /\ abs = EmptyCfgs /\ written = {} /\ committed = {}
  /\ chg = [n \in Nodes |-> FALSE] /\ wr = [n \in Nodes |-> FALSE] /\ solo = [n \in Nodes |-> FALSE]
  /\ cleanStart = [n \in Nodes |-> FALSE] /\ staleBy = {} /\ tainted = {} /\ devs = {}
  /\ okLoad = TRUE /\ okOwnLoad = TRUE /\ okRej = TRUE /\ okRec = TRUE /\ okAck = TRUE
  /\ hist = <<>>

(* ---- implementation part of a storage step: new store, CAS validity, node state.  fin = what becomes of the node
   when the call returns (Idle here; the trace specification keeps the result until the logged return) ---- *)
ImplStepF(n, e, fin) ==
  /\ reg' = e.reg /\ cfg' = e.cfg
  /\ loc' = [m \in Nodes |->
       IF m = n THEN (IF e.res # "" THEN fin
                      ELSE IF e.kind \in {"Ic", "Wc", "Dc", "Tc"} /\ e.ok THEN [e.nl EXCEPT !.cv = @ \ {e.d}]
                      ELSE e.nl)
       ELSE IF e.kind = "Wr" /\ e.ok THEN [loc[m] EXCEPT !.rv = FALSE]
       ELSE IF e.kind \in {"Ic", "Wc", "Dc", "Tc"} /\ e.ok THEN [loc[m] EXCEPT !.cv = @ \ {e.d}]
       ELSE loc[m]]
  /\ UNCHANGED env
ImplStep(n, e) == ImplStepF(n, e, Idle)

(* ---- the checks made when an operation returns (named so that the cfg files can list them) ---- *)
LoadAtomicAt(cfgs, rseen, wrt) ==      \* every loaded config is a complete written one, carrying the registry's version
  \A d \in DBs : /\ cfgs[d] # NoCfg => [db |-> d, c |-> cfgs[d]] \in wrt /\ Loadable(rseen[d]) /\ SameVer(cfgs[d], rseen[d])
                 /\ Loadable(rseen[d]) => cfgs[d] # NoCfg
LoadExclusiveAt(cfgs) == \A d1, d2 \in DBs : d1 # d2 => cfgs[d1].colls \cap cfgs[d2].colls = {}
RecoverableStrict(res, o, vis, r) ==   \* a follow-up run alone ends in success or a rejection the state justifies
  \/ res = "ok"
  \/ res = "exists"   /\ o.t = "I" /\ vis[o.db] # NoCfg
  \/ res = "notfound" /\ o.t \in {"U", "D"} /\ vis[o.db] = NoCfg
  \/ res \in {"conflict", "conflict_inprogress"} /\ o.t \in {"I", "U"}       \* the collection really has an owner
       /\ (OtherConflict(r, o.db, o.colls) \/ \E d \in DBs \ {o.db} : vis[d].colls \cap o.colls # {})
(* named deviation StalePreviousVersion: a previous-version marker left by an update that died after its config
   write but before its finalize step is never removed by anybody; requests for the released collections are
   rejected as "update in progress" although no database owns them.  Recognised from the recorded history only: the
   marker in the way belongs to a database whose UpdateConfig was seen to die after its commit (stale). *)
StalePrevAt(res, o, vis, r, stale) ==
  /\ ~RecoverableStrict(res, o, vis, r)
  /\ AllowStalePrev /\ res = "conflict_inprogress" /\ o.t \in {"I", "U"}
  /\ PrevConflicts(r, o.db, o.colls) # {} /\ PrevConflicts(r, o.db, o.colls) \subseteq stale
RecoverableAt(res, o, vis, r, stale) == RecoverableStrict(res, o, vis, r) \/ StalePrevAt(res, o, vis, r, stale)

(* ---- ghost part of a storage step (kind = "Ret": the logged return of a call, in the trace specification);
   o = the operation node n is running; out = what a load returned ---- *)
GhostStep(n, o, kind, d, ok, val, res, out) ==
  LET vis  == Visible(reg, cfg)
      vis2 == Visible(reg', cfg')
      commitW == kind \in {"Ic", "Wc"} /\ ok
      commitD == kind = "Wr" /\ ok /\ o.t = "D" /\ o.db \in DBs /\ IsDeleted(reg'[o.db]) /\ ~IsDeleted(reg[o.db])
      (* deviations - steps that are nobody's commit and yet destroy a committed configuration; each is recognised from
         recorded facts of the schedule (who read what before whom), never from the damage alone:
         OrphanDeleteDestroysLive: waitForConfigDelete deletes, as an orphan, the visible config of a database that the
           node's own registry read does NOT list while the registry now does - the read was overtaken by another node's
           insert (registry write + config write), and the config is deleted without looking at the registry again.
         DeleteFinalizeRemovesRecreated: the finalize step of DeleteConfig removes whatever entry the registry now has
           for the database - here a live entry that somebody wrote over this delete's own marker.
         Where accepted, the database is marked tainted and NoLostAck / RejectedIsNoop no longer speak about it. *)
      devD2 == /\ AllowOrphanDeleteLive /\ kind = "Dc" /\ ok /\ d \in DBs /\ vis[d] # NoCfg
               /\ ~Present(loc[n].rl[d]) /\ Present(reg[d])
      devD3 == /\ AllowDeleteFinalizeLive /\ kind = "Wr" /\ ok /\ o.t = "D" /\ o.db \in DBs
               /\ o.pay \in committed                \* this delete has written its marker ...
               /\ Present(reg[o.db]) /\ ~IsDeleted(reg[o.db]) /\ ~Present(reg'[o.db])     \* ... and now removes a live entry
      tnt2 == tainted \cup (IF devD2 THEN {d} ELSE {}) \cup (IF devD3 THEN {o.db} ELSE {})
      chg2 == chg[n] \/ \E x \in DBs \ tnt2 : vis2[x] # vis[x]
      wr2  == wr[n] \/ reg' # reg \/ cfg' # cfg
      com2 == IF commitW \/ commitD THEN committed \cup {o.pay} ELSE committed
      wrt2 == IF commitW THEN written \cup {[db |-> d, c |-> val]} ELSE written IN
  /\ abs' = IF commitW THEN [abs EXCEPT ![d] = val]
            ELSE IF commitD THEN [abs EXCEPT ![o.db] = NoCfg]
            ELSE abs
  /\ tainted' = tnt2
  /\ devs' = devs \cup (IF devD2 THEN {"OrphanDeleteDestroysLive"} ELSE {})
                  \cup (IF devD3 THEN {"DeleteFinalizeRemovesRecreated"} ELSE {})
                  \cup (IF res # "" /\ solo[n] /\ StalePrevAt(res, o, vis2, reg', staleBy) THEN {"StalePreviousVersion"} ELSE {})
  /\ staleBy' = IF commitW \/ commitD THEN staleBy \ {IF commitW THEN d ELSE o.db} ELSE staleBy
  /\ written' = wrt2 /\ committed' = com2
  /\ chg' = [chg EXCEPT ![n] = chg2] /\ wr' = [wr EXCEPT ![n] = wr2]
  /\ solo' = [m \in Nodes |-> solo[m] /\ m = n]
  /\ cleanStart' = cleanStart
  /\ IF res = "" THEN UNCHANGED <<okLoad, okOwnLoad, okRej, okRec, okAck>>
     ELSE /\ okRej' = (okRej /\ (res \in Rejections => ~chg2 /\ (solo[n] /\ cleanStart[n] => ~wr2)))
          /\ okAck' = (okAck /\ (res = "ok" /\ o.t # "L" => o.pay \in com2))
          /\ okRec' = (okRec /\ (solo[n] => RecoverableAt(res, o, vis2, reg', staleBy)))
          /\ okLoad' = (okLoad /\ (o.t = "L" /\ res = "ok" => LoadAtomicAt(out.cfgs, out.reg, wrt2)))
          /\ okOwnLoad' = (okOwnLoad /\ (o.t = "L" /\ res = "ok" => LoadExclusiveAt(out.cfgs)))

GhostStart(n) ==
  /\ chg' = [chg EXCEPT ![n] = FALSE] /\ wr' = [wr EXCEPT ![n] = FALSE]
  /\ solo' = [m \in Nodes |-> m = n /\ AllIdle]
  /\ cleanStart' = [cleanStart EXCEPT ![n] = Clean(reg, cfg)]
  /\ UNCHANGED <<abs, written, committed, staleBy, tainted, devs, okLoad, okOwnLoad, okRej, okRec, okAck>>

GhostCrash(n) ==      \* o = the call that dies
  /\ solo' = [solo EXCEPT ![n] = FALSE]
  /\ staleBy' = IF loc[n].op.t = "U" /\ loc[n].op.pay \in committed THEN staleBy \cup {loc[n].op.db} ELSE staleBy
  /\ UNCHANGED <<abs, written, committed, chg, wr, cleanStart, tainted, devs, okLoad, okOwnLoad, okRej, okRec, okAck>>

Step(n, a, o, res) == hist' = Append(hist, [n |-> n, a |-> a, o |-> o, res |-> res])

Do(n, e) == /\ ImplStep(n, e)
            /\ GhostStep(n, loc[n].op, e.kind, e.d, e.ok, e.val, e.res, [cfgs |-> e.nl.acc, reg |-> e.nl.rl])
            /\ Step(n, loc[n].pc, loc[n].op, e.res)

-----------------------------------------------------------------------------
ImplStart(n, o) ==
  /\ loc[n].pc = "idle" /\ (Sequential => AllIdle)
  /\ loc' = [loc EXCEPT ![n] = [Idle EXCEPT !.pc = "rreg", !.op = o, !.cur = o.db, !.att = 1]]
  /\ UNCHANGED <<reg, cfg>>
Start(n, o) == ImplStart(n, o) /\ GhostStart(n) /\ Step(n, "Start", o, "")

StartOp(n, t, d, cs) ==
  /\ nops < MaxOps
  /\ Start(n, [t |-> t, db |-> d, colls |-> cs, pay |-> nops + 1, gen |-> 0])
  /\ nops' = nops + 1 /\ UNCHANGED <<nloads, ncrash>>
StartLoad(n) ==
  /\ nloads < MaxLoads
  /\ Start(n, [NoOp EXCEPT !.t = "L"])
  /\ nloads' = nloads + 1 /\ UNCHANGED <<nops, ncrash>>

At(n, p) == loc[n].pc = p /\ \E e \in Effs(n) : Do(n, e)
ReadRegistry(n)        == At(n, "rreg")
ReadConfig(n)          == At(n, "rcfg1")
ReadConfigGiveUp(n)    == At(n, "rcfg2")
TouchConfig(n)         == At(n, "touch")
WriteRollback(n)       == At(n, "wrb")
WaitDelete(n)          == At(n, "wd1")
WaitDeleteGiveUp(n)    == At(n, "wd2")
RemoveOrphan(n)        == At(n, "wddel")
WriteOrphanRollback(n) == At(n, "wdrb")
WriteRegistry(n)       == At(n, "wreg")
WriteConfig(n)         == At(n, "wcfg")
FinalizeRead(n)        == At(n, "freg")
FinalizeWrite(n)       == At(n, "fwr")

Crash(n) ==
  /\ loc[n].pc # "idle" /\ ncrash < MaxCrashes
  /\ loc' = [loc EXCEPT ![n] = Idle] /\ UNCHANGED <<reg, cfg>>
  /\ ncrash' = ncrash + 1 /\ UNCHANGED <<nops, nloads>>
  /\ GhostCrash(n) /\ Step(n, "Crash", loc[n].op, "")

StorageStep(n) ==
  \/ ReadRegistry(n) \/ ReadConfig(n) \/ ReadConfigGiveUp(n) \/ TouchConfig(n) \/ WriteRollback(n)
  \/ WaitDelete(n) \/ WaitDeleteGiveUp(n) \/ RemoveOrphan(n) \/ WriteOrphanRollback(n)
  \/ WriteRegistry(n) \/ WriteConfig(n) \/ FinalizeRead(n) \/ FinalizeWrite(n)

Next ==
  /\ Len(hist) < MaxSteps
  /\ \E n \in Nodes :
       \/ \E d \in DBs : \/ \E cs \in CollChoices[d] : StartOp(n, "I", d, cs) \/ StartOp(n, "U", d, cs)
                         \/ StartOp(n, "D", d, {})
       \/ StartLoad(n)
       \/ StorageStep(n)
       \/ Crash(n)
(* with Done, CHECK_DEADLOCK means: an operation in flight can always take a step (nothing hangs) *)
Done == AllIdle /\ UNCHANGED vars
Spec == Init /\ [][Next \/ Done]_vars

-----------------------------------------------------------------------------
(* C15 *)
LoadAtomic == okLoad
OwnershipExclusive ==
  /\ \A d1, d2 \in DBs : d1 # d2 /\ Present(reg[d1]) /\ Present(reg[d2]) /\ reg[d1].gen # -1 /\ reg[d2].gen # -1
                         => reg[d1].colls \cap reg[d2].colls = {}
  /\ LET v == Visible(reg, cfg) IN \A d1, d2 \in DBs : d1 # d2 => v[d1].colls \cap v[d2].colls = {}
  /\ okOwnLoad
NoLostAck == /\ okAck                            \* the visible configuration changes only by an operation's commit step
             /\ \A d \in DBs \ tainted : Visible(reg, cfg)[d] = abs[d]
RejectedIsNoop == okRej
Recoverable == okRec
(* design / auxiliary *)
NoInvalid == \A d \in DBs : reg[d].gen # -1
TypeOK == /\ \A d \in DBs : /\ reg[d].gen \in {-9, -1} \/ (reg[d].gen >= 0 /\ reg[d].gen <= MaxOps + 1)
                            /\ cfg[d].gen = -9 \/ (cfg[d].gen >= 1 /\ cfg[d].gen <= MaxOps + 1)
          /\ \A n \in Nodes : loc[n].pc \in {"idle", "rreg", "rcfg1", "rcfg2", "touch", "wrb", "wd1", "wd2", "wddel", "wdrb",
                                             "wreg", "wcfg", "freg", "fwr", "ret"}
=============================================================================
