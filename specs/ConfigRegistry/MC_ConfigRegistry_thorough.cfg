CONSTANT Nodes = {n1}
CONSTANT n1 = n1
CONSTANT DBs = {"A", "B"}
CONSTANT CollChoices <- CC3
CONSTANT MaxOps = 4
CONSTANT MaxLoads = 2
CONSTANT MaxCrashes = 2
CONSTANT MaxAttempts = 2
CONSTANT MaxAttemptsU = 2
CONSTANT MaxReload = 3
CONSTANT MaxSteps = 1000
CONSTANT Sequential = TRUE
CONSTANT AllowStalePrev = TRUE
CONSTANT AllowOrphanDeleteLive = TRUE
CONSTANT AllowDeleteFinalizeLive = TRUE
SPECIFICATION Spec
VIEW view
INVARIANT LoadAtomic
INVARIANT OwnershipExclusive
INVARIANT NoLostAck
INVARIANT RejectedIsNoop
INVARIANT Recoverable
INVARIANT NoInvalid
INVARIANT TypeOK
CHECK_DEADLOCK TRUE
