CONSTANT Nodes = {1, 2, 3}
CONSTANT DBs = {"A", "B"}
CONSTANT CollChoices <- CCT
CONSTANT MaxOps = 1000000
CONSTANT MaxLoads = 1000000
CONSTANT MaxCrashes = 1000000
CONSTANT MaxAttempts = 5
CONSTANT MaxAttemptsU = 25
CONSTANT MaxReload = 5
CONSTANT MaxSteps = 1000000
CONSTANT Sequential = FALSE
CONSTANT Verbose = FALSE
CONSTANT AllowStalePrev = TRUE
CONSTANT AllowOrphanDeleteLive = TRUE
CONSTANT AllowDeleteFinalizeLive = TRUE
SPECIFICATION CSpec
CONSTRAINT Progress
CHECK_DEADLOCK FALSE
INVARIANT NoInvalid
INVARIANT TypeOK
