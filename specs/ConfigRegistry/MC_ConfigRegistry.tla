--------------------------- MODULE MC_ConfigRegistry ---------------------------
EXTENDS ConfigRegistry, Json
(* two databases with overlapping collection sets: A may own {c1} or {c1,c2}; B wants c2 (alone or with c3) *)
CC2 == [d \in DBs |-> IF d = "A" THEN {{"c1"}, {"c1", "c2"}} ELSE {{"c2"}}]
CC3 == [d \in DBs |-> IF d = "A" THEN {{"c1"}, {"c1", "c2"}} ELSE {{"c2"}, {"c2", "c3"}}]
CCA == [d \in DBs |-> IF d = "A" THEN {{"c1"}} ELSE {}]
NodeSym == Permutations(Nodes)
(* Simulation: TLC picks uniformly among SUCCESSOR STATES; with Next the ~20 ways to start an operation would swamp the one
   or two storage steps that are possible, i.e. every operation would start at once.  SimNext yields one successor per
   action kind (a storage step of each node in flight, one start with random arguments, one load, one crash). *)
SimNext ==
  /\ Len(hist) < MaxSteps
  /\ \/ \E n \in Nodes : StorageStep(n)
     \/ /\ AllIdle \/ RandomElement(1..3) = 1          \* while something is in flight a new call starts now and then
        /\ \E n \in {RandomElement(Nodes)}, d \in {RandomElement(DBs)}, k \in {RandomElement(1..4)} :     \* (drawn once each)
             LET t == IF Loadable(reg[d]) /\ cfg[d] # NoCfg                \* mostly operations that will do something
                      THEN (CASE k = 1 -> "I" [] k = 2 -> "D" [] OTHER -> "U")
                      ELSE (CASE k = 1 -> "U" [] k = 2 -> "D" [] OTHER -> "I") IN
             IF t = "D" THEN StartOp(n, "D", d, {}) ELSE \E cs \in {RandomElement(CollChoices[d])} : StartOp(n, t, d, cs)
     \/ RandomElement(1..4) = 1 /\ StartLoad(RandomElement(Nodes))
     \/ RandomElement(1..8) = 1 /\ Crash(RandomElement(Nodes))
SimSpec == Init /\ [][SimNext]_vars
Terminal == AllIdle /\ nops = MaxOps /\ nloads = MaxLoads
(* counterexample export: the violated property predicate prints the behaviour that led to it *)
Cex(name, ok) == ok \/ (PrintT(<<"CEX", ToJson([inv |-> name, steps |-> hist])>>) /\ FALSE)
CexLoadAtomic == Cex("LoadAtomic", LoadAtomic)
CexOwnershipExclusive == Cex("OwnershipExclusive", OwnershipExclusive)
CexNoLostAck == Cex("NoLostAck", NoLostAck)
CexRejectedIsNoop == Cex("RejectedIsNoop", RejectedIsNoop)
CexRecoverable == Cex("Recoverable", Recoverable)
BehaviourExport == (Len(hist) = MaxSteps \/ Terminal) => PrintT(<<"BEH", ToJson([steps |-> hist])>>)
=============================================================================
