--------------------------- MODULE MC_ConfigRegistry ---------------------------
EXTENDS ConfigRegistry, Json
(* two databases with overlapping collection sets: A may own {c1} or {c1,c2}; B wants c2 (alone or with c3) *)
CC2 == [d \in DBs |-> IF d = "A" THEN {{"c1"}, {"c1", "c2"}} ELSE {{"c2"}}]
CC3 == [d \in DBs |-> IF d = "A" THEN {{"c1"}, {"c1", "c2"}} ELSE {{"c2"}, {"c2", "c3"}}]
CCA == [d \in DBs |-> IF d = "A" THEN {{"c1"}} ELSE {}]
NodeSym == Permutations(Nodes)
Terminal == AllIdle /\ nops = MaxOps /\ nloads = MaxLoads
(* counterexample export: the violated property predicate prints the behaviour that led to it *)
Cex(name, ok) == ok \/ (PrintT(<<"CEX", ToJson([inv |-> name, steps |-> hist])>>) /\ FALSE)
CexLoadAtomic == Cex("LoadAtomic", LoadAtomic)
CexOwnershipExclusive == Cex("OwnershipExclusive", OwnershipExclusive)
CexNoLostAck == Cex("NoLostAck", NoLostAck)
CexRejectedIsNoop == Cex("RejectedIsNoop", RejectedIsNoop)
CexRecoverable == Cex("Recoverable", Recoverable)
BehaviourExport == (Len(hist) = MaxSteps \/ Terminal) => PrintT(<<"BEH", ToJson([steps |-> hist])>>)
=============================================================================
