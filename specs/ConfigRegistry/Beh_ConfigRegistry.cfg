CONSTANT Nodes = {n1, n2}
CONSTANT n1 = n1
CONSTANT n2 = n2
CONSTANT DBs = {"A", "B"}
CONSTANT CollChoices <- CCA
CONSTANT MaxOps = 2
CONSTANT MaxLoads = 0
CONSTANT MaxCrashes = 0
CONSTANT MaxAttempts = 2
CONSTANT MaxAttemptsU = 2
CONSTANT MaxReload = 3
CONSTANT MaxSteps = 40
CONSTANT Sequential = FALSE
CONSTANT AllowStalePrev = TRUE
CONSTANT AllowOrphanDeleteLive = TRUE
CONSTANT AllowDeleteFinalizeLive = TRUE
SPECIFICATION Spec
INVARIANT BehaviourExport
CHECK_DEADLOCK FALSE
