CONSTANT Nodes = {n1, n2}
CONSTANT n1 = n1
CONSTANT n2 = n2
CONSTANT DBs = {"A", "B"}
CONSTANT CollChoices <- CC3
CONSTANT MaxOps = 4
CONSTANT MaxLoads = 1
CONSTANT MaxCrashes = 1
CONSTANT MaxAttempts = 2
CONSTANT MaxAttemptsU = 2
CONSTANT MaxReload = 3
CONSTANT MaxSteps = 70
CONSTANT Sequential = FALSE
CONSTANT AllowStalePrev = TRUE
CONSTANT AllowOrphanDeleteLive = TRUE
CONSTANT AllowDeleteFinalizeLive = TRUE
SPECIFICATION Spec
INVARIANT BehaviourExport
CHECK_DEADLOCK FALSE
