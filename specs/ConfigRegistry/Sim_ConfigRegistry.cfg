CONSTANT Nodes = {n1, n2}
CONSTANT n1 = n1
CONSTANT n2 = n2
CONSTANT DBs = {"A", "B"}
CONSTANT CollChoices <- CC3
CONSTANT MaxOps = 6
CONSTANT MaxLoads = 2
CONSTANT MaxCrashes = 1
CONSTANT MaxAttempts = 2
CONSTANT MaxAttemptsU = 2
CONSTANT MaxReload = 3
CONSTANT MaxSteps = 80
CONSTANT Sequential = FALSE
CONSTANT AllowStalePrev = TRUE
CONSTANT AllowOrphanDeleteLive = TRUE
CONSTANT AllowDeleteFinalizeLive = TRUE
SPECIFICATION SimSpec
INVARIANT BehaviourExport
CHECK_DEADLOCK FALSE
