CONSTANT Writers = {1, 2, 3}
CONSTANT WriterSets <- W2or3
CONSTANT InitLens = {0, 1, 2}
CONSTANT InitTombs = {FALSE, TRUE}
CONSTANT Modes = {FALSE, TRUE}
CONSTANT AheadSets <- NoAhead
CONSTANT Kinds = {"put", "push", "del"}
SPECIFICATION SimSpec
INVARIANT BehaviourExport
CHECK_DEADLOCK FALSE
