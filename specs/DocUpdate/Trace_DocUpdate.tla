--------------------------- MODULE Trace_DocUpdate ---------------------------
(* Validation of traces recorded from the real document update path (harness/db/c05_docupdate_test.go).
   Lines:
     {a:"Reset", beh, allow, n, tomb, nw, iseq, S}      the initial document has been created by real writes
     {a:"Begin"|"RC"|"Cas"|"Ack", w, k, p, S}            S = snapshot of the REAL state after the step:
     {a:"Quiesce", feed, S}                                cas (rank), tree [[rev, parent, deleted]], cur, seq, unused, recent   (raw _sync)
     {a:"Abort"}                                           last, rel (allocator / _sync:unusedSeq docs), pc, kind, parg, res (per writer)
   Pass P: observable variables := logged real state, ghosts by Ghost*, hidden locals untouched; the C05 predicates.
   Pass C: every step is additionally an instance of the spec action from the previous real state (hidden writer
           locals evolve by the spec); auxiliary invariants too. *)
EXTENDS DocUpdate, TraceLib

WSets == {{1}}
VARIABLE l
tvars == <<vars, l>>

S == Trace[l]
SetOf(x) == {x[i] : i \in 1..Len(x)}
TreeOf(x) == [r \in {x[i][1] : i \in 1..Len(x)} |->
                LET i == CHOOSE j \in 1..Len(x) : x[j][1] = r IN [p |-> x[i][2], d |-> (x[i][3] = 1)]]
ResOf(r) == [cls |-> r.cls, rev |-> r.rev, seq |-> r.seq]

Ev(a) == l <= TraceLen /\ Trace[l].a = a /\ l' = l + 1

LoggedBucket == /\ cas' = S.cas /\ tree' = TreeOf(S.tree) /\ cur' = S.cur /\ seq' = S.seq
                /\ unused' = SetOf(S.unused) /\ recent' = SetOf(S.recent)
LoggedAlloc  == last' = S.last /\ released' = SetOf(S.rel)
LoggedW      == /\ pc' = [w \in Writers |-> S.pc[w]] /\ res' = [w \in Writers |-> ResOf(S.res[w])]
                /\ kind' = [w \in Writers |-> S.kind[w]] /\ parg' = [w \in Writers |-> S.parg[w]]
Logged == LoggedBucket /\ LoggedAlloc /\ LoggedW
FeedOf(x) == [i \in 1..Len(x) |-> [seq |-> x[i].seq, rev |-> x[i].rev]]

TInit == Init /\ l = 1

Reset == /\ Ev("Reset")
         /\ allow' = S.allow /\ initLen' = S.n /\ initTomb' = S.tomb /\ ws' = 1..S.nw
         /\ Logged
         /\ match' = [w \in Writers |-> 0] /\ att' = [w \in Writers |-> 0] /\ loc' = [w \in Writers |-> NoLoc]
         /\ dso' = [w \in Writers |-> 0] /\ uo' = [w \in Writers |-> <<>>] /\ dropped' = {}
         /\ feed' = <<>> /\ quiesced' = FALSE
         /\ docSeqs' = <<>> /\ onDoc' = SetOf(S.iseq) /\ initSeq' = [i \in 1..Len(S.iseq) |-> S.iseq[i]]
         /\ hist' = <<>>
(* pass C also requires the recorded initial state to be the model's initial state for that configuration *)
ResetShape == /\ cas' = initLen' /\ cur' = initLen' /\ seq' = initLen' /\ last' = initLen' /\ unused' = {} /\ released' = {}
              /\ tree' = [i \in 1..initLen' |-> [p |-> i - 1, d |-> (initTomb' /\ i = initLen')]]
              /\ recent' = 1..initLen' /\ initSeq' = [i \in 1..initLen' |-> i]
              /\ \A w \in Writers : pc'[w] = "idle" /\ res'[w] = NoRes
Abort == Ev("Abort") /\ UNCHANGED vars

(* ---- pass P ---- *)
PStep(a) == Ev(a) /\ Logged /\ UNCHANGED <<hidden, fd, hist>>
PBegin   == PStep("Begin") /\ GhostBegin(S.w)
PRC      == PStep("RC")    /\ GhostReadAndCompute(S.w)
PCas     == PStep("Cas")   /\ GhostCasWrite(S.w)
PAck     == PStep("Ack")   /\ GhostAck(S.w)
PQuiesce == Ev("Quiesce") /\ Logged /\ feed' = FeedOf(S.feed) /\ quiesced' = TRUE /\ UNCHANGED <<hidden, hist>> /\ GhostQuiesce
PNext == Reset \/ Abort \/ PBegin \/ PRC \/ PCas \/ PAck \/ PQuiesce
PSpec == TInit /\ [][PNext]_tvars

(* ---- pass C ---- *)
CReset   == Reset /\ ResetShape
CBegin   == Ev("Begin") /\ BeginOK(S.w, S.k, S.p) /\ ImplBegin(S.w, S.k, S.p) /\ Logged /\ GhostBegin(S.w) /\ UNCHANGED hist
CRC      == Ev("RC")  /\ pc[S.w] = "begun" /\ ImplReadAndCompute(S.w) /\ Logged /\ GhostReadAndCompute(S.w) /\ UNCHANGED hist
CCas     == Ev("Cas") /\ pc[S.w] = "computed" /\ ImplCasWrite(S.w) /\ Logged /\ GhostCasWrite(S.w) /\ UNCHANGED hist
CAck     == Ev("Ack") /\ pc[S.w] \in {"committed", "failed"} /\ ImplAck(S.w) /\ Logged /\ GhostAck(S.w) /\ UNCHANGED hist
CQuiesce == /\ Ev("Quiesce") /\ ~quiesced /\ \A w \in ws : pc[w] = "done"
            /\ ImplQuiesce /\ Logged /\ feed' = FeedOf(S.feed) /\ GhostQuiesce /\ UNCHANGED hist
CNext == CReset \/ CBegin \/ CRC \/ CCas \/ CAck \/ CQuiesce
CSpec == TInit /\ [][CNext]_tvars

Progress == Mark(l)
Accept == PrintHWM
=============================================================================
