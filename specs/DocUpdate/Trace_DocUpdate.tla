--------------------------- MODULE Trace_DocUpdate ---------------------------
(* Validation of traces recorded from the real document update path (harness/db/c05_docupdate_test.go).
   Lines:
     {a:"Reset", beh, allow, n, tomb, nw, iseq, S}      the initial document has been created by real writes
     {a:"Begin"|"RC"|"Cas"|"Restamp"|"Ack", w, k, p, S}            S = snapshot of the REAL state after the step:
     {a:"Quiesce", feed, S}                                cas (rank), tree [[rev, parent, deleted]], cur, seq, unused, recent   (raw _sync)
     {a:"Abort"}                                           last, rel (allocator / _sync:unusedSeq docs), pc, kind, parg, res (per writer)
   Pass P (PSpec): observable variables := logged real state, ghosts by Ghost*, hidden writer locals untouched.  The C05
           predicates are evaluated by TLC on EVERY recorded state; failures are collected per behaviour in TLC register 2
           (<<behaviour, predicate, line>>) and printed by the POSTCONDITION - not stop-on-first, because a behaviour
           that runs through a known deviation of the real code must not hide the behaviours recorded after it.
   Pass C (CSpec): every step is additionally an instance of the spec action from the previous real state (hidden writer
           locals evolve by the spec, which also tells which named deviation the real code took).  Register 3 collects, for every
           behaviour that conforms to the end, the deviations taken and the relaxed (X_) / auxiliary predicates that fail on its
           final state; register 4 the lines no spec action explains (hidden-state forks that die also land there - a
           behaviour is non-conforming iff it has no record in register 3). *)
EXTENDS DocUpdate, TraceLib

WSets == {{1}}
WSetsNoAhead == {{}}
VARIABLES l, bi, diverged
tvars == <<vars, l, bi, diverged>>

ASSUME TLCSet(2, {}) /\ TLCSet(3, {}) /\ TLCSet(4, {})

S == Trace[l]
SetOf(x) == {x[i] : i \in 1..Len(x)}
TreeOf(x) == [r \in {x[i][1] : i \in 1..Len(x)} |->
                LET i == CHOOSE j \in 1..Len(x) : x[j][1] = r IN [p |-> x[i][2], d |-> (x[i][3] = 1)]]
ResOf(r) == [cls |-> r.cls, rev |-> r.rev, seq |-> r.seq]
FeedOf(x) == [i \in 1..Len(x) |-> [seq |-> x[i].seq, rev |-> x[i].rev]]

Ev(a) == l <= TraceLen /\ Trace[l].a = a /\ l' = l + 1

LoggedBucket == /\ cas' = S.cas /\ tree' = TreeOf(S.tree) /\ cur' = S.cur /\ seq' = S.seq
                /\ unused' = SetOf(S.unused) /\ recent' = SetOf(S.recent)
LoggedAlloc  == last' = S.last /\ released' = SetOf(S.rel)
LoggedW      == /\ pc' = [w \in Writers |-> S.pc[w]] /\ res' = [w \in Writers |-> ResOf(S.res[w])]
                /\ kind' = [w \in Writers |-> S.kind[w]] /\ parg' = [w \in Writers |-> S.parg[w]]
Logged == LoggedBucket /\ LoggedAlloc /\ LoggedW

TInit == Init /\ l = 1 /\ bi = -1 /\ diverged = FALSE

Reset == /\ Ev("Reset")
         /\ allow' = S.allow /\ initLen' = S.n /\ initTomb' = S.tomb /\ ws' = 1..S.nw /\ aheadW' = SetOf(S.ahead)
         /\ Logged
         /\ match' = [w \in Writers |-> 0] /\ ph' = [w \in Writers |-> <<>>] /\ att' = [w \in Writers |-> 0] /\ loc' = [w \in Writers |-> NoLoc] /\ cc' = [w \in Writers |-> -1]
         /\ dso' = [w \in Writers |-> 0] /\ uo' = [w \in Writers |-> <<>>] /\ dev' = {} /\ top' = [seq |-> S.seq, rev |-> S.cur] /\ lost' = {} /\ backIdx' = {}
         /\ feed' = <<>> /\ quiesced' = FALSE
         /\ docSeqs' = <<>> /\ onDoc' = SetOf(S.iseq) /\ initSeq' = [i \in 1..Len(S.iseq) |-> S.iseq[i]]
         /\ hist' = <<>> /\ bi' = S.beh /\ diverged' = FALSE
(* pass C also requires the recorded initial state to be the model's initial state for that configuration *)
ResetShape == /\ cas' = initLen' /\ cur' = initLen' /\ seq' = initLen' /\ last' = initLen' /\ unused' = {} /\ released' = {}
              /\ tree' = [i \in 1..initLen' |-> [p |-> i - 1, d |-> (initTomb' /\ i = initLen')]]
              /\ recent' = 1..initLen' /\ initSeq' = [i \in 1..initLen' |-> i]
              /\ \A w \in Writers : pc'[w] = "idle" /\ res'[w] = NoRes

(* ---- pass P ---- *)
PStep(a) == Ev(a) /\ Logged /\ UNCHANGED <<hidden, fd, hist, bi, diverged>>
PBegin   == PStep("Begin") /\ GhostBegin(S.w)
PRC      == PStep("RC")    /\ GhostReadAndCompute(S.w)
PCas     == PStep("Cas")   /\ GhostCasWrite(S.w)
PRestamp == PStep("Restamp") /\ GhostRestamp(S.w)
PAck     == PStep("Ack")   /\ GhostAck(S.w)
PQuiesce == Ev("Quiesce") /\ Logged /\ feed' = FeedOf(S.feed) /\ quiesced' = TRUE /\ UNCHANGED <<hidden, hist, bi, diverged>> /\ GhostQuiesce
PAbort   == Ev("Abort") /\ UNCHANGED <<vars, bi, diverged>>
PNext == Reset \/ PAbort \/ PBegin \/ PRC \/ PCas \/ PRestamp \/ PAck \/ PQuiesce
PSpec == TInit /\ [][PNext]_tvars

(* the property statement, predicate by predicate, on the recorded real state *)
PFailing == {n \in {"NoLostAck", "OwnSequence", "OneChildPerParent", "LosersLeaveNoTrace", "RefusalsAreConflicts", "FeedAnnouncesFinal"} :
               ~CASE n = "NoLostAck" -> NoLostAck
                  [] n = "OwnSequence" -> OwnSequence
                  [] n = "OneChildPerParent" -> OneChildPerParent
                  [] n = "LosersLeaveNoTrace" -> LosersLeaveNoTrace
                  [] n = "RefusalsAreConflicts" -> RefusalsAreConflicts
                  [] n = "FeedAnnouncesFinal" -> FeedAnnouncesFinal}
CollectP == bi < 0 \/ PFailing = {} \/ TLCSet(2, TLCGet(2) \cup {[b |-> bi, p |-> n, line |-> l - 1] : n \in PFailing})
PProgress == Mark(l) /\ CollectP
PAccept == PrintHWM /\ PrintT(<<"PVIOL", ToJson(TLCGet(2))>>)

(* ---- pass C ---- *)
CUnch    == UNCHANGED <<hist, bi, diverged>>
CReset   == Reset /\ ResetShape
CBegin   == ~diverged /\ Ev("Begin") /\ BeginOK(S.w, S.k, S.p) /\ ImplBegin(S.w, S.k, S.p) /\ Logged /\ GhostBegin(S.w) /\ CUnch
CRC      == ~diverged /\ Ev("RC")  /\ pc[S.w] = "begun" /\ ImplReadAndCompute(S.w) /\ Logged /\ GhostReadAndCompute(S.w) /\ CUnch
CCas     == ~diverged /\ Ev("Cas") /\ pc[S.w] = "computed" /\ ImplCasWrite(S.w) /\ Logged /\ GhostCasWrite(S.w) /\ CUnch
CRestamp == ~diverged /\ Ev("Restamp") /\ pc[S.w] = "restamp" /\ ImplRestamp(S.w) /\ Logged /\ GhostRestamp(S.w) /\ CUnch
CAck     == ~diverged /\ Ev("Ack") /\ pc[S.w] \in {"committed", "failed", "errored"} /\ ImplAck(S.w) /\ Logged /\ GhostAck(S.w) /\ CUnch
CQuiesce == /\ ~diverged /\ Ev("Quiesce") /\ ~quiesced /\ \A w \in ws : pc[w] = "done"
            /\ ImplQuiesce /\ Logged /\ feed' = FeedOf(S.feed) /\ GhostQuiesce /\ CUnch
CAny     == CBegin \/ CRC \/ CCas \/ CRestamp \/ CAck \/ CQuiesce
(* a line no spec action explains (or a harness abort): the rest of the behaviour is skipped, validation resumes at the next Reset *)
CDiverge == /\ ~diverged /\ l <= TraceLen /\ S.a # "Reset" /\ ~ENABLED CAny
            /\ diverged' = TRUE /\ l' = l + 1 /\ UNCHANGED <<vars, bi>>
CSkip    == /\ diverged /\ l <= TraceLen /\ S.a # "Reset" /\ l' = l + 1 /\ UNCHANGED <<vars, bi, diverged>>
CNext == CReset \/ CAny \/ CDiverge \/ CSkip
CSpec == TInit /\ [][CNext]_tvars

XNames == {"X_NoLostAck", "X_OwnSequence", "X_OneChildPerParent", "LosersLeaveNoTrace", "X_RefusalsAreConflicts", "X_FeedAnnouncesFinal",
           "TypeOK", "SeqSane", "NotYetWritten", "CurIsWinner", "SequencesAccounted", "DevSane"}
XFailing == {n \in XNames :
               ~CASE n = "X_NoLostAck" -> X_NoLostAck
                  [] n = "X_OwnSequence" -> X_OwnSequence
                  [] n = "X_OneChildPerParent" -> X_OneChildPerParent
                  [] n = "LosersLeaveNoTrace" -> LosersLeaveNoTrace
                  [] n = "X_RefusalsAreConflicts" -> X_RefusalsAreConflicts
                  [] n = "X_FeedAnnouncesFinal" -> X_FeedAnnouncesFinal
                  [] n = "TypeOK" -> TypeOK
                  [] n = "SeqSane" -> SeqSane
                  [] n = "NotYetWritten" -> NotYetWritten
                  [] n = "CurIsWinner" -> CurIsWinner
                  [] n = "SequencesAccounted" -> SequencesAccounted
                  [] n = "DevSane" -> DevSane}
(* recorded once per behaviour, at the end of a run that conformed all the way: the named deviations the real code took,
   what they overwrote, the sequences the real run leaked, and which relaxed / auxiliary predicates fail on the real state *)
CollectC ==
  \/ bi < 0
  \/ /\ (~diverged \/ TLCSet(4, TLCGet(4) \cup {[b |-> bi, line |-> l - 1]}))
     /\ (~(quiesced /\ ~diverged) \/
           TLCSet(3, TLCGet(3) \cup {[b |-> bi, dev |-> dev, lost |-> lost, leaked |-> Leaked, xfail |-> XFailing]}))
CProgress == Mark(l) /\ CollectC
CAccept == PrintHWM /\ PrintT(<<"CCONF", ToJson(TLCGet(3))>>) /\ PrintT(<<"CDIV", ToJson(TLCGet(4))>>)
=============================================================================
