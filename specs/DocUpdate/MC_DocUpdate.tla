--------------------------- MODULE MC_DocUpdate ---------------------------
EXTENDS DocUpdate, Json
W12  == {{1, 2}}
W123 == {{1, 2, 3}}
W2or3 == {{1, 2}, {1, 2, 3}}
Conf == [allow |-> allow, n |-> initLen, tomb |-> initTomb, nw |-> Cardinality(ws), ahead |-> aheadW]
NoAhead == {{}}
Ahead1 == {{1}}
(* every complete behaviour (all writers returned, feed read) *)
BehaviourExport == quiesced => PrintT(<<"BEH", ToJson([conf |-> Conf, steps |-> hist])>>)
(* one witness behaviour per distinct final state in which a named deviation fired (replayed on the real code) *)
DevExport == (quiesced /\ dev # {}) => PrintT(<<"BEH", ToJson([conf |-> Conf, steps |-> hist, dev |-> dev])>>)
(* Simulation: TLC picks uniformly among SUCCESSOR STATES; Begin has |Kinds| x |revisions| argument choices and would
   swamp RC / Cas / Ack (all writers would begin before anything commits, so parents created by other writers and
   late-starting requests would be rare).  SimNext draws Begin's arguments with RandomElement: one successor per
   (writer, action kind).  Sim_DocUpdate_burst.cfg keeps the plain Next: there
   every writer begins early and the contention on the CAS window is highest.  Both mixes are replayed. *)
LegalBegins == {kp \in Kinds \X (DOMAIN tree \cup {0}) : (kp[1] = "del" => kp[2] # 0) /\ (kp[1] = "push" /\ kp[2] = 0 => allow)}
SimNext ==
  \/ \E w \in Writers : \/ LET kp == RandomElement(LegalBegins) IN Begin(w, kp[1], kp[2])
                        \/ ReadAndCompute(w) \/ CasWrite(w) \/ Restamp(w) \/ Ack(w)
  \/ Quiesce
SimSpec == Init /\ [][SimNext]_vars
=============================================================================
