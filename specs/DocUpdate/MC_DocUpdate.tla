--------------------------- MODULE MC_DocUpdate ---------------------------
EXTENDS DocUpdate, Json
W12  == {{1, 2}}
W123 == {{1, 2, 3}}
W2or3 == {{1, 2}, {1, 2, 3}}
Conf == [allow |-> allow, n |-> initLen, tomb |-> initTomb, nw |-> Cardinality(ws)]
(* every complete behaviour (all writers returned, feed read) *)
BehaviourExport == quiesced => PrintT(<<"BEH", ToJson([conf |-> Conf, steps |-> hist])>>)
(* one witness behaviour per distinct final state in which a named deviation fired (replayed on the real code) *)
DevExport == (quiesced /\ dev # {}) => PrintT(<<"BEH", ToJson([conf |-> Conf, steps |-> hist, dev |-> dev])>>)
(* only the behaviours in which a reserved sequence ends up neither on the document nor released (candidate F2 / C07) *)
LeakExport == (quiesced /\ Leaked # {}) => PrintT(<<"BEH", ToJson([conf |-> Conf, steps |-> hist])>>)
(* only the behaviours in which some writer's retry was committed (sequence reuse / unused listing) *)
RetryExport == (quiesced /\ \E w \in Writers : att[w] > 1 /\ res[w].cls = "ok") => PrintT(<<"BEH", ToJson([conf |-> Conf, steps |-> hist])>>)
=============================================================================
