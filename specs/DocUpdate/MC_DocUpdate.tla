--------------------------- MODULE MC_DocUpdate ---------------------------
EXTENDS DocUpdate, Json
W12  == {{1, 2}}
W123 == {{1, 2, 3}}
W2or3 == {{1, 2}, {1, 2, 3}}
Conf == [allow |-> allow, n |-> initLen, tomb |-> initTomb, nw |-> Cardinality(ws)]
(* every complete behaviour (all writers returned, feed read) *)
BehaviourExport == quiesced => PrintT(<<"BEH", ToJson([conf |-> Conf, steps |-> hist])>>)
(* one witness behaviour per distinct final state in which a named deviation fired (replayed on the real code) *)
DevExport == (quiesced /\ dev # {}) => PrintT(<<"BEH", ToJson([conf |-> Conf, steps |-> hist, dev |-> dev])>>)
=============================================================================
