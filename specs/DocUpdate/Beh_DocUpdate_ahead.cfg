CONSTANT Writers = {1, 2}
CONSTANT WriterSets <- W12
CONSTANT InitLens = {1}
CONSTANT InitTombs = {FALSE}
CONSTANT Modes = {FALSE, TRUE}
CONSTANT AheadSets <- Ahead1
CONSTANT Kinds = {"put"}
SPECIFICATION Spec
INVARIANT BehaviourExport
CHECK_DEADLOCK FALSE
