CONSTANT Writers = {1, 2, 3}
CONSTANT WriterSets <- WSets
CONSTANT InitLens = {0}
CONSTANT InitTombs = {FALSE}
CONSTANT Modes = {FALSE}
CONSTANT AheadSets <- WSetsNoAhead
CONSTANT Kinds = {"put", "push", "del"}
SPECIFICATION PSpec
CONSTRAINT PProgress
POSTCONDITION PAccept
CHECK_DEADLOCK FALSE
\* The property predicates NoLostAck, OwnSequence, OneChildPerParent, LosersLeaveNoTrace, RefusalsAreConflicts,
\* FeedAnnouncesFinal are evaluated on every recorded state by PProgress (collected, not stop-on-first) - see Trace_DocUpdate.tla
