CONSTANT Writers = {1, 2, 3}
CONSTANT WriterSets <- WSets
CONSTANT InitLens = {0}
CONSTANT InitTombs = {FALSE}
CONSTANT Modes = {FALSE}
CONSTANT Kinds = {"put", "push", "del"}
SPECIFICATION PSpec
CONSTRAINT Progress
POSTCONDITION Accept
CHECK_DEADLOCK FALSE
INVARIANT NoLostAck
INVARIANT OwnSequence
INVARIANT OneChildPerParent
INVARIANT LosersLeaveNoTrace
INVARIANT FeedAnnouncesFinal
