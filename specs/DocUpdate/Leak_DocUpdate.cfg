CONSTANT Writers = {1, 2, 3}
CONSTANT WriterSets <- W123
CONSTANT InitLens = {1}
CONSTANT InitTombs = {FALSE}
CONSTANT Modes = {TRUE}
CONSTANT Kinds = {"put", "push"}
SPECIFICATION Spec
VIEW view
INVARIANT LeakExport
CHECK_DEADLOCK FALSE
