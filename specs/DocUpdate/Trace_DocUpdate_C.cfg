CONSTANT Writers = {1, 2, 3}
CONSTANT WriterSets <- WSets
CONSTANT InitLens = {0}
CONSTANT InitTombs = {FALSE}
CONSTANT Modes = {FALSE}
CONSTANT AheadSets <- WSetsNoAhead
CONSTANT Kinds = {"put", "push", "del"}
SPECIFICATION CSpec
CONSTRAINT CProgress
POSTCONDITION CAccept
CHECK_DEADLOCK FALSE
\* Auxiliary invariants TypeOK, SeqSane, NotYetWritten, CurIsWinner, SequencesAccounted and "the model explains every
\* property failure by a named deviation" are evaluated on every conforming state by CProgress (collected)
