CONSTANT Writers = {1, 2, 3}
CONSTANT WriterSets <- WSets
CONSTANT InitLens = {0}
CONSTANT InitTombs = {FALSE}
CONSTANT Modes = {FALSE}
CONSTANT Kinds = {"put", "push", "del"}
SPECIFICATION CSpec
CONSTRAINT Progress
POSTCONDITION Accept
CHECK_DEADLOCK FALSE
INVARIANT NoLostAck
INVARIANT OwnSequence
INVARIANT OneChildPerParent
INVARIANT LosersLeaveNoTrace
INVARIANT FeedAnnouncesFinal
INVARIANT TypeOK
INVARIANT SeqSane
INVARIANT NotYetWritten
INVARIANT CurIsWinner
INVARIANT AccountedModuloDrop
