------------------------------ MODULE DocUpdate ------------------------------
(* The compare-and-swap document update loop: db/crud.go
     updateAndReturnDoc -> dataStore.WriteUpdateWithXattrs( callback = documentUpdateFunc( Put / PutExistingRev callback ) )
   written to be bound (harness/db/c05_docupdate_test.go).  One action per section of the real code that the
   harness can run atomically (only one writer is runnable at a time, parked at LeakyDataStore's UpdateCallback):
     Begin(w,k,p)       the client issues its request: kind k ("put" = Put with parent rev, "push" = PutExistingRevWithBody
                        with the history of its parent, "del" = DeleteDoc), parent argument p (0 = none)
     ReadAndCompute(w)  first attempt: read the bucket document, run the callback (parent / leaf check, IsIllegalConflict
                        -> 409), else add the revision, pick the winner, assignSequence; park before the CAS write
     CasWrite(w)        the CAS write.  Succeeds iff cas is unchanged.  Otherwise the loop re-reads and re-runs the
                        callback at once (same code as ReadAndCompute with the outer variables docSequence /
                        unusedSequences as the code carries them) and parks again  -- see NOTES.md (a failed CAS has
                        no effect on shared state, so merging it with the re-read loses no outcome)
     Ack(w)             the call returns to the client: after a commit the revision id, after a callback error the
                        release-on-error block of updateAndReturnDoc runs and the error is returned
     Restamp(w)         correctVersionAheadOfCAS: when the version a put / delete generated is ahead of the CAS its commit got
                        (gateway clock ahead of the bucket's) the request sleeps and then re-persists _sync/_vv/_mou to obtain a
                        fresh CAS - a second storage step of the same request, CAS-guarded on the CAS of its OWN commit and
                        given up on a mismatch; the harness parks the writer at LeakyDataStore.UpdateXattrsCallback
     Quiesce            every writer has returned; the changes feed is read
   Named deviations of the transcribed code from the ideal CAS loop (each adds <<name, writer>> to `dev` when it fires):
     ResurrectNoCas    a writer that READ a tombstone and writes a live document goes through
                       WriteResurrectionWithXattrs, which carries no CAS: if the document is still a tombstone the write
                       is applied even though the tombstone changed since the read
     DeleteRaceError   (Rosmar) a writer that read a live document and writes a tombstone while the document has
                       meanwhile become a tombstone gets a wrapped MissingError before the CAS check; the loop does not
                       retry it and the writer returns that error instead of re-running the callback (-> 409)
   `dev` also records the path <<"RefusedAfterRetry", w>> (a writer refused while it carries unused sequences of earlier
   attempts - where candidate F2 leaked before fix d57d9c7) so that the exhaustive run exports witnesses for it.
   Impl* conjuncts define implementation variables, Ghost* history variables; Trace_DocUpdate reuses them.
   Decides C05. *)
EXTENDS Integers, Sequences, FiniteSets, TLC

CONSTANTS Writers,      \* all writer ids (1..N)
          WriterSets,   \* sets of writers that take part in a behaviour (subsets of Writers)
          InitLens,     \* lengths of the document's initial revision chain (0 = document absent)
          InitTombs,    \* subset of BOOLEAN: the initial tip is a tombstone (only with a non-empty chain)
          Modes,        \* subset of BOOLEAN: values of AllowConflicts
          Kinds,        \* subset of {"put", "push", "del"}
          AheadSets     \* sets of writers whose HLC version is generated while the gateway's clock is ahead of the bucket's

(* revision identities: 0 = none, initial revisions 1..initLen, the revision a put / push of writer w creates is 10 + w
   (distinct bodies / pushed ids).  DeleteDoc's body is the constant {"_deleted":true}, so the id of a delete is a function
   of its parent only: two writers deleting the same parent create THE SAME revision, 100 + parent. *)
NoRes == [cls |-> "none", rev |-> 0, seq |-> 0]
NoLoc == [tree |-> <<>>, cur |-> 0, seq |-> 0, unused |-> {}, recent |-> {}, casRead |-> -1, readTomb |-> FALSE, readLive |-> FALSE, tomb |-> FALSE]

VARIABLES
  allow, initLen, initTomb, ws, aheadW,     \* configuration of this behaviour (constant along it)
  cas, tree, cur, seq, unused, recent,      \* the bucket document: cas (0 = absent), revision tree rev -> [p, d], winning rev,
                                            \*   sequence, unused_sequences, recent_sequences            (observable)
  last, released,                           \* sequence allocator: last sequence handed out; sequences published as unused (observable)
  pc, res, kind, parg,                      \* per writer: control state, returned value, inputs          (observable)
  match, ph, att, loc, cc, dso, uo, dev, top, lost, backIdx,  \* per writer locals: Put's captured matchRev, the pushed history
                                            \*   (parent and its ancestors as the client knew them), attempts, computed document,
                                            \*   updateAndReturnDoc's docSequence / unusedSequences;
                                            \*   names of the deviations that fired in this behaviour; the commit with the highest sequence so
                                            \*   far [seq, rev] - what the change cache keeps for the document; revisions overwritten by a
                                            \*   ResurrectNoCas write and the positions in docSeqs of those writes   (hidden)
  feed, quiesced,                           \* changes feed for the document read after quiescence         (observable)
  docSeqs, onDoc, initSeq,                  \* ghosts: document sequence after every change of cas; sequences ever carried by
                                            \*   the document (sequence or unused_sequences); sequences of the initial revisions
  hist                                      \* behaviour so far (exported for replay; hidden by VIEW)

conf   == <<allow, initLen, initTomb, ws, aheadW>>
bucket == <<cas, tree, cur, seq, unused, recent>>
alloc  == <<last, released>>
obsw   == <<pc, res, kind, parg>>
hidden == <<match, ph, att, loc, cc, dso, uo, dev, top, lost, backIdx>>
fd     == <<feed, quiesced>>
ghost  == <<docSeqs, onDoc, initSeq>>
impl   == <<bucket, alloc, obsw, hidden, fd>>
vars   == <<conf, impl, ghost, hist>>
view   == <<conf, impl, ghost>>

W(w) == IF kind[w] = "del" THEN 100 + parg[w] ELSE 10 + w       \* the revision writer w creates
Range(sq) == {sq[i] : i \in 1..Len(sq)}
Max(S) == CHOOSE x \in S : \A y \in S : y <= x

(* ---- revision tree (db/revtree.go) ---- *)
Children(t, r) == {c \in DOMAIN t : t[c].p = r}
IsLeaf(t, r)   == r \in DOMAIN t /\ Children(t, r) = {}
Leaves(t)      == {r \in DOMAIN t : Children(t, r) = {}}
RECURSIVE Gen(_, _)
Gen(t, r) == IF r = 0 \/ r \notin DOMAIN t THEN 0 ELSE 1 + Gen(t, t[r].p)
RECURSIVE AncSeq(_, _)
AncSeq(t, r) == IF r = 0 \/ r \notin DOMAIN t THEN <<>> ELSE <<r>> \o AncSeq(t, t[r].p)      \* r, its parent, ... up to the root
(* winningRevision: live leaves first, then the higher generation; the digest breaks remaining ties (left open here) *)
Winners(t) ==
  IF DOMAIN t = {} THEN {0}
  ELSE LET L == Leaves(t)
           live == {r \in L : ~t[r].d}
           C == IF live # {} THEN live ELSE L
           g == Max({Gen(t, r) : r \in C})
       IN {r \in C : Gen(t, r) = g}
AddRev(t, r, p, d) == [x \in DOMAIN t \cup {r} |-> IF x = r THEN [p |-> p, d |-> d] ELSE t[x]]
IsChain(t) == /\ \A r \in DOMAIN t : Cardinality(Children(t, r)) <= 1 /\ (t[r].p = 0 \/ t[r].p \in DOMAIN t)
              /\ Cardinality({r \in DOMAIN t : t[r].p = 0}) <= 1

-----------------------------------------------------------------------------
Init ==
  /\ allow \in Modes /\ initLen \in InitLens /\ initTomb \in InitTombs /\ ws \in WriterSets /\ aheadW \in AheadSets
  /\ (initLen = 0 => initTomb = FALSE)
  /\ cas = initLen
  /\ tree = [i \in 1..initLen |-> [p |-> i - 1, d |-> (initTomb /\ i = initLen)]]
  /\ cur = initLen /\ seq = initLen /\ unused = {} /\ recent = 1..initLen
  /\ last = initLen /\ released = {}
  /\ pc = [w \in Writers |-> "idle"] /\ res = [w \in Writers |-> NoRes]
  /\ kind = [w \in Writers |-> ""] /\ parg = [w \in Writers |-> 0]
  /\ match = [w \in Writers |-> 0] /\ ph = [w \in Writers |-> <<>>] /\ att = [w \in Writers |-> 0] /\ loc = [w \in Writers |-> NoLoc] /\ cc = [w \in Writers |-> -1]
  /\ dso = [w \in Writers |-> 0] /\ uo = [w \in Writers |-> <<>>] /\ dev = {} /\ top = [seq |-> initLen, rev |-> initLen] /\ lost = {} /\ backIdx = {}
  /\ feed = <<>> /\ quiesced = FALSE
  /\ docSeqs = <<>> /\ onDoc = 1..initLen /\ initSeq = [i \in 1..initLen |-> i]
  /\ hist = <<>>

(* ---- the callback: Put (crud.go 1333-1460) / PutExistingRevWithConflictResolution (1743-1838) ---- *)
Deleted(w) == kind[w] = "del"
(* IsIllegalConflict(doc, parent, deleted, noConflicts = FALSE, docHistory) *)
Illegal(p, del, h) ==
  /\ ~allow
  /\ ~(p = cur \/ cur = 0)
  /\ IF del THEN ~(IsLeaf(tree, p) /\ ~tree[p].d)
     ELSE IF tree[cur].d THEN (h \cap DOMAIN tree) # {} ELSE TRUE

(* PutExistingRev: the pushed history is <<new revision, parent, grandparent, ...>> as the client knew it when it
   started.  The parent used is the first listed revision the document contains; every listed revision before it is added
   (all but the new one as live revisions) - normally only the new one, more only if a listed ancestor was lost meanwhile. *)
PushHist(w) == <<W(w)>> \o ph[w]
PushIdx(w)  == LET H == PushHist(w) IN
               IF \E i \in 1..Len(H) : H[i] \in DOMAIN tree THEN CHOOSE i \in 1..Len(H) : H[i] \in DOMAIN tree /\ \A j \in 1..(i - 1) : H[j] \notin DOMAIN tree
               ELSE Len(H) + 1
PushPar(w)  == LET H == PushHist(w) IN IF PushIdx(w) <= Len(H) THEN H[PushIdx(w)] ELSE 0
RECURSIVE AddChain(_, _, _, _)
AddChain(t, H, i, par) ==        \* add H[i], H[i-1], ..., H[1] on top of par
  IF i < 1 THEN t ELSE AddChain(AddRev(t, H[i], par, FALSE), H, i - 1, H[i])

(* result of the callback on the current bucket document: err, parent used, new value of the captured matchRev *)
Callback(w) ==
  IF kind[w] = "push"
  THEN [err |-> (PushIdx(w) = 1 \/ Illegal(PushPar(w), FALSE, Range(PushHist(w)))), par |-> PushPar(w), m |-> match[w]]
  ELSE IF match[w] = 0
       THEN IF cur = 0 THEN [err |-> FALSE, par |-> 0, m |-> 0]
            ELSE IF ~tree[cur].d THEN [err |-> TRUE, par |-> 0, m |-> cur]          \* 409 Document exists; matchRev stays assigned
            ELSE [err |-> FALSE, par |-> cur, m |-> cur]                            \* new revision on top of the tombstone
       ELSE [err |-> (~IsLeaf(tree, match[w]) \/ Illegal(match[w], Deleted(w), {})), par |-> match[w], m |-> match[w]]

(* one run of documentUpdateFunc for writer w on the current bucket document.
   error:  the outer docSequence / unusedSequences keep their values (since the fix d57d9c7 the named result
           retUnusedSequences is initialised from the parameter; before it an error return handed nil back and the
           caller lost the sequences of earlier attempts - candidate F2, see NOTES.md).
   ok:     add the revision, winner, assignSequence (reuse docSequence iff still greater than the document's,
           else list it as unused and take the next one), recent_sequences; outer variables updated. *)
ImplCompute(w) ==
  LET cb == Callback(w) IN
  IF cb.err
  THEN /\ pc' = [pc EXCEPT ![w] = "failed"] /\ match' = [match EXCEPT ![w] = cb.m]
       /\ dev' = (IF uo[w] # <<>> THEN dev \cup {<<"RefusedAfterRetry", w>>} ELSE dev)   \* not a deviation: marks the path F2 was on
       /\ UNCHANGED <<loc, dso, uo, last>>
  ELSE LET nt    == IF kind[w] = "push" THEN AddChain(tree, PushHist(w), PushIdx(w) - 1, cb.par)
                    ELSE AddRev(tree, W(w), cb.par, Deleted(w))
           reuse == dso[w] > seq
           nuo   == IF reuse \/ dso[w] = 0 THEN uo[w] ELSE Append(uo[w], dso[w])
           s     == IF reuse THEN dso[w] ELSE last + 1
       IN /\ \E nc \in Winners(nt) :
               loc' = [loc EXCEPT ![w] = [tree |-> nt, cur |-> nc, seq |-> s, unused |-> Range(nuo),
                                          recent |-> recent \cup Range(nuo) \cup {s}, casRead |-> cas,
                                          readTomb |-> (cas > 0 /\ tree[cur].d), readLive |-> (cas > 0 /\ ~tree[cur].d),
                                          tomb |-> nt[nc].d]]
          /\ last' = (IF reuse THEN last ELSE last + 1)
          /\ dso' = [dso EXCEPT ![w] = s] /\ uo' = [uo EXCEPT ![w] = nuo]
          /\ pc' = [pc EXCEPT ![w] = "computed"] /\ match' = [match EXCEPT ![w] = cb.m]
          /\ UNCHANGED dev

ImplBegin(w, k, p) ==
  /\ kind' = [kind EXCEPT ![w] = k] /\ parg' = [parg EXCEPT ![w] = p] /\ match' = [match EXCEPT ![w] = p]
  /\ ph' = [ph EXCEPT ![w] = AncSeq(tree, p)]
  /\ pc' = [pc EXCEPT ![w] = "begun"]
  /\ UNCHANGED <<bucket, alloc, res, att, loc, cc, dso, uo, dev, top, lost, backIdx, fd>>

ImplReadAndCompute(w) ==
  /\ att' = [att EXCEPT ![w] = 1]
  /\ ImplCompute(w)
  /\ UNCHANGED <<bucket, released, res, kind, parg, ph, cc, top, lost, backIdx, fd>>

Commit(w) ==
  /\ cas' = cas + 1 /\ tree' = loc[w].tree /\ cur' = loc[w].cur /\ seq' = loc[w].seq
  /\ unused' = loc[w].unused /\ recent' = loc[w].recent
  /\ cc' = [cc EXCEPT ![w] = cas + 1]
  /\ \E nx \in (IF aheadW # {} /\ kind[w] # "push" THEN {"restamp", "committed"} ELSE {"committed"}) :
        pc' = [pc EXCEPT ![w] = nx]
        \* the hybrid clock is monotonic and a child's version is floored by its parent's: once some writer generated a version
        \* ahead of the bucket's clock, later writers may be ahead too - or the clocks have met while the writer was parked
  /\ top' = (IF loc[w].seq > top.seq THEN [seq |-> loc[w].seq, rev |-> loc[w].cur] ELSE top)
  /\ UNCHANGED <<alloc, res, kind, parg, match, ph, att, loc, dso, uo, fd>>
ImplCasWrite(w) ==
  LET nowTomb == cas > 0 /\ tree[cur].d IN
  IF cas = loc[w].casRead THEN Commit(w) /\ UNCHANGED <<dev, lost, backIdx>>
  ELSE IF loc[w].readTomb /\ ~loc[w].tomb /\ nowTomb
       THEN /\ Commit(w) /\ dev' = dev \cup {<<"ResurrectNoCas", w>>}             \* WriteResurrectionWithXattrs: no CAS
            /\ lost' = lost \cup (DOMAIN tree \ DOMAIN loc[w].tree) /\ backIdx' = backIdx \cup {Len(docSeqs) + 1}
  ELSE IF loc[w].readLive /\ loc[w].tomb /\ nowTomb
       THEN /\ pc' = [pc EXCEPT ![w] = "errored"] /\ dev' = dev \cup {<<"DeleteRaceError", w>>}   \* Rosmar: MissingError, not retried;
            /\ released' = released \cup ({dso[w]} \ {0}) \cup Range(uo[w])              \*   the call returns through the release-on-error block
            /\ UNCHANGED <<bucket, last, res, kind, parg, match, ph, att, loc, cc, dso, uo, top, lost, backIdx, fd>>
  ELSE /\ att' = [att EXCEPT ![w] = att[w] + 1]
       /\ ImplCompute(w)
       /\ UNCHANGED <<bucket, released, res, kind, parg, ph, cc, top, lost, backIdx, fd>>

(* the post-commit re-stamp: metadata-only, guarded on the CAS of the writer's own commit; on a mismatch the writer gives up
   ("a concurrent writer beat us to it; it's that writer's responsibility") - nothing but the CAS may change *)
ImplRestamp(w) ==
  /\ cas' = (IF cas = cc[w] THEN cas + 1 ELSE cas)
  /\ pc' = [pc EXCEPT ![w] = "committed"]
  /\ UNCHANGED <<tree, cur, seq, unused, recent, alloc, res, kind, parg, hidden, fd>>

ImplAck(w) ==
  /\ IF pc[w] = "committed"
     THEN /\ res' = [res EXCEPT ![w] = [cls |-> "ok", rev |-> W(w), seq |-> loc[w].seq]]
          /\ UNCHANGED released
     ELSE IF pc[w] = "failed"
     THEN /\ res' = [res EXCEPT ![w] = [cls |-> "conflict", rev |-> 0, seq |-> 0]]
          /\ released' = released \cup ({dso[w]} \ {0}) \cup Range(uo[w])      \* release-on-error block
     ELSE /\ res' = [res EXCEPT ![w] = [cls |-> "error", rev |-> 0, seq |-> 0]]
          /\ UNCHANGED released
  /\ pc' = [pc EXCEPT ![w] = "done"]
  /\ UNCHANGED <<bucket, last, kind, parg, hidden, fd>>

ImplQuiesce ==
  /\ feed' \in (IF cas = 0 THEN {<<>>} ELSE {<<top>>, <<[seq |-> seq, rev |-> cur]>>})
       \* the cache keeps, per document, the change with the highest sequence it was shown (the same entry unless a write
       \* stepped the sequence backwards; then it depends on whether the mutation feed still delivered the overwritten one)
  /\ quiesced' = TRUE
  /\ UNCHANGED <<bucket, alloc, obsw, hidden>>

(* ghosts advance from the (primed) bucket document only - the same for every action *)
GhostStep ==
  /\ docSeqs' = (IF cas' # cas /\ (tree' # tree \/ seq' # seq) THEN Append(docSeqs, seq') ELSE docSeqs)   \* a bare CAS re-stamp is not a write
  /\ onDoc'   = (IF cas' # cas THEN onDoc \cup {seq'} \cup unused' ELSE onDoc)
  /\ UNCHANGED <<initSeq, conf>>
GhostBegin(w) == GhostStep
GhostReadAndCompute(w) == GhostStep
GhostCasWrite(w) == GhostStep
GhostRestamp(w) == GhostStep
GhostAck(w) == GhostStep
GhostQuiesce == GhostStep

Step(a, w) == hist' = Append(hist, [a |-> a, w |-> w, k |-> kind'[w], p |-> parg'[w], e |-> pc'[w]])

BeginOK(w, k, p) ==
  /\ w \in ws /\ pc[w] = "idle" /\ \A v \in ws : v < w => pc[v] # "idle"       \* writers are interchangeable: begin in id order
  /\ k \in Kinds /\ p \in DOMAIN tree \cup {0}
  /\ (k = "del" => p # 0)
  /\ (aheadW # {} => k # "push")      \* the re-stamp is modelled for versions the gateway generates itself (put / delete)
  /\ (k = "push" /\ p = 0 => allow)       \* a parentless push onto a tombstone is a sanctioned second root (resurrection) - outside "single chain"
Begin(w, k, p)    == BeginOK(w, k, p) /\ ImplBegin(w, k, p) /\ GhostBegin(w) /\ Step("Begin", w)
ReadAndCompute(w) == pc[w] = "begun" /\ ImplReadAndCompute(w) /\ GhostReadAndCompute(w) /\ Step("RC", w)
CasWrite(w)       == pc[w] = "computed" /\ ImplCasWrite(w) /\ GhostCasWrite(w) /\ Step("Cas", w)
Restamp(w)        == pc[w] = "restamp" /\ ImplRestamp(w) /\ GhostRestamp(w) /\ Step("Restamp", w)
Ack(w)            == pc[w] \in {"committed", "failed", "errored"} /\ ImplAck(w) /\ GhostAck(w) /\ Step("Ack", w)
Quiesce           == /\ ~quiesced /\ \A w \in ws : pc[w] = "done"
                     /\ ImplQuiesce /\ GhostQuiesce
                     /\ hist' = Append(hist, [a |-> "Quiesce", w |-> 0, k |-> "", p |-> 0, e |-> ""])

Next ==
  \/ \E w \in Writers : \/ \E k \in Kinds, p \in DOMAIN tree \cup {0} : Begin(w, k, p)
                        \/ ReadAndCompute(w) \/ CasWrite(w) \/ Restamp(w) \/ Ack(w)
  \/ Quiesce
Spec == Init /\ [][Next]_vars

-----------------------------------------------------------------------------
(* C05 - evaluated on the model by MC_DocUpdate and on recorded real state by Trace_DocUpdate pass P *)
Acked == {w \in Writers : res[w].cls = "ok"}
OwnersAcked(r) == {w \in Acked : res[w].rev = r}        \* acknowledged writers that created revision r (several only for equal deletes)
ParentOf(w) == IF res[w].rev \in DOMAIN tree THEN tree[res[w].rev].p ELSE parg[w]

NoLostAck ==              \* every acknowledged write's revision is in the document's history afterwards
  \A w \in Acked : res[w].rev \in DOMAIN tree
OwnSequence ==            \* own sequence, strictly greater than that of the write it superseded
  /\ \A w \in Acked : res[w].seq > 0 /\ \A i \in DOMAIN initSeq : initSeq[i] # res[w].seq
  /\ \A w1, w2 \in Acked : w1 # w2 => res[w1].seq # res[w2].seq
  /\ \A w \in Acked : res[w].rev \in DOMAIN tree =>
        LET p == tree[res[w].rev].p IN
          /\ (p \in DOMAIN initSeq => res[w].seq > initSeq[p])
          /\ (OwnersAcked(p) # {} => \E o \in OwnersAcked(p) : res[w].seq > res[o].seq)
  /\ \A i \in 1..Len(docSeqs) : /\ docSeqs[i] > (IF i = 1 THEN (IF initLen = 0 THEN 0 ELSE initSeq[initLen]) ELSE docSeqs[i - 1])
OneChildPerParent ==      \* conflicts disallowed: one acknowledged write per parent, single chain, length = initial + acknowledged
  ~allow =>
    /\ \A w1, w2 \in Acked : w1 # w2 => ParentOf(w1) # ParentOf(w2)
    /\ IsChain(tree)
    /\ Cardinality(DOMAIN tree) >= initLen + Cardinality(Acked)
    /\ quiesced => Cardinality(DOMAIN tree) = initLen + Cardinality(Acked)
LosersLeaveNoTrace ==     \* a refused writer (whatever the error) left no revision
  \A r \in DOMAIN tree : r \in 1..initLen \/ (\E w \in Writers : r = W(w) /\ res[w].cls \in {"none", "ok"})
RefusalsAreConflicts ==   \* "every other writer receives a conflict error"
  \A w \in Writers : res[w].cls \in {"none", "ok", "conflict"}
FeedAnnouncesFinal ==     \* after quiescence the feed's last entry for the document is its final revision
  quiesced => IF cas = 0 THEN feed = <<>>
              ELSE feed # <<>> /\ feed[Len(feed)].rev = cur /\ feed[Len(feed)].seq = seq

(* auxiliary / design invariants (model and pass C) *)
TypeOK ==
  /\ cas \in Nat /\ seq \in Nat /\ last \in Nat /\ cur \in DOMAIN tree \cup {0}
  /\ \A w \in Writers : pc[w] \in {"idle", "begun", "computed", "failed", "errored", "restamp", "committed", "done"} /\ att[w] <= Cardinality(Writers)
SeqSane ==
  /\ seq <= last /\ (backIdx = {} => \A u \in unused : u < seq)
  /\ (cas > 0 => seq \in recent /\ unused \subseteq recent)
  /\ released \cap onDoc = {} /\ released \subseteq 1..last
NotYetWritten == \A w \in Writers : pc[w] \in {"begun", "computed", "failed", "errored"} =>
                   (W(w) \in DOMAIN tree => \E v \in Writers \ {w} : pc[v] \in {"restamp", "committed", "done"} /\ W(v) = W(w))
CurIsWinner == cur \in Winners(tree)
(* C07's accounting, shared: at quiescence every reserved sequence is carried by the document (now or earlier), listed as
   unused on it, or released *)
Leaked == (1..last) \ (onDoc \cup released)
SequencesAccounted == quiesced => Leaked = {}

(* What the exhaustive run establishes for the transcription, and what pass C checks on real runs: the property with
   exactly the exceptions the named deviations explain - an acknowledged revision may be missing only if a
   ResurrectNoCas write overwrote it (`lost`), the document sequence may step backwards only at such a write
   (`backIdx`), a refusal may be a non-conflict error only for a writer that took the DeleteRaceError path, and the feed
   announces the commit with the highest sequence (`top`), which is the final revision unless a write stepped backwards.
   With no deviation X_P is P.  The unrelaxed predicates are what pass P evaluates on the recorded real state. *)
Devs(n) == {d[2] : d \in {e \in dev : e[1] = n}}
AckedLive == {w \in Acked : res[w].rev \notin lost}
X_NoLostAck == \A w \in Acked : res[w].rev \in DOMAIN tree \cup lost
X_OwnSequence ==
  /\ \A w \in Acked : res[w].seq > 0 /\ \A i \in DOMAIN initSeq : initSeq[i] # res[w].seq
  /\ \A w1, w2 \in Acked : w1 # w2 => res[w1].seq # res[w2].seq
  /\ \A w \in Acked : res[w].rev \in DOMAIN tree =>
        LET p == tree[res[w].rev].p IN
          /\ (p \in DOMAIN initSeq => res[w].seq > initSeq[p])
          /\ (OwnersAcked(p) # {} => \E o \in OwnersAcked(p) : res[w].seq > res[o].seq)
  /\ \A i \in (1..Len(docSeqs)) \ backIdx :
        docSeqs[i] > (IF i = 1 THEN (IF initLen = 0 THEN 0 ELSE initSeq[initLen]) ELSE docSeqs[i - 1])
X_OneChildPerParent ==
  ~allow =>
    /\ \A w1, w2 \in AckedLive : w1 # w2 => ParentOf(w1) # ParentOf(w2)
    /\ IsChain(tree)
    /\ Cardinality(DOMAIN tree) >= initLen + Cardinality(AckedLive)
    /\ quiesced => Cardinality(DOMAIN tree) = initLen + Cardinality(AckedLive)
X_RefusalsAreConflicts == \A w \in Writers : res[w].cls \in {"none", "ok", "conflict"} \/ (res[w].cls = "error" /\ w \in Devs("DeleteRaceError"))
X_FeedAnnouncesFinal == quiesced => IF cas = 0 THEN feed = <<>> ELSE feed # <<>> /\ feed[Len(feed)] \in {top, [seq |-> seq, rev |-> cur]}
X_FeedIsFinalUnlessBackwards == (backIdx = {}) => FeedAnnouncesFinal
DevSane == /\ (Devs("ResurrectNoCas") = {} => lost = {} /\ backIdx = {})
           /\ (lost = {} /\ backIdx = {} /\ Devs("DeleteRaceError") = {}) =>
                 (NoLostAck /\ OwnSequence /\ OneChildPerParent /\ RefusalsAreConflicts /\ FeedAnnouncesFinal)
=============================================================================
