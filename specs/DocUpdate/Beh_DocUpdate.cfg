CONSTANT Writers = {1, 2}
CONSTANT WriterSets <- W12
CONSTANT InitLens = {1}
CONSTANT InitTombs = {FALSE}
CONSTANT Modes = {FALSE, TRUE}
CONSTANT Kinds = {"put", "push", "del"}
SPECIFICATION Spec
INVARIANT BehaviourExport
CHECK_DEADLOCK FALSE
