CONSTANT Writers = {1, 2, 3}
CONSTANT WriterSets <- W2or3
CONSTANT InitLens = {1}
CONSTANT InitTombs = {FALSE}
CONSTANT Modes = {FALSE, TRUE}
CONSTANT AheadSets <- Ahead1
CONSTANT Kinds = {"put"}
SPECIFICATION Spec
VIEW view
INVARIANT X_NoLostAck
INVARIANT X_OwnSequence
INVARIANT X_OneChildPerParent
INVARIANT LosersLeaveNoTrace
INVARIANT X_RefusalsAreConflicts
INVARIANT X_FeedAnnouncesFinal
INVARIANT X_FeedIsFinalUnlessBackwards
INVARIANT DevSane
INVARIANT TypeOK
INVARIANT SeqSane
INVARIANT NotYetWritten
INVARIANT CurIsWinner
INVARIANT SequencesAccounted
INVARIANT DevExport
CHECK_DEADLOCK FALSE
