CONSTANT Writers = {1, 2, 3}
CONSTANT WriterSets <- W2or3
CONSTANT InitLens = {0, 1, 2}
CONSTANT InitTombs = {FALSE, TRUE}
CONSTANT Modes = {FALSE, TRUE}
CONSTANT Kinds = {"put", "push", "del"}
SPECIFICATION Spec
VIEW view
INVARIANT M_NoLostAck
INVARIANT M_OwnSequence
INVARIANT M_OneChildPerParent
INVARIANT M_LosersLeaveNoTrace
INVARIANT M_FeedAnnouncesFinal
INVARIANT TypeOK
INVARIANT M_SeqSane
INVARIANT NotYetWritten
INVARIANT CurIsWinner
INVARIANT M_Accounted
INVARIANT M_RefusalsAreConflicts
INVARIANT DevExport
CHECK_DEADLOCK FALSE
