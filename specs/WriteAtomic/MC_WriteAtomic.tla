--------------------------- MODULE MC_WriteAtomic ---------------------------
(* Exhaustive exploration of the protocol of WriteAtomic.tla over the REAL operation lists: the programs are read from the
   ndjson file named by the environment variable VERIF_PROGRAMS (written by checks/C11.py from the recording runs of the
   harness: one line {name, path, primary, clean, faultable, ops} per request type).  Every program x every fault placement
   (MaxFaults = 1: single faults, 2: pairs) x every fault kind that applies to the operation.

   The design invariants (TypeOK, AnswersOnce, ResidueIsPreCommit) must hold.  The two property predicates are NOT listed
   as invariants: the transcription contains what the code does, and where that breaks the property the terminal state is
   exported as a candidate  <<"CAND", json [type, faults, inv]>>  which checks/C11.py compares with the verdicts of pass P on
   the real run of the same request type and fault placement (DESIGN 2.3: a model counterexample is only a candidate). *)
EXTENDS WriteAtomic, Json, IOUtils

Progs == ndJsonDeserialize(IOEnv.VERIF_PROGRAMS)

Init == \E i \in 1..Len(Progs) : InitFor(Progs[i])
Spec == Init /\ [][Next]_vars

Cand(inv) == PrintT(<<"CAND", ToJson([type |-> p.name, faults |-> flt, inv |-> inv, reply |-> reply])>>)
ExportCandidates ==
  (mode = "end") =>
     /\ (AllOrNothing \/ Cand("AllOrNothing"))
     /\ (NoSwallow \/ Cand("NoSwallow"))
(* evidence: every terminal state, to count the fault placements explored *)
ExportTerminals == (mode = "end") => PrintT(<<"TERM", ToJson([type |-> p.name, faults |-> flt, reply |-> reply])>>)
=============================================================================
