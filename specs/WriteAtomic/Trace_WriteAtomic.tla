--------------------------- MODULE Trace_WriteAtomic ---------------------------
(* Validation of the runs recorded by harness/db/c11_writeatomic_test.go on the REAL code.  One run =
     {a:"Begin", run, type, path, primary, clean, faults, prog, pre, effpre, rec, nofault, envw}   the program + the real state before
     {a:"Op", i, m, c, w, cas, r}                                                      every storage operation the request issued
     {a:"End", reply, post, effpost, took, given, rb}                                  the reply + the real state after
   pre/post: one digest per key class of the WHOLE bucket, read through the undecorated handles; effpre/effpost: the run's
   principals' effective access; took: movement of the sequence counter; given: which of those sequences unused-sequence
   documents give back; rb: read-backs through the real read API as <<expected, actual>>.

   Pass P (PSpec): the property predicates AON / NSW of WriteAtomic.tla instantiated on the REAL before/after state.  The
   model's variables are not consulted.
   Pass C (CSpec): additionally every logged operation must be the step the transcribed protocol takes next (possibly after
   skipping, on a retry, operations whose effect is already there), the reply must be the protocol's, and no key class may
   change without a recorded applied write (the decorator saw everything). *)
EXTENDS WriteAtomic, TraceLib

VARIABLES l, run, conf,                   \* position; id of the current run; pass C: the run has conformed so far
          pre, post, effpre, effpost,      \* real state before / after
          rreply, rtook, rgiven, rb,       \* real reply, counter movement, sequences given back, read-backs
          rta, rcommitted, rrel, rdirty    \* from the logged operations: timeout-but-applied seen, commit applied, give-back write failed, classes written
real  == <<run, conf, pre, post, effpre, effpost, rreply, rtook, rgiven, rb, rta, rcommitted, rrel, rdirty>>
tvars == <<vars, real, l>>

Ev(a) == l <= TraceLen /\ Trace[l].a = a /\ l' = l + 1
T == Trace[l]
SeqToSet(s) == {s[i] : i \in 1..Len(s)}
ProgOf(t) == [name |-> t.type, path |-> t.path, primary |-> t.primary, clean |-> t.clean, faultable |-> ~t.nofault, ops |-> t.prog]
Dummy == [name |-> "-", path |-> "doc", primary |-> "doc", clean |-> "ok", faultable |-> FALSE, ops |-> <<>>]

TInit == /\ InitFor(Dummy) /\ l = 1 /\ run = 0 /\ conf = TRUE
         /\ pre = [c \in Classes |-> 0] /\ post = [c \in Classes |-> 0] /\ effpre = <<>> /\ effpost = <<>>
         /\ rreply = "none" /\ rtook = 0 /\ rgiven = {} /\ rb = <<>> /\ rta = FALSE /\ rcommitted = FALSE /\ rrel = FALSE /\ rdirty = {}

(* ---- the real-state part of every event (both passes) *)
RBegin == /\ run' = T.run
          /\ pre' = [c \in Classes |-> T.pre[c]] /\ post' = [c \in Classes |-> T.pre[c]]
          /\ effpre' = T.effpre /\ effpost' = T.effpre
          /\ rreply' = "none" /\ rtook' = 0 /\ rgiven' = {} /\ rb' = <<>> /\ rta' = FALSE /\ rcommitted' = FALSE /\ rrel' = FALSE
          /\ rdirty' = SeqToSet(T.envw)     \* classes written by the scenario's acknowledged concurrent writer (race scenarios), not by the request
Applied(r) == r \in {"ok", "TA"}
IsCommitOp(t) == /\ CommitIdx # 0 /\ t.w /\ t.c = p.primary /\ t.m = M(Ops[CommitIdx])
ROp == /\ rta' = (rta \/ T.r = "TA")
       /\ rcommitted' = (rcommitted \/ (IsCommitOp(T) /\ Applied(T.r)))
       /\ rrel' = (rrel \/ (T.w /\ T.c = "unusedseq" /\ ~Applied(T.r)))
       /\ rdirty' = IF T.w /\ Applied(T.r) THEN rdirty \cup {T.c} ELSE rdirty
       /\ UNCHANGED <<run, pre, post, effpre, effpost, rreply, rtook, rgiven, rb>>
REnd == /\ rreply' = T.reply /\ post' = [c \in Classes |-> T.post[c]] /\ effpost' = T.effpost
        /\ rtook' = T.took /\ rgiven' = SeqToSet(T.given) /\ rb' = T.rb
        /\ UNCHANGED <<run, pre, effpre, rta, rcommitted, rrel, rdirty>>

(* ---- pass P *)
Frozen == UNCHANGED <<impl, flt, hist, conf>>
PBegin == Ev("Begin") /\ RBegin /\ p' = ProgOf(T) /\ Frozen
POp    == Ev("Op")    /\ ROp  /\ UNCHANGED p /\ Frozen
PEnd   == Ev("End")   /\ REnd /\ UNCHANGED p /\ Frozen
PNext == PBegin \/ POp \/ PEnd
PSpec == TInit /\ [][PNext]_tvars

(* ---- pass C: the protocol's step for the logged operation *)
FaultsOf(t) == t.faults                      \* <<op number, kind>> pairs armed by the harness
CBegin == /\ Ev("Begin") /\ RBegin /\ conf' = TRUE
          /\ p' = ProgOf(T) /\ flt' = <<>> /\ hist' = <<>>
          /\ pc' = 1 /\ n' = 0 /\ dirty' = [c \in Classes |-> 0] /\ took' = 0 /\ given' = 0 /\ done' = {}
          /\ committed' = FALSE /\ ta' = FALSE /\ retried' = FALSE /\ relFault' = FALSE /\ prevSame' = TRUE /\ miss' = FALSE /\ mode' = "run" /\ pend' = "none" /\ reply' = "none"
Matches(j, t) == M(Ops[j]) = t.m /\ C(Ops[j]) = t.c
SkipTo(j) == \A q \in pc..(j - 1) : Skippable(q)
Injected(r) == r \in Kinds
CanRun == mode = "run" /\ \E j \in pc..L : SkipTo(j) /\ Matches(j, T) /\ (Injected(T.r) => T.r \in KindsFor(j)) /\ (Guarded(j) => prevSame)
CanRel == mode = "release" /\ T.w /\ T.c = "unusedseq"
CanExtra == mode = "run" /\ miss /\ (CommitIdx = 0 \/ pc <= CommitIdx) /\ ~T.w /\ T.c \in {"revbackup", "revbody"} /\ T.r # "TA" /\ T.r # "Cas"
COpExtra == CanExtra /\ ImplExtraRead(~Injected(T.r), T.r)
COpRun == /\ mode = "run"
          /\ \E j \in pc..L :
               /\ SkipTo(j) /\ Matches(j, T) /\ (Injected(T.r) => T.r \in KindsFor(j))
               /\ IF Injected(T.r) THEN ImplFail(j, T.r) ELSE ImplOk(j, T.r = R0(Ops[j]))
COpRel == /\ mode = "release" /\ T.w /\ T.c = "unusedseq"
          /\ IF Injected(T.r) THEN ImplRelease(FALSE, T.r) ELSE ImplRelease(TRUE, "-")
(* a run that leaves the protocol is marked (conf = FALSE) and consumed to its end, so that the following runs are still validated *)
COp == /\ Ev("Op") /\ ROp /\ UNCHANGED <<p, flt, hist>>
       /\ IF conf /\ (CanRun \/ CanRel \/ CanExtra)
          THEN (COpRun \/ COpRel \/ COpExtra) /\ conf' = TRUE
          ELSE conf' = FALSE /\ UNCHANGED impl
(* a storage failure may be reported with an HTTP status of its own (a one-time session that cannot be read - error or
   timeout - is a 401): for conformance of the reply only "ok" / "not ok" is compared; what the error path does about the
   reserved sequence is compared operation by operation *)
Norm(r) == IF r \in {"rejected", "timeout"} THEN "failed" ELSE r
ReplyConforms == \/ mode = "end" /\ Norm(reply) = Norm(T.reply)
                 \/ mode = "run" /\ (\A q \in pc..L : Skippable(q)) /\ Norm(p.clean) = Norm(T.reply)     \* ran to the end: ImplReply
CEnd == /\ Ev("End") /\ REnd
        /\ conf' = (conf /\ ReplyConforms)
        /\ UNCHANGED <<p, flt, hist, impl>>
CNext == CBegin \/ COp \/ CEnd
CSpec == TInit /\ [][CNext]_tvars

Progress == Mark(l)
Accept == PrintHWM

-----------------------------------------------------------------------------
(* C11 on the real state (pass P) *)
Unchanged == (\A c \in Visible : post[c] = pre[c]) /\ effpost = effpre
SeqBack   == (\A s \in 1..rtook : s \in rgiven) \/ rrel
ReadBack  == \A i \in 1..Len(rb) : rb[i][1] = rb[i][2]
AllOrNothingR == AON(rreply, rta, Unchanged, SeqBack)
NoSwallowR    == NSW(rreply, rcommitted \/ CommitIdx = 0, ReadBack)

(* auxiliary (pass C): the decorator saw every write - no Visible class changed without a recorded applied write *)
NoUnrecordedWrite == (rreply # "none") => \A c \in Visible : post[c] # pre[c] => c \in rdirty

(* One TLC run judges every recorded request: the verdict of each run is printed and the run continues (a halting invariant
   would hide all later runs).  checks/C11.py reads the JUDGE / CONF tuples; the predicates are evaluated here, by TLC. *)
JudgeP == (rreply # "none") =>
            PrintT(<<"JUDGE", ToJson([run |-> run, aon |-> AllOrNothingR, nsw |-> NoSwallowR,
                                      unchanged |-> Unchanged, seqback |-> SeqBack, committed |-> rcommitted, readback |-> ReadBack])>>)
JudgeC == (rreply # "none") =>
            PrintT(<<"CONF", ToJson([run |-> run, conf |-> conf, seen |-> NoUnrecordedWrite])>>)
=============================================================================
