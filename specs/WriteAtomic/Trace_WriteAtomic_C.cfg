CONSTANT MaxFaults = 2
SPECIFICATION CSpec
CONSTRAINT Progress
POSTCONDITION Accept
CHECK_DEADLOCK FALSE
INVARIANT JudgeC
INVARIANT TypeOK
