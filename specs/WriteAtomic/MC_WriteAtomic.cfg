CONSTANT MaxFaults = 1
SPECIFICATION Spec
VIEW view
INVARIANT TypeOK
INVARIANT AnswersOnce
INVARIANT ResidueIsPreCommit
INVARIANT ExportCandidates
CHECK_DEADLOCK FALSE
