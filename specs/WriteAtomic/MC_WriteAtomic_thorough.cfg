CONSTANT MaxFaults = 2
SPECIFICATION Spec
VIEW view
INVARIANT TypeOK
INVARIANT AnswersOnce
INVARIANT ResidueIsPreCommit
INVARIANT ExportCandidates
CHECK_DEADLOCK FALSE
