CONSTANT MaxFaults = 2
SPECIFICATION PSpec
CONSTRAINT Progress
POSTCONDITION Accept
CHECK_DEADLOCK FALSE
INVARIANT JudgeP
