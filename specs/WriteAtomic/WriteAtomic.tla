--------------------------- MODULE WriteAtomic ---------------------------
(* C11 - writes are all-or-nothing, and success is only reported when durable (DESIGN 4.11).

   A request is the sequence of storage operations the real code issues for it (the PROGRAM, recorded from a
   fault-free run through the counting decorator of harness/db/c11_writeatomic_test.go), split by the position of
   the single COMMIT operation into pre-commit / commit / post-commit.  Every operation is a fault point:
       Err  not applied, generic error        Cas  not applied, CAS mismatch (only operations carrying a CAS)
       TN   not applied, timeout              TA   APPLIED, but a timeout is reported
   What the request does when operation i fails is transcribed from the code, per code path (`path` of the program):
       doc                 db/crud.go updateAndReturnDoc / documentUpdateFunc
       UpdatePrincipal     db/users.go UpdatePrincipal -> auth.Save   (sequence released on non-CAS, non-timeout Save errors since /repo e753301)
       casUpdatePrincipal  db/users.go DeleteRole(purge=false) -> auth.casUpdatePrincipal -> Save   (returns saveErr since /repo 627ed99)
       purgeRole           db/users.go DeleteRole(purge=true)
       deleteUser          auth.DeleteUser (email index document first, then the user document)
       session             auth/session.go CreateSession / DeleteSession / one-time session
       resyncPrincipal     db/database.go regeneratePrincipalSequences -> auth.UpdateSequenceNumberForResync (one principal)
   The transcription is what the code DOES, including the places where that is not what the property wants; the
   property predicates below are then evaluated (a) by TLC over every program x every single fault (thorough: every
   pair) - the terminal states that break a predicate are exported as CANDIDATES - and (b) on the recorded REAL
   before/after state of the same fault run (Trace_WriteAtomic, pass P).  Only (b) yields a verdict.

   An operation is the tuple <<method, key class, isWrite, hasCas, result in the fault-free run>>. *)
EXTENDS Integers, Sequences, FiniteSets, TLC

CONSTANTS MaxFaults       \* faults injected per request (1 quick, 2 thorough)

M(o)   == o[1]
C(o)   == o[2]
W(o)   == o[3]
HasCas(o) == o[4]
R0(o)  == o[5]             \* result of the operation in the fault-free run ("ok", or e.g. "e:missing" for a Touch of an absent key)

Classes == {"doc", "att", "revbody", "revbackup", "user", "role", "useremail", "session", "seq", "unusedseq", "meta"}
(* what a rejected / failed request must leave exactly as it was.  "seq"/"unusedseq": the counter may move and unused-
   sequence notices are the permitted residue; "meta": other gateway bookkeeping, not part of the statement *)
Visible == {"doc", "att", "revbody", "revbackup", "user", "role", "useremail", "session"}
Kinds == {"Err", "Cas", "TN", "TA"}
Replies == {"ok", "rejected", "failed", "timeout"}

VARIABLES p,          \* the program: [name, path, primary, clean, faultable, ops]
          pc,         \* next position in p.ops; Len+1 = ran to the end
          n,          \* storage operations issued so far
          flt,        \* faults injected so far: sequence of <<operation number, kind>>
          dirty,      \* class -> number of applied effective writes of this request (the abstract bucket, relative to `pre`)
          took,       \* sequences reserved by this request
          given,      \* ... of which given back through unused-sequence notices
          done,       \* program positions whose operation has succeeded at least once
          committed,  \* the commit operation was applied
          ta,         \* some operation was applied although a timeout was reported
          retried,    \* a CAS mismatch sent the request back to its read
          relFault,   \* a give-back write itself failed
          prevSame,   \* the last operation issued had the outcome it has in the fault-free run
          miss,       \* a revision body could not be loaded: the code looks for it elsewhere (extra reads, see ImplExtraRead)
          mode,       \* "run" | "release" (error path: give the sequences back, then reply) | "end"
          pend,       \* reply to give once the release is through
          reply,      \* "none" until the request has answered
          hist
impl  == <<pc, n, dirty, took, given, done, committed, ta, retried, relFault, prevSame, miss, mode, pend, reply>>
vars  == <<p, flt, impl, hist>>
view  == <<p, flt, impl>>

Ops == p.ops
L == Len(Ops)
IsWrite(i) == W(Ops[i])
WritesOf(cl) == {i \in 1..L : W(Ops[i]) /\ C(Ops[i]) = cl}
Max(S) == CHOOSE x \in S : \A y \in S : y <= x
(* the commit: the last (effective) write to the primary key class of a program whose fault-free run succeeds.  0 = the
   program commits nothing: rejections, and a resync of a principal's sequence that gives up on a real CAS mismatch *)
CommitWrites == {i \in WritesOf(p.primary) : R0(Ops[i]) = "ok"}
CommitIdx == IF p.clean = "ok" /\ CommitWrites # {} THEN Max(CommitWrites) ELSE 0
Phase(i) == IF CommitIdx = 0 \/ i < CommitIdx THEN "pre" ELSE IF i = CommitIdx THEN "commit" ELSE "post"
Effective(i) == W(Ops[i]) /\ R0(Ops[i]) = "ok"
ReadOf(i) == {j \in 1..(i - 1) : ~W(Ops[j]) /\ C(Ops[j]) = C(Ops[i]) /\ M(Ops[j]) \in {"WUX.read", "Update.read"}}
RetryTarget(i) == IF ReadOf(i) = {} THEN 1 ELSE Max(ReadOf(i))

(* ---- transcription: what the code does when a NON-commit operation fails *)
Policy(i) ==
  LET o == Ops[i] IN
  IF Phase(i) = "pre" THEN
       IF \/ ~W(o) /\ C(o) = "revbody"                 \* getNonWinningRevisionBody: a failed load yields "no body"
          \/ W(o) /\ C(o) = "revbackup"                  \* backupAncestorRevs: `_ =`   (persistModifiedRevisionBodies returns addErr since /repo b4eb819: abort)
          \/ W(o) /\ C(o) = "useremail"                 \* DeleteUser: email index delete is logged only
       THEN "ignore" ELSE "abort"
  ELSE IF W(o) /\ C(o) = "useremail" /\ p.path = "UpdatePrincipal" THEN "report"   \* Save: the email index Set error is returned after the user was written
  ELSE "ignore"                                          \* cleanup deletes, invalidations, reload of the active user: logged only
(* operations whose effect a successful reply promises to later readers *)
Needed(i) ==
  LET o == Ops[i] IN
  /\ W(o) /\ R0(o) = "ok" /\ M(o) # "Delete"
  /\ \/ Phase(i) = "pre" /\ C(o) \in {"att", "revbody"}
     \/ Phase(i) = "post" /\ C(o) \in {"user", "role", "useremail"}
NeededSet == {i \in 1..L : Needed(i)}

FailReply(k) == IF k \in {"TN", "TA"} THEN "timeout" ELSE "failed"
KindsFor(i) == IF ~W(Ops[i]) THEN {"Err", "TN"} ELSE IF HasCas(Ops[i]) THEN Kinds ELSE Kinds \ {"Cas"}

-----------------------------------------------------------------------------
InitFor(prog) ==
  /\ p = prog /\ pc = 1 /\ n = 0 /\ flt = <<>> /\ dirty = [c \in Classes |-> 0] /\ took = 0 /\ given = 0
  /\ done = {} /\ committed = FALSE /\ ta = FALSE /\ retried = FALSE /\ relFault = FALSE /\ prevSame = TRUE /\ miss = FALSE
  /\ mode = "run" /\ pend = "none" /\ reply = "none" /\ hist = <<>>

Apply(i) == /\ dirty' = IF Effective(i) THEN [dirty EXCEPT ![C(Ops[i])] = @ + 1] ELSE dirty
            /\ took' = IF M(Ops[i]) = "Incr" /\ C(Ops[i]) = "seq" THEN took + 1 ELSE took
            /\ given' = IF Effective(i) /\ C(Ops[i]) = "unusedseq" THEN took ELSE given   \* a give-back that is part of the program itself (late rejection, lost CAS race)
NoApply == UNCHANGED <<dirty, took, given>>

(* leave the request through its error path.  As of /repo b9f2215 every path that reserved a sequence gives it back unless the
   error is a timeout (`if !base.IsTimeoutError(err)`: the write may have happened): updateAndReturnDoc (also for a sequence
   assigned by the failing attempt itself - the deferred append in documentUpdateFunc), UpdatePrincipal, DeleteRole *)
Leave(r) ==
  IF took' > given' /\ r # "timeout"
  THEN /\ mode' = "release" /\ pend' = r /\ reply' = "none"
  ELSE /\ mode' = "end" /\ pend' = "none" /\ reply' = r

(* refreshOldRevisionJSON: the backup is Touch'ed and only written (SetRaw) when the Touch says "not found" - so the SetRaw
   of the program is issued iff the Touch before it had the outcome of the fault-free run *)
Guarded(i) == /\ i > 1 /\ M(Ops[i]) = "SetRaw" /\ C(Ops[i]) = "revbackup"
              /\ M(Ops[i - 1]) = "Touch" /\ C(Ops[i - 1]) = "revbackup" /\ R0(Ops[i - 1]) # "ok"
(* outcome of a successful operation compared with the fault-free run: the Touch of a backup this request has just written
   (first pass of a retried write) finds it *)
ModelSame(i) == ~(M(Ops[i]) = "Touch" /\ C(Ops[i]) = "revbackup" /\ dirty["revbackup"] > 0)

(* operation i of the program is issued and succeeds (Next issues i = pc; the trace specification may first skip) *)
ImplOk(i, same) ==
  /\ mode = "run" /\ i \in 1..L /\ (Guarded(i) => prevSame)
  /\ prevSame' = same
  /\ n' = n + 1 /\ Apply(i) /\ done' = done \cup {i}
  /\ committed' = (committed \/ i = CommitIdx)
  /\ pc' = i + 1 /\ UNCHANGED <<ta, retried, relFault, miss, mode, pend, reply>>

(* positions of the program the code does not issue: the SetRaw of a backup whose Touch did not say "not found"; backups and
   the clean-up of an external body when the body could not be loaded; and, on a retry after a CAS mismatch, operations that
   already succeeded (the sequence is reused).  In a first, undisturbed pass every operation of the program is issued. *)
Skippable(i) == \/ Guarded(i) /\ ~prevSame
                \/ miss /\ Phase(i) = "pre" /\ C(Ops[i]) = "revbackup"      \* no body, nothing to back up
                \/ miss /\ Phase(i) = "post" /\ M(Ops[i]) = "Delete" /\ C(Ops[i]) = "revbody"   \* ... and no external body known to clean up
                \/ retried /\ Phase(i) = "pre" /\ i \in done /\ ~Guarded(i)
ImplSkip(i) ==
  /\ mode = "run" /\ i \in 1..L /\ Skippable(i)
  /\ pc' = i + 1 /\ UNCHANGED <<n, dirty, took, given, done, committed, ta, retried, relFault, prevSame, miss, mode, pend, reply>>

(* operation i is issued and fails with kind k *)
ImplFail(i, k) ==
  /\ mode = "run" /\ i \in 1..L /\ k \in KindsFor(i) /\ (Guarded(i) => prevSame)
  /\ prevSame' = FALSE
  /\ miss' = (miss \/ (~W(Ops[i]) /\ C(Ops[i]) = "revbody" /\ Phase(i) = "pre"))
  /\ n' = n + 1
  /\ IF k = "TA" THEN Apply(i) /\ ta' = TRUE ELSE NoApply /\ ta' = ta
  /\ done' = IF k = "TA" THEN done \cup {i} ELSE done
  /\ UNCHANGED relFault
  /\ IF i # CommitIdx
     THEN /\ committed' = committed
          /\ IF k = "Cas" /\ M(Ops[i]) = "Update.write"
             THEN /\ pc' = RetryTarget(i) /\ retried' = TRUE /\ UNCHANGED <<mode, pend, reply>>    \* the store's own read-modify-write loop
             ELSE CASE Policy(i) = "ignore" -> /\ pc' \in (IF W(Ops[i]) THEN {i + 1} ELSE {i, i + 1})   \* a body that could not be loaded is loaded again by its next user - or not needed again
                                               /\ UNCHANGED <<retried, mode, pend, reply>>
                    [] Policy(i) = "report" -> /\ pc' = i /\ retried' = retried /\ Leave(FailReply(k))    \* ... and the sequence the stored user carries is released
                    [] OTHER                -> /\ pc' = i /\ retried' = retried /\ Leave(FailReply(k))
     ELSE \* ---- the commit operation
          /\ committed' = (committed \/ k = "TA")
          /\ CASE k = "Cas" /\ p.path \in {"doc", "casUpdatePrincipal"} ->        \* reload and try again, same sequence
                    /\ pc' = RetryTarget(i) /\ retried' = TRUE /\ UNCHANGED <<mode, pend, reply>>
               [] k = "Cas" /\ p.path = "UpdatePrincipal" ->                        \* release, then everything again with a new sequence
                    /\ pc' = 1 /\ retried' = FALSE /\ mode' = "release" /\ pend' = "retry" /\ reply' = "none"
               [] k = "Cas" /\ p.path = "resyncPrincipal" ->                        \* "assuming sequence updated by another node": release, report success
                    /\ pc' = L + 1 /\ retried' = retried /\ mode' = "release" /\ pend' = "ok" /\ reply' = "none"
               [] k \in {"TN", "TA"} ->                                            \* a timeout: the write may have happened, nothing is released
                    /\ pc' = i /\ retried' = retried /\ mode' = "end" /\ pend' = "none" /\ reply' = "timeout"
               [] OTHER -> /\ pc' = i /\ retried' = retried /\ Leave("failed")    \* Err (or a CAS mismatch surfacing from a path without retry)

(* after a revision body could not be loaded the code looks for a copy among the old-revision backups (getAvailable1xRev):
   reads that the fault-free program does not contain.  Accepted by the trace specification before the commit; not explored
   by Next (they change nothing unless they fail, and then the request is left like after any failed read). *)
ImplExtraRead(ok, k) ==
  /\ mode = "run" /\ miss /\ (CommitIdx = 0 \/ pc <= CommitIdx)
  /\ n' = n + 1 /\ NoApply /\ prevSame' = FALSE
  /\ UNCHANGED <<done, committed, ta, relFault, miss, retried, pc>>
  /\ IF ok THEN UNCHANGED <<mode, pend, reply>> ELSE Leave(FailReply(k))

(* the error path writes an unused-sequence notice for what was reserved (one write; it can fail too, which is only logged) *)
ImplRelease(ok, k) ==
  /\ mode = "release"
  /\ n' = n + 1
  /\ given' = IF ok \/ k = "TA" THEN took ELSE given
  /\ relFault' = (relFault \/ ~ok)
  /\ dirty' = IF ok \/ k = "TA" THEN [dirty EXCEPT !["unusedseq"] = @ + 1] ELSE dirty
  /\ IF pend = "retry"
     THEN /\ mode' = "run" /\ pend' = "none" /\ reply' = "none" /\ done' = {}
     ELSE /\ mode' = "end" /\ pend' = "none" /\ reply' = pend /\ UNCHANGED done
  /\ UNCHANGED <<pc, took, committed, ta, retried, prevSame, miss>>

(* the program ran to its end: the answer of the fault-free run *)
ImplReply ==
  /\ mode = "run" /\ pc = L + 1
  /\ mode' = "end" /\ reply' = p.clean
  /\ UNCHANGED <<pc, n, dirty, took, given, done, committed, ta, retried, relFault, prevSame, miss, pend>>

Step(a, x) == hist' = Append(hist, [a |-> a, x |-> x])
FaultsLeft == Len(flt) < MaxFaults /\ p.faultable        \* rejection kinds and the race scenario are run without faults

OpOk      == \E i \in {pc} \cap (1..L) : ImplOk(i, ModelSame(i)) /\ UNCHANGED <<p, flt>> /\ Step("ok", i)
OpSkip    == \E i \in {pc} \cap (1..L) : ImplSkip(i) /\ UNCHANGED <<p, flt>> /\ Step("skip", i)
OpFail    == /\ FaultsLeft
             /\ \E i \in {pc} \cap (1..L), k \in Kinds : ImplFail(i, k) /\ flt' = Append(flt, <<n + 1, k>>) /\ UNCHANGED p /\ Step(k, i)
Release   == \/ ImplRelease(TRUE, "-") /\ UNCHANGED <<p, flt>> /\ Step("release", 0)
             \/ /\ FaultsLeft
                /\ \E k \in {"Err", "TN", "TA"} : ImplRelease(FALSE, k) /\ flt' = Append(flt, <<n + 1, k>>) /\ UNCHANGED p /\ Step("release" \o k, 0)
Reply     == ImplReply /\ UNCHANGED <<p, flt>> /\ Step("reply", 0)

Next == OpOk \/ OpSkip \/ OpFail \/ Release \/ Reply

-----------------------------------------------------------------------------
(* C11.  The same two predicates are instantiated on the model's abstract state (here) and on the recorded real
   before/after state (Trace_WriteAtomic). *)
AON(r, timedOutApplied, unchanged, seqBack) == (r \in {"rejected", "failed"} /\ ~timedOutApplied) => (unchanged /\ seqBack)
NSW(r, wasCommitted, readBack)              == (r = "ok") => (wasCommitted /\ readBack)

AllOrNothing == AON(reply, ta, \A c \in Visible : dirty[c] = 0, given >= took \/ relFault)
NoSwallow    == NSW(reply, committed \/ CommitIdx = 0, NeededSet \subseteq done)

(* auxiliary / design invariants *)
TypeOK == /\ pc \in 1..(L + 1) /\ n \in Nat /\ took \in Nat /\ given \in Nat /\ given <= took
          /\ reply \in Replies \cup {"none"} /\ mode \in {"run", "release", "end"}
          /\ dirty \in [Classes -> Nat] /\ done \subseteq 1..L
AnswersOnce == (mode = "end") <=> (reply # "none")
(* nothing that a failed request must not leave behind is written before the commit, other than what the program itself
   shows there - i.e. the only way for the model to break AllOrNothing's state clause is the program's own shape *)
ResidueIsPreCommit ==
  (reply \in {"rejected", "failed"} /\ ~committed /\ ~ta) =>
      \A c \in Visible : dirty[c] > 0 => \E i \in WritesOf(c) : Phase(i) = "pre"
=============================================================================
