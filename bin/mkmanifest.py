#!/usr/bin/env python3
"""regenerates MANIFEST.json from checks/registry.json (one source of truth for claimed checks)."""
import json, os
V = os.path.dirname(os.path.dirname(os.path.abspath(__file__)))
reg = json.load(open(os.path.join(V, "checks", "registry.json")))
base = json.load(open("/root/.vp/BASELINE.json")) if os.path.exists("/root/.vp/BASELINE.json") else {"cmd": reg["baseline_cmd"]}
props = [json.loads(l)["id"] for l in open(os.path.join(V, "properties.jsonl"))]
checks = []
for pid in props:
    c = reg["checks"].get(pid)
    if not c:
        continue
    checks.append({
        "property_id": pid,
        "quick_cmd": "bin/vcheck %s --tier quick" % pid,
        "thorough_cmd": "bin/vcheck %s --tier thorough" % pid,
        "evidence_file": "/verif/evidence/%s.json" % pid,
        "replay_cmd_template": "bin/vcheck %s --replay {path}" % pid,
        "engine": "tlc+go-overlay",
        "level_claimed": {"category": "model_checking", "text": c["text"], "design_ref": c["design_ref"]},
        "level_note": c["note"],
        "technique": c["technique"],
    })
na = [{"property_id": p, "reason": reg["not_applicable"][p]} for p in props if p in reg.get("not_applicable", {})]
for p in props:
    if p not in reg["checks"] and p not in reg.get("not_applicable", {}):
        na.append({"property_id": p, "reason": "check not built yet (planned in DESIGN.md section 4); not claimed until its binding runs green on the unchanged tree"})
m = {
    "version": 1,
    "setup_cmd": "python3 bin/setup.py",
    "hooks": {
        "guard": "verif",
        "enable": "go test -tags verif -overlay <generated> ./<pkg> run in /repo with GOFLAGS=-mod=mod GOPROXY=off (GOTOOLCHAIN unset); harness files live in /verif/harness and are overlaid, never committed to /repo",
        "baseline_off_cmd": base["cmd"],
        "source_commits": reg.get("hook_commits", []),
        "add_only": True,
    },
    "engines": [
        {"name": "tlc+go-overlay", "path": "/verif/bin/vcheck", "serves_properties": [c["property_id"] for c in checks],
         "kind_free_text": "explicit TLA+ specifications (specs/), TLC exhaustive model checking, TLC-generated behaviours replayed on the real Go code through overlaid in-package harnesses, TLC trace validation of the recorded real state (pass P property / pass C conformance)"}
    ],
    "checks": checks,
    "not_applicable": na,
    "notes": "see DESIGN.md (section 10 = as built); known_findings.json lists recorded genuine defects (status finding) and repaired ones (status fixed, fix: commits in /repo); seeded/ holds 57 confirmed property-breaking changes used to test the checks; hooks: every call site in repository code is an added `if base.VerifOn {...}` line, the facility itself lives in verif-tagged files (base/verif_on.go was extended by a later hook commit); bin/run_all.sh <tier> <seed> sweeps all checks; checks/Pipeline.py is a growth module run as a stage of C07 and C08 (thorough) and stand-alone as `bin/vcheck Pipeline`",
}
json.dump(m, open(os.path.join(V, "MANIFEST.json"), "w"), indent=1)
print("MANIFEST.json: %d checks, %d not_applicable" % (len(checks), len(na)))
