#!/usr/bin/env python3
"""prints the markdown table of confirmed seeded changes (seeded/<id>/meta.json) for DESIGN.md section 10.7"""
import json, os, re
V = os.path.dirname(os.path.dirname(os.path.abspath(__file__)))
rows = []
for d in sorted(os.listdir(os.path.join(V, "seeded"))):
    mp = os.path.join(V, "seeded", d, "meta.json")
    if not os.path.exists(mp):
        continue
    m = json.load(open(mp))
    c = m.get("confirmed_by_coordinator", {})
    title = (m.get("title") or m.get("what_it_breaks") or "")[:150].replace("|", "/").replace("\n", " ")
    det = c.get("detected")
    if det is None:
        det = c.get("result") == "VIOLATION"
    lines = " ".join(c.get("vcheck_verdict_lines", []))[:0]
    caught = c.get("caught_by") or ""
    if not caught:
        v = [l for l in c.get("vcheck_verdict_lines", []) if "violation:" in l]
        caught = re.sub(r"\s+", " ", v[0].replace("violation:", "").strip())[:160] if v else ""
    note = m.get("coordinator_note", "")
    rows.append("| %s | %s | %s | %s |" % (d, title, "yes" if det else "NO", (caught + (" — " + note if note else "")).replace("|", "/")))
print("| seed | change | detected by `bin/vcheck <id>` | caught by / note |\n|---|---|---|---|")
print("\n".join(rows))
