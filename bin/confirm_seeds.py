#!/usr/bin/env python3
"""confirm_seeds.py <Cxx> <worktree-with-SEEDS> [--skip-suite]
For every SEEDS/<n>: apply patch.diff in the scratch worktree, check that it builds, that the demo fails with it and
passes without it, that the affected package's existing tests still pass, and run `bin/vcheck Cxx` against the patched
worktree (VERIF_REPO). Confirmed seeds are copied to /verif/seeded/<Cxx>-<tag><n>/ with the coordinator's record."""
import json, os, re, shutil, subprocess, sys, time

V = os.path.dirname(os.path.dirname(os.path.abspath(__file__)))
pid, wt = sys.argv[1], sys.argv[2]
skip_suite = "--skip-suite" in sys.argv
tag = next((a.split("=")[1] for a in sys.argv if a.startswith("--tag=")), "")
env = dict(os.environ, GOFLAGS="-mod=mod", GOPROXY="off")
env.pop("GOTOOLCHAIN", None)
FLAKY = ("TestResyncManagerDCPResumeStoppedProcess", "TestDbConfigEnvVarsToggle", "TestConcurrentSetConfig", "TestInitOIDCClient", "TestLogFilePathWritable")


def sh(cmd, cwd=wt, timeout=3600, e=env):
    p = subprocess.run(cmd, shell=True, cwd=cwd, env=e, stdout=subprocess.PIPE, stderr=subprocess.STDOUT, text=True, timeout=timeout)
    return p.returncode, p.stdout


def demo_info(path):
    src = open(path).read()
    m = re.search(r"^package (\w+)", src, re.M)
    pkgname = m.group(1)
    tests = re.findall(r"^func (Test\w+)\(", src, re.M)
    # package dir: from header comment if it names one, else by package name
    d = {"db": "db", "auth": "auth", "rest": "rest", "base": "base", "channels": "channels"}.get(pkgname.replace("_test", ""), None)
    hm = re.search(r"(?:goes? (?:in|into)|directory|dir)[^\n]*?\b((?:db|auth|rest|base|channels)(?:/\w+)*)/?\b", src[:1500])
    if hm:
        d = hm.group(1)
    return d, tests


results = []
only = next((a.split("=")[1].split(",") for a in sys.argv if a.startswith("--only=")), None)
seeds = sorted(x for x in os.listdir(os.path.join(wt, "SEEDS")) if os.path.isdir(os.path.join(wt, "SEEDS", x)) and x.isdigit() and (only is None or x in only))
for n in seeds:
    sd = os.path.join(wt, "SEEDS", n)
    rec = {"seed": n}
    sh("git checkout -q -- . && git clean -fdq -e SEEDS")
    rc, out = sh("git apply -3 SEEDS/%s/patch.diff && git reset -q" % n)
    rec["applies"] = rc == 0
    if rc != 0:
        rec["error"] = out[-500:]
        results.append(rec)
        continue
    pkgdir, tests = demo_info(os.path.join(sd, "demo_test.go"))
    rec["pkg"], rec["tests"] = pkgdir, tests
    demo_dst = os.path.join(wt, pkgdir, "zz_seed_demo_test.go")
    runre = "^(%s)$" % "|".join(tests)
    # existing tests of the package with the patch (without the demo)
    if not skip_suite:
        rc, out = sh("go test -vet=off -count=1 -timeout 40m ./%s 2>&1 | grep -E '^(--- FAIL|FAIL|ok|panic)'" % pkgdir)
        fails = [l for l in out.splitlines() if l.startswith("--- FAIL") and not any(f in l for f in FLAKY)]
        if fails:  # re-run failing tests alone once (load-induced flakes)
            names = "|".join(re.findall(r"--- FAIL: (\w+)", "\n".join(fails)))
            rc2, out2 = sh("go test -vet=off -count=1 ./%s -run '^(%s)$' 2>&1 | grep -E '^(--- FAIL|FAIL|ok|panic)'" % (pkgdir, names))
            fails = [l for l in out2.splitlines() if l.startswith("--- FAIL")]
        rec["existing_tests_pass"] = not fails
        rec["existing_tests_fail_lines"] = fails
    shutil.copy(os.path.join(sd, "demo_test.go"), demo_dst)
    rc, out = sh("go test -vet=off -count=1 ./%s -run '%s' 2>&1 | tail -5" % (pkgdir, runre))
    rec["demo_fails_with_patch"] = (rc != 0 or "FAIL" in out) and "build failed" not in out
    os.remove(demo_dst)
    # the check
    t0 = time.time()
    e2 = dict(env, VERIF_REPO=wt)
    rc, out = sh("bin/vcheck %s --tier quick" % pid, cwd=V, e=e2, timeout=7200)
    rec["vcheck_rc"] = rc
    rec["vcheck_lines"] = [l for l in out.splitlines() if re.match(r"^(VIOLATION|  violation|PASS|FAIL|INCONCLUSIVE|NONCONFORMANCE)", l)][:12]
    rec["vcheck_wall_s"] = round(time.time() - t0)
    # without the patch
    sh("git checkout -q -- .")
    shutil.copy(os.path.join(sd, "demo_test.go"), demo_dst)
    rc, out = sh("go test -vet=off -count=1 ./%s -run '%s' 2>&1 | tail -5" % (pkgdir, runre))
    rec["demo_passes_without_patch"] = rc == 0 and "ok" in out
    os.remove(demo_dst)
    # replays written for the mutated tree are not evidence about /repo
    for v in rec["vcheck_lines"]:
        m = re.search(r"replay=(\S+)", v)
        if m and os.path.exists(m.group(1)):
            os.remove(m.group(1))
    results.append(rec)
    print(json.dumps(rec), flush=True)
    ok = rec["applies"] and rec["demo_fails_with_patch"] and rec["demo_passes_without_patch"] and rec.get("existing_tests_pass", True)
    if ok:
        dst = os.path.join(V, "seeded", "%s-%s%s" % (pid, tag, n))
        os.makedirs(dst, exist_ok=True)
        for f in os.listdir(sd):
            if os.path.isfile(os.path.join(sd, f)) and os.path.getsize(os.path.join(sd, f)) < 200000:
                shutil.copy(os.path.join(sd, f), dst)
        mp = os.path.join(dst, "meta.json")
        meta = json.load(open(mp)) if os.path.exists(mp) else {}
        meta["confirmed_by_coordinator"] = {
            "ran": "bin/confirm_seeds.py %s (patch applied with git apply -3 in a scratch worktree at /repo HEAD; package tests with the patch; demo with and without the patch; bin/vcheck %s --tier quick with VERIF_REPO=<worktree>)" % (pid, pid),
            "existing_tests_pass": rec.get("existing_tests_pass"), "demo_fails_with_patch": True, "demo_passes_without_patch": True,
            "vcheck_exit": rec["vcheck_rc"], "vcheck_verdict_lines": rec["vcheck_lines"],
            "detected": rec["vcheck_rc"] == 1}
        json.dump(meta, open(mp, "w"), indent=1)
sh("git checkout -q -- . && git clean -fdq -e SEEDS")
json.dump(results, open(os.path.join(wt, "SEEDS", "confirm_%s_%d.json" % (pid, int(time.time()))), "w"), indent=1)
print("SUMMARY", pid, [(r["seed"], r.get("vcheck_rc")) for r in results])
