#!/bin/bash
# run every registered check of a tier with a given seed; prints one line per check (exit code, wall)
cd "$(dirname "$0")/.."
tier=${1:-quick}; seed=${2:-1}
for id in $(python3 -c "import json;print(' '.join(c['property_id'] for c in json.load(open('MANIFEST.json'))['checks']))"); do
  t0=$(date +%s)
  out=$(bin/vcheck $id --tier $tier --seed $seed 2>&1); rc=$?
  echo "$id tier=$tier seed=$seed rc=$rc wall=$(( $(date +%s) - t0 ))s $(echo "$out" | grep -c '^KNOWN-FINDING') known $(echo "$out" | grep -E '^(VIOLATION|INCONCLUSIVE|NONCONFORMANCE)' | head -2 | tr '\n' ' ')"
done
