#!/usr/bin/env python3
"""setup: nothing to compile for the framework itself (python stdlib + TLC jar + go test -overlay).
Verifies the tools are present and warms the Go build cache of the packages the harnesses are overlaid into."""
import os, shutil, subprocess, sys
ok = True
for tool in ("java", "go"):
    if not shutil.which(tool):
        print("missing tool:", tool); ok = False
for p in ("/opt/veriftools/tla/tla2tools.jar", "/opt/veriftools/tla/CommunityModules-deps.jar"):
    if not os.path.exists(p):
        print("missing:", p); ok = False
os.chmod(os.path.join(os.path.dirname(os.path.abspath(__file__)), "vcheck"), 0o755)
e = dict(os.environ); e["GOFLAGS"] = "-mod=mod"; e["GOPROXY"] = "off"; e.pop("GOTOOLCHAIN", None); e.pop("GOSUMDB", None)
repo = os.environ.get("VERIF_REPO", "/repo")
r = subprocess.run(["go", "test", "-tags", "verif", "-vet=off", "-count=1", "-run", "^$", "./db", "./auth", "./rest", "./base", "./channels"], cwd=repo, env=e)
sys.exit(0 if ok and r.returncode == 0 else 1)
