"""C18 - resync equals evaluating the new sync function from scratch (DESIGN 4.18)."""
import json
import os
import random
from vlib.core import *

SPEC = os.path.join(VERIF, "specs", "Resync")
HARNESS = ["harness/db/c18_resync_test.go"]
USERS = ("u1", "u2")
DEVIATIONS = ("skipTomb", "keepRoles", "regenNoInval", "loserLazy")


def run(ctx):
    q = ctx.quick()
    # 1. the design (no deviation): the four statements of C18 over all interleavings of writes, function changes, the
    #    per-document steps of up to two resync runs (either option), racing writes, requests - bounded model
    model_check(ctx, SPEC, "MC_Resync", "MC_Resync.cfg" if q else "MC_Resync_thorough.cfg", timeout=3000)
    ctx.cov["exhaustive"] = True
    # 2. each NAMED deviation of the code (specs/Resync/NOTES.md), alone, breaks a statement in the model: these are
    #    candidates only - what counts is what pass P finds on the recorded real state below
    #    (thorough tier; a deviation that no longer breaks anything in the model is not modelled: exit 2)
    if not q:
        ctx.cov["model_deviation_counterexamples"] = deviations(ctx)

    # 3. scenarios: TLC enumerates the one-document scenario space exhaustively (a seeded sample / all of it is run) and
    #    samples the four-document space; the driver expands each into the canonical action sequence
    rnd = random.Random(ctx.seed)
    tabs, small = scenarios(ctx, "Enum_Resync.cfg" if q else "Enum_Resync_thorough.cfg", None)
    rnd.shuffle(small)
    small = small[:110 if q else 1000]
    tabs2, big = scenarios(ctx, "Sim_Resync.cfg", 130 if q else 700)
    tabs.update(tabs2)
    scns = [dict(s, id=i) for i, s in enumerate(small + big)]
    jobs = [{"id": s["id"], "admch": s["adm"]["ch"], "admro": s["adm"]["ro"], "steps": expand(s, tabs)} for s in scns]
    mix = {}
    for s in scns:
        k = "%s->%s" % (s["f1"], s["f2"])
        mix[k] = mix.get(k, 0) + 1
    ctx.cov["function_pairs_run"] = len(mix)
    ctx.cov["regen_runs"] = sum(1 for s in scns if s["regen"])
    ctx.cov["warm_runs"] = sum(1 for s in scns if s["warm"])
    log("  scenarios: %d one-document + %d four-document; %d ordered function pairs, %d with regenerate_sequences, %d with warm principal caches"
        % (len(small), len(big), len(mix), ctx.cov["regen_runs"], ctx.cov["warm_runs"]))
    chunk = 700
    for k in range(0, len(jobs), chunk):
        replay_and_validate(ctx, scns[k:k + chunk], jobs[k:k + chunk], "c%d" % (k // chunk))

    ctx.cov["rule"] = ("scenario = corpus (per document: absent / live / tombstoned with or without a body class / two conflicting live leaves, "
                       "either one current) x ordered pair of table functions (F1 base, F2 channel move, F3 grant and role change, F4 rejection "
                       "after role()/access() calls, F5 move of one class) x regenerate_sequences of the first and second run x principal caches "
                       "warm or cold x admin configuration; quick: seeded sample of the exhaustively enumerated one-document space + seeded "
                       "TLC sample of the four-document space; non-trivial = the first resync rewrote at least one document")
    ctx.assumptions += [
        "ground truth = the table the JS sync function was generated from + the body classes written + the REAL current revision; the "
        "gateway's stored maps are what is judged (PerDocFresh) or cross-checked (pass C)",
        "resync runs through the real ResyncManagerDCP on an online DatabaseContext (as the repository's package-db tests do); the "
        "_offline/_online cycle the REST API demands around it is a close and rebuild of the DatabaseContext on the same bucket",
        "FromScratch is differential: a second real database (own bucket) whose function is the new one before the first write, same accepted "
        "writes; documents with a write the new function rejects do not exist there and are left out of the comparison; removal notices "
        "of the changes feed are not 'seeing a document'; leaves demoted from current revision by a conflicting sibling are left out of the "
        "per-revision comparison (the write path drops their channels - not resync's doing, see NOTES.md)",
        "no request runs while a write or the resync is in flight (C03's recorded finding is not re-reported); writes racing with the resync "
        "are explored in the model only (see NOTES.md)",
        "Rosmar + views stand for the bucket, the DCP feed and the access queries",
    ]


# ------------------------------------------------------------------------------------------------------------
def deviations(ctx):
    res = {}
    for dv in DEVIATIONS:
        r = tlc(ctx, SPEC, "MC_Resync", "Dev_%s.cfg" % dv, timeout=1200, tag="dev-" + dv, allow_violation=True)
        if not r.inv_violated:
            raise Inconclusive("the model with deviation %s alone satisfies every invariant - the deviation is not modelled\n%s" % (dv, r.out[-600:]))
        res[dv] = r.inv_violated
        log("  TLC %-28s %-22s violates %s (candidate)  %.1fs" % ("MC_Resync", "Dev_%s.cfg" % dv, r.inv_violated, r.wall))
    return res


def scenarios(ctx, cfg, num):
    """-> (tables by function name, list of scenario dicts); num=None: exhaustive enumeration, else a random sample of num"""
    if num is None:
        r = tlc(ctx, SPEC, "Enum_Resync", cfg, timeout=1800, workers=1, tag="enum")
    else:
        r = tlc(ctx, SPEC, "Enum_Resync", cfg, mode="simulate", simulate=1, depth=num, timeout=1800, tag="sample")
    if r.inv_violated:
        raise Inconclusive("scenario enumeration %s violated %s" % (cfg, r.inv_violated))
    tabs, seen = {}, set()
    for t, txt in r.printed:
        if t == "FNS":
            tabs = json.loads(json.loads(txt))
        elif t == "SCN":
            seen.add(json.loads(txt))
    res = [json.loads(x) for x in sorted(seen)]
    if not res or not tabs:
        raise Inconclusive("no scenarios exported by %s\n%s" % (cfg, r.out[-800:]))
    log("  TLC %-28s %-22s %d distinct scenarios  %.1fs" % ("Enum_Resync", cfg, len(res), r.wall))
    return tabs, res


def expand(s, tabs):
    """the canonical action sequence of a scenario (each recorded line is validated against the spec's actions)"""
    t1, t2 = tabs[s["f1"]], tabs[s["f2"]]
    reqs = [{"a": "Request", "u": u} for u in USERS]
    steps = [{"a": "SetFn", "f": s["f1"], "tab": t1}]
    for d in sorted(s["docs"]):
        sh = s["docs"][d]
        if sh["k"] == "none":
            continue
        steps.append({"a": "Write", "d": d, "b": 1, "cls": sh["c1"], "del": False})
        if t1[sh["c1"]]["rej"]:
            continue     # rejected by the first function: the document does not come to exist (the rejected call is still made)
        if sh["k"] == "tomb":
            steps.append({"a": "Write", "d": d, "b": 1, "cls": sh["c2"], "del": True})
        elif sh["k"] == "conf":
            steps.append({"a": "Conflict", "d": d, "cls": sh["c2"], "hi": sh["hi"]})
    if s["warm"]:
        steps += reqs
    steps += [{"a": "SetFn", "f": s["f2"], "tab": t2}, {"a": "Resync", "regen": s["regen"]}] + reqs
    steps += [{"a": "Scratch"}, {"a": "Resync", "regen": s["regen2"]}] + reqs
    return steps


# ------------------------------------------------------------------------------------------------------------
def split_rows(rows):
    res, cur = {}, None
    for r in rows:
        if r["a"] == "Reset":
            cur = r["beh"]
            res[cur] = []
        res[cur].append(r)
    return res


def slim(rs):
    keep = ("a", "f", "d", "b", "cls", "del", "hi", "ok", "u", "chans", "roles", "vis", "vrev", "regen", "changed", "okd", "users", "s",
            "win", "ch", "acc", "rol")
    out = []
    for r in rs:
        o = {k: v for k, v in r.items() if k in keep}
        if r["a"] not in ("Resync", "Scratch"):
            for k in ("win", "ch", "acc", "rol"):
                o.pop(k, None)
        out.append(o)
    return out


# keys of the violation classes that correspond to the named deviations of specs/Resync (Dev): what is stale, not which scenario
K_TOMB = "PerDocFresh:skipTomb:tombstoned-document-not-resynced"
K_ROLES = "PerDocFresh:keepRoles:role-grants-of-a-rejected-evaluation-kept"
K_LOSER = "PerDocFresh:loserLazy:non-winning-leaf-channels-not-refreshed"
K_REGEN = "PrincipalsFresh:regenNoInval:principals-not-invalidated-with-regenerate_sequences"


def root_key(v, regen_before=False):
    """key of a violation that is not the consequence of another one"""
    if v["inv"] == "PerDocFresh":
        w = v["wit"]
        # v["rw"]: the last resync rewrote the document.  The three deviation classes are narrow on purpose: anything
        # else that is stale gets its own key
        if w["role"] == "winner" and w["st"] == "dead" and not v["rw"]:
            return K_TOMB
        if w["role"] == "winner" and w["st"] == "live" and w["rej"] and v["fld"] == "rol" and w["asRaw"]:
            return K_ROLES
        if w["role"] == "loser" and v["fld"] == "ch" and not v["rw"]:
            return K_LOSER
        return "PerDocFresh:%s:%s:%s:%s:%s" % (v["fld"], w["role"], "tombstone" if w["st"] == "dead" else "live",
                                               "rejected-by-new-fn" if w["rej"] else "accepted-by-new-fn",
                                               "rewritten" if v["rw"] else "not-rewritten")
    if v["inv"] == "PrincipalsFresh":
        return K_REGEN if regen_before else "PrincipalsFresh:principals-not-invalidated"
    if v["inv"] == "Idempotent":
        what = [n for n, x in (("stored", v["dstore"]), ("rewritten", v["dver"]), ("sequences", v["dctr"])) if x]
        return "Idempotent:%s:regenerate_sequences=%s" % ("+".join(what), str(v["regen"]).lower())
    return None


def explains(root, v):
    """does the stale item `root` (a PerDocFresh record) account for the visible difference v?"""
    if v["inv"] == "PrincipalsFresh":
        return v["fromStored"] and root["fld"] in ("acc", "rol") and [root["d"], root["fld"]] in v["stale"]
    if v["inv"] == "FromScratch":
        if root["fld"] == "ch":
            return root["d"] in v["docs"]
        # a stale grant changes not only WHICH channels a user has but also SINCE WHEN (a since-0 feed backfills a channel
        # from the granting sequence and leaves tombstones out of the backfill): with the same final access the two
        # databases can still list different documents
        return True
    if v["inv"] == "Idempotent":      # the second run stored what the first one left stale
        return root["l"] < v["l"] and root["d"] in v["dstore"]
    return False


def dedup(vs, fields):
    seen, res = set(), []
    for v in vs:
        k = json.dumps([v.get(f) for f in fields], sort_keys=True)
        if k not in seen:
            seen.add(k)
            res.append(v)
    return res


def judge(ctx, tag, scns, jobs, per, viols):
    """viols: every failing instance of a property predicate that TLC printed in pass P (dicts with inv, l, ...)"""
    starts, pos = [], 1
    for j in jobs:
        starts.append((pos, j["id"]))
        pos += len(per[j["id"]])

    def scn_of(l):   # the state at position l was produced by trace row l-1
        sid, first = None, 0
        for p, i in starts:
            if p <= l - 1:
                sid, first = i, p
        return sid, first

    by = {}
    for v in viols:
        by.setdefault(scn_of(v["l"])[0], []).append(v)
    sc = {s["id"]: s for s in scns}
    jb = {j["id"]: j for j in jobs}
    found = {}        # key -> list of (scenario id, root record, visible effects it accounts for)
    for sid, vs in sorted(by.items()):
        bad = next((v for v in vs if v["inv"] == "ScratchSound"), None)
        if bad:
            raise Inconclusive("the from-scratch database does not hold what the table says (scenario %s): %s" % (json.dumps(sc[sid]), json.dumps(bad)[:800]))
        # the same stale item is printed in every state that has it; keep the instance most users had observed by then
        roots = dedup(sorted((v for v in vs if v["inv"] == "PerDocFresh"), key=lambda v: (-len(v["affected"]), v["l"])), ("d", "b", "fld", "got"))
        princ = dedup([v for v in vs if v["inv"] == "PrincipalsFresh"], ("u", "chans", "roles", "want", "wantroles"))
        scratch = dedup([v for v in vs if v["inv"] == "FromScratch"], ("u", "vis", "svis", "vrev", "svrev"))
        idem = dedup([v for v in vs if v["inv"] == "Idempotent"], ("dstore", "dver", "dctr"))
        derived = princ + scratch + idem
        for r in roots:
            found.setdefault(root_key(r), []).append((sid, r, [v for v in derived if explains(r, v)]))
        for v in derived:
            if any(explains(r, v) for r in roots):
                continue
            if v["inv"] == "PrincipalsFresh" and not v["fromStored"]:     # the principal documents themselves are stale
                first = scn_of(v["l"])[1]
                regen_before = any(r["a"] == "Resync" and r["regen"] for r in per[sid][:v["l"] - first])
                found.setdefault(root_key(v, regen_before), []).append((sid, v, [v]))
            elif v["inv"] == "FromScratch" and not v["accessEq"] and princ:
                continue        # a visible-set difference that only mirrors an access difference keyed above
            elif v["inv"] == "Idempotent":
                found.setdefault(root_key(v), []).append((sid, v, [v]))
            else:
                key = "%s:unexplained:%s" % (v["inv"], json.dumps({k: sc[sid][k] for k in ("docs", "f1", "f2", "regen", "regen2", "warm", "adm")}, sort_keys=True))
                found.setdefault(key, []).append((sid, v, [v]))

    def size(sid):
        return (sum(1 for x in sc[sid]["docs"].values() if x["k"] != "none"), len(jb[sid]["steps"]))

    for key, hits in sorted(found.items()):
        vis = [h for h in hits if h[2] or h[1].get("affected")]
        nscn = len({h[0] for h in hits})
        if not vis:
            # stored but never observable by any user in this run: recorded, not a verdict (DESIGN 4.18 / task brief)
            ctx.cov["stale_unobservable"] = ctx.cov.get("stale_unobservable", 0) + nscn
            ctx.notes.append("%s: stale in storage in %d scenario(s) of %s without an effect on any user's access or visible set (not reported); "
                             "e.g. %s" % (key, nscn, tag, json.dumps(sc[min(hits, key=lambda h: size(h[0]))[0]]["docs"])))
            continue
        sid, r, eff = min(vis, key=lambda h: (size(h[0]), h[1]["l"]))
        s = sc[sid]
        if r["inv"] == "PerDocFresh":
            what = ("after resync %s->%s document %s (%s) leaf %d (%s, %s) stores %s %s where the new function gives %s" % (
                s["f1"], s["f2"], r["d"], json.dumps(s["docs"][r["d"]]), r["b"], r["wit"]["role"],
                "rejected by the new function" if r["wit"]["rej"] else "accepted by the new function",
                {"ch": "channels", "acc": "access grants", "rol": "role grants"}[r["fld"]], json.dumps(r["got"]), json.dumps(r["want"])))
        elif r["inv"] == "PrincipalsFresh":
            what = ("after resync %s->%s (regenerate_sequences %s/%s, principal caches warm=%s) a request of %s gets channels %s roles %s; the "
                    "resynced documents and admin grants confer %s / %s (stored grants are fresh: the principal documents were not invalidated)" % (
                        s["f1"], s["f2"], s["regen"], s["regen2"], s["warm"], r["u"], json.dumps(r["chans"]), json.dumps(r["roles"]),
                        json.dumps(r["want"]), json.dumps(r["wantroles"])))
        elif r["inv"] == "Idempotent":
            what = "a second resync (%s->%s, regenerate_sequences=%s) changed stored %s, rewrote %s, consumed %s sequences" % (
                s["f1"], s["f2"], r["regen"], json.dumps(r["dstore"]), json.dumps(r["dver"]), r["dctr"])
        else:
            what = "%s fails with no stale stored value to account for it: %s" % (r["inv"], json.dumps(r)[:500])
        seen = "; ".join(effect_text(v) for v in eff[:3] if v is not r)
        if r.get("affected"):
            seen = ("users %s saw the leaf listed / fetchable contrary to what the new function confers" % json.dumps(r["affected"])) + (("; " + seen) if seen else "")
        report_violation(ctx, key, "real database breaks %s: %s%s [%d of %d scenarios of %s]" % (
            r["inv"], what, ("; visible: " + seen) if seen else "", len({h[0] for h in vis}), len(jobs), tag),
            {"scenario": s, "steps": jb[sid]["steps"], "violations": [r] + [v for v in eff if v is not r], "real_trace": slim(per[sid]),
             "scenarios_hit": len({h[0] for h in vis})})


def effect_text(v):
    if v["inv"] == "PrincipalsFresh":
        return "request of %s returns channels %s roles %s instead of %s / %s" % (v["u"], json.dumps(v["chans"]), json.dumps(v["roles"]),
                                                                               json.dumps(v["want"]), json.dumps(v["wantroles"]))
    if v["inv"] == "Idempotent":
        return "a second resync changed stored %s, rewrote %s" % (json.dumps(v["dstore"]), json.dumps(v["dver"]))
    if v["inv"] == "FromScratch":
        return "%s sees documents %s revisions %s, in the from-scratch database %s / %s" % (v["u"], json.dumps(v["vis"]), json.dumps(v["vrev"]),
                                                                                           json.dumps(v["svis"]), json.dumps(v["svrev"]))
    return json.dumps(v)[:300]


def replay_and_validate(ctx, scns, jobs, tag):
    bf = os.path.join(ctx.scratch, "c18-%s-beh.json" % tag)
    tr = os.path.join(ctx.scratch, "c18-%s.ndjson" % tag)
    write_json(bf, jobs)
    rc, out = go_test(ctx, "db", "^TestVerif_C18_Resync$", HARNESS, env={"VERIF_BEH": bf, "VERIF_TRACE_OUT": tr}, timeout=2400)
    if rc != 0 or not os.path.exists(tr):
        raise Inconclusive("C18 harness failed (%s):\n%s" % (tag, harness_failure(out)))
    rows = read_ndjson(tr)
    per = split_rows(rows)
    if sorted(per) != sorted(j["id"] for j in jobs):
        raise Inconclusive("C18 harness recorded %d of %d scenarios" % (len(per), len(jobs)))
    ctx.cov["evaluations"] += len(jobs)
    ctx.cov["trace_lines"] = ctx.cov.get("trace_lines", 0) + len(rows)
    nontriv = 0
    for j in jobs:
        rs = [r for r in per[j["id"]] if r["a"] == "Resync"]
        nontriv += 1 if rs and rs[0]["changed"] > 0 else 0
        ctx.cov["resync_runs"] = ctx.cov.get("resync_runs", 0) + len(rs)
        ctx.cov["documents_rewritten"] = ctx.cov.get("documents_rewritten", 0) + sum(r["changed"] for r in rs)
    ctx.cov["distinct_nontrivial"] += nontriv
    raced = max([r.get("raced", 0) for r in rows if r["a"] == "Resync"] or [0])
    ctx.cov["resync_writes_raced_by_cas_moving_touch"] = ctx.cov.get("resync_writes_raced_by_cas_moving_touch", 0) + raced
    if raced == 0 and not os.environ.get("VERIF_C18_NORACE"):
        ctx.notes.append("no resync write was raced in this batch (racing-writer family vacuous)")
    mid = jobs[len(jobs) // 2]
    ctx.sample({"scenario": next(s for s in scns if s["id"] == mid["id"]), "real_trace": slim(per[mid["id"]])[-9:]}, cap=2)

    vp = validate(ctx, SPEC, "Trace_Resync", "Trace_Resync_P.cfg", tr, timeout=3000, tag=tag + "-P")
    if vp.inv or not vp.accepted:
        raise Inconclusive("pass P stopped at line %s of %s (%s; trace shape not accepted)\n%s" % (vp.line, vp.total, vp.inv, vp.out[-1500:]))
    viols = [json.loads(json.loads(txt)) for t, txt in parse_printed(vp.out) if t == "VIOL"]
    ctx.cov["property_instances_failed"] = ctx.cov.get("property_instances_failed", 0) + len(viols)
    if viols:
        judge(ctx, tag, scns, jobs, per, viols)
    vc = validate(ctx, SPEC, "Trace_Resync", "Trace_Resync_C.cfg", tr, timeout=3000, tag=tag + "-C")
    if vc.inv or not vc.accepted:
        ctx.cov["nonconformance"] += 1
        n = (vc.line or 0) + (0 if vc.inv else 1)
        sid, first = None, 0
        for i, r in enumerate(rows[:max(0, n - 1)]):
            if r["a"] == "Reset":
                sid, first = r["beh"], i
        row = rows[n - 2] if 2 <= n <= len(rows) + 1 else {}
        ctx.notes.append("pass C rejected %s at line %s (%s), scenario %s step %s: %s" % (
            tag, vc.line, vc.inv, json.dumps(next((s for s in scns if s["id"] == sid), None)), n - 2 - first, json.dumps(slim([row]) if row else None)[:600]))
    else:
        ctx.cov["traces_validated_against_impl"] += len(jobs)
