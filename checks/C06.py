"""C06 - replicating peers converge to the same documents (DESIGN 4.6; partially decided on real code, DESIGN 8).

model:    specs/Replication - two peers, push / pull / pushAndPull, rev-tree (v3) and version-vector (v4) protocols,
          message-level interleavings, exhaustive TLC (safety) + liveness under fairness for pushAndPull.
binding:  PHASE REPLAY (harness/rest/c06_replication_test.go): environment-level behaviours (TLC PhaseSpec / SimSpec plus a
          fixed catalogue of conflict shapes) are run on real inter-Sync-Gateway replications; the views logged at every
          caught-up point are converted to the spec's vocabulary and the property predicates are evaluated by TLC
          (Trace_Replication pass P); pass C checks phase-level conformance with unlogged replication steps.
"""
import json
import os
import random
from vlib.core import *

SPEC = os.path.join(VERIF, "specs", "Replication")
HARNESS = ["harness/rest/c06_replication_test.go"]
PROTOS = ("v3", "v4")
DIRS = ("pushAndPull", "push", "pull")

# conflict shapes that every run replays (environment-level; E/D/R = Edit/Delete/Resurrect, peer, document)
CATALOGUE = {
    "both-delete":        "EA1 Start Wait Stop DA1 DB1 Start Wait",
    "conflict-B-then-A":  "EA1 Start Wait Stop EB1 EA1 Start Wait EB1 Wait",
    "conflict-A-then-B":  "EA1 Start Wait Stop EA1 EB1 Start Wait EA1 Wait",
    "delete-vs-edit":     "EA1 Start Wait Stop DA1 EB1 Start Wait EB1 Wait",
    "edit-vs-delete":     "EA1 Start Wait Stop EA1 DB1 Start Wait",
    "resurrect":          "EA1 Start Wait DA1 Wait RB1 Wait Stop RA1 EB1 Start Wait",
    "while-running":      "EA1 EB2 Start EA1 EB1 EA2 EB2 Wait DA1 EB1 Wait",
    "independent-create": "EA1 EB1 EB2 Start Wait EA2 DA1 Wait DB1 Wait",
    "two-docs-restart":   "EA1 EA2 Start Wait Stop EA1 EB2 DB1 Start Wait Stop EB1 Start Wait",
    "edit-edit-delete":   "EB1 Start Wait Stop EA1 EA1 DA1 EB1 Start Wait RB1 Wait",
    "hidden-tombstone":   "EA1 EB1 Start Wait DA1 Wait DB1 Wait",
    "source-only":        "EA1 EB2 Start Wait Stop EA1 EB2 DA1 Start Wait RA1 EB2 Wait",
    "source-only-restart": "EA1 EB2 Start Wait Stop EA1 EB2 Start Wait Stop DA1 DB2 Start Wait RA1 RB2 Wait",
}


MERGE_SHAPES = ["conflict-B-then-A", "while-running", "edit-vs-delete", "independent-create", "two-docs-restart"]


def parse_steps(s):
    out = []
    for tok in s.split():
        if tok in ("Start", "Stop", "Wait"):
            out.append({"a": tok})
        else:
            out.append({"a": {"E": "Edit", "D": "Delete", "R": "Resurrect"}[tok[0]], "p": tok[1], "d": int(tok[2])})
    return out


def run(ctx):
    rnd = random.Random(ctx.seed)
    # ---- 1. the model: safety for the six configurations (one TLC run), liveness for pushAndPull ----
    cfg = "MC_Replication.cfg" if ctx.quick() else "MC_Replication_thorough.cfg"
    model_check(ctx, SPEC, "MC_Replication", cfg, timeout=6000)
    model_check(ctx, SPEC, "MC_Replication", "Live_Replication.cfg", timeout=3000, env={"C06_DIR": "pushAndPull"}, coverage=False)
    ctx.cov["exhaustive"] = True

    # ---- 2. behaviours ----
    behs = []     # (label, proto, dir, steps)
    nsim = 2 if ctx.quick() else 14
    nbeh = 1 if ctx.quick() else 6
    names = sorted(CATALOGUE)
    allb = behaviours(ctx, SPEC, "MC_Replication", "Beh_Replication.cfg", env={"C06_DIR": "pushAndPull", "C06_RES": "default"}, timeout=1800)
    sims = behaviours(ctx, SPEC, "MC_Replication", "Sim_Replication.cfg", num=120 if ctx.quick() else 900, depth=60,
                      env={"C06_DIR": "pushAndPull", "C06_RES": "default"}, timeout=1800)
    for proto in PROTOS:
        pb = [b for b in allb if b["proto"] == proto and useful(b["steps"])]
        ps = [b for b in sims if b["proto"] == proto and useful(b["steps"])]
        rnd.shuffle(pb)
        rnd.shuffle(ps)
        for d in DIRS:
            # always replayed: the shapes behind the recorded findings (bidirectional) / documents written on the source side only
            fixed = ["both-delete", "hidden-tombstone"] if d == "pushAndPull" else [rnd.choice(["source-only", "source-only-restart"])]
            rest = [n for n in names if n not in fixed]
            for n in fixed + (rnd.sample(rest, 1) if ctx.quick() else rest):
                behs.append(("cat:" + n, proto, d, parse_steps(CATALOGUE[n])))
            if proto == "v4" and d != "push":
                # custom merging resolver (the statement says "configured policy"): merge versions enter the vectors
                for n in ["conflict-A-then-B"] + (rnd.sample(MERGE_SHAPES, 1) if ctx.quick() else MERGE_SHAPES):
                    behs.append(("merge:" + n, proto, d, parse_steps(CATALOGUE[n]), "merge"))
            for b in pb[:nbeh]:
                behs.append(("beh", proto, d, clean(b["steps"])))
            pb = pb[nbeh:] + pb[:nbeh]
            for b in ps[:nsim]:
                behs.append(("sim", proto, d, clean(b["steps"])))
            ps = ps[nsim:] + ps[:nsim]
    ctx.cov["rule"] = ("scenario = environment-level history (edits / deletes / resurrections on either peer, Start, Wait = caught-up point, Stop, restart) "
                       "for one of {v3, v4} x {pushAndPull, push, pull} (default resolver; v4 pull / pushAndPull also with a custom merging resolver): fixed catalogue of conflict shapes + TLC PhaseSpec behaviours (all histories of 7 steps, 1 doc) "
                       "+ TLC simulations (14 steps, 2 docs); non-trivial = has a caught-up point after at least one replicated write")
    ctx.assumptions += ["message-level interleavings inside a running replicator are explored in the model only; on real code at phase granularity",
                        "digests / versions enter only through order comparisons: rank compression per scenario is property-preserving",
                        "one-directional replication: convergence is required for documents the environment never wrote on the target side",
                        "default resolver, plus one custom merging resolver (v4); two peers; allow_conflicts=false on both"]
    rows = replay(ctx, behs, "main")
    verdicts(ctx, behs, rows, confirm=True)


def useful(steps):
    """has a caught-up point that follows a Start and at least one environment write"""
    started = wrote = False
    for st in steps:
        if st["a"] == "Start":
            started = True
        elif st["a"] in ("Edit", "Delete", "Resurrect"):
            wrote = True
        elif st["a"] == "Wait" and started and wrote:
            return True
    return False


def clean(steps):
    steps = list(steps)
    while steps and steps[-1]["a"] != "Wait":      # what follows the last caught-up point is not observed
        steps.pop()
    out = []
    for s in steps:
        if s["a"] in ("Synced",):
            continue
        if s["a"] in ("Edit", "Delete", "Resurrect"):
            out.append({"a": s["a"], "p": s["p"], "d": int(s["d"])})
        else:
            out.append({"a": s["a"]})
    return out


# --------------------------------------------------------------------------------------------
def replay(ctx, behs, tag):
    bf = os.path.join(ctx.scratch, "c06-beh-%s.json" % tag)
    tr = os.path.join(ctx.scratch, "c06-%s.ndjson" % tag)
    write_json(bf, [{"proto": b[1], "dir": b[2], "steps": b[3], "res": resolver_of(b)} for b in behs])
    rc, out = go_test(ctx, "rest", "^TestVerif_C06_Replication$", HARNESS, env={"VERIF_BEH": bf, "VERIF_TRACE_OUT": tr}, timeout=3000)
    if rc != 0 or not os.path.exists(tr):
        raise Inconclusive("C06 harness failed:\n" + harness_failure(out))
    rows = read_ndjson(tr)
    aborts = [r for r in rows if r["a"] == "Abort"]
    if aborts:
        raise Inconclusive("C06 harness aborted %d scenario(s): %s" % (len(aborts), aborts[0].get("why")))
    return rows


def resolver_of(b):
    return b[4] if len(b) > 4 else "default"


def split(rows):
    """rows -> {beh index: [rows]}"""
    res, cur = {}, None
    for r in rows:
        if r["a"] == "Reset":
            cur = r["beh"]
            res[cur] = []
        res[cur].append(r)
    return res


class Conv:
    """conversion of one recorded scenario into the spec's vocabulary (ranks)."""

    def __init__(self, rows, proto):
        self.proto = proto
        self.src = {rows[0]["srcA"]: "A", rows[0]["srcB"]: "B"}
        views = []
        for r in rows:
            for k in ("pre", "view"):
                if k in r:
                    views.append(r[k])
            if "views" in r:
                for p in "AB":
                    views += r["views"][p]
        digs, vers = set(), set()
        for v in views:
            for t in v.get("tree", []):
                digs.add(t[0].split("-", 1)[1])
            if v.get("rest", {}).get("rev"):
                digs.add(v["rest"]["rev"].split("-", 1)[1])
            if "ver" in v:
                vers.add(int(v["ver"], 16))
                for x in list(v.get("pv", {}).values()) + list(v.get("mv", {}).values()):
                    vers.add(int(x, 16))
            cv = v.get("rest", {}).get("cv")
            if cv:
                vers.add(int(cv.split("@")[0], 16))
        self.dig = {x: i + 1 for i, x in enumerate(sorted(digs))}
        self.mvers = set()
        self.ver = {x: i + 1 for i, x in enumerate(sorted(vers))}
        if len(self.ver) > 60:
            raise Inconclusive("more than 60 distinct versions in one scenario (Trace cfg MaxVer = 64)")
        # revision table
        self.table = {}      # (d, rev) -> [parent, body, del]
        for r in rows:
            docs = []
            if r["a"] in ("Edit", "Delete", "Resurrect"):
                docs = [(r["d"], r["pre"]), (r["d"], r["view"])]
            elif "views" in r:
                for p in "AB":
                    docs += [(i + 1, v) for i, v in enumerate(r["views"][p])]
            for d, v in docs:
                for (rid, par, dl) in v.get("tree", []):
                    e = self.table.setdefault((d, rid), [par, -1, False])
                    if e[0] != par:
                        raise Inconclusive("revision %s has two parents (%s, %s)" % (rid, e[0], par))
                    e[2] = e[2] or dl
                if v.get("st") in ("live", "deleted"):
                    e = self.table[(d, v["rev"])]
                    if v["st"] == "live":
                        e[1] = v["k"]
        for e in self.table.values():
            if e[2]:
                e[1] = 0

    def rev(self, s):
        if not s:
            return [0, 0]
        g, x = s.split("-", 1)
        return [int(g), self.dig[x]]

    def view(self, v):
        absent = {"cur": [0, 0], "tree": [], "nlive": 0, "src": "", "ver": 0, "mv": [0, 0], "pv": [0, 0], "body": 0, "del": False}
        o = dict(absent)
        if v.get("st") in ("live", "deleted"):
            leaves = set(v.get("leaves", []))
            o["nlive"] = sum(1 for t in v["tree"] if t[0] in leaves and not t[2])
            o["body"], o["del"] = v["k"], v["del"]
            if self.proto == "v3":
                o["cur"] = self.rev(v["rev"])
                o["tree"] = sorted(self.rev(t[0]) for t in v["tree"])
            else:
                o["src"] = self.src[v["src"]]
                o["ver"] = self.ver[int(v["ver"], 16)]
                pv = {self.src[s]: self.ver[int(x, 16)] for s, x in v.get("pv", {}).items()}
                o["pv"] = [pv.get("A", 0), pv.get("B", 0)]
                mv = {self.src[s]: self.ver[int(x, 16)] for s, x in v.get("mv", {}).items()}
                o["mv"] = [mv.get("A", 0), mv.get("B", 0)]
                # candidates for a version generated by a merge: every value recorded for the active peer's source
                self.mvers |= {x for x in ([o["ver"]] if o["src"] == "A" else []) + [pv.get("A", 0), mv.get("A", 0)] if x}
        elif v.get("st") == "error":
            raise Inconclusive("harness could not read a document: %s" % v.get("err"))
        if "rest" in v:
            r = v["rest"]
            rid = []
            if r["code"] == 200:
                if self.proto == "v3":
                    rid = self.rev(r["rev"])
                elif r.get("cv"):
                    x, s = r["cv"].split("@", 1)
                    rid = [self.src.get(s, s), self.ver[int(x, 16)]]
            o["rest"] = {"code": r["code"], "id": rid, "body": r["k"], "del": bool(r["del"])}
        else:
            o["rest"] = {"code": 0, "id": [], "body": 0, "del": False}
        return o

    def lines(self, rows, idx, direction, resolver="default"):
        res = []
        for r in rows[1:]:
            a = r["a"]
            if a in ("Edit", "Delete", "Resurrect"):
                post = self.view(r["view"])
                res.append({"a": "Write", "p": r["p"], "d": r["d"], "kind": r["did"], "body": r["body"], "ver": post["ver"],
                            "pre": self.view(r["pre"]), "post": post})
            elif a in ("Start", "Stop"):
                res.append({"a": a})
            elif a == "Sync":
                res.append({"a": "Sync", "ok": bool(r["ok"]), "A": [self.view(v) for v in r["views"]["A"]], "B": [self.view(v) for v in r["views"]["B"]]})
            elif a == "Rerun":
                s = r["run"]
                res.append({"a": "Rerun", "w": s["docs_written"], "r": s["docs_read"], "f": s["doc_write_failures"] + s["rejected_by_local"],
                            "A": [self.view(v) for v in r["views"]["A"]], "B": [self.view(v) for v in r["views"]["B"]]})
        revs = []
        if self.proto == "v3":
            for (d, rid), (par, body, dl) in sorted(self.table.items()):
                revs.append([d] + self.rev(rid) + self.rev(par) + [body, dl])
        # mvers: versions of the active peer's source that this scenario shows (a merge generates one of them, or an unrecorded one)
        reset = {"a": "Reset", "beh": idx, "proto": self.proto, "dir": direction, "res": resolver, "mvers": sorted(self.mvers), "revs": revs}
        return [reset] + res


DEV_WHAT = {
    "TombstoneCvSwap": "v4 pushAndPull: both peers hold a tombstone of the document; each adopts the other's vector (allowConflictingTombstone in "
                       "PutExistingCurrentVersion), with push and pull crossing the current versions SWAP and each side then reports the other's as known: "
                       "the peers never agree on the current version",
    "UnsentTombstone": "v3: the changes feed lists a document under its winning revision; a peer whose leaves include the tombstone of the other peer's current "
                       "revision but whose winner is another branch (tombstone left by an earlier resolved conflict / adopted live revision) never offers it: "
                       "the deletion does not replicate (one peer deleted, the other live) or both are tombstones under different revision ids",
    "AfterDeviation":  "document diverged after a named deviation was observed on it earlier in the same scenario",
}


def validate_group(ctx, behs, per, idxs, tag):
    """P (and C) validation of the scenarios idxs.
    returns (named deviations [(scenario, doc, class)], hard violations [(scenario, invariant, event, state)], #conformant)"""
    chunks = {i: Conv(per[i], behs[i][1]).lines(per[i], i, behs[i][2], resolver_of(behs[i])) for i in idxs}
    tr = os.path.join(ctx.scratch, "c06-%s.ndjson" % tag)

    def emit(sel):
        lines, start = [], {}
        for i in sel:
            start[i] = len(lines) + 1
            lines += chunks[i]
        write_ndjson(tr, lines)
        return lines, start

    def owner(sel, start, ln):
        return max(i for i in sel if start[i] <= max(ln, 1))

    devs, hard = [], []
    todo = list(idxs)
    while todo:          # pass P; a scenario with a hard violation is set aside and the rest validated again
        lines, start = emit(todo)
        vp = validate(ctx, SPEC, "Trace_Replication", "Trace_Replication_P.cfg", tr, tag="P-%s" % tag)
        if vp.inv:
            ln = (vp.line or 2) - 1          # the state after consuming line l-1
            bi = owner(todo, start, ln)
            hard.append((bi, vp.inv, ln - start[bi], (vp.state or {}).get("_txt")))
            todo.remove(bi)
            continue
        if not vp.accepted:
            raise Inconclusive("pass P stopped at line %s of %s (trace shape not accepted)\n%s" % (vp.line, vp.total, vp.out[-1500:]))
        for t, txt in parse_printed(vp.out):
            if t == "DEV":
                ln, doc, cls = [x.strip().strip('"') for x in txt.split(",")]
                devs.append((owner(todo, start, int(ln)), int(doc), cls))
        break
    conform = 0
    if todo:
        lines, start = emit(todo)
        vc = validate(ctx, SPEC, "Trace_Replication", "Trace_Replication_C.cfg", tr, tag="C-%s" % tag, timeout=2400)
        if vc.inv or not vc.accepted:
            ctx.cov["nonconformance"] += 1
            at = lines[vc.line - 1] if vc.line and vc.line <= len(lines) else None
            ctx.notes.append("pass C rejected at line %s (%s) scenario %s: %s" % (
                vc.line, vc.inv, scen(behs[owner(todo, start, vc.line or 1)]) if vc.line else None, json.dumps(at)[:240]))
        else:
            conform = len(todo)
    return devs, hard, conform


def verdicts(ctx, behs, rows, confirm, tag="v"):
    per = split(rows)
    ctx.cov["evaluations"] += len(behs)
    nontriv, nsync, nrerun = 0, 0, 0
    for i, rs in per.items():
        syncs = [r for r in rs if r["a"] == "Sync" and r["ok"]]
        nsync += len(syncs)
        nrerun += sum(1 for r in rs if r["a"] == "Rerun")
        moved = any((r.get("stats") or {}).get("docs_written", 0) + (r.get("stats") or {}).get("docs_read", 0) > 0 for r in syncs)
        nontriv += 1 if moved else 0
    ctx.cov["distinct_nontrivial"] += nontriv
    ctx.cov["caught_up_points"] = ctx.cov.get("caught_up_points", 0) + nsync
    ctx.cov["reruns"] = ctx.cov.get("reruns", 0) + nrerun
    stalls = [scen(behs[i]) for i, rs in per.items() if any(r["a"] == "Sync" and r.get("stalled") for r in rs)]
    if stalls:
        ctx.cov["checkpoint_stalls"] = ctx.cov.get("checkpoint_stalls", 0) + len(stalls)
        ctx.notes.append("%d scenario(s) with a stalled pull checkpoint (a transferred revision was refused by the pulling peer - 404 \"top-level property '_deleted' is a "
                         "reserved internal property\" for an obsolete tombstone sent after its document was resurrected - and its sequence is never acknowledged; "
                         "documents converged; caught-up point taken by quiet counters), e.g. %s" % (len(stalls), stalls[0]["steps"]))
    if per:
        k = sorted(per)[len(per) // 2]
        ctx.sample({"scenario": {"label": behs[k][0], "proto": behs[k][1], "dir": behs[k][2], "steps": " ".join(fmt_step(s) for s in behs[k][3])},
                    "caught_up_points": [{"stats": {a: b for a, b in r["stats"].items() if b}} for r in per[k] if r["a"] == "Sync"][:3]})
    alldev, allhard, conform = validate_group(ctx, behs, per, sorted(per), tag)
    ctx.cov["traces_validated_against_impl"] += conform
    seen = set()
    for (bi, doc, cls) in alldev:
        key = "Converged@%s:%s" % (behs[bi][1], cls)
        if key in seen:
            continue
        seen.add(key)
        report_violation(ctx, key, "real replication (%s %s): %s" % (behs[bi][1], behs[bi][2], DEV_WHAT.get(cls, cls)),
                         {"scenario": scen(behs[bi]), "document": doc, "class": cls, "recorded": per[bi]})
    ctx.cov["named_deviations_observed"] = sorted(seen)
    for (bi, inv, off, state) in allhard:
        b = behs[bi]
        if confirm and not reproduces(ctx, b, inv):
            ctx.notes.append("%s failed once on %s and did not reproduce twice (not reported)" % (inv, scen(b)))
            ctx.cov["unreproduced"] = ctx.cov.get("unreproduced", 0) + 1
            continue
        key = "%s@%s:%s%s:%s" % (inv, b[1], b[2], "" if resolver_of(b) == "default" else "+" + resolver_of(b), " ".join(fmt_step(s) for s in b[3]))
        report_violation(ctx, key, "real replication breaks %s (%s %s, scenario %s, event %s)" % (inv, b[1], b[2], b[0], off),
                         {"scenario": scen(b), "invariant": inv, "state": state, "recorded": per[bi]})


def fmt_step(s):
    return s["a"] if "p" not in s else "%s%s%s" % (s["a"][0], s["p"], s["d"])


def scen(b):
    return {"label": b[0], "proto": b[1], "dir": b[2], "resolver": resolver_of(b), "steps": " ".join(fmt_step(s) for s in b[3])}


def reproduces(ctx, b, inv):
    """reproduce-twice rule: the scenario is run twice more on its own; reported only if the same predicate fails both times."""
    two = [b, b]
    rows = replay(ctx, two, "confirm%d" % len(ctx.cov["go_runs"]))
    per = split(rows)
    hits = 0
    for i in (0, 1):
        devs, hard, _ = validate_group(ctx, two, per, [i], "r%d" % i)
        if any(h[1] == inv for h in hard):
            hits += 1
    return hits == 2


if __name__ == "__main__":
    main("C06", run)
