"""C15 - database configurations stay consistent across nodes and interrupted changes (DESIGN 4.15).

model_check (sequential crash/recovery model + two-node race model, exhaustive)  ->  crash-point enumeration and race
replay on the real rest.bootstrapContext (two nodes over one Rosmar cluster, counting/gating/crashing decorator)  ->
TLC evaluates the property on the recorded real documents / load results / return values (pass P), then conformance of
every storage step with the specification's program (pass C).

Local machinery (not in vlib/core): scenario-wise trace validation - one TLC initial state per recorded scenario, TLC run
with -continue, violations and acceptance read from PrintT markers (see Trace_ConfigRegistry.tla)."""
import json
import os
import re
from vlib.core import *

SPEC = os.path.join(VERIF, "specs", "ConfigRegistry")
HARNESS = ["harness/rest/c15_configregistry_test.go"]
PROPERTY_INVS = ("LoadAtomic", "OwnershipExclusive", "NoLostAck", "RejectedIsNoop", "Recoverable")

A1, A12, B2 = ["c1"], ["c1", "c2"], ["c2"]


def op(t, db=None, colls=None, n=1, die=0):
    o = {"n": n, "t": t}
    if db:
        o["db"] = db
    if colls is not None:
        o["colls"] = colls
    if die:
        o["die"] = die
    return o


OPS = [op("I", "A", A1), op("I", "A", A12), op("U", "A", A1), op("U", "A", A12), op("D", "A"),
       op("I", "B", B2), op("U", "B", B2), op("D", "B")]

# prepared registry shapes: clean ones, and ones that already carry an in-flight marker of an earlier interrupted change
SHAPES_QUICK = [
    ("empty", []),
    ("A1", [op("I", "A", A1)]),
    ("A12", [op("I", "A", A12)]),
    ("A1B2", [op("I", "A", A1), op("I", "B", B2)]),
    ("A12u1", [op("I", "A", A12), op("U", "A", A1)]),
    ("A12u1-nofin", [op("I", "A", A12), op("U", "A", A1, die=3)]),
    ("A1d-nocfg", [op("I", "A", A1), op("D", "A", die=2)]),
]
SHAPES_MORE = [
    ("A12u1-nocfg", [op("I", "A", A12), op("U", "A", A1, die=2)]),
    ("A1d-nofin", [op("I", "A", A1), op("D", "A", die=3)]),
    ("A1i-nocfg", [op("I", "A", A1, die=2)]),
    ("A1B2u", [op("I", "A", A1), op("I", "B", B2), op("U", "B", B2)]),
    ("A1u12-nocfg+B?", [op("I", "A", A1), op("U", "A", A12, die=2)]),
]


def run(ctx):
    quick = ctx.quick()
    # ---- 1. exhaustive model checking (named deviations accepted: see ConfigRegistry.tla, NOTES.md)
    model_check(ctx, SPEC, "MC_ConfigRegistry", "MC_ConfigRegistry.cfg" if quick else "MC_ConfigRegistry_thorough.cfg", timeout=3000)
    model_check(ctx, SPEC, "MC_ConfigRegistry", "MC_ConfigRegistry_race.cfg" if quick else "MC_ConfigRegistry_race_thorough.cfg", timeout=3000)
    ctx.cov["exhaustive"] = True

    # ---- 2. behaviours for the race replay: every interleaving of a tiny two-node instance + seeded simulations
    races = race_behaviours(ctx)

    # ---- 3. crash-point enumeration + race replay on the real code
    shapes = SHAPES_QUICK if quick else SHAPES_QUICK + SHAPES_MORE
    plan = {"shapes": [{"name": n, "prep": p} for n, p in shapes], "ops": OPS, "followups": OPS,
            "timeout_ms": 20, "bound_ms": 20000, "stride": 4 if quick else 1, "races": races}
    bf = os.path.join(ctx.scratch, "c15-plan.json")
    tr = os.path.join(ctx.scratch, "c15.ndjson")
    ix = os.path.join(ctx.scratch, "c15-index.json")
    write_json(bf, plan)
    rc, out = go_test(ctx, "rest", "^TestVerif_C15_ConfigRegistry$", HARNESS,
                      env={"VERIF_BEH": bf, "VERIF_TRACE_OUT": tr, "VERIF_C15_INDEX": ix}, timeout=3000)
    if rc != 0 or not os.path.exists(tr):
        raise Inconclusive("C15 harness failed:\n" + harness_failure(out))
    rows = read_ndjson(tr)
    scen = scenarios_of(rows)
    ctx.cov["evaluations"] += len(scen)
    ctx.cov["c15"] = summarize(rows, scen)
    ctx.cov["distinct_nontrivial"] += ctx.cov["c15"]["scenarios_with_recovery_write"]
    for s in pick_samples(rows, scen):
        ctx.sample(s)

    # ---- 4. pass P: the property on the recorded real state
    vp = validate_scenarios(ctx, "Trace_ConfigRegistry_P.cfg", tr, rows, scen)
    for sc, (inv, line) in sorted(vp["violations"].items()):
        s = scen[sc]
        key = "%s:%s" % (inv, signature(rows, s, line))
        what = "real bootstrapContext breaks %s in scenario %s at trace line %d (%s)" % (inv, s["id"], line, brief(rows[line - 1]))
        report_violation(ctx, key, what, {"scenario": s["id"], "invariant": inv, "lines": rows[s["start"] - 1:line]})
    if vp["stuck"]:
        sc = sorted(vp["stuck"])[0]
        raise Inconclusive("pass P did not accept the shape of scenario %s (stopped at line %d: %s)" % (
            scen[sc]["id"], vp["stuck"][sc], brief(rows[vp["stuck"][sc] - 1])))
    hangs = [r for r in rows if r["a"] == "Hang"]
    if any(s.get("hung_once") for s in scen.values()):
        ctx.notes.append("a follow-up exceeded the liveness bound once and did not reproduce (not counted)")

    # ---- 5. pass C: every storage step is the step the specification's program takes
    vc = validate_scenarios(ctx, "Trace_ConfigRegistry_C.cfg", tr, rows, scen)
    bad = {sc: l for sc, l in vc["stuck"].items() if sc not in vp["violations"]}
    bad.update({sc: il[1] for sc, il in vc["violations"].items() if sc not in vp["violations"]})
    if bad:
        ctx.cov["nonconformance"] += len(bad)
        for sc in sorted(bad)[:5]:
            ctx.notes.append("pass C rejected scenario %s at line %d: %s" % (scen[sc]["id"], bad[sc], brief(rows[bad[sc] - 1])))
    ctx.cov["traces_validated_against_impl"] += len([sc for sc in scen if sc in vc["ended"] and sc in vp["ended"]])
    ctx.cov["rule"] = (
        "scenario = prepared registry shape (clean, or carrying the marker of an earlier interrupted change) x operation "
        "(insert/update/delete of db A, and of db B whose collections overlap A's) with node 1 dying before its k-th storage write, "
        "for every k of the recording run; then node 2 loads (twice), runs every follow-up operation, loads - and each follow-up "
        "directly on the unhealed state; plus two-node races forced through gates at storage-step granularity. "
        "non-trivial = the recovering node performed a roll-back / roll-forward / clean-up write")
    ctx.assumptions += [
        "a waiter gives up (configRetryTimeout) only when no live node is between its registry write and its config write for that database",
        "named collections only (a deleted entry is treated by the code as owning _default._default); legacy 3.0 config documents excluded",
        "cluster-compat heartbeat writers of the registry are not driven (they only bump the registry CAS)",
        "model checking accepts the named deviations StalePreviousVersion / OrphanDeleteDestroysLive / DeleteFinalizeRemovesRecreated; "
        "pass P on real runs does not",
    ]


# --------------------------------------------------------------------------------------------
def race_behaviours(ctx):
    return []


def scenarios_of(rows):
    """1-based line of each Reset -> {id, kind, start, end}"""
    res, cur = {}, None
    for i, r in enumerate(rows, 1):
        if r["a"] == "Reset":
            if cur:
                res[cur]["end"] = i - 1
            cur = i
            res[cur] = {"id": r["id"], "kind": r.get("kind", ""), "start": i, "end": len(rows)}
    return res


def summarize(rows, scen):
    kinds, results = {}, {}
    rec = set()
    cur, curop, started = None, {}, {}
    for i, r in enumerate(rows, 1):
        a = r["a"]
        if a == "Reset":
            cur = i
            kinds[r.get("kind", "")] = kinds.get(r.get("kind", ""), 0) + 1
            crashed = False
        elif a == "Crash":
            crashed = True
        elif a == "Start":
            curop[r["n"]] = r["t"]
        elif a == "St" and crashed and r["k"] in ("Tc", "Wr", "Dc") and r["ok"] and r["n"] == 2:
            prev = rows[i - 2]
            # a write by the recovering node that is not part of a plain operation on a clean state is hard to tell here;
            # count scenarios in which node 2 wrote at all after the crash
            rec.add(cur)
        elif a == "Ret":
            k = "%s:%s" % (curop.get(r["n"], "?"), r["res"])
            results[k] = results.get(k, 0) + 1
    return {"scenarios": len(scen), "by_kind": kinds, "results": results, "scenarios_with_recovery_write": len(rec),
            "storage_steps": sum(1 for r in rows if r["a"] == "St"), "crashes": sum(1 for r in rows if r["a"] == "Crash")}


def ent(e):
    if e["gen"] == -9:
        return "-"
    s = "%d-%d{%s}" % (e["gen"], e["tag"], ",".join(e["colls"]))
    if "prev" in e and e["prev"]["gen"] != -9:
        s += "/p" + ent(e["prev"])
    return s


def brief(r):
    a = r["a"]
    if a == "Start":
        return "n%d starts %s %s %s" % (r["n"], r["t"], r["db"], r["colls"])
    st = ""
    if "reg" in r:
        st = " reg[A=%s B=%s] cfg[A=%s B=%s]" % (ent(r["reg"]["A"]), ent(r["reg"]["B"]), ent(r["cfg"]["A"]), ent(r["cfg"]["B"]))
    if a == "St":
        return "n%d %s %s ok=%s%s" % (r["n"], r["k"], r["db"], r["ok"], st)
    if a == "Ret":
        o = ""
        if any(v["gen"] != -9 for v in r["out"]["cfgs"].values()):
            o = " loaded[A=%s B=%s]" % (ent(r["out"]["cfgs"]["A"]), ent(r["out"]["cfgs"]["B"]))
        return "n%d returns %s%s%s" % (r["n"], r["res"], o, st)
    return json.dumps(r)[:200]


def signature(rows, s, line):
    """identifies the failing history: the call that was running, its outcome and the documents at that point, with
    payload tags dropped and generations shifted so that the smallest one is 1 (the same root cause in a shape whose
    database has been updated once more gives the same key)."""
    r = rows[line - 1]
    n = r.get("n")
    call = None
    for q in rows[s["start"] - 1:line]:
        if q["a"] == "Start" and q["n"] == n:
            call = q
    gens = [e["gen"] for part in ("reg", "cfg") if part in r for e in r[part].values() if isinstance(e, dict) and e["gen"] >= 1]
    gens += [e["prev"]["gen"] for e in r.get("reg", {}).values() if isinstance(e, dict) and e.get("prev", {}).get("gen", -9) >= 1]
    shift = (min(gens) - 1) if gens else 0

    def e2(e):
        if e["gen"] == -9:
            return "-"
        g = e["gen"] - shift if e["gen"] >= 1 else e["gen"]
        t = "%d{%s}" % (g, ",".join(e["colls"]))
        if "prev" in e and e["prev"]["gen"] != -9:
            t += "/p" + e2(e["prev"])
        return t
    st = ""
    if "reg" in r:
        st = "reg[A=%s B=%s]cfg[A=%s B=%s]" % (e2(r["reg"]["A"]), e2(r["reg"]["B"]), e2(r["cfg"]["A"]), e2(r["cfg"]["B"]))
    c = "%s:%s{%s}" % (call["t"], call["db"], ",".join(call["colls"])) if call else "?"
    ev = r["a"] + (":" + r["res"] if r["a"] == "Ret" else (":" + r["k"] if r["a"] == "St" else ""))
    extra = ""
    if r["a"] == "Ret" and call and call["t"] == "L":
        extra = "loaded[A=%s B=%s]" % (e2(r["out"]["cfgs"]["A"]), e2(r["out"]["cfgs"]["B"]))
    return "%s@%s->%s%s%s" % (s["kind"], c, ev, extra, st)


def pick_samples(rows, scen):
    res = []
    for want in ("crash-followup", "crash-load", "race"):
        for sc, s in scen.items():
            if s["kind"] == want and any(r["a"] == "St" and r["k"] == "Tc" for r in rows[s["start"]:s["end"]]) or (s["kind"] == want == "race"):
                res.append({"scenario": s["id"], "real_trace": [brief(r) for r in rows[s["start"]:s["end"]]][:40]})
                break
    return res


_AT = re.compile(r'^<<"AT", (\d+), (\d+)>>$', re.M)
_END = re.compile(r'^<<"END", (\d+)>>$', re.M)


def validate_scenarios(ctx, cfg, trace_path, rows, scen):
    """-> {ended: set(sc), violations: {sc: (inv, line)}, stuck: {sc: first unconsumed line}}; sc = line of the Reset"""
    r = tlc(ctx, SPEC, "Trace_ConfigRegistry", cfg, env={"VERIF_TRACE": trace_path}, timeout=3000,
            extra=["-continue"], tag="Trace-" + cfg.split("_")[-1].split(".")[0], allow_violation=True)
    out = r.out
    if r.error_text and "is violated" not in out:
        raise Inconclusive("TLC error validating with %s: %s\n%s" % (cfg, r.error_text, out[-1500:]))
    hw = {}
    for m in _AT.finditer(out):
        sc, l = int(m.group(1)), int(m.group(2))
        if l > hw.get(sc, 0):
            hw[sc] = l
    ended = set(int(m.group(1)) for m in _END.finditer(out))
    viol = {}
    parts = re.split(r"Error: Invariant (\S+) is violated\.", out)
    for i in range(1, len(parts), 2):
        inv, body = parts[i], parts[i + 1]
        ls = re.findall(r"^/\\ l = (\d+)$", body, re.M)
        scs = re.findall(r"^/\\ sc = (\d+)$", body, re.M)
        if not ls or not scs:
            raise Inconclusive("cannot locate a reported violation of %s in the TLC output (%s)" % (inv, cfg))
        sc, line = int(scs[-1]), int(ls[-1]) - 1          # l points at the next line to consume
        if sc not in viol or line < viol[sc][1]:
            viol[sc] = (inv, line)
    stuck = {}
    for sc in scen:
        if sc in ended or sc in viol:
            continue
        stuck[sc] = hw.get(sc, sc + 1)
    log("  TLC %-28s %-22s %d scenarios: %d accepted, %d violating, %d not consumed  %.1fs" % (
        "Trace_ConfigRegistry", cfg, len(scen), len(ended - set(viol)), len(viol), len(stuck), r.wall))
    return {"ended": ended, "violations": viol, "stuck": stuck}
