"""C15 - database configurations stay consistent across nodes and interrupted changes (DESIGN 4.15).

model_check (sequential crash/recovery model + two-node race model, exhaustive)  ->  crash-point enumeration and race
replay on the real rest.bootstrapContext (two nodes over one Rosmar cluster, counting/gating/crashing decorator)  ->
TLC evaluates the property on the recorded real documents / load results / return values (pass P), then conformance of
every storage step with the specification's program (pass C).

Local machinery (not in vlib/core): scenario-wise trace validation - one TLC initial state per recorded scenario, TLC run
with -continue, violations and acceptance read from PrintT markers (see Trace_ConfigRegistry.tla)."""
import json
import os
import re
from vlib.core import *

SPEC = os.path.join(VERIF, "specs", "ConfigRegistry")
HARNESS = ["harness/rest/c15_configregistry_test.go"]
PROPERTY_INVS = ("LoadAtomic", "OwnershipExclusive", "NoLostAck", "RejectedIsNoop", "Recoverable")

A1, A12, B2 = ["c1"], ["c1", "c2"], ["c2"]


def op(t, db=None, colls=None, n=1, die=0):
    o = {"n": n, "t": t}
    if db:
        o["db"] = db
    if colls is not None:
        o["colls"] = colls
    if die:
        o["die"] = die
    return o


OPS = [op("I", "A", A1), op("I", "A", A12), op("U", "A", A1), op("U", "A", A12), op("D", "A"),
       op("I", "B", B2), op("U", "B", B2), op("D", "B")]

# prepared registry shapes: clean ones, and ones that already carry an in-flight marker of an earlier interrupted change
SHAPES_QUICK = [
    ("empty", []),
    ("A1", [op("I", "A", A1)]),
    ("A12", [op("I", "A", A12)]),
    ("A1B2", [op("I", "A", A1), op("I", "B", B2)]),
    ("A12u1", [op("I", "A", A12), op("U", "A", A1)]),
    ("A12u1-nofin", [op("I", "A", A12), op("U", "A", A1, die=3)]),
    ("A1d-nocfg", [op("I", "A", A1), op("D", "A", die=2)]),
]
SHAPES_MORE = [
    ("A12u1-nocfg", [op("I", "A", A12), op("U", "A", A1, die=2)]),
    ("A1d-nofin", [op("I", "A", A1), op("D", "A", die=3)]),
    ("A1i-nocfg", [op("I", "A", A1, die=2)]),
    ("A1B2u", [op("I", "A", A1), op("I", "B", B2), op("U", "B", B2)]),
    ("A1u12-nocfg+B?", [op("I", "A", A1), op("U", "A", A12, die=2)]),
]


# second family: an interrupted change of db A that MOVES a collection, followed by changes of the EXISTING db B that
# try to take what A releases / still holds (update and delete variants), and by changes of A itself
B3, B13, B23, A2 = ["c3"], ["c1", "c3"], ["c2", "c3"], ["c2"]
MOVE_SHAPES = [("A1B3", [op("I", "A", A1), op("I", "B", B3)]), ("A12B3", [op("I", "A", A12), op("I", "B", B3)])]
MOVE_OPS = [op("U", "A", A2), op("U", "A", A1), op("D", "A")]
MOVE_FOLLOWUPS = [op("U", "B", B13), op("U", "B", B23), op("U", "B", B3), op("D", "B"), op("U", "A", A1), op("U", "A", A12)]


def run(ctx):
    quick = ctx.quick()
    fast = bool(os.environ.get("VERIF_C15_FAST"))      # development aid (binding only): no model checking, fewer schedules
    # ---- 1. exhaustive model checking (named deviations accepted: see ConfigRegistry.tla, NOTES.md)
    if fast:
        ctx.notes.append("VERIF_C15_FAST: model checking skipped")
    else:
        model_check(ctx, SPEC, "MC_ConfigRegistry", "MC_ConfigRegistry.cfg" if quick else "MC_ConfigRegistry_thorough.cfg", timeout=3000)
        model_check(ctx, SPEC, "MC_ConfigRegistry", "MC_ConfigRegistry_race.cfg" if quick else "MC_ConfigRegistry_race_thorough.cfg", timeout=3000)
        ctx.cov["exhaustive"] = True

    # ---- 2. behaviours for the race replay: every interleaving of a tiny two-node instance + seeded simulations
    races = race_behaviours(ctx)

    # ---- 3. crash-point enumeration + race replay on the real code
    shapes = SHAPES_QUICK if quick else SHAPES_QUICK + SHAPES_MORE
    plan = {"shapes": [{"name": n, "prep": p} for n, p in shapes], "ops": OPS, "followups": OPS,
            "families": [{"name": "move", "shapes": [{"name": n, "prep": p} for n, p in MOVE_SHAPES], "ops": MOVE_OPS,
                          "followups": MOVE_FOLLOWUPS, "stride": 6 if quick else 2}],
            "timeout_ms": 20, "bound_ms": 20000, "stride": 6 if quick else 2, "races": races}
    bf = os.path.join(ctx.scratch, "c15-plan.json")
    tr = os.path.join(ctx.scratch, "c15.ndjson")
    ix = os.path.join(ctx.scratch, "c15-index.json")
    write_json(bf, plan)
    rc, out = go_test(ctx, "rest", "^TestVerif_C15_ConfigRegistry$", HARNESS,
                      env={"VERIF_BEH": bf, "VERIF_TRACE_OUT": tr, "VERIF_C15_INDEX": ix}, timeout=3000)
    if rc != 0 or not os.path.exists(tr):
        raise Inconclusive("C15 harness failed:\n" + harness_failure(out))
    rows = read_ndjson(tr)
    scen = scenarios_of(rows)
    ctx.cov["evaluations"] += len(scen)
    ctx.cov["c15"] = summarize(rows, scen)
    ctx.cov["distinct_nontrivial"] += ctx.cov["c15"]["scenarios_with_recovery_write"]
    for s in pick_samples(rows, scen):
        ctx.sample(s)

    # ---- 4. pass P: the property on the recorded real state (no deviation accepted)
    vp = validate_scenarios(ctx, "Trace_ConfigRegistry_P.cfg", tr, rows, scen)
    if vp["stuck"]:
        sc = sorted(vp["stuck"])[0]
        raise Inconclusive("pass P did not accept the shape of scenario %s (stopped at line %d: %s)" % (
            scen[sc]["id"], vp["stuck"][sc], brief(rows[vp["stuck"][sc] - 1])))
    unexplained = set()
    if vp["violations"]:
        # attribution: the same scenarios once more with the named deviations accepted.  Still violating -> reported with
        # the specific history as key; accepted -> reported once per deviation the specification says was needed.
        sub, back = subset(ctx, rows, scen, sorted(vp["violations"]), "c15-violating.ndjson")
        srows = read_ndjson(sub)
        vd = validate_scenarios(ctx, "Trace_ConfigRegistry_PD.cfg", sub, srows, scenarios_of(srows))
        for ssc, osc in sorted(back.items()):
            s = scen[osc]
            inv, line = vp["violations"][osc]
            replay = {"scenario": s["id"], "invariant": inv, "lines": rows[s["start"] - 1:line]}
            if ssc in vd["violations"] or not vd["devs"].get(ssc):
                inv2, sline = vd["violations"].get(ssc, (inv, None))
                key = "%s:%s" % (inv, signature(rows, s, line))
                unexplained.add(osc)
                report_violation(ctx, key, "real bootstrapContext breaks %s in scenario %s at trace line %d (%s)" % (
                    inv, s["id"], line, brief(rows[line - 1])), replay)
            else:
                for dv in sorted(vd["devs"][ssc]):
                    ctx.cov["c15"].setdefault("deviation_scenarios", {}).setdefault(dv, 0)
                    ctx.cov["c15"]["deviation_scenarios"][dv] += 1
                    report_violation(ctx, "deviation:" + dv, "real bootstrapContext breaks %s (%s) in scenario %s at trace line %d (%s)" % (
                        inv, dv, s["id"], line, brief(rows[line - 1])), replay)
    if any(r["a"] == "Hang" for r in rows):
        ctx.notes.append("a call exceeded the liveness bound twice in a row (reported through Recoverable)")

    # ---- 5. pass C: every storage step is the step the specification's program takes (deviations accepted)
    vc = validate_scenarios(ctx, "Trace_ConfigRegistry_C.cfg", tr, rows, scen)
    bad = dict(vc["stuck"])
    bad.update({sc: il[1] for sc, il in vc["violations"].items()})
    bad = {sc: l for sc, l in bad.items() if sc not in unexplained}     # (a scenario pass P rejected outright is cut there)
    if bad:
        ctx.cov["nonconformance"] += len(bad)
        for sc in sorted(bad)[:5]:
            ctx.notes.append("pass C rejected scenario %s at line %d: %s" % (scen[sc]["id"], bad[sc], brief(rows[bad[sc] - 1])))
    ctx.cov["traces_validated_against_impl"] += len([sc for sc in scen if sc in vc["ended"] and sc in vp["ended"]])
    ctx.cov["rule"] = (
        "scenario = prepared registry shape (clean, or carrying the marker of an earlier interrupted change) x operation "
        "(insert/update/delete of db A, and of db B whose collections overlap A's) with node 1 dying before its k-th storage write, "
        "for every k of the recording run; then node 2 loads (twice), runs every follow-up operation, loads - and each follow-up "
        "directly on the unhealed state; a second family of shapes/operations moves a collection between two existing databases; "
        "a load interleaved with two complete operations of the other node that move a collection; plus two-node races forced through gates at storage-step granularity. "
        "non-trivial = the recovering node performed a roll-back / roll-forward / clean-up write")
    ctx.assumptions += [
        "a waiter gives up (configRetryTimeout) only when no live node is between its registry write and its config write for that database",
        "named collections only (a deleted entry is treated by the code as owning _default._default); legacy 3.0 config documents excluded",
        "cluster-compat heartbeat writers of the registry are not driven (they only bump the registry CAS)",
        "model checking accepts the named deviations StalePreviousVersion / OrphanDeleteDestroysLive / DeleteFinalizeRemovesRecreated; "
        "pass P on real runs does not",
    ]


# --------------------------------------------------------------------------------------------
def S(n, t=None, db=None, colls=None):
    return {"a": "Start", "n": n, "t": t, "db": db or "-", "colls": colls or []}


def steps(n, k):
    return [{"a": "Step", "n": n}] * k


# directed schedules = the shortest TLC counterexamples of the race model with one named deviation switched off
# (re-derived from the model in the thorough tier, see derive_counterexamples)
DIRECTED = [
    ("OrphanDeleteDestroysLive/concurrent-insert",
     [S(1, "I", "A", A1)] + steps(1, 1) + [S(2, "I", "A", A1)] + steps(2, 1) + steps(1, 3) + steps(2, 3)),
    ("OrphanDeleteDestroysLive/update-vs-insert",
     [S(1, "I", "A", A1)] + steps(1, 1) + [S(2, "U", "A", A1)] + steps(2, 1) + steps(1, 3) + steps(2, 3)),
    ("DeleteFinalizeRemovesRecreated/insert-during-delete",
     [S(1, "I", "A", A1)] + steps(1, 4) + [S(1, "D", "A")] + steps(1, 4) + [S(2, "I", "A", A1)] + steps(2, 3) + steps(1, 2) + steps(2, 1)),
    ("cas-race/two-updates", [S(1, "I", "A", A12)] + steps(1, 4) + [S(1, "U", "A", A1), S(2, "U", "A", A12)] + steps(1, 2) + steps(2, 2) + steps(1, 1) + steps(2, 1)),
    ("cas-race/insert-B-vs-grow-A", [S(1, "I", "A", A1)] + steps(1, 4) + [S(1, "U", "A", A12), S(2, "I", "B", B2)] + steps(1, 2) + steps(2, 2) + steps(2, 2) + steps(1, 2)),
    # an update's finalize step overtaken by the next update of the same database, which then dies: the previous-version
    # marker of the second update must survive the first one's finalize (it still protects c2 for A)
    ("stale-finalize/update-overtaken",
     [S(1, "I", "A", A12)] + steps(1, 4) + [S(1, "U", "A", A12)] + steps(1, 4) + [S(2, "U", "A", A1)] + steps(2, 3) + steps(1, 2)
     + [{"a": "Crash", "n": 2}, S(1, "I", "B", B2)] + steps(1, 4)),
    ("slow-writer/insert-waited-for", [S(1, "I", "A", A1)] + steps(1, 3) + [S(2, "U", "A", A12)] + steps(2, 4) + steps(1, 1) + steps(2, 6)),
    ("slow-writer/update-waited-for", [S(1, "I", "A", A1)] + steps(1, 4) + [S(1, "U", "A", A12)] + steps(1, 3) + [S(2, "L")] + steps(2, 2) + steps(1, 1) + steps(2, 3) + steps(1, 2)),
]


def load_vs_move(p1, p2, p3, pair):
    """a load on node 2 interleaved, at storage-step granularity, with two complete operations of node 1 that move a
    collection between two existing databases: node 2 starts and reads the registry after p1 events of node 1, reads
    the first config after p2, the next after p3; everything else runs afterwards"""
    prep = [S(1, "I", "A", A12)] + steps(1, 4) + [S(1, "I", "B", B3)] + steps(1, 4)
    ev = []
    for o in pair:
        ev += [o] + steps(1, 6)
    ins = {}
    for pos, what in ((p1, [S(2, "L")] + steps(2, 1)), (p2, steps(2, 1)), (p3, steps(2, 1))):
        ins.setdefault(pos, []).extend(what)
    out = list(prep)
    for i in range(len(ev) + 1):
        out += ins.get(i, [])
        if i < len(ev):
            out.append(ev[i])
    return out


MOVE_PAIRS = [("release-then-take", [S(1, "U", "A", A1), S(1, "U", "B", B23)]),
              ("delete-then-take", [S(1, "D", "A"), S(1, "U", "B", B13)])]


def load_family(ctx, quick, rnd):
    res = []
    for name, pair in MOVE_PAIRS:
        n = 2 + 6 * len(pair)
        allp = [(a, b, c) for a in range(n + 1) for b in range(a, n + 1) for c in range(b, n + 1)]
        pick = rnd.sample(allp, 8 if quick else 120)
        # always: registry and first config read before node 1 does anything, the second config after both operations
        for (a, b, c) in [(0, 0, n), (0, 7, n)] + pick:
            res.append(("load-vs-move/%s/%d-%d-%d" % (name, a, b, c), load_vs_move(a, b, c, pair)))
    return res


def to_schedule(beh):
    """TLC hist -> harness schedule (node names in order of appearance -> 1, 2)"""
    names, res = {}, []
    for h in beh["steps"]:
        n = names.setdefault(str(h["n"]), len(names) + 1)
        if h["a"] == "Start":
            o = h["o"]
            res.append(S(n, o["t"], o["db"], sorted(o["colls"])))
        elif h["a"] == "Crash":
            res.append({"a": "Crash", "n": n})
        else:
            res.append({"a": "Step", "n": n})
    return res


def interesting(sched):
    """two calls in flight at once somewhere"""
    running, seen = set(), False
    for st in sched:
        if st["a"] == "Start":
            running.add(st["n"])
            seen = seen or len(running) > 1
    return seen


def race_behaviours(ctx):
    import hashlib
    import random
    quick = ctx.quick()
    rnd = random.Random(ctx.seed)
    res, seen = [], set()

    def add(prefix, sched):
        k = json.dumps(sched, sort_keys=True)
        if k in seen:
            return
        seen.add(k)
        res.append({"id": "%s-%s" % (prefix, hashlib.sha1(k.encode()).hexdigest()[:8]), "steps": sched})
    for name, sched in DIRECTED:
        seen.add(json.dumps(sched, sort_keys=True))
        res.append({"id": name, "steps": sched})
    for name, sched in load_family(ctx, quick, rnd):
        k = json.dumps(sched, sort_keys=True)
        if k not in seen:
            seen.add(k)
            res.append({"id": name, "steps": sched})
    if not quick:
        for name, sched in derive_counterexamples(ctx):
            add("cex/" + name, sched)
    # every interleaving of two nodes racing two changes of one database
    allb = [to_schedule(b) for b in behaviours(ctx, SPEC, "MC_ConfigRegistry", "Beh_ConfigRegistry.cfg", timeout=1200)]
    allb = [b for b in allb if interesting(b)]
    uniq = {json.dumps(b, sort_keys=True): b for b in allb}
    allb = [uniq[k] for k in sorted(uniq)]
    ctx.cov["race_behaviours_exhaustive"] = len(allb)
    if quick:
        allb = rnd.sample(allb, min(len(allb), 80))
    for b in allb:
        add("beh", b)
    # seeded simulations of the larger instance (two databases, loads, one crash)
    if os.environ.get("VERIF_C15_FAST"):
        return res
    # seeded simulations of the larger instance (two databases, loads, one crash) under SimNext (one successor per action
    # kind); the action histogram of what was exported goes into the evidence
    sims = behaviours(ctx, SPEC, "MC_ConfigRegistry", "Sim_ConfigRegistry.cfg", num=25 if quick else 400, depth=90, timeout=2400)
    hist = {}
    for b in sims:
        for st in b["steps"]:
            hist[st["a"]] = hist.get(st["a"], 0) + 1
        sc = to_schedule(b)
        if interesting(sc):
            add("sim", sc)
    ctx.cov["sim_action_histogram"] = hist
    return res


def derive_counterexamples(ctx):
    """thorough: with one deviation switched off the race model must produce a counterexample (the deviation is real in
    the model); its behaviour is replayed on the real code like any other schedule."""
    res = []
    for flag in ("AllowOrphanDeleteLive", "AllowDeleteFinalizeLive"):
        cfg_src = open(os.path.join(SPEC, "MC_ConfigRegistry_race_thorough.cfg")).read()
        cfg_src = cfg_src.replace("CONSTANT %s = TRUE" % flag, "CONSTANT %s = FALSE" % flag)
        cfg_src = cfg_src.replace("CONSTANT MaxLoads = 1", "CONSTANT MaxLoads = 0").replace("CONSTANT MaxCrashes = 1", "CONSTANT MaxCrashes = 0")
        for inv in PROPERTY_INVS:
            cfg_src = cfg_src.replace("INVARIANT %s\n" % inv, "INVARIANT Cex%s\n" % inv)
        name = "Cex_%s.cfg" % flag
        # staged next to the module by tlc(): write into the spec dir is not allowed, so stage by hand
        r = tlc_with_cfg(ctx, name, cfg_src)
        cex = [json.loads(json.loads(txt)) for t, txt in r.printed if t == "CEX"]
        if not cex:
            ctx.notes.append("no model counterexample with %s = FALSE (deviation no longer in the model?)" % flag)
            continue
        best = min(cex, key=lambda c: len(c["steps"]))
        res.append(("%s/%s" % (flag[5:], best["inv"]), to_schedule(best)))
    return res


def tlc_with_cfg(ctx, name, cfg_src):
    import shutil
    import tempfile
    d = tempfile.mkdtemp(prefix="c15-cex-", dir=ctx.scratch)
    sd = os.path.join(d, "ConfigRegistry")
    shutil.copytree(SPEC, sd)
    with open(os.path.join(sd, name), "w") as f:
        f.write(cfg_src)
    return tlc(ctx, sd, "MC_ConfigRegistry", name, timeout=3000, allow_violation=True, tag="cex")


def scenarios_of(rows):
    """1-based line of each Reset -> {id, kind, start, end}"""
    res, cur = {}, None
    for i, r in enumerate(rows, 1):
        if r["a"] == "Reset":
            if cur:
                res[cur]["end"] = i - 1
            cur = i
            res[cur] = {"id": r["id"], "kind": r.get("kind", ""), "start": i, "end": len(rows)}
    return res


def summarize(rows, scen):
    kinds, results = {}, {}
    rec = set()
    cur, curop, started = None, {}, {}
    for i, r in enumerate(rows, 1):
        a = r["a"]
        if a == "Reset":
            cur = i
            kinds[r.get("kind", "")] = kinds.get(r.get("kind", ""), 0) + 1
            crashed = False
        elif a == "Crash":
            crashed = True
        elif a == "Start":
            curop[r["n"]] = r["t"]
        elif a == "St" and crashed and r["k"] in ("Tc", "Wr", "Dc") and r["ok"] and r["n"] == 2:
            prev = rows[i - 2]
            # a write by the recovering node that is not part of a plain operation on a clean state is hard to tell here;
            # count scenarios in which node 2 wrote at all after the crash
            rec.add(cur)
        elif a == "Ret":
            k = "%s:%s" % (curop.get(r["n"], "?"), r["res"])
            results[k] = results.get(k, 0) + 1
    return {"scenarios": len(scen), "by_kind": kinds, "results": results, "scenarios_with_recovery_write": len(rec),
            "storage_steps": sum(1 for r in rows if r["a"] == "St"), "crashes": sum(1 for r in rows if r["a"] == "Crash")}


def ent(e):
    if e["gen"] == -9:
        return "-"
    s = "%d-%d{%s}" % (e["gen"], e["tag"], ",".join(e["colls"]))
    if "prev" in e and e["prev"]["gen"] != -9:
        s += "/p" + ent(e["prev"])
    return s


def brief(r):
    a = r["a"]
    if a == "Start":
        return "n%d starts %s %s %s" % (r["n"], r["t"], r["db"], r["colls"])
    st = ""
    if "reg" in r:
        st = " reg[A=%s B=%s] cfg[A=%s B=%s]" % (ent(r["reg"]["A"]), ent(r["reg"]["B"]), ent(r["cfg"]["A"]), ent(r["cfg"]["B"]))
    if a == "St":
        return "n%d %s %s ok=%s%s" % (r["n"], r["k"], r["db"], r["ok"], st)
    if a == "Ret":
        o = ""
        if any(v["gen"] != -9 for v in r["out"]["cfgs"].values()):
            o = " loaded[A=%s B=%s]" % (ent(r["out"]["cfgs"]["A"]), ent(r["out"]["cfgs"]["B"]))
        return "n%d returns %s%s%s" % (r["n"], r["res"], o, st)
    return json.dumps(r)[:200]


def signature(rows, s, line):
    """identifies the failing history: the call that was running, its outcome and the documents at that point, with
    payload tags dropped and generations shifted so that the smallest one is 1 (the same root cause in a shape whose
    database has been updated once more gives the same key)."""
    r = rows[line - 1]
    n = r.get("n")
    call = None
    for q in rows[s["start"] - 1:line]:
        if q["a"] == "Start" and q["n"] == n:
            call = q
    gens = [e["gen"] for part in ("reg", "cfg") if part in r for e in r[part].values() if isinstance(e, dict) and e["gen"] >= 1]
    gens += [e["prev"]["gen"] for e in r.get("reg", {}).values() if isinstance(e, dict) and e.get("prev", {}).get("gen", -9) >= 1]
    shift = (min(gens) - 1) if gens else 0

    def e2(e):
        if e["gen"] == -9:
            return "-"
        g = e["gen"] - shift if e["gen"] >= 1 else e["gen"]
        t = "%d{%s}" % (g, ",".join(e["colls"]))
        if "prev" in e and e["prev"]["gen"] != -9:
            t += "/p" + e2(e["prev"])
        return t
    st = ""
    if "reg" in r:
        st = "reg[A=%s B=%s]cfg[A=%s B=%s]" % (e2(r["reg"]["A"]), e2(r["reg"]["B"]), e2(r["cfg"]["A"]), e2(r["cfg"]["B"]))
    c = "%s:%s{%s}" % (call["t"], call["db"], ",".join(call["colls"])) if call else "?"
    ev = r["a"] + (":" + r["res"] if r["a"] == "Ret" else (":" + r["k"] if r["a"] == "St" else ""))
    extra = ""
    if r["a"] == "Ret" and call and call["t"] == "L":
        extra = "loaded[A=%s B=%s]" % (e2(r["out"]["cfgs"]["A"]), e2(r["out"]["cfgs"]["B"]))
    return "%s->%s%s%s" % (c, ev, extra, st)


def pick_samples(rows, scen):
    res = []
    for want in ("crash-followup", "crash-load", "race"):
        for sc, s in scen.items():
            if s["kind"] == want and any(r["a"] == "St" and r["k"] == "Tc" for r in rows[s["start"]:s["end"]]) or (s["kind"] == want == "race"):
                res.append({"scenario": s["id"], "real_trace": [brief(r) for r in rows[s["start"]:s["end"]]][:40]})
                break
    return res


_AT = re.compile(r'^<<"AT", (\d+), (\d+)>>$', re.M)
_END = re.compile(r'^<<"END", (\d+), \{(.*)\}>>$', re.M)


def subset(ctx, rows, scen, scs, name):
    """write the given scenarios to a new trace file -> (path, {new sc: old sc})"""
    path = os.path.join(ctx.scratch, name)
    out, back = [], {}
    for sc in scs:
        back[len(out) + 1] = sc
        out += rows[scen[sc]["start"] - 1:scen[sc]["end"]]
    write_ndjson(path, out)
    return path, back


def run_trace_tlc(ctx, cfg, trace_path, verbose=False):
    import shutil
    import tempfile
    spec = SPEC
    if verbose:
        d = tempfile.mkdtemp(prefix="c15-verbose-", dir=ctx.scratch)
        spec = os.path.join(d, "ConfigRegistry")
        shutil.copytree(SPEC, spec)
        src = open(os.path.join(spec, cfg)).read().replace("CONSTANT Verbose = FALSE", "CONSTANT Verbose = TRUE")
        open(os.path.join(spec, cfg), "w").write(src)
    r = tlc(ctx, spec, "Trace_ConfigRegistry", cfg, env={"VERIF_TRACE": trace_path}, timeout=3000,
            extra=["-continue"], tag="Trace-" + cfg.split("_")[-1].split(".")[0], allow_violation=True)
    if r.error_text and "is violated" not in r.out:
        raise Inconclusive("TLC error validating with %s: %s\n%s" % (cfg, r.error_text, r.out[-1500:]))
    return r


def validate_scenarios(ctx, cfg, trace_path, rows, scen):
    """-> {ended: set(sc), devs: {sc: set(names)}, violations: {sc: (inv, line)}, stuck: {sc: first unconsumed line}};
    sc = line of the scenario's Reset"""
    r = run_trace_tlc(ctx, cfg, trace_path)
    out = r.out
    ended, devs = set(), {}
    for m in _END.finditer(out):
        sc = int(m.group(1))
        ended.add(sc)
        devs[sc] = set(re.findall(r'"(\w+)"', m.group(2)))
    viol = {}
    parts = re.split(r"Error: Invariant (\S+) is violated\.", out)
    for i in range(1, len(parts), 2):
        inv, body = parts[i], parts[i + 1]
        ls = re.findall(r"^/\\ l = (\d+)$", body, re.M)
        scs = re.findall(r"^/\\ sc = (\d+)$", body, re.M)
        if not ls or not scs:
            raise Inconclusive("cannot locate a reported violation of %s in the TLC output (%s)" % (inv, cfg))
        sc, line = int(scs[-1]), int(ls[-1]) - 1          # l points at the next line to consume
        if sc not in viol or line < viol[sc][1]:
            viol[sc] = (inv, line)
    stuck = {}
    missing = [sc for sc in scen if sc not in ended and sc not in viol]
    if missing:
        # locate the first line that was not consumed: the few scenarios concerned once more, with line markers
        sub, back = subset(ctx, rows, scen, sorted(missing), "c15-stuck.ndjson")
        r2 = run_trace_tlc(ctx, cfg, sub, verbose=True)
        hw = {}
        for m in _AT.finditer(r2.out):
            ssc, l = int(m.group(1)), int(m.group(2))
            hw[ssc] = max(hw.get(ssc, 0), l)
        for ssc, osc in back.items():
            stuck[osc] = scen[osc]["start"] + (hw.get(ssc, ssc + 1) - ssc)
    log("  TLC %-28s %-22s %d scenarios: %d accepted, %d violating, %d not consumed  %.1fs" % (
        "Trace_ConfigRegistry", cfg, len(scen), len(ended - set(viol)), len(viol), len(stuck), r.wall))
    return {"ended": ended, "devs": devs, "violations": viol, "stuck": stuck}
