"""C11 - writes are all-or-nothing, and success is only reported when durable (DESIGN 4.11, specs/WriteAtomic/NOTES.md).

go test (recording run of every request type + one real run per storage operation x fault kind [thorough: pairs] through the
counting / fault-injecting datastore decorator)  ->  the recorded operation lists become the programs TLC model-checks
(every program x every fault placement; terminal states of the transcribed protocol that break a predicate = candidates)  ->
pass P: TLC evaluates AllOrNothing / NoSwallow on the recorded REAL before/after state of every run  ->  pass C: TLC checks
every recorded operation against the protocol (order, phase structure, reply) and that no key class changed without a
recorded write.

Local machinery (not in vlib/core):
 * run-wise trace validation: one TLC run judges all recorded requests; the verdict of each run is read from PrintT tuples
   (JUDGE / CONF) that TLC prints when it evaluates the predicates - a halting invariant would hide every later run;
 * candidate matching: a model candidate for a single fault placement must be confirmed by pass P on the real run of the
   same placement, otherwise the transcription is wrong about the code (INCONCLUSIVE);
 * known-finding keys may end in '*' (prefix pattern) - see match_key()."""
import json
import os
from vlib.core import *
from vlib.core import _tla_str_to_py

SPEC = os.path.join(VERIF, "specs", "WriteAtomic")
HARNESS = ["harness/db/c11_writeatomic_test.go"]
VISIBLE = ("doc", "att", "revbody", "revbackup", "user", "role", "useremail", "session")


def run(ctx):
    quick = ctx.quick()
    # ---- 1. real runs: recording + every (operation, fault kind) [+ pairs]
    tr = os.path.join(ctx.scratch, "c11.ndjson")
    env = {"VERIF_TRACE_OUT": tr}
    if os.environ.get("VERIF_C11_ONLY"):
        env["VERIF_C11_ONLY"] = os.environ["VERIF_C11_ONLY"]
    if not quick:
        env["VERIF_C11_PAIR_STRIDE"] = os.environ.get("VERIF_C11_PAIR_STRIDE", "1")
    if os.environ.get("VERIF_C11_TRACE"):      # development aid: judge an already recorded trace
        tr = os.environ["VERIF_C11_TRACE"]
        ctx.notes.append("VERIF_C11_TRACE: harness not run")
    else:
        rc, out = go_test(ctx, "db", "^TestVerif_C11_WriteAtomic$", HARNESS, env=env, timeout=3000)
        if rc != 0 or not os.path.exists(tr):
            raise Inconclusive("C11 harness failed:\n" + harness_failure(out))
    rows = read_ndjson(tr)
    runs = runs_of(rows)
    if not runs:
        raise Inconclusive("C11 harness recorded no run")
    ctx.cov["evaluations"] += len(runs)

    # ---- 2. the recorded operation lists are the programs of the model
    progs = programs(runs)
    pf = os.path.join(ctx.scratch, "c11-programs.ndjson")
    write_ndjson(pf, progs)
    r = tlc(ctx, SPEC, "MC_WriteAtomic", "MC_WriteAtomic.cfg" if quick else "MC_WriteAtomic_thorough.cfg",
            env={"VERIF_PROGRAMS": pf}, timeout=3000, coverage=False, allow_violation=True)
    if r.inv_violated or r.error_text or r.distinct == 0:
        raise Inconclusive("model of the recorded programs: %s\n%s" % (r.inv_violated or r.error_text or "no states", r.out[-1500:]))
    ctx.cov["states"] += r.distinct
    ctx.cov["transitions"] += r.generated
    ctx.cov["exhaustive"] = True
    log("  TLC %-28s %-22s %9d distinct %10d generated depth %3d  %.1fs" % ("MC_WriteAtomic", "programs=%d" % len(progs), r.distinct, r.generated, r.depth, r.wall))
    cands = set()
    for t, txt in r.printed:
        if t == "CAND":
            c = json.loads(_tla_str_to_py(txt))
            cands.add((c["type"], tuple((int(f[0]), f[1]) for f in c["faults"]), c["inv"]))

    # ---- 3. pass P: the property on the real before/after state of every run
    vp = validate(ctx, SPEC, "Trace_WriteAtomic", "Trace_WriteAtomic_P.cfg", tr, timeout=3000)
    if vp.inv or not vp.accepted:
        raise Inconclusive("pass P did not accept the trace shape (line %s of %s, %s)\n%s" % (vp.line, vp.total, vp.inv, vp.out[-1500:]))
    judge = {}
    for t, txt in parse_printed(vp.out):
        if t == "JUDGE":
            j = json.loads(_tla_str_to_py(txt))
            judge[j["run"]] = j
    missing = [rid for rid in runs if rid not in judge]
    if missing:
        raise Inconclusive("pass P judged %d of %d runs (first missing: run %s)" % (len(judge), len(runs), missing[0]))
    violating = {}
    for rid, j in judge.items():
        for inv, ok in (("AllOrNothing", j["aon"]), ("NoSwallow", j["nsw"])):
            if not ok:
                violating.setdefault(rid, []).append(inv)
    real, keys = set(), []
    single_keys = {}     # (type, invariant, effect) -> [(faulted op name, kind, index, key)] of single-fault runs
    for rid, invs in sorted(violating.items(), key=lambda kv: (len(runs[kv[0]]["faults"]), kv[0])):
        ru = runs[rid]
        for inv in invs:
            real.add((ru["type"], tuple(ru["faults"]), inv))
            key = key_of(ru, inv, judge[rid])
            eff = effect_of(ru, inv, judge[rid])
            names = fault_names(ru)
            if len(ru["faults"]) == 1:
                single_keys.setdefault((ru["type"], inv, eff), []).append((names[0], ru["faults"][0][0], key))
            elif len(ru["faults"]) == 2:
                # a pair that shows exactly the effect one of its two faults shows alone is the same failure: same key
                for nm, idx, k1 in single_keys.get((ru["type"], inv, eff), []):
                    if (nm == names[0] and idx == ru["faults"][0][0]) or nm == names[1]:
                        key = k1
                        break
            keys.append(key)
            report_violation(ctx, match_key(ctx, key), describe(ru, inv, judge[rid]), replay_of(ru, inv))

    # candidates of the model that the real code does not confirm: the transcription is wrong about the code
    single = lambda c: len(c[1]) <= 1
    have = {(ru["type"], tuple(ru["faults"])) for ru in runs.values()}
    unconfirmed = sorted(c for c in cands if single(c) and (c[0], c[1]) in have and c not in real)
    confirmed = sorted(c for c in cands if c in real)
    beyond = sorted(c for c in real if c not in cands)
    ctx.cov["c11"] = {
        "request_types": sorted({ru["type"] for ru in runs.values()}),
        "runs": len(runs), "recording_runs": sum(1 for ru in runs.values() if ru["rec"]),
        "single_fault_runs": sum(1 for ru in runs.values() if len(ru["faults"]) == 1),
        "pair_fault_runs": sum(1 for ru in runs.values() if len(ru["faults"]) == 2),
        "programs": {p["name"]: ["%s(%s)" % (o[0], o[1]) for o in p["ops"]] for p in progs},
        "model_candidates": len(cands), "candidates_confirmed_on_real_code": len(confirmed),
        "real_violations_beyond_the_transcription": ["%s %s %s" % (c[0], list(c[1]), c[2]) for c in beyond][:20],
        "pair_candidates_not_executed_or_unmatched": sum(1 for c in cands if not single(c) and c not in real),
        "runs_violating": len(violating), "violation_keys": sorted(set(keys)),
        # attribution aid (C07's subject): a sequence given back by an unused-sequence document although a stored document / principal carries it
        "runs_releasing_a_sequence_in_use": ["%s %s" % (ru["type"], ru["faults"]) for ru in runs.values()
                                             if set(ru["end"]["given"]) & set(ru["end"].get("used") or [])][:10],
    }
    if unconfirmed:
        msg = "model candidate(s) not reproduced on the real code (the transcription is wrong about the code): %s" % unconfirmed[:5]
        if not ctx.violations:
            raise Inconclusive(msg)
        ctx.notes.append(msg + " - not decisive here: the real code broke the property in other runs (it is not the code that was transcribed)")

    # ---- 4. pass C: operation order / phase structure / reply against the protocol; completeness of the decorator
    vc = validate(ctx, SPEC, "Trace_WriteAtomic", "Trace_WriteAtomic_C.cfg", tr, timeout=3000, tag="passC")
    if vc.inv or not vc.accepted:
        raise Inconclusive("pass C could not consume the trace (line %s of %s, %s)\n%s" % (vc.line, vc.total, vc.inv, vc.out[-1500:]))
    conf = {}
    for t, txt in parse_printed(vc.out):
        if t == "CONF":
            j = json.loads(_tla_str_to_py(txt))
            prev = conf.get(j["run"])
            conf[j["run"]] = {"conf": j["conf"] or bool(prev and prev["conf"]), "seen": j["seen"] and (prev is None or prev["seen"])}
    bad = [rid for rid, c in sorted(conf.items()) if not c["conf"] and rid not in violating]
    unseen = [rid for rid, c in sorted(conf.items()) if not c["seen"]]
    if unseen:
        ru = runs[unseen[0]]
        raise Inconclusive("a key class changed without a recorded write in run %s (%s %s): the decorator is being bypassed: %s" % (
            unseen[0], ru["type"], ru["faults"], ru["end"].get("changed")))
    if bad:
        ctx.cov["nonconformance"] += len(bad)
        for rid in bad[:5]:
            ru = runs[rid]
            ctx.notes.append("pass C rejected run %s (%s faults %s reply %s): %s" % (rid, ru["type"], ru["faults"], ru["end"]["reply"], fmt_ops(ru)))
    ctx.cov["traces_validated_against_impl"] += sum(1 for rid, c in conf.items() if c["conf"])
    ctx.cov["c11"]["runs_conforming"] = sum(1 for c in conf.values() if c["conf"])
    ctx.cov["c11"]["runs_nonconforming_with_property_violation"] = sum(1 for rid, c in conf.items() if not c["conf"] and rid in violating)

    # ---- evidence
    nontriv = {(ru["type"], tuple(ru["faults"])) for ru in runs.values()
               if ru["faults"] and any(o["r"] in ("Err", "Cas", "TN", "TA") for o in ru["ops"])}
    ctx.cov["distinct_nontrivial"] += len(nontriv)
    for ru in pick_samples(runs):
        ctx.sample({"type": ru["type"], "faults": ru["faults"], "ops": fmt_ops(ru), "reply": ru["end"]["reply"],
                    "changed": ru["end"].get("changed"), "took": ru["end"]["took"], "given": ru["end"]["given"]})
    ctx.cov["rule"] = ("run = one request type (document create / update / update granting access and a role / update adding, dropping "
                       "[thorough: replacing] an attachment / conflicting push that wins, that loses / tombstone of the winning, of the losing branch / "
                       "delete; 13 rejection kinds; user create, update, delete; role create, delete, purge; session create, delete [thorough: one-time]; "
                       "resync regenerating a user's / a role's sequence; real CAS races: principal update vs. update, resync vs. update) "
                       "x one storage operation of its recorded operation list x one fault kind that applies to it (Err, CAS mismatch, timeout not "
                       "applied, timeout applied) [thorough: x a second fault at every later operation of the faulted run]; "
                       "non-trivial = the armed fault was actually hit by the real request")
    ctx.assumptions += [
        "Rosmar is the store; a fault is injected at the DataStore interface (error returned without / after applying the operation); "
        "a CAS mismatch of a read-modify-write is the store's own retry request (no concurrent writer changes the content)",
        "sequence batches of one (MaxSequenceIncrFrequency = 0), so that every reserved sequence is one increment of the counter",
        "cross-cluster versioning reported as disabled, so that the post-commit removal of obsolete attachments exists",
        "the request always runs to its reply (process death between operations is C15's subject)",
        "a failed give-back write (unused-sequence document) waives the give-back obligation of that run",
    ]


# --------------------------------------------------------------------------------------------
def runs_of(rows):
    runs, cur = {}, None
    for i, r in enumerate(rows):
        if r["a"] == "Begin":
            cur = {"id": r["run"], "type": r["type"], "path": r["path"], "primary": r["primary"], "clean": r["clean"], "rec": r["rec"],
                   "nofault": r.get("nofault", False),
                   "faults": [(int(f[0]), f[1]) for f in r["faults"]], "prog": r["prog"], "ops": [], "line": i + 1}
            runs[r["run"]] = cur
        elif r["a"] == "Op":
            cur["ops"].append(r)
        elif r["a"] == "End":
            cur["end"] = r
    return {k: v for k, v in runs.items() if "end" in v}


def programs(runs):
    seen, out = set(), []
    for rid in sorted(runs):
        ru = runs[rid]
        if ru["rec"] and ru["type"] not in seen:
            seen.add(ru["type"])
            out.append({"name": ru["type"], "path": ru["path"], "primary": ru["primary"], "clean": ru["end"]["reply"], "ops": ru["prog"],
                        "faultable": not ru["nofault"]})
    return out


def fmt_ops(ru):
    return " ".join("%d:%s(%s)=%s" % (o["i"], o["m"], o["c"], o["r"]) for o in ru["ops"])


def effect_of(ru, inv, j):
    e = ru["end"]
    if inv == "NoSwallow":
        parts = list(e.get("rblost") or [])
        if not j["committed"]:
            parts.insert(0, "notcommitted")
        return "lost=" + "+".join(parts or ["?"])
    res = sorted(c for c in (e.get("changed") or {}) if c in VISIBLE)
    leak = set(range(1, e["took"] + 1)) - set(e["given"]) - set(e.get("used") or [])
    leaked = bool(leak) and not j["seqback"]
    # the old-revision backup (TTL-bound copy of a revision that still exists) accompanies every failed update; it is named
    # in the key only when it is the sole effect, so that keys of other effects do not depend on it
    core_res = [c for c in res if c != "revbackup"]
    parts = []
    if core_res:
        parts.append("residue=" + "+".join(core_res))
    if leaked:
        parts.append("seqleak")
    if e.get("effdiff") and not core_res:
        parts.append("access")
    if not parts and res:
        parts.append("residue=" + "+".join(res))
    if not parts:
        parts.append("seqleak" if not j["seqback"] else "?")
    return "+".join(parts)


def fault_names(ru):
    byi = {o["i"]: o for o in ru["ops"]}
    return ["%s(%s):%s" % (byi[i]["m"], byi[i]["c"], k) if i in byi else "unreached:%s" % k for i, k in ru["faults"]]


def key_of(ru, inv, j):
    """<invariant>:<effect>:<request type>:<faulted operation(s)> - effect first, so that a prefix pattern can name a root cause."""
    byi = {o["i"]: o for o in ru["ops"]}
    fl = []
    for i, k in ru["faults"]:
        o = byi.get(i)
        fl.append("op%d=%s(%s):%s" % (i, o["m"], o["c"], k) if o else "op%d=unreached:%s" % (i, k))
    return "%s:%s:%s:%s" % (inv, effect_of(ru, inv, j), ru["type"], "+".join(fl) or "nofault")


def match_key(ctx, key):
    """known_findings.json matches keys exactly; locally an entry whose key ends in '*' is a prefix pattern: the failure is then
    reported under the pattern (so that core.report_violation finds it)."""
    best = None
    for k in load_known():
        kk = k.get("key", "")
        if k.get("status") == "finding" and k.get("property") == ctx.pid:
            if kk == key:
                return key
            if kk.endswith("*") and key.startswith(kk[:-1]) and (best is None or len(kk) > len(best)):
                best = kk
    return best or key


def describe(ru, inv, j):
    e = ru["end"]
    if inv == "AllOrNothing":
        what = "changed %s; counter +%d, given back %s, in use %s; access %s" % (
            {c: v for c, v in (e.get("changed") or {}).items() if c in VISIBLE} or "nothing", e["took"], e["given"], e.get("used"), e.get("effdiff") or "unchanged")
    else:
        what = "commit applied: %s; read-back: %s" % (j["committed"], e.get("rbdiff") or "ok")
    return "real request %s with fault(s) %s replied %s (%s) but %s breaks %s [ops: %s]" % (
        ru["type"], ru["faults"] or "none", e["reply"], e.get("err") or "-", what, inv, fmt_ops(ru))


def replay_of(ru, inv):
    return {"request_type": ru["type"], "faults": ru["faults"], "invariant": inv, "program": ru["prog"],
            "operations": [{k: o[k] for k in ("i", "m", "c", "r", "key")} for o in ru["ops"]], "end": ru["end"],
            "how": "VERIF_C11_ONLY=%s bin/vcheck C11  (harness/db/c11_writeatomic_test.go arms fault kind at the listed operation index)" % ru["type"]}


def pick_samples(runs):
    res, seen = [], set()
    for rid in sorted(runs):
        ru = runs[rid]
        k = None
        if ru["faults"] and ru["end"]["reply"] == "failed" and any(o["c"] == "unusedseq" for o in ru["ops"]):
            k = "released"
        elif ru["faults"] and any(o["r"] == "Cas" for o in ru["ops"]) and ru["end"]["reply"] == "ok":
            k = "retried"
        elif not ru["faults"] and ru["end"]["reply"] == "rejected":
            k = "rejected"
        if k and k not in seen:
            seen.add(k)
            res.append(ru)
    return res
