"""C20 - sequence tokens round-trip and order consistently (DESIGN 4.20)."""
import os
from vlib.core import *

SPEC = os.path.join(VERIF, "specs", "SeqToken")


def run(ctx):
    # 1. the design: order laws + round trip on the transcription, whole cube
    model_check(ctx, SPEC, "MC_SeqToken", "MC_SeqToken.cfg" if ctx.quick() else "MC_SeqToken6.cfg", timeout=1800)
    ctx.cov["exhaustive"] = True
    # 2. the code: tables of the real functions over the cube, validated by TLC
    seeds = [ctx.seed] if ctx.quick() else [ctx.seed, ctx.seed + 1, ctx.seed + 2, ctx.seed + 3]
    for sd in seeds:
        tr = os.path.join(ctx.scratch, "c20-%d.ndjson" % sd)
        rc, out = go_test(ctx, "db", "^TestVerif_C20_SeqToken$", ["harness/db/c20_seqtoken_test.go"],
                          env={"VERIF_TRACE_OUT": tr, "VERIF_N": 4, "VERIF_SEED": sd})
        if rc != 0 or not os.path.exists(tr):
            raise Inconclusive("C20 harness failed:\n" + harness_failure(out))
        rows = read_ndjson(tr)
        ntok = sum(1 for r in rows if r["k"] == "tok")
        ctx.cov["evaluations"] += ntok * ntok + ntok + sum(1 for r in rows if r["k"] in ("syn", "str"))
        ctx.cov["distinct_nontrivial"] += sum(1 for r in rows if r["k"] == "tok" and (r["a"][0] or r["a"][1]))
        ctx.sample({"values": rows[0]["vals"], "token": rows[40]["a"], "rendered": rows[40]["str"], "parsed": rows[40]["parsed"]})
        vp = validate(ctx, SPEC, "Trace_SeqToken", "Trace_SeqToken_P.cfg", tr)
        if vp.inv:
            st = vp.state or {}
            key = "%s@k=%s" % (vp.inv, st.get("k", "?"))
            report_violation(ctx, key, "real SequenceID functions break %s at token %s (values %s)" % (vp.inv, st.get("k"), rows[0]["vals"]),
                             {"trace_head": rows[:1], "invariant": vp.inv, "state": st.get("_txt"), "seed": sd})
            continue
        vc = validate(ctx, SPEC, "Trace_SeqToken", "Trace_SeqToken_C.cfg", tr)
        if vc.inv:
            ctx.cov["nonconformance"] += 1
            ctx.notes.append("pass C: real functions differ from the transcription (%s at %s)" % (vc.inv, (vc.state or {}).get("k")))
        else:
            ctx.cov["traces_validated_against_impl"] += 1
    ctx.cov["rule"] = ("every token of the cube [l,t,s in 0..4] with ranks bound to seeded 64-bit values; all pairs (real Before table) and, inside TLC, "
                       "all triples; non-trivial = compound token (l or t non-zero)")
    ctx.assumptions += ["uint64 values enter only through <, <=, =, zero-test: rank compression preserves the property",
                        "the emitted domain is the set of tokens equal to the parse of their own rendering"]
