"""C13 - a pulling client's copy always matches the user's current access (DESIGN 4.13)."""
import json
import os
import random
from vlib.core import *

SPEC = os.path.join(VERIF, "specs", "Revocation")
HARNESS = ["harness/db/c13_revocation_test.go"]
PROPERTY_INVS = ("ReplicaExact", "NoSilentDrop", "RevokedUnfetchable", "NoSpuriousRevoke")
CHUNK = 1200          # behaviours per go test / TLC validation run
STATE_KEYS = ("pr", "docs")
QUERY_PAGE = 2        # channel query page of the test database (CacheOptions.ChannelQueryLimit): the gateway's own pagination loops
                      # in changesFeed / buildRevokedFeed run in every behaviour, not only under a client limit

MC_QUICK = ["MC_Revocation.cfg", "MC_Revocation_roles.cfg", "MC_Revocation_grants.cfg", "MC_Revocation_pages.cfg"]
MC_THOROUGH = ["MC_Revocation_thorough.cfg", "MC_Revocation_roles_thorough.cfg", "MC_Revocation_grants_thorough.cfg",
               "MC_Revocation_pages_thorough.cfg"]


def run(ctx):
    q = ctx.quick()
    rnd = random.Random(ctx.seed)
    # 1. the transcription of the implemented algorithm (grant history, revoked channels, revoked feed, back-fill, paging,
    #    token rendering) against the property, exhaustively within small bounds - modulo the named deviations under which the
    #    algorithm itself does not meet the statement (specs/Revocation/NOTES.md).  The same runs export
    #      CAND  behaviours of the model that break the FULL statement: candidates only - each is replayed on the real database
    #            and judged by pass P on the real trace
    #      BEH   one behaviour per distinct model state whose last step completed a pull that delivered a revoked / removed /
    #            deleted row or a grant back-fill row
    cands, nontriv = [], []
    for cfg in (MC_QUICK if q else MC_THOROUGH):
        # (TLC's -coverage costs too much on the multi-million-state instances: the vacuity guard runs on a quick instance below)
        r = model_check(ctx, SPEC, "MC_Revocation", cfg, timeout=12000, coverage=False)
        c, b = printed(r, "CAND"), printed(r, "BEH")
        ctx.cov["model_candidates"] = ctx.cov.get("model_candidates", 0) + len(c)
        ctx.cov["model_nontrivial_states"] = ctx.cov.get("model_nontrivial_states", 0) + len(b)
        c.sort(key=lambda x: (len(x), json.dumps(x, sort_keys=True)))
        cands += [("cand", x) for x in c[:6 if q else 40]]
        rnd.shuffle(b)
        nontriv += [("mc", x) for x in b[:90 if q else 600]]
    if not q:
        model_check(ctx, SPEC, "MC_Revocation", "MC_Revocation_roles.cfg", timeout=6000, coverage=True, count=False)
    # the directed family "paged revocation" (MC_Revocation.tla PagedSpec): >= 3 documents in the revoked channel, one possibly also
    # in a kept channel, access through a role / directly / both, every order of role-loses-channel / user-loses-role /
    # user-loses-channel / role-deleted, limits {0,1,2}, every page boundary.  Model-checked as a whole; ALL its behaviours
    # are exported (quick: a seeded sample is replayed, thorough: all)
    r = model_check(ctx, SPEC, "MC_Revocation", "MC_Revocation_paged.cfg", timeout=3000, coverage=False)
    paged = printed(r, "BEH")
    ctx.cov["paged_family"] = len(paged)
    if len(paged) < 300:
        raise Inconclusive("the paged-revocation family shrank to %d behaviours" % len(paged))
    rnd.shuffle(paged)
    paged = paged[:300 if q else len(paged)]
    # the directed family "paged grant" (GrantSpec): a second access change (another channel granted, swap, revoke) lands between two
    # pages of a grant back-fill, every page boundary, limits {1,2}; all of it is replayed
    r = model_check(ctx, SPEC, "MC_Revocation", "MC_Revocation_pgrant.cfg", timeout=3000, coverage=False)
    pgrant = printed(r, "BEH")
    ctx.cov["paged_grant_family"] = len(pgrant)
    if len(pgrant) < 100:
        raise Inconclusive("the paged-grant family shrank to %d behaviours" % len(pgrant))
    # the paged-revocation family under the DEFAULT collection's rule for a role created again after deletion (it keeps its channel
    # history: KeepRoleHist = TRUE, the named deviation recreated-role-loses-history does not exist there); its behaviours with a role
    # deletion are replayed on a default-collection database (quick: all with a re-creation + a seeded sample of the others)
    r = model_check(ctx, SPEC, "MC_Revocation", "MC_Revocation_paged_dc.cfg", timeout=3000, coverage=False)
    dcall = [b for b in printed(r, "BEH") if any(st["a"] == "RoleDel" for st in b)]
    recreated = lambda b: any(st["a"] == "AdminPut" and st["p"].startswith("r") for st in b[[x["a"] for x in b].index("RoleDel"):])
    dc = [b for b in dcall if recreated(b)]
    rest = [b for b in dcall if not recreated(b)]
    rnd.shuffle(rest)
    dc += rest[:50 if q else len(rest)]
    if len(dc) < 60:
        raise Inconclusive("the default-collection family shrank to %d behaviours" % len(dc))
    ctx.cov["exhaustive"] = True

    # 2. more behaviours, generated concurrently: all action sequences of a tiny instance (seeded sample) and seeded TLC
    #    simulations of the full universe (SimNext: one successor per action kind)
    gen = parallel([
        lambda: export(ctx, "Beh_Revocation.cfg", "BEH", workers=2),
        lambda: simulate(ctx, "Sim_Revocation.cfg", 40 if q else 400, 14),
        lambda: simulate(ctx, "Sim2_Revocation.cfg", 60 if q else 600, 12),
    ])
    small = gen[0]
    rnd.shuffle(small)
    small = small[:40 if q else 400]
    sim = pick_sim(gen[1], rnd, 100 if q else 1000)
    sim2 = pick_sim(gen[2], rnd, 150 if q else 1200)
    jobs = [{"id": i, "kind": k, "steps": b} for i, (k, b) in enumerate(
        cands + nontriv + [("paged", b) for b in paged] + [("pgrant", b) for b in pgrant] + [("beh", b) for b in small] + [("sim", b) for b in sim] + [("sim2", b) for b in sim2])]
    for k in range(0, len(jobs), CHUNK):
        replay_and_validate(ctx, jobs[k:k + CHUNK], "c%d" % (k // CHUNK))
    dcjobs = [{"id": len(jobs) + i, "kind": "paged-dc", "steps": b} for i, b in enumerate(dc)]
    replay_and_validate(ctx, dcjobs, "dc", dc=True)

    ctx.cov["rule"] = ("behaviours = model candidates (shortest first) + a seeded sample of the model checker's distinct states that end in a "
                       "completed pull with a revoked / removed / deleted / back-fill row (4 bounded instances: admin grants + document moves; "
                       "one role incl. deletion and re-creation; granting documents; paging with other actions between pages) + a seeded sample "
                       "of ALL action sequences of length 4 over {u1, d1, A, B} + the directed, exhaustively generated family 'paged revocation' "
                       "(624 behaviours: 3 documents in the revoked channel, one possibly also in a kept channel, access through a role / "
                       "directly / both, every order of role-loses-channel / user-loses-role / user-loses-channel / role-deleted, limits {0,1,2}, "
                       "every page boundary; quick replays a seeded 300, thorough all; its role-deletion part again on a default-collection "
                       "database) + the directed family 'paged grant' (132 behaviours: a second grant / swap / revoke between two pages of a grant "
                       "back-fill, every page boundary, all replayed) + seeded TLC simulations: length 12 over 2 users / 2 roles / "
                       "3 channels / 3 documents (admin grants to users and roles, role assignment by admin and by sync function, role deletion "
                       "and re-creation, channel grants by granting documents, document moves / deletes / resurrection, principal reloads at "
                       "arbitrary points, pulls with limits 0/1/2 and other actions between the pages of a pull) and length 10 over 1 user / "
                       "1 role / 2 channels / 2 documents; every behaviour is replayed on one real database, the pull client runs in the "
                       "harness; non-trivial = a behaviour in which a pull delivered a revoked / removed / deleted row or a grant back-fill row")
    ctx.assumptions += [
        "ground truth = admin inputs + the channels / grants each revision was written with + the REAL current revision; the gateway's own "
        "access computation is only cross-checked (pass C: AccessMatches, StoredMatchesInputs)",
        "every action is atomic: no principal recomputation overlaps a write (that schedule is C03's recorded finding), requests run when no "
        "write is in flight and the change cache has caught up (WaitForPendingChanges after every step)",
        "the binding loads the puller and every role before a page, so role documents are recomputed at page time rather than lazily inside the "
        "request; extra reloads at arbitrary points are explored (Load)",
        "grant-history pruning (ClientPartitionWindow = 30 days, max entries per grant) and document channel-history compaction "
        "(5 entries per channel) are outside the bounds; one named collection, and a default-collection database for the role "
        "deletion / re-creation family (history of a re-created role is kept for the default collection only)",
        "the client resumes from the STRING form of the last sequence received (also that of the _user pseudo-row); LowSeq is always 0 "
        "(no skipped sequences); no star channel, no conflicting revisions, the pulling user is never deleted",
        "Rosmar + views stand for the channel / access queries; the test database pages channel queries by 2 (ChannelQueryLimit)",
    ]


def printed(r, tagname):
    res = set()
    for t, txt in r.printed:
        if t == tagname:
            try:
                res.add(json.loads(txt))
            except ValueError:      # a line torn by concurrent workers
                pass
    return [json.loads(x) for x in sorted(res)]


def parallel(thunks):
    import threading
    res, errs = [None] * len(thunks), []

    def work(i):
        try:
            res[i] = thunks[i]()
        except BaseException as ex:   # noqa: re-raised below
            errs.append(ex)
    ts = [threading.Thread(target=work, args=(i,)) for i in range(len(thunks))]
    for t in ts:
        t.start()
    for t in ts:
        t.join()
    if errs:
        raise errs[0]
    return res


def export(ctx, cfg, tagname, workers=4):
    """exhaustive run printing behaviours through an always-true invariant; result sorted (deterministic).
    (own staging tag: several generators run concurrently)"""
    r = tlc(ctx, SPEC, "MC_Revocation", cfg, timeout=6000, workers=workers, tag="gen-" + cfg)
    if r.inv_violated:
        raise Inconclusive("behaviour generation %s violated %s" % (cfg, r.inv_violated))
    res = printed(r, tagname)
    if not res:
        raise Inconclusive("no behaviours exported by %s\n%s" % (cfg, r.out[-800:]))
    log("  TLC %-28s %-30s exported %d distinct behaviours  %.1fs (%d states)" % ("MC_Revocation", cfg, len(res), r.wall, r.distinct))
    return res


def simulate(ctx, cfg, num, depth):
    """like core.behaviours(num=...), with its own staging tag"""
    r = tlc(ctx, SPEC, "MC_Revocation", cfg, mode="simulate", simulate=num, depth=depth, timeout=6000, tag="gen-" + cfg)
    if r.inv_violated:
        raise Inconclusive("behaviour generation %s violated %s" % (cfg, r.inv_violated))
    res = printed(r, "BEH")
    if not res:
        raise Inconclusive("no behaviours exported by %s\n%s" % (cfg, r.out[-800:]))
    log("  TLC %-28s %-30s exported %d distinct behaviours  %.1fs" % ("MC_Revocation", cfg, len(res), r.wall))
    return res


def pick_sim(sim, rnd, cap):
    """TLC -simulate evaluates the export on every successor of the last state: keep two per common prefix."""
    groups = {}
    for b in sim:
        groups.setdefault(json.dumps(b[:-1], sort_keys=True), []).append(b)
    res = []
    for k in sorted(groups):
        g = groups[k]
        rnd.shuffle(g)
        res += g[:2]
    rnd.shuffle(res)
    return res[:cap]


def run_harness(ctx, jobs, tag, dc=False):
    bf = os.path.join(ctx.scratch, "c13-%s-beh.json" % tag)
    tr = os.path.join(ctx.scratch, "c13-%s.ndjson" % tag)
    write_json(bf, [{"id": j["id"], "steps": j["steps"]} for j in jobs])
    env = {"VERIF_BEH": bf, "VERIF_TRACE_OUT": tr, "VERIF_C13_QLIMIT": QUERY_PAGE}
    if dc:
        env["SG_TEST_USE_DEFAULT_COLLECTION"] = "true"      # scope / collection _default
    for attempt in (1, 2):      # an infrastructure failure (change cache stall under load, ...) is retried once, then inconclusive
        rc, out = go_test(ctx, "db", "^TestVerif_C13_Revocation$", HARNESS, env=env, timeout=3600)
        if rc == 0 and os.path.exists(tr):
            return tr, read_ndjson(tr)
        ctx.notes.append("harness run %s attempt %d failed: %s" % (tag, attempt, harness_failure(out)[:400]))
    raise Inconclusive("C13 harness failed twice (%s):\n%s" % (tag, harness_failure(out)))


def split_rows(rows):
    res, cur = {}, None
    for r in rows:
        if r["a"] == "Reset":
            cur = r["beh"]
            res[cur] = []
        res[cur].append(r)
    return res


def slim(rs):
    return [{k: v for k, v in r.items() if k not in STATE_KEYS} for r in rs]


def stats(ctx, per, jobs):
    c = ctx.cov.setdefault("observed", {"pages": 0, "completed_pulls": 0, "multi_page_pulls": 0, "rows": 0, "revoked_rows": 0,
                                        "removed_rows": 0, "deleted_rows": 0, "backfill_rows": 0, "refused_fetches": 0, "probes": 0})
    nontriv = 0
    for j in jobs:
        hit, pages_in_pull = False, 0
        for r in per[j["id"]]:
            if r["a"] != "Page":
                continue
            c["pages"] += 1
            pages_in_pull += 1
            if r["done"]:
                c["completed_pulls"] += 1
                c["multi_page_pulls"] += 1 if pages_in_pull > 1 else 0
                pages_in_pull = 0
            for row in r["rows"]:
                if row["id"] == "_user":
                    continue
                c["rows"] += 1
                c["revoked_rows"] += 1 if row["rv"] else 0
                c["removed_rows"] += 1 if row["ar"] else 0
                c["deleted_rows"] += 1 if row["del"] else 0
                c["backfill_rows"] += 1 if row["tok"][1] > 0 and not row["rv"] else 0
                hit = hit or row["rv"] or row["ar"] or row["del"] or row["tok"][1] > 0
            c["refused_fetches"] += sum(1 for f in r["fetches"] if not f["ok"])
            c["probes"] += len(r["probes"])
        nontriv += 1 if hit else 0
    ctx.cov["distinct_nontrivial"] += nontriv


def locate(rows, line):
    """trace row `line` (1-based) -> (behaviour id, row)"""
    bid = None
    for r in rows[:line]:
        if r["a"] == "Reset":
            bid = r["beh"]
    return bid, (rows[line - 1] if 0 < line <= len(rows) else {})


def enumerate_violations(ctx, tr, tag, sfx=""):
    """every violating position of the trace, with TLC's diagnosis (which predicate, which documents, named deviation)"""
    r = tlc(ctx, SPEC, "Trace_Revocation", "Trace_Revocation_PA%s.cfg" % sfx, workers=1, env={"VERIF_TRACE": tr}, timeout=1800, dfs=True,
            tag=tag + "-PA", allow_violation=True)
    if r.error_text:
        raise Inconclusive("TLC error enumerating violations of %s: %s" % (tr, r.error_text))
    return [json.loads(json.loads(txt)) for t, txt in r.printed if t == "VIOL"]


DEVIATIONS = {
    "backfill-masks-removal": "BackfillMasksRemoval: a channel the user lost was granted again after the client's position; db/changes.go changesFeed "
                              "drops removal/deletion rows inside the grant back-fill (TriggeredBy > 0) and the channel is not revoked because it is "
                              "accessible again, so a document that left the channel meanwhile is never announced",
    "recreated-role-loses-history": "RecreatedRoleLosesHistory: a deleted role was created again; auth.NewRoleNoChannels carries over only the default "
                                    "collection's channel history, the named collection's history (written by DeleteRole) is dropped, so "
                                    "RevokedCollectionChannels no longer reports the channels the role's deletion took away",
    "role-created-after-grant": "RoleCreatedAfterGrant: a role that granting documents (and a role() membership) named before it existed was created "
                                "(or created again); its computed channels keep the granting documents' old sequences, which lie before the client's "
                                "position, so nothing is back-filled (or revoked documents are not restored) when the role comes into existence",
    "revocation-token-jumps-rows": "RevocationTokenJumpsRows: a revocation row for a document changed after the revocation carries Seq >= TriggeredBy; "
                                   "it is merged at TriggeredBy but SequenceID.String() renders it as plain Seq, so a page (limit) ending with it "
                                   "makes the client resume behind rows with sequences between TriggeredBy and Seq that were not sent yet",
    "deleted-role-periods-ignored": "DeletedRolePeriodsIgnored: auth/user.go CollectionChannelGrantedPeriods considers current (not deleted) roles and "
                                    "the role history; a deleted role the user still names is in neither, so for a document changed after the "
                                    "role's deletion wasDocInChannelPriorToRevocation finds no granted period and the revocation is not sent",
}


def report(ctx, v, rows, jobs, per):
    bid, row = locate(rows, v["line"])
    job = next((j for j in jobs if j["id"] == bid), None)
    steps = json.dumps(job["steps"] if job else None, sort_keys=True)
    page = {k: row.get(k) for k in ("lim", "since0", "rows", "fetches", "probes", "replica", "sincestr", "done")}
    found = []   # (invariant, document or None, what)
    for d in (v["bad"] if v["re"] else []):
        found.append(("ReplicaExact", d, "after a completed pull the replica holds %s at revision %s, which is not what the user can see" % (d, (row.get("replica") or {}).get(d))))
    for d in (v["silent"] if v["sd"] else []):
        found.append(("NoSilentDrop", d, "%s left the user's view since the previous completed pull without a removed/revoked/deleted row" % d))
    if v["ru"]:
        found.append(("RevokedUnfetchable", None, "a document announced as revoked could still be fetched by the user: %s" % json.dumps(row.get("probes"))))
    if v["sr"]:
        found.append(("NoSpuriousRevoke", None, "revocation sent for a document the user can still see: %s" % json.dumps([x for x in row.get("rows", []) if x["rv"]])))
    for inv, d, what in found:
        cls = (v.get("cls") or {}).get(d, "") if d else ""
        if cls:
            key = "%s:%s" % (inv, cls)       # a named deviation of the implemented algorithm from the statement (specs/Revocation/NOTES.md)
            what = DEVIATIONS[cls] + " -- " + what
        else:
            key = "%s:%s" % (inv, steps)     # the specific history
        report_violation(ctx, key, "real database breaks %s at trace line %s (behaviour %s, %s): %s; page = %s" % (
            inv, v["line"], bid, job and job["kind"], what, json.dumps(page)[:1500]),
            {"behaviour": job, "invariant": inv, "document": d, "diagnosis": v, "real_trace": slim(per.get(bid, []))})


def replay_and_validate(ctx, jobs, tag, dc=False):
    sfx = "_dc" if dc else ""          # trace cfgs with KeepRoleHist = TRUE
    tr, rows = run_harness(ctx, jobs, tag, dc)
    per = split_rows(rows)
    ctx.cov["evaluations"] += len(jobs)
    ctx.cov["trace_lines"] = ctx.cov.get("trace_lines", 0) + len(rows)
    stats(ctx, per, jobs)
    mid = jobs[len(jobs) // 2]
    ctx.sample({"behaviour": mid, "real_trace_tail": slim(per[mid["id"]][-2:])}, cap=2)
    vp = validate(ctx, SPEC, "Trace_Revocation", "Trace_Revocation_P%s.cfg" % sfx, tr, timeout=3000, tag=tag + "-P")
    if vp.inv:
        viols = enumerate_violations(ctx, tr, tag, sfx)
        if not viols:
            raise Inconclusive("pass P reported %s at line %s but the enumeration found nothing" % (vp.inv, vp.line))
        for v in viols:
            report(ctx, v, rows, jobs, per)
        ncand = len({locate(rows, v["line"])[0] for v in viols} & {j["id"] for j in jobs if j["kind"] == "cand"})
        ctx.cov["candidates_reproduced"] = ctx.cov.get("candidates_reproduced", 0) + ncand
    elif not vp.accepted:
        raise Inconclusive("pass P stopped at line %s of %s (trace shape not accepted)\n%s" % (vp.line, vp.total, vp.out[-1500:]))
    vc = validate(ctx, SPEC, "Trace_Revocation", "Trace_Revocation_C%s.cfg" % sfx, tr, timeout=3000, tag=tag + "-C")
    if vc.inv or not vc.accepted:
        ctx.cov["nonconformance"] += 1
        line = vc.line or 0
        bid, row = locate(rows, line if not vc.inv else max(1, line - 1))
        ctx.notes.append("pass C rejected %s at line %s (%s), behaviour %s: %s" % (tag, vc.line, vc.inv, bid, json.dumps(slim([row]))[:900]))
    elif not vp.inv:
        ctx.cov["traces_validated_against_impl"] += len(jobs)
    else:
        bad = {locate(rows, v["line"])[0] for v in viols}
        ctx.cov["traces_validated_against_impl"] += len(jobs) - len(bad)
