"""C10 - version vectors order revisions soundly and survive encoding (DESIGN 4.10, specs/HLV/NOTES.md)."""
import json
import os
from vlib.core import *

SPEC = os.path.join(VERIF, "specs", "HLV")
HARNESS = ["harness/db/c10_hlv_test.go"]
# named deviations of the real code that are genuine losses (specs/HLV/NOTES.md D2): reported per class, evaluation goes on
DEV_WHAT = {
    "MvShadow": "HybridLogicalVector.UpdateHistory drops a version (cv or pv entry of the folded vector) that is newer than the "
                "surviving vector's merge-version entry for the same source: the accepted vector no longer records what its replica has seen",
    "CvShadow": "HybridLogicalVector.UpdateHistory drops a version of the surviving vector's cv source that is newer than that cv "
                "(both replicas already held the other's cv after opposite local-wins resolutions): the source's value is lowered",
}
MAX_HARD = int(os.environ.get("VERIF_C10_MAX_HARD", "3"))       # distinct hard violations examined per run (each costs a re-validation without the failing behaviour)


def run(ctx):
    quick = ctx.quick()
    model_check(ctx, SPEC, "MC_HLV", "MC_HLV.cfg" if quick else "MC_HLV_thorough.cfg", timeout=3000)
    ctx.cov["exhaustive"] = True
    # one run exports every behaviour of the small instance (BEH) and the whole codec universe (UNI)
    behs, uni = export(ctx, "Beh_HLV.cfg" if quick else "Beh_HLV_thorough.cfg", None, None, ("BEH", "UNI"))
    sim, = export(ctx, "Sim_HLV.cfg", 60 if quick else 500, 14, ("BEH",))
    # directed family (merge, edit on, merge again, cross pull between the two merge holders; resolution = Merge, <= 2 versions
    # generated per replica before it stops editing): the same run decides every invariant on the model (no VIEW: one state per
    # behaviour) and exports every behaviour that ends in a pull between two merge holders
    for cfg in (("Dir_HLV.cfg",) if quick else ("Dir_HLV_thorough.cfg", "Dir_HLV_wide.cfg")):
        d, = export(ctx, cfg, None, None, ("BEH",), count_states=True)
        ctx.cov["directed_behaviours"] = ctx.cov.get("directed_behaviours", 0) + len(d)
        behs += d
    cap = 300 if quick else 4000       # -simulate also prints the siblings of every final step: thin them out evenly
    behs += sim[::max(1, len(sim) // cap)][:cap]
    if not uni:
        raise Inconclusive("codec universe not exported")
    replay_and_validate(ctx, behs, uni)
    ctx.cov["rule"] = ("behaviours = every history of 5 edit/pull/resolve events over three replicas (replicas activated in a fixed order, names bound to "
                       "source ids by a seeded permutation) plus seeded TLC simulations of 12 events plus the directed family (every history of up to 8 - "
                       "thorough 9 - events with resolution Merge, at most 2 versions per editing replica, one interleaving per commutation class, "
                       "that ends in a pull between two merge holders); non-trivial = contains a pull the real "
                       "IsInConflict classified as Conflict or accepted into a non-empty vector; universe = all 1323 structurally valid vectors over "
                       "3 sources x 3 values through both codecs; grammar = instances of 11 malformed + 9 open classes")
    ctx.assumptions += ["version values enter the vector operations only through comparisons and hlc.Now's floor+1: per-source rank compression "
                        "(rank k of source x = base_x + k, seeded 64-bit bases) preserves the property",
                        "each source is written by one replica (one node, or nodes serialised by the document CAS)",
                        "resolve*HLV helpers are replayed as their vector-API call sequence (no document / rev tree)",
                        "pv compaction (Compact, only above 5 pv sources and a configured pruning window) is outside the 3-source universe",
                        "named deviation D1 (both sides already hold the other's cv): the 'already known' clause is not evaluated, see NOTES.md"]


def export(ctx, cfg, num, depth, tags, count_states=False):
    """like core.behaviours, for several PrintT tags of one TLC run"""
    if num is None:
        r = tlc(ctx, SPEC, "MC_HLV", cfg, timeout=2400, workers=1)
    else:
        r = tlc(ctx, SPEC, "MC_HLV", cfg, mode="simulate", simulate=num, depth=depth, timeout=2400)
    if r.inv_violated:
        raise Inconclusive("model counterexample / behaviour generation MC_HLV/%s violated %s (candidate only)\n%s"
                           % (cfg, r.inv_violated, "\n".join("\n".join(st["_txt"]) for st in r.error_trace[-2:])))
    if count_states:
        ctx.cov["states"] += r.distinct
        ctx.cov["transitions"] += r.generated
    res = []
    for tag in tags:
        seen, lst = set(), []
        for t, txt in r.printed:
            if t == tag:
                js = json.loads(txt)
                if js not in seen:
                    seen.add(js)
                    lst.append(json.loads(js))
        res.append(lst)
    if not res[0]:
        raise Inconclusive("no behaviours exported by MC_HLV/%s\n%s" % (cfg, r.out[-800:]))
    log("  TLC %-28s %-22s exported %s  %.1fs" % ("MC_HLV", cfg, ", ".join("%d %s" % (len(l), t) for l, t in zip(res, tags)), r.wall))
    return res


def replay_and_validate(ctx, behs, uni):
    bf = os.path.join(ctx.scratch, "c10-in.json")
    tr = os.path.join(ctx.scratch, "c10.ndjson")
    write_json(bf, {"behs": behs, "uni": uni})
    rc, out = go_test(ctx, "db", "^TestVerif_C10_HLV$", HARNESS, env={"VERIF_BEH": bf, "VERIF_TRACE_OUT": tr})
    if rc != 0 or not os.path.exists(tr):
        raise Inconclusive("C10 harness failed:\n" + harness_failure(out))
    rows = read_ndjson(tr)
    nuni = sum(1 for r in rows if r["a"] == "Uni")
    nsyn = sum(1 for r in rows if r["a"] == "Syn")
    ctx.cov["evaluations"] += len(behs) + nuni + nsyn
    stats = {"pull": 0, "conflict": 0, "merge": 0, "localwins": 0, "remotewins": 0, "already": 0, "accepted": 0, "edit": 0}
    nontriv, cur, nonempty = set(), None, set()
    for r in rows:
        if r["a"] == "Reset":
            cur, nonempty = r["beh"], set()
        elif r["a"] == "Edit":
            stats["edit"] += 1
            nonempty.add(r["r"])
        elif r["a"] == "Pull":
            stats["pull"] += 1
            if r["cls"] == "Conflict":
                stats["conflict"] += 1
                stats[r["res"].lower()] = stats.get(r["res"].lower(), 0) + 1
                nontriv.add(cur)
            elif r["cls"] == "AlreadyPresent":
                stats["already"] += 1
            elif r["r"] in nonempty:
                stats["accepted"] += 1
                nontriv.add(cur)
            nonempty.add(r["r"])
    ctx.cov["distinct_nontrivial"] += len(nontriv)
    ctx.cov["steps"] = stats
    ctx.cov["universe_vectors"] = nuni
    ctx.cov["grammar_instances"] = nsyn
    open_acc = sorted({r["cls"] for r in rows if r["a"] == "Syn" and r["ok"] and r["cls"] not in ("valid",)})
    ctx.cov["open_grammar_classes_accepted"] = open_acc
    pulls = [r for r in rows if r["a"] == "Pull" and r["cls"] == "Conflict" and r["res"] == "Merge" and len(r["vvs"]) > 200] or \
            [r for r in rows if r["a"] == "Pull" and r["cls"] == "Conflict"]
    if pulls:
        p = pulls[len(pulls) // 2]
        ctx.sample({"real_pull": {k: p[k] for k in ("r", "s", "cls", "res", "v", "h", "raw", "vvs", "ws")}})
    ctx.sample({"behaviour": behs[len(behs) // 2]})
    unis = [r for r in rows if r["a"] == "Uni"]
    if unis:
        u = unis[len(unis) * 2 // 3]
        ctx.sample({"universe_vector": u["h"], "stored": u["vvs"], "wire": u["ws"]})

    # ---- pass P: property predicates on the recorded real values
    hard, cur_rows, cur_tr = 0, rows, tr
    while True:
        vp = validate(ctx, SPEC, "Trace_HLV", "Trace_HLV_P.cfg", cur_tr, timeout=2400)
        report_devs(ctx, vp, cur_rows, behs)
        if not vp.inv:
            if not vp.accepted:
                raise Inconclusive("pass P stopped at line %s of %s (trace shape not accepted)\n%s" % (vp.line, vp.total, vp.out[-1500:]))
            break
        hard += 1
        line = vp.line or 1
        row = cur_rows[line - 2] if 2 <= line <= len(cur_rows) + 1 else {}
        # the state with position l was produced by line l-1
        lo, hi = segment(cur_rows, line - 2)
        if row.get("a") in ("Uni", "Syn"):
            ident = {k: row.get(k) for k in ("a", "cls", "str", "h", "vv", "wire", "rt", "vvs", "ws")}
            key = "%s:%s" % (vp.inv, json.dumps({k: row.get(k) for k in ("a", "cls", "str", "h")}, sort_keys=True))
        else:
            # the history up to and including the failing step, as the real code executed it
            ident = {"behaviour": behs[cur_rows[lo]["beh"]] if cur_rows[lo].get("a") == "Reset" else None, "real_steps": cur_rows[lo:line - 1]}
            key = "%s:%s" % (vp.inv, ";".join(sig(r) for r in cur_rows[lo + 1:line - 1]))
        report_violation(ctx, key, "real HybridLogicalVector code breaks %s at trace line %s (%s)" % (vp.inv, line - 1, describe(row)),
                         dict(ident, invariant=vp.inv, state=(vp.state or {}).get("_txt")))
        if hard >= MAX_HARD:
            ctx.notes.append("pass P: stopped after %d hard violations; later trace lines not examined" % hard)
            return
        # go on without the failing behaviour / line
        cur_rows = cur_rows[:lo] + cur_rows[hi:]
        cur_tr = os.path.join(ctx.scratch, "c10-cut%d.ndjson" % hard)
        write_ndjson(cur_tr, cur_rows)
    if hard:
        return
    # ---- pass C: every step is an instance of the transcribed operation
    vc = validate(ctx, SPEC, "Trace_HLV", "Trace_HLV_C.cfg", tr, timeout=2400)
    if vc.inv or not vc.accepted:
        ctx.cov["nonconformance"] += 1
        ln = (vc.line or 1) - (1 if vc.inv else 0)
        ctx.notes.append("pass C rejected at line %s (%s): %s" % (ln, vc.inv, strip(rows[ln - 1]) if 1 <= ln <= len(rows) else None))
    else:
        ctx.cov["traces_validated_against_impl"] += len(behs) + nuni + nsyn


def report_devs(ctx, vp, rows, behs):
    """named deviations printed by the DevReport predicate: <<"DEV", line, class>>; bookkeeping lines <<"INF", line, why>>"""
    devs, info = {}, {}
    for t, txt in parse_printed(vp.out):
        parts = [x.strip() for x in txt.split(",")]
        if t == "INF":       # pulls whose classification clauses were not evaluated (D1 / after a reported drop)
            c = json.loads(parts[1])
            info[c] = info.get(c, 0) + 1
        if t != "DEV":
            continue
        line, cls = int(parts[0]), json.loads(parts[1])
        devs[cls] = devs.get(cls, 0) + 1
        if devs[cls] > 1:
            continue
        lo, hi = segment(rows, line - 1)
        report_violation(ctx, "NothingLost@UpdateHistory:%s" % cls, DEV_WHAT.get(cls, cls),
                         {"behaviour": behs[rows[lo]["beh"]] if rows[lo].get("a") == "Reset" else None,
                          "real_steps": rows[lo:line], "class": cls})
    ctx.cov["named_deviations"], ctx.cov["info"] = devs, info


def segment(rows, idx):
    """[lo, hi) of the behaviour (Reset .. next Reset) or single Uni/Syn line containing rows[idx]"""
    idx = max(0, min(idx, len(rows) - 1))
    if rows[idx]["a"] in ("Uni", "Syn"):
        return idx, idx + 1
    lo = idx
    while lo > 0 and rows[lo]["a"] != "Reset":
        lo -= 1
    hi = idx + 1
    while hi < len(rows) and rows[hi]["a"] not in ("Reset", "Uni", "Syn"):
        hi += 1
    return lo, hi


def sig(r):
    if r["a"] == "Edit":
        return "E.%s.%s%s" % (r["r"], r["v"], "" if r.get("ok", True) else "!")
    return "P.%s<%s.%s.%s.%s" % (r["r"], r["s"], r["cls"], r["res"], r["v"])


def strip(r):
    return {k: v for k, v in r.items() if k not in ("raw", "vvs", "ws", "bases", "beh", "err", "rterr")}


def describe(row):
    if not row:
        return "?"
    if row.get("a") == "Pull":
        return "Pull %s<-%s classified %s resolved %s -> %s" % (row["r"], row["s"], row["cls"], row["res"], row.get("raw"))
    if row.get("a") == "Edit":
        return "Edit %s generated rank %s -> %s" % (row["r"], row["v"], row.get("raw"))
    if row.get("a") == "Syn":
        return "grammar class %s string %r accepted=%s" % (row["cls"], row["str"], row["ok"])
    return "universe vector %s stored %s wire %s" % (row.get("h"), row.get("vvs"), row.get("ws"))
