"""C14 - attachments stay intact and live exactly as long as a revision needs them (DESIGN 4.14, specs/Attachments/NOTES.md).

model_check (intended bookkeeping: lists per leaf, sweep of the data documents no leaf references any more, CAS-retry
brackets, refused writes; exhaustive) -> behaviours (EVERY 3-write history on one document / one name / two contents in both
AllowConflicts modes + seeded TLC simulations of 7 steps over 2 documents, 2 names, 3 contents with brackets, cross-cluster
versioning on and off, revs_limit 3 on a quarter + hand-written witnesses) -> replay on a real database (Rosmar) through
Put / PutExistingRevWithBody / DeleteDoc with inline data or stubs, CAS retries forced inside LeakyDataStore's UpdateCallback
-> pass P (LeafSafe, Collected, Intact and their relaxed forms evaluated by TLC on every recorded real state, collected per
behaviour) and pass C (conformance of lists, revpos, lengths, data documents, winner, accept/refuse) -> verdicts.

Local additions to vlib.core (rule 9): the TLC runs of one stage run concurrently; the recorded trace is validated in chunks;
pass P / C results are read from PrintT'ed TLC registers instead of a stop-on-first INVARIANT (same idiom as C05).
The replication clause (BLIP allow-list) has its own small spec (AllowWindow.tla) and harness (package rest), see blip_allow_list.
Development knobs: VERIF_C14_NOMC (skip the exhaustive runs), VERIF_C14_NOBLIP / VERIF_C14_ONLYBLIP, VERIF_C14_NBEH / VERIF_C14_NSIM.
"""
import concurrent.futures
import json
import os
import random
from vlib.core import *

SPEC = os.path.join(VERIF, "specs", "Attachments")
HARNESS = ["harness/db/c14_attachments_test.go"]
PROPERTY = ("LeafSafe", "Collected", "Intact")
CHUNK = 300          # behaviours per TLC validation process
MAX_REPORTS = 3      # replay files written per predicate for unexplained failures


def W(k, d, r, p, n1=0, n2=0, h=0, a="W"):
    return {"a": a, "k": k, "d": d, "r": r, "p": p, "s": {"n1": n1, "n2": n2}, "h": h}


E = {"a": "E", "k": "", "d": 0, "r": 0, "p": 0, "s": {"n1": 0, "n2": 0}, "h": 0}
STUB = -1


def witnesses():
    """hand-written histories (inputs only - the oracle stays in the spec): the flows of the repository's own attachment tests
    plus the minimal histories of the named deviation, so that every run exercises them whatever the seed."""
    out = []
    for eccv in (False, True):
        # rest/attachment_test.go TestAttachmentRemovalWithConflicts: both branches keep the stub, the winner drops it, the loser is deleted
        out.append({"conf": {"allow": True, "eccv": eccv, "lim": 0}, "steps": [
            W("put", 1, 1, 0), W("put", 1, 2, 1, 1), W("put", 1, 3, 2, STUB), W("push", 1, 4, 2, STUB, 0, 1),
            W("put", 1, 5, 4), W("del", 1, 6, 3)]})
        # conflict resolved by deleting the losing branch while the winner carries attachments (NonWinningWrite, kept)
        out.append({"conf": {"allow": True, "eccv": eccv, "lim": 0}, "steps": [
            W("put", 1, 1, 0, 1), W("put", 1, 2, 1, STUB), W("push", 1, 3, 1, STUB, 2, 1), W("del", 1, 4, 2)]})
        # the winning branch is deleted and the other branch, which carries attachments, takes over (NonWinningWrite, switched)
        out.append({"conf": {"allow": True, "eccv": eccv, "lim": 0}, "steps": [
            W("put", 1, 1, 0, 1), W("put", 1, 2, 1, STUB, 2), W("push", 1, 3, 1, STUB, 3, 1), W("put", 1, 4, 3, 0, STUB),
            W("put", 1, 5, 2, 0, STUB), W("put", 1, 6, 5), W("del", 1, 7, 6)]})
        # linear history in both modes: add, keep, replace, share a digest between names and documents, drop, delete, resurrect
        for allow in (False, True):
            out.append({"conf": {"allow": allow, "eccv": eccv, "lim": 0}, "steps": [
                W("put", 1, 1, 0, 1, 1), W("put", 2, 2, 0, 1, 2), W("put", 1, 3, 1, STUB), W("put", 1, 4, 3, 3),
                W("del", 1, 5, 4), W("put", 1, 6, 0, 2), W("del", 2, 7, 2), W("put", 2, 8, 0, 1, 3)]})
            # CAS retry by a neutral touch, then by a write that makes the bracketed one a conflict
            out.append({"conf": {"allow": allow, "eccv": eccv, "lim": 0}, "steps": [
                W("put", 1, 1, 0, 1), W("put", 1, 2, 1, 2, 3, a="B"), {"a": "T", "k": "", "d": 1, "r": 0, "p": 0, "s": {"n1": 0, "n2": 0}, "h": 0}, E,
                W("put", 1, 3, 2, STUB, 1, a="B"), W("put", 1, 4, 2, 0, STUB), E, W("put", 1, 5, 4, 3, STUB)]})
    # CAS retry overtaken by a write on another branch that references what the bracketed write drops
    out.append({"conf": {"allow": True, "eccv": False, "lim": 0}, "steps": [
        W("put", 1, 1, 0, 1, 2), W("put", 1, 2, 1, STUB, STUB), W("put", 1, 3, 2, 0, 0, a="B"), W("push", 1, 4, 1, 1, 2, 1), E,
        W("put", 1, 5, 4, STUB, 0)]})
    return out


def run(ctx):
    quick = ctx.quick()
    if os.environ.get("VERIF_C14_ONLYBLIP"):          # development knob
        blip_allow_list(ctx)
        return
    nsim = int(os.environ.get("VERIF_C14_NSIM") or (500 if quick else 6000))       # simulated behaviours
    nbeh = int(os.environ.get("VERIF_C14_NBEH") or (1200 if quick else 1000000))    # sample of the exhaustive depth-3 set
    with concurrent.futures.ThreadPoolExecutor(4) as ex:
        f_blip = ex.submit(blip_allow_list, ctx)          # replication clause: own spec, own harness (package rest); runs alongside the TLC stage
        if os.environ.get("VERIF_C14_NOMC"):      # development knob (mutation self-tests): skip the exhaustive run
            f_mc = ex.submit(lambda: None)
        else:
            f_mc = ex.submit(exhaustive, ctx, quick)
        f_beh = ex.submit(gen_behaviours, ctx, "Beh_Attachments.cfg", None, "Beh")
        f_sim = ex.submit(gen_behaviours, ctx, "Sim_Attachments.cfg", nsim, "Sim")
        mc, beh_all, beh_sim = f_mc.result(), f_beh.result(), f_sim.result()
        f_blip.result()
    ctx.cov["exhaustive"] = mc is not None
    rnd = random.Random(ctx.seed)
    beh_all.sort(key=lambda b: json.dumps(b, sort_keys=True))
    if len(beh_all) > nbeh:
        beh_all = rnd.sample(beh_all, nbeh)
    for i, b in enumerate(beh_sim):        # about a quarter of the simulated histories run with revs_limit 3 (pruning)
        if i % 3 == 2 and prune_safe(b):
            b["conf"]["lim"] = 3
    ctx.cov["behaviour_action_mix"] = action_mix(beh_sim)
    behs, seen = [], set()
    for src, lst in (("witness", witnesses()), ("all3", beh_all), ("sim", beh_sim)):
        for b in lst:
            k = json.dumps({"conf": b["conf"], "steps": b["steps"]}, sort_keys=True)
            if k not in seen:
                seen.add(k)
                behs.append({"conf": b["conf"], "steps": b["steps"], "src": src})
    replay_and_validate(ctx, behs)
    ctx.cov["rule"] = ("behaviours = every history of 3 writes (Put / pushed revision with history, id sorting high or low / DeleteDoc; per name New(c1|c2) / Stub / Omit; "
                       "any legal parent) on one document in both AllowConflicts modes (quick: seeded sample), plus seeded TLC simulations of 7 steps over 2 documents, "
                       "2 names, 3 contents (one empty, one large) incl. CAS-retry brackets (touch / overtaking write), cross-cluster versioning on and off, revs_limit 3 on a quarter, "
                       "plus hand-written witnesses; non-trivial = the real run removed at least one attachment data document or kept one that another leaf / name still referenced")
    ctx.assumptions += [
        "clients are well-behaved: a stub repeats an attachment of the PARENT revision, which is a leaf the client holds, and whose data the gateway still has",
        "storage = Rosmar; obsolete-attachment removal is switched on by forcing CachedCCVEnabled=false (Rosmar always reports cross-cluster versioning on); "
        "the eccv=true variant requires LeafSafe / Intact only",
        "data left behind by a REFUSED write (C11 finding F9) is tracked as residue and not counted against Collected",
        "BLIP allow-list: one revision in flight at a time (one-shot pulls filtered by document id), sub-protocols V2 and V3; counters > 1 only in the model",
        "legacy (v1 / pre-2.5) attachments and attachment compaction are not covered by this check (see NOTES.md)"]


def exhaustive(ctx, quick):
    """quick: 2 documents, 1 name, 2 contents, 3 steps, all shapes; thorough: additionally 2 names (at most one new attachment per write)
    and 1 name with 4 steps and 2 steps inside a bracket."""
    r = model_check(ctx, SPEC, "MC_Attachments", "MC_Attachments.cfg", 5400)
    if not quick:
        model_check(ctx, SPEC, "MC_Attachments", "MC_Attachments_2n.cfg", 5400)
        model_check(ctx, SPEC, "MC_Attachments", "MC_Attachments_thorough.cfg", 5400)
    return r


def blip_allow_list(ctx):
    """last clause of C14: getAttachment is served only while a revision referencing the digest is being sent (AllowWindow.tla)."""
    if os.environ.get("VERIF_C14_NOBLIP"):
        return
    if not os.environ.get("VERIF_C14_NOMC"):
        r = model_check(ctx, SPEC, "MC_AllowWindow", "MC_AllowWindow.cfg", 600, workers=2)
    bad = None
    for attempt in (1, 2):        # the "window closes after the reply" probe has a wall-clock bound (10 s): a failure must reproduce
        tr = os.path.join(ctx.scratch, "c14-blip-%d.ndjson" % attempt)
        rc, out = go_test(ctx, "rest", "^TestVerif_C14_BlipAllowList$", ["harness/rest/c14_blip_attachments_test.go"], env={"VERIF_TRACE_OUT": tr}, timeout=1800)
        if rc != 0 or not os.path.exists(tr):
            raise Inconclusive("C14 BLIP harness failed:\n" + harness_failure(out))
        rows = read_ndjson(tr)
        gets = [r for r in rows if r["a"] == "Get"]
        served_in = sum(1 for r in gets if r["served"] and r["ph"] == "during")
        if not served_in:
            raise Inconclusive("C14 BLIP harness: no getAttachment was served during a pull (vacuous)")
        vp = validate(ctx, SPEC, "Trace_AllowWindow", "Trace_AllowWindow_P.cfg", tr, tag="blipP%d" % attempt)
        if vp.inv:
            r = rows[(vp.line or 2) - 2] if vp.line and vp.line >= 2 else {}
            this = (vp.inv, json.dumps({k: r.get(k) for k in ("a", "ph", "fl", "d", "c", "res", "closed")}, sort_keys=True), proto_of(rows, (vp.line or 2) - 2))
            if bad is not None and bad[0] == this[0]:
                inv, what, proto = this
                report_violation(ctx, "%s:proto=V%s:%s" % (inv, proto, what),
                                 "BLIP connection (sub-protocol V%s) breaks %s at %s (in flight fl = document being pulled; refs: d1{c1,c2} d2{c3,c1} d3{c2} d4{})" % (proto, inv, what),
                                 {"invariant": inv, "line": r, "events": [x for x in rows[max(0, (vp.line or 2) - 40):(vp.line or 2)] if x["a"] != "Get" or x["served"]]})
                return
            bad = this
            continue
        if not vp.accepted:
            raise Inconclusive("BLIP trace: pass P stopped at line %s of %s\n%s" % (vp.line, vp.total, vp.out[-1200:]))
        vc = validate(ctx, SPEC, "Trace_AllowWindow", "Trace_AllowWindow_C.cfg", tr, tag="blipC%d" % attempt)
        if vc.inv or not vc.accepted:
            ctx.cov["nonconformance"] += 1
            ctx.notes.append("BLIP trace pass C rejected at line %s (%s)" % (vc.line, vc.inv))
        else:
            ctx.cov["traces_validated_against_impl"] += sum(1 for r in rows if r["a"] == "Reset")
        ctx.cov["evaluations"] += sum(1 for r in rows if r["a"] == "Reset")
        ctx.cov["blip_allow_list"] = {"connections": sum(1 for r in rows if r["a"] == "Reset"), "getAttachment_probes": len(gets),
                                      "served_during_pull": served_in, "refused": sum(1 for r in gets if not r["served"]),
                                      "windows_seen_closed": sum(1 for r in rows if r["a"] in ("Ack", "Rej") and r["closed"]),
                                      "revs_answered_with_error": sum(1 for r in rows if r["a"] == "Rej")}
        if bad is not None:
            ctx.notes.append("BLIP allow-list: %s failed once and did not reproduce (wall-clock bound): %s" % (bad[0], bad[1]))
        return


def proto_of(rows, i):
    for r in reversed(rows[:max(0, i) + 1]):
        if r["a"] == "Reset":
            return r["proto"]
    return "?"


def prune_safe(b):
    """the model does not prune: revs_limit 3 is only applied to histories in which every write goes on a leaf (a parent deeper
    in the tree could have been pruned away, and the gateway would then add the pushed revision as a new root)."""
    has_child = set()
    for st in b["steps"]:
        if st["a"] in ("W", "B") and st["p"]:
            if st["p"] in has_child:
                return False
        if st["a"] in ("W", "E") and st["p"]:
            has_child.add(st["p"])
    return True


def gen_behaviours(ctx, cfg, num, tag):
    if num is None:
        r = tlc(ctx, SPEC, "MC_Attachments", cfg, timeout=3000, workers=2, tag=tag)
    else:
        r = tlc(ctx, SPEC, "MC_Attachments", cfg, mode="simulate", simulate=num, depth=9, timeout=3000, tag=tag)
    if r.inv_violated:
        raise Inconclusive("behaviour generation %s violated %s" % (cfg, r.inv_violated))
    res, seen = [], set()
    for t, txt in r.printed:
        if t == "BEH" and txt not in seen:
            seen.add(txt)
            res.append(json.loads(json.loads(txt)))
    if not res:
        raise Inconclusive("no behaviours exported by %s\n%s" % (cfg, r.out[-800:]))
    log("  TLC %-28s %-22s exported %d distinct behaviours  %.1fs" % ("MC_Attachments", cfg, len(res), r.wall))
    return res


def action_mix(behs):
    h = {"behaviours": len(behs), "actions": {}, "spec": {"omit": 0, "stub": 0, "new": 0}, "brackets": 0, "allow": 0, "eccv": 0, "lim3": 0}
    for b in behs:
        h["allow"] += bool(b["conf"]["allow"])
        h["eccv"] += bool(b["conf"]["eccv"])
        h["lim3"] += b["conf"]["lim"] == 3
        for st in b["steps"]:
            key = st["a"] + (":" + st["k"] if st["k"] else "")
            h["actions"][key] = h["actions"].get(key, 0) + 1
            h["brackets"] += st["a"] == "B"
            if st["a"] in ("W", "B"):
                for v in st["s"].values():
                    h["spec"]["omit" if v == 0 else ("stub" if v < 0 else "new")] += 1
    return h


def _printed(out, tag):
    res = []
    for t, txt in parse_printed(out):
        if t == tag:
            res += json.loads(json.loads(txt))
    return res


def replay_and_validate(ctx, behs):
    bf = os.path.join(ctx.scratch, "c14-beh.json")
    tr = os.path.join(ctx.scratch, "c14.ndjson")
    write_json(bf, behs)
    rc, out = go_test(ctx, "db", "^TestVerif_C14_Attachments$", HARNESS, env={"VERIF_BEH": bf, "VERIF_TRACE_OUT": tr}, timeout=2400)
    if rc != 0 or not os.path.exists(tr):
        raise Inconclusive("C14 harness failed:\n" + harness_failure(out))
    rows = read_ndjson(tr)
    ctx.cov["evaluations"] += len(behs)
    per, cur = {}, None
    for r in rows:
        if r["a"] == "Reset":
            cur = r["beh"]
            per[cur] = []
        per[cur].append(r)
    if len(per) != len(behs):
        raise Inconclusive("harness recorded %d behaviours, %d were given" % (len(per), len(behs)))
    measure(ctx, behs, per)

    chunks, idx = [], sorted(per)
    for i in range(0, len(idx), CHUNK):
        p = os.path.join(ctx.scratch, "c14-%03d.ndjson" % (i // CHUNK))
        write_ndjson(p, [r for b in idx[i:i + CHUNK] for r in per[b]])
        chunks.append(p)
    jobs = [(p, c) for p in chunks for c in ("P", "C")]
    nproc = max(1, min(len(jobs), (int(os.environ.get("VERIF_TLC_WORKERS") or NCPU)) // 2 or 1))

    def one(job):
        p, c = job
        return job, validate(ctx, SPEC, "Trace_Attachments", "Trace_Attachments_%s.cfg" % c, p, timeout=3000,
                             tag="%s-%s" % (c, os.path.basename(p)[:-7]))
    with concurrent.futures.ThreadPoolExecutor(nproc) as ex:
        results = list(ex.map(one, jobs))
    pviol, pdev, xfail, cdiv = {}, {}, {}, {}
    for (p, c), v in results:
        if not v.accepted:
            raise Inconclusive("pass %s stopped at line %s of %s in %s (trace shape not accepted)\n%s" % (c, v.line, v.total, p, v.out[-1500:]))
        base = first_line(per, idx, p)
        if c == "P":
            for r in _printed(v.out, "PVIOL"):
                pviol.setdefault(r["b"], {})[r["p"]] = {"line": r["line"] - base[r["b"]], "dev": sorted(r["dev"])}
            for r in _printed(v.out, "PDEV"):
                pdev.setdefault(r["b"], set()).update(r["dev"])
        else:
            for r in _printed(v.out, "CXFAIL"):
                xfail.setdefault(r["b"], set()).update(r["xfail"])
            for r in _printed(v.out, "CDIV"):
                cdiv[r["b"]] = r["line"] - base[r["b"]]
    verdicts(ctx, behs, per, pviol, pdev, xfail, cdiv)


def first_line(per, idx, chunk_path):
    """behaviour -> 1-based line of its Reset inside its chunk file, for the behaviours of that chunk."""
    n = int(os.path.basename(chunk_path)[4:7])
    res, line = {}, 1
    for b in idx[n * CHUNK:(n + 1) * CHUNK]:
        res[b] = line
        line += len(per[b])
    return res


def blobs(r):
    return {(b[0], b[1]) for b in r["S"]["blob"]}


def measure(ctx, behs, per):
    """non-vacuity, measured on the recorded real runs."""
    st = {"behaviours": len(behs), "by_source": {}, "writes_ok": 0, "writes_refused": 0, "sweep_removed_data": 0, "kept_shared_data": 0,
          "two_or_more_leaves": 0, "cas_retry_brackets": 0, "bracket_overtaken_by_write": 0, "bracket_refused_after_retry": 0,
          "tombstone_then_resurrect": 0, "digest_shared_between_docs": 0, "digest_shared_between_names": 0, "eccv": 0, "allow_conflicts": 0,
          "revs_limit_3": 0, "pruned": 0}
    nontriv = 0
    for b, rs in per.items():
        src = behs[b]["src"]
        st["by_source"][src] = st["by_source"].get(src, 0) + 1
        st["eccv"] += bool(rs[0]["eccv"])
        st["allow_conflicts"] += bool(rs[0]["allow"])
        st["revs_limit_3"] += rs[0]["lim"] == 3
        removed = kept = leaves2 = shared_d = shared_n = resurrect = pruned = False
        inb = False
        for prev, r in zip(rs, rs[1:]):
            if r["a"] in ("W", "E"):
                st["writes_ok" if r["ok"] else "writes_refused"] += 1
            if r["a"] == "B":
                st["cas_retry_brackets"] += 1
                inb = True
            elif r["a"] == "W" and inb and r["ok"] and r["d"] == prev.get("d"):
                st["bracket_overtaken_by_write"] += 1
            elif r["a"] == "E":
                inb = False
                st["bracket_refused_after_retry"] += (not r["ok"])
            gone = blobs(prev) - blobs(r)
            removed = removed or bool(gone)
            if r["a"] in ("W", "E") and r["ok"]:
                before = {(a_["dg"]) for a_ in prev["S"]["docs"][r["d"] - 1]["atts"]}
                after = {(a_["dg"]) for a_ in r["S"]["docs"][r["d"] - 1]["atts"]}
                # an entry disappeared from some leaf's list but its data is still referenced (other name / other leaf) and was kept
                lost_entries = len(prev["S"]["docs"][r["d"] - 1]["atts"]) > len(r["S"]["docs"][r["d"] - 1]["atts"])
                kept = kept or (lost_entries and before == after and bool(before))
            for D in r["S"]["docs"]:
                leaves2 = leaves2 or len(D["leaves"]) >= 2
                names = {}
                for a_ in D["atts"]:
                    names.setdefault((a_["l"], a_["dg"]), set()).add(a_["n"])
                shared_n = shared_n or any(len(v) > 1 for v in names.values())
                pruned = pruned or (len(D["tree"]) > 0 and any(row[1] == 0 for row in D["tree"][1:]) and rs[0]["lim"] == 3)
            d1 = {b_[1] for b_ in r["S"]["blob"] if b_[0] == 1}
            d2 = {b_[1] for b_ in r["S"]["blob"] if b_[0] == 2}
            shared_d = shared_d or bool(d1 & d2)
            if r["a"] in ("W", "E") and r["ok"] and r["k"] == "put" and r["p"] == 0 and prev["S"]["docs"][r["d"] - 1]["tree"]:
                resurrect = True
        st["sweep_removed_data"] += removed
        st["kept_shared_data"] += kept
        st["two_or_more_leaves"] += leaves2
        st["digest_shared_between_docs"] += shared_d
        st["digest_shared_between_names"] += shared_n
        st["tombstone_then_resurrect"] += resurrect
        st["pruned"] += pruned
        nontriv += removed or kept
    ctx.cov["distinct_nontrivial"] += nontriv
    ctx.cov["c14"] = st
    mid = sorted(per)[len(per) // 2]
    ctx.sample({"behaviour": behs[mid], "real_trace_tail": [slim(r) for r in per[mid][-2:]]})


def slim(r):
    o = {k: r[k] for k in ("a", "i", "k", "d", "r", "p", "s", "h", "ok", "e", "allow", "eccv", "lim", "clen", "cenc", "celen") if k in r}
    S = r.get("S")
    if S:
        o["docs"] = [{"d": D["d"], "tree": D["tree"], "cur": D["cur"], "leaves": D["leaves"],
                      "stored": ["l%(l)s/%(n)s=c%(dg)s len%(ln)s enc=%(enc)s/%(eln)s revpos%(rp)s exists=%(ex)s read=c%(rd)s" % a for a in D["atts"]],
                      "api": ["l%(l)s/%(n)s=c%(dg)s len%(ln)s enc=%(enc)s/%(eln)s read=c%(rd)s" % a for a in D["api"]],
                      "apierr": D["apierr"]} for D in S["docs"] if D["tree"]]
        o["data_docs"] = S["blob"]
    return o


def verdicts(ctx, behs, per, pviol, pdev, xfail, cdiv):
    # ---- conformance (pass C): never a verdict
    for b in sorted(cdiv)[:5]:
        off = max(0, min(len(per[b]) - 1, cdiv[b]))
        ctx.notes.append("pass C: behaviour %d does not conform at step %d: %s" % (b, off, json.dumps(slim(per[b][off]))[:600]))
    ctx.cov["nonconformance"] += len(cdiv)
    bad_aux = {b: sorted(x) for b, x in xfail.items() if b not in pviol and b not in cdiv}
    for b in sorted(bad_aux)[:3]:
        ctx.notes.append("pass C: relaxed / auxiliary predicates %s fail on conforming behaviour %d" % (bad_aux[b], b))
    ctx.cov["nonconformance"] += len(bad_aux)
    ctx.cov["traces_validated_against_impl"] += sum(1 for b in per if b not in pviol and b not in cdiv and b not in bad_aux)

    # ---- property verdicts (pass P), behaviour by behaviour
    explained, unexplained = {}, {}
    for b, fails in sorted(pviol.items()):
        relaxed = {p for p in fails if p.startswith("X_")}
        for p in sorted(fails):
            if p.startswith("X_"):
                unexplained.setdefault(p[2:], []).append((b, fails[p]["line"]))
            elif "X_" + p not in relaxed and fails[p]["dev"]:
                # the predicate fails only on documents hit by the named deviation NonWinningWrite (decided by TLC: X_p holds)
                kinds = fails[p]["dev"]
                explained.setdefault("+".join(kinds), {}).setdefault(p, []).append((b, fails[p]["line"]))
            elif "X_" + p not in relaxed:
                unexplained.setdefault(p, []).append((b, fails[p]["line"]))
    hit = {b: sorted(k) for b, k in pdev.items()}
    ctx.cov["c14"]["behaviours_hit_by_NonWinningWrite"] = len(hit)
    ctx.cov["c14"]["pass_p_failing_behaviours"] = len(pviol)
    ctx.cov["c14"]["unexplained_failures"] = {p: len(v) for p, v in unexplained.items()}
    ctx.cov["c14"]["explained_by_deviation"] = {k: {p: len(v) for p, v in d.items()} for k, d in explained.items()}
    WHAT = {
        "kept": "a write whose revision does NOT become the winner (e.g. DeleteDoc of the losing branch of a conflict, a pushed conflicting revision that loses) "
                "replaces the document-level attachment list of the WINNING revision by its own and records none for itself "
                "(storeOldBodyInRevTreeAndUpdateCurrent: doc.SetAttachments(newDoc.Attachments()) regardless of the winner); the sweep then deletes the winner's data",
        "switched": "a write that tombstones the winning branch so that ANOTHER existing branch becomes the winner leaves the new winner without a document-level "
                    "attachment list (it is set to the tombstone's empty list); the sweep deletes the data the new winner still lists in its body",
    }
    for kinds, bypred in sorted(explained.items(), key=lambda kv: (kv[0].count("+"), kv[0])):      # single kinds first: cleaner examples
        for kind in kinds.split("+"):
            if "Deviation:NonWinningWrite:" + kind in [v["key"] for v in ctx.violations] + [h["key"] for h in ctx.known_hits]:
                continue
            cands = sorted({(len(behs[b]["steps"]), b) for v in bypred.values() for b, _ in v})
            ex = cands[0][1]
            nb = len({b for v in bypred.values() for b, _ in v})
            line = min(l for v in bypred.values() for b, l in v if b == ex)
            report_violation(
                ctx, "Deviation:NonWinningWrite:" + kind,
                "%s. %d replayed behaviours (deviation kinds %s) break %s on the real database only on documents hit by it; shortest: behaviour %d %s fails at step %d: %s" % (
                    WHAT.get(kind, kind), nb, kinds, ", ".join("%s x%d" % (p, len(v)) for p, v in sorted(bypred.items())), ex,
                    json.dumps(compact(behs[ex])), line, json.dumps(slim(per[ex][min(line, len(per[ex]) - 1)]))[:900]),
                {"behaviour": behs[ex], "real_trace": [slim(r) for r in per[ex]], "deviation": kinds})
    for p, lst in sorted(unexplained.items()):
        lst.sort(key=lambda x: (len(behs[x[0]]["steps"]), x[0]))
        for b, line in lst[:MAX_REPORTS]:
            key = "%s:%s" % (p, json.dumps(compact(behs[b]), sort_keys=True))
            off = max(0, min(len(per[b]) - 1, line))
            report_violation(ctx, key, "real database breaks %s in behaviour %d (%s) at step %d: %s" % (
                p, b, "not conforming to the model from step %d" % cdiv[b] if b in cdiv else "conforming", off, json.dumps(slim(per[b][off]))[:1200]),
                {"behaviour": behs[b], "invariant": p, "real_trace": [slim(r) for r in per[b]]})
        if len(lst) > MAX_REPORTS:
            ctx.notes.append("%s fails unexplained in %d behaviours (first %d reported)" % (p, len(lst), MAX_REPORTS))


def compact(b):
    """readable form of a behaviour for keys and messages."""
    def spec(s):
        return ",".join("%s=%s" % (n, "stub" if v < 0 else "c%d" % v) for n, v in sorted(s.items()) if v)
    steps = []
    for st in b["steps"]:
        if st["a"] in ("T", "E"):
            steps.append(st["a"])
        else:
            steps.append("%s%s d%d r%d<-r%d%s {%s}" % ("" if st["a"] == "W" else "B:", st["k"], st["d"], st["r"], st["p"],
                                                      (" hi" if st.get("h") else " lo") if st["k"] == "push" else "", spec(st["s"])))
    c = b["conf"]
    return {"allow": c["allow"], "eccv": c["eccv"], "lim": c["lim"], "steps": steps}
