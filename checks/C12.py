"""C12 - only valid credentials and live sessions authenticate (DESIGN 4.12; candidate F4 of section 7).

Flow: exhaustive TLC of specs/AuthSession -> behaviours (sequential histories, every interleaving of 2-3 concurrent
presenters of one session, seeded simulations) -> replay on a real auth.Authenticator over Rosmar -> TLC on the
recorded real outcomes/state: pass P (PwSound, FastPathSound, SessSound, SessDisabled*, OneTimeOnce) then pass C.

Two clauses are decided from minimal fixed histories ("probes") first, so that a defect is keyed on its minimal
history and everything else is still decided on all traces:
  * disabled owner (F4): Authenticator level first; if the Authenticator accepts, the REST layer (checkPublicAuth,
    HTTP 200/426 vs 401) is the level the clause is bound at.
  * one-time consumption needs KVStore.Delete to report an absent document.  The probe runs two presenters on the
    raw test store; the interleaving families run under the documented store contract (harness decorator), so that
    sync_gateway's own logic is decided for every interleaving whatever the store simulator does.
Local additions to vlib (rule 9): validate_all() = trace validation with `-continue`, collecting every violated
invariant with its trace line.
"""
import json
import os
import re
import threading
from vlib.core import *
from vlib.core import tlc

SPEC = os.path.join(VERIF, "specs", "AuthSession")
AUTH_HARNESS = ["harness/auth/c12_authsession_test.go"]
REST_HARNESS = ["harness/rest/c12_rest_session_test.go"]
AUTH_OPS = ("AuthPassword", "AuthCookie", "AuthOneTime")
DISABLED_INVS = ("SessDisabledCookie", "SessDisabledOneTime")


def st(a, u="", p="", s="", one=False, pr=0, kind=""):
    return {"a": a, "u": u, "p": p, "s": s, "one": one, "pr": pr, "kind": kind}


def show(steps):
    def one(x):
        args = [v for v in (x["u"], x["p"] if x["a"] in ("CreateUser", "SetPassword", "AuthPassword") else None, x["s"]) if v not in (None, "")]
        if x["a"] == "CreateSession":
            args.append("one-time" if x["one"] else "regular")
        if x["pr"]:
            args = ["presenter %s" % x["pr"], x["kind"]] + args
        return "%s(%s)" % (x["a"], ",".join(args))
    return ";".join(one(x) for x in steps)


# minimal fixed histories ------------------------------------------------------------------------------------------
F4_PROBES = {
    "disabled-owner-regular-session-cookie": [st("CreateUser", "u1", "p1"), st("CreateSession", "u1", s="s1"), st("AuthCookie", s="s1"), st("Disable", "u1"),
                                              st("AuthPassword", "u1", "p1"), st("AuthCookie", s="s1"), st("Enable", "u1"), st("AuthCookie", s="s1")],
    "disabled-owner-one-time-websocket-token": [st("CreateUser", "u1", "p1"), st("CreateSession", "u1", s="s1", one=True), st("Disable", "u1"),
                                                st("AuthOneTime", s="s1"), st("AuthOneTime", s="s1")],
    "disabled-owner-one-time-cookie": [st("CreateUser", "u1", "p1"), st("CreateSession", "u1", s="s1", one=True), st("Disable", "u1"),
                                       st("AuthCookie", s="s1"), st("AuthCookie", s="s1")],
}
STORE_PROBE = "two-presenters-get-get-delete-delete"
STORE_PROBES = {
    STORE_PROBE: [st("CreateUser", "u1", "p1"), st("CreateSession", "u1", s="s1", one=True),
                  st("PGetS", s="s1", pr=1, kind="AuthOneTime"), st("PGetS", s="s1", pr=2, kind="AuthCookie"),
                  st("PGetU", s="s1", pr=1, kind="AuthOneTime"), st("PGetU", s="s1", pr=2, kind="AuthCookie"),
                  st("PDel", s="s1", pr=1, kind="AuthOneTime"), st("PDel", s="s1", pr=2, kind="AuthCookie")],
}


REFRESH_PROBE = "aged-regular-session-refresh-races-delete"
REFRESH_PROBES = {
    REFRESH_PROBE: [st("CreateUser", "u1", "p1"), st("CreateSession", "u1", s="s1"), st("Age", s="s1"),
                    st("PGetS", s="s1", pr=1, kind="AuthCookie"), st("DeleteSession", s="s1"), st("PSet", s="s1", pr=1, kind="AuthCookie"),
                    st("PGetU", s="s1", pr=1, kind="AuthCookie"), st("AuthCookie", s="s1"), st("AuthOneTime", s="s1")],
}


def run(ctx):
    quick = ctx.quick()
    ctx.cov["actions"] = {}
    ctx._c12_mc, ctx._c12_mc_err = None, []
    try:
        _run(ctx, quick)
    finally:
        t = getattr(ctx, "_c12_mc", None)
        if t is not None:
            t.join()
    if ctx._c12_mc_err:
        raise ctx._c12_mc_err[0]
    ctx.cov["exhaustive"] = True


def design(ctx, quick):
    """1. the design: exhaustive TLC (runs in a thread next to the Go replay; its own staging tag, so no clash)"""
    try:
        model_check(ctx, SPEC, "MC_AuthSession", "MC_AuthSession.cfg" if quick else "MC_AuthSession_thorough.cfg", timeout=3000)
        # every interleaving of 3 concurrent presenters mixed with sequential presentations / password change / session deletion
        model_check(ctx, SPEC, "MC_AuthSession", "MC_AuthSession_conc.cfg", timeout=3000)
        # DeleteSession racing a presentation in flight (as coded since fix b081bb5: the refresh is a CAS write); the real code is
        # held to it by REFRESH_PROBE, which brings the keyed VIOLATION back if the blind Set returns
        model_check(ctx, SPEC, "MC_AuthSession", "MC_AuthSession_race.cfg", timeout=3000)
    except BaseException as ex:      # re-raised by run() in the main thread
        ctx._c12_mc_err.append(ex)


def _run(ctx, quick):
    # 2. behaviours -------------------------------------------------------------------------------------------------
    seq = behaviours(ctx, SPEC, "MC_AuthSession", "Beh_AuthSession.cfg")
    seq += behaviours(ctx, SPEC, "MC_AuthSession", "Beh_AuthSession_pw.cfg")       # credential histories (fast path before/after SetPassword, delete + re-create)
    seq += behaviours(ctx, SPEC, "MC_AuthSession", "Beh_AuthSession_sess.cfg" if quick else "Beh_AuthSession_sess6.cfg")   # session-life histories
    conc = behaviours(ctx, SPEC, "MC_AuthSession", "Beh_AuthSession_conc.cfg")
    conc += behaviours(ctx, SPEC, "MC_AuthSession", "Beh_AuthSession_conc3.cfg", timeout=1200)
    # (TLC's simulator evaluates the exporting invariant on every successor of the last step: one per enabled action kind, ~7 per trace)
    sims = behaviours(ctx, SPEC, "MC_AuthSession", "Sim_AuthSession.cfg", num=150 if quick else 1500, depth=9)
    mixed = [] if quick else behaviours(ctx, SPEC, "MC_AuthSession", "Sim_AuthSession_mixed.cfg", num=300, depth=14)
    hist = {}
    for b in sims + mixed:
        for x in b["steps"]:
            hist[x["a"]] = hist.get(x["a"], 0) + 1
    ctx.cov["actions"]["simulated_action_histogram"] = dict(sorted(hist.items(), key=lambda kv: -kv[1]))   # SimNext: one successor per action kind
    ctx._c12_mc = threading.Thread(target=design, args=(ctx, quick), daemon=True)
    ctx._c12_mc.start()
    probes = [(n, s, "raw") for n, s in list(F4_PROBES.items()) + list(STORE_PROBES.items()) + list(REFRESH_PROBES.items())]
    behs = [{"store": m, "steps": s} for _, s, m in probes]
    behs += [{"store": "raw", "steps": b["steps"]} for b in seq + sims]
    behs += [{"store": "contract", "steps": b["steps"]} for b in conc + mixed]
    nprobe = len(probes)

    # 3. replay on the real Authenticator ------------------------------------------------------------------------------
    bf = os.path.join(ctx.scratch, "c12-beh.json")
    tr = os.path.join(ctx.scratch, "c12.ndjson")
    write_json(bf, behs)
    rc, out = go_test(ctx, "auth", "^TestVerif_C12_AuthSession$", AUTH_HARNESS, env={"VERIF_BEH": bf, "VERIF_TRACE_OUT": tr})
    if rc != 0 or not os.path.exists(tr):
        raise Inconclusive("C12 harness failed:\n" + harness_failure(out))
    rows = read_ndjson(tr)
    prow, mrow = split_rows(rows, nprobe)
    ptr, mtr = os.path.join(ctx.scratch, "c12-probe.ndjson"), os.path.join(ctx.scratch, "c12-main.ndjson")
    write_ndjson(ptr, prow)
    write_ndjson(mtr, mrow)
    ctx.cov["evaluations"] += len(behs)
    measure(ctx, mrow)
    try:
        meta = json.load(open(tr + ".meta"))
    except Exception:
        meta = {}
    ctx.sample({"passwords_bound_to": meta})
    ctx.sample({"behaviour": behs[nprobe + len(seq) // 2]["steps"], "real_outcomes": [r["res"] for r in beh_rows(mrow, len(seq) // 2)]})
    ctx.sample({"concurrent_behaviour": show(conc[len(conc) // 2]["steps"]),
                "real_outcomes": [r["res"] for r in beh_rows(mrow, len(seq) + len(sims) + len(conc) // 2) if r["res"]["op"] != "none"]})

    # 4. probes: which clauses fail on their minimal history, and at which level -----------------------------------------
    env = {}
    hits = validate_all(ctx, ptr)
    by_probe = {}
    for inv, line in hits:
        bi = beh_of(prow, line)
        by_probe.setdefault(probes[bi][0], set()).add(inv)
    auth_disabled = set()
    for name in F4_PROBES:
        for inv in by_probe.get(name, ()):
            if inv in DISABLED_INVS:
                auth_disabled.add(inv)
            else:
                report(ctx, inv, "auth", name, F4_PROBES[name], prow)
    if auth_disabled:
        ctx.notes.append("Authenticator level: AuthenticateCookie / AuthenticateOneTimeSession accept a session whose owner is disabled (%s); "
                         "the disabled clause is therefore decided at the REST layer" % ", ".join(sorted(auth_disabled)))
        rest_disabled(ctx, env)
    else:
        env["VERIF_C12_SESSION_CHECKS_DISABLED"] = "1"      # conformance against the ideal session path
    store_bad = by_probe.get(STORE_PROBE, set())
    if "OneTimeOnce" in store_bad:
        report_violation(ctx, "OneTimeOnce@store=rosmar:" + STORE_PROBE,
                         "a one-time session authenticates TWICE when two presenters both read it before either deletes it (raw test store): "
                         "deleteOneTimeSession relies on KVStore.Delete reporting an absent document, rosmar's Delete of an already deleted "
                         "(tombstoned) document returns nil; history: " + show(STORE_PROBES[STORE_PROBE]),
                         {"behaviour": STORE_PROBES[STORE_PROBE], "invariant": "OneTimeOnce", "store": "raw rosmar test bucket",
                          "real_trace": [r for r in beh_rows(prow, len(F4_PROBES))]})
        ctx.notes.append("interleaving families run under the documented KVStore.Delete contract (harness decorator vC12Contract)")
    for inv in store_bad - {"OneTimeOnce"} - set(DISABLED_INVS):
        report(ctx, inv, "auth", STORE_PROBE, STORE_PROBES[STORE_PROBE], prow)
    refresh_bad = by_probe.get(REFRESH_PROBE, set())
    if "SessSound" in refresh_bad:
        report_violation(ctx, "SessSound@auth:" + REFRESH_PROBE,
                         "a DELETED regular session authenticates again: AuthenticateCookie's TTL refresh (taken when more than 10% of the TTL has elapsed) "
                         "writes the session document back with a blind datastore.Set after reading it; a DeleteSession (logout) between that Get and "
                         "the Set is undone, and the next presentations succeed; history: " + show(REFRESH_PROBES[REFRESH_PROBE]),
                         {"behaviour": REFRESH_PROBES[REFRESH_PROBE], "invariant": "SessSound", "level": "auth",
                          "real_trace": [{k: r.get(k) for k in ("a", "pr", "res", "S", "PC")} for r in rows_named(prow, REFRESH_PROBES[REFRESH_PROBE])]})
    if not refresh_bad:      # the probe is the only trace with a deletion between the read and the refresh write: conformance of that step
        rtr = os.path.join(ctx.scratch, "c12-refresh-probe.ndjson")
        rr = [{"a": "Reset", "beh": 0}] + rows_named(prow, REFRESH_PROBES[REFRESH_PROBE], prefix=True)
        write_ndjson(rtr, rr)
        vc = validate(ctx, SPEC, "Trace_AuthSession", "Trace_AuthSession_C.cfg", rtr, env=env, tag="refresh-C")
        ctx.sample({"refresh_race_probe": [{"a": r["a"], "pc": r["PC"][0], "ok": r["res"]["ok"], "session_exists": r["S"]["s1"]["exists"]} for r in rr[1:]]})
        if vc.inv or not vc.accepted:
            ctx.cov["nonconformance"] += 1
            ctx.notes.append("pass C rejected the refresh-race probe at line %s (%s): %s" % (vc.line, vc.inv, rr[vc.line - 1] if vc.line and vc.line <= len(rr) else None))
    for inv in refresh_bad - {"SessSound"} - set(DISABLED_INVS):
        report(ctx, inv, "auth", REFRESH_PROBE, REFRESH_PROBES[REFRESH_PROBE], prow)

    # 5. all behaviours: property on real outcomes, then conformance ----------------------------------------------------
    box = {}

    def conf():
        try:
            box["vc"] = validate(ctx, SPEC, "Trace_AuthSession", "Trace_AuthSession_C.cfg", mtr, env=env, timeout=3000)
        except BaseException as ex:
            box["err"] = ex
    tc = threading.Thread(target=conf, daemon=True)      # pass C next to pass P (distinct staging tags); only used if P accepts
    tc.start()
    try:
        vp = validate(ctx, SPEC, "Trace_AuthSession", "Trace_AuthSession_P.cfg", mtr, env=env, timeout=3000)
    finally:
        tc.join()
    if vp.inv:
        steps = history(mrow, vp.line)
        inv = vp.inv.rstrip("T") if vp.inv.endswith("T") else vp.inv
        key = "%s:%s" % (inv, json.dumps(steps, sort_keys=True))
        report_violation(ctx, key, "real Authenticator breaks %s after %s (trace line %s)" % (inv, show(steps), vp.line),
                         {"behaviour": steps, "invariant": inv, "state": (vp.state or {}).get("_txt"), "passwords": meta})
    elif not vp.accepted:
        raise Inconclusive("pass P stopped at line %s of %s (trace shape not accepted): %s\n%s"
                           % (vp.line, vp.total, mrow[vp.line - 1] if vp.line and vp.line <= len(mrow) else None, vp.out[-1500:]))
    else:
        if "err" in box:
            raise box["err"]
        vc = box["vc"]
        if vc.inv or not vc.accepted:
            ctx.cov["nonconformance"] += 1
            ctx.notes.append("pass C rejected at line %s (%s): %s" % (vc.line, vc.inv, mrow[vc.line - 1] if vc.line and vc.line <= len(mrow) else None))
        else:
            ctx.cov["traces_validated_against_impl"] += len(behs) - nprobe

    # 6. thorough: the same sequential behaviours over the REST API ---------------------------------------------------------
    if not quick:
        rest_replay(ctx, [b["steps"] for b in sims[:400] + seq[::8]], env)

    ctx.cov["rule"] = ("behaviours = every sequential history of length 4 over all actions (1 user, 1 session, set {p1,empty}, try {p1,wrong}); every credential "
                       "history of length 5 (create/set-password/disable/enable/delete/re-create x password auth, passwords {p1,p2}); every session-life history "
                       "of length 5 (6 in thorough: create/set-password/delete/re-create user x create/delete/AGE session x cookie/one-time presentation); every "
                       "interleaving of the storage steps (Get session, [refresh Set], Get user, [Delete]) of 2 (fresh or aged session) and of 3 concurrent presenters (cookie or websocket-token) of one session; seeded TLC simulations "
                       "of length 7 over 2 users, 2 sessions, set {p1,p2,empty}, try {p1,p2,empty,wrong}; non-trivial = behaviour in which at least one "
                       "authentication succeeded and at least one was refused on the real code")
    ctx.assumptions += [
        "passwords enter only through bcrypt and string equality: p1/p2/wrong are bound to seeded strings (prefix-related, NUL, multi-byte); "
        "strings equal in their first 72 bytes and bcrypt's cyclic-key aliases are the same credential for bcrypt and are not 'wrong'",
        "SessionUUID values enter only through equality: numbered by first appearance",
        "expiry = the store deleting the session document (TTL is handed to the store); ageing = the stored Expiration says >10% of the TTL has elapsed (forged through the datastore)",
        "administrative operations are not interleaved with a presentation in flight, except DeleteSession racing the TTL refresh (fixed probe)",
        "concurrent presentations are decided under the documented KVStore.Delete contract (absent document => error), which Couchbase Server honours",
    ]


# ----------------------------------------------------------------------------------------------------------------
def rest_disabled(ctx, env):
    """the disabled clause at the level the property names: HTTP 200/426 vs 401 through checkPublicAuth"""
    names = list(F4_PROBES)
    rrows = rest_run(ctx, [F4_PROBES[n] for n in names], "c12-rest-probe")
    rtr = os.path.join(ctx.scratch, "c12-rest-probe.ndjson")
    seen = set()
    for inv, line in validate_all(ctx, rtr):
        name = names[beh_of(rrows, line)]
        if (inv, name) in seen:
            continue
        seen.add((inv, name))
        report(ctx, inv, "rest", name, F4_PROBES[name], rrows)
    bad = {inv for inv, _ in seen if inv in DISABLED_INVS}
    for inv in DISABLED_INVS:
        env["VERIF_C12_WAIVE_" + inv] = "1"      # bound at the REST level (reported there or refused there), not again per Authenticator trace
    if not bad:
        ctx.notes.append("REST layer refuses sessions of disabled owners although the Authenticator accepts them")
    ctx.cov["actions"]["rest_probe_lines"] = len(rrows)
    ctx.sample({"rest_probe": [{"a": r["a"], "status": r.get("status"), "ok": r["res"]["ok"]} for r in beh_rows(rrows, 0)]})


def rest_replay(ctx, steps_list, env):
    ok_actions = {"CreateUser", "SetPassword", "Disable", "Enable", "DeleteUser", "CreateSession", "DeleteSession", "Expire", "Age"} | set(AUTH_OPS)
    sel = [s for s in steps_list if all(x["a"] in ok_actions for x in s)]
    rrows = rest_run(ctx, sel, "c12-rest")
    rtr = os.path.join(ctx.scratch, "c12-rest.ndjson")
    e = dict(env)
    e.pop("VERIF_C12_SESSION_CHECKS_DISABLED", None)
    vp = validate(ctx, SPEC, "Trace_AuthSession", "Trace_AuthSession_P.cfg", rtr, env=e, timeout=3000, tag="rest-P")
    ctx.cov["evaluations"] += len(sel)
    if vp.inv:
        steps = history(rrows, vp.line)
        inv = vp.inv.rstrip("T") if vp.inv.endswith("T") else vp.inv
        report_violation(ctx, "%s@rest:%s" % (inv, json.dumps(steps, sort_keys=True)),
                         "REST layer breaks %s after %s" % (inv, show(steps)), {"behaviour": steps, "invariant": inv, "level": "rest"})
    elif not vp.accepted:
        raise Inconclusive("REST pass P stopped at line %s of %s" % (vp.line, vp.total))
    else:
        ctx.cov["traces_validated_against_impl"] += len(sel)
        ctx.cov["actions"]["rest_behaviours"] = len(sel)


def rest_run(ctx, steps_list, tag):
    bf = os.path.join(ctx.scratch, tag + "-beh.json")
    tr = os.path.join(ctx.scratch, tag + ".ndjson")
    write_json(bf, [{"steps": s} for s in steps_list])
    rc, out = go_test(ctx, "rest", "^TestVerif_C12_RestSession$", REST_HARNESS, env={"VERIF_BEH": bf, "VERIF_TRACE_OUT": tr}, timeout=2400)
    if rc != 0 or not os.path.exists(tr):
        raise Inconclusive("C12 REST harness failed:\n" + harness_failure(out))
    return read_ndjson(tr)


def report(ctx, inv, level, name, steps, rows):
    what = {
        "SessDisabledCookie": "a session cookie of a DISABLED user still authenticates",
        "SessDisabledOneTime": "a one-time session (websocket token) of a DISABLED user still authenticates",
    }.get(inv, "%s is broken" % inv)
    where = {"rest": "through the REST layer (HTTP 200/426 instead of 401)", "auth": "at the Authenticator"}[level]
    if level == "rest" and inv in DISABLED_INVS:
        where = ("through the REST layer: checkPublicAuth returns the user of AuthenticateCookie / AuthenticateOneTimeSession without consulting "
                 "Disabled() (HTTP 200/426 instead of 401)")
    report_violation(ctx, "%s@%s:%s" % (inv, level, name), "%s %s; history: %s" % (what, where, show(steps)),
                     {"behaviour": steps, "invariant": inv, "level": level,
                      "real_trace": [{k: r.get(k) for k in ("a", "u", "s", "res", "status", "U")} for r in rows_named(rows, steps)]})


def rows_named(rows, steps, prefix=False):
    # the rows of the first behaviour in `rows` whose action sequence equals steps (prefix=True: is a prefix of steps -
    # a presenter that finished early performs fewer steps than the behaviour lists)
    want = [x["a"] for x in steps]
    cur = []
    for r in rows + [{"a": "Reset"}]:
        if r["a"] == "Reset":
            got = [x["a"] for x in cur]
            if cur and (got == want or (prefix and all(g in want for g in got) and got[:4] == want[:4])):
                return cur
            cur = []
        else:
            cur.append(r)
    return []


def validate_all(ctx, trace_path):
    """pass P with -continue: every (invariant, trace line) violated on the trace"""
    r = tlc(ctx, SPEC, "Trace_AuthSession", "Trace_AuthSession_P.cfg", workers=1, env={"VERIF_TRACE": trace_path}, timeout=900, dfs=True,
            tag="probe", allow_violation=True, extra=["-continue"])
    with open(trace_path) as f:
        total = sum(1 for _ in f)
    consumed = max([int(t.split(",")[0]) for tag, t in r.printed if tag == "HWM"] or [0])
    if consumed < total:
        raise Inconclusive("probe trace not accepted: consumed %d of %d lines\n%s" % (consumed, total, r.out[-1500:]))
    hits, seen = [], set()
    for m in re.finditer(r"Error: Invariant (\S+) is violated\.(.*?)(?=Error: Invariant |\Z)", r.out, re.S):
        inv = m.group(1)
        ls = re.findall(r"^/\\ l = (\d+)\s*$", m.group(2), re.M)
        if not ls:
            continue
        line = int(ls[-1])
        inv = inv[:-1] if inv.endswith("T") else inv
        if (inv, line) not in seen:
            seen.add((inv, line))
            hits.append((inv, line))
    return hits


def split_rows(rows, nprobe):
    """rows of the first nprobe behaviours / of the rest (re-numbered from 0)"""
    a, b = [], []
    for r in rows:
        if r["a"] == "Reset":
            cur = r["beh"]
            if cur >= nprobe:
                r = dict(r, beh=cur - nprobe)
        (a if cur < nprobe else b).append(r)
    return a, b


def beh_of(rows, line):
    """behaviour index of the row consumed last when the position variable is `line`"""
    idx = None
    for r in rows[:max(0, line - 1)]:
        if r["a"] == "Reset":
            idx = r["beh"]
    return idx


def beh_rows(rows, idx):
    res, on = [], False
    for r in rows:
        if r["a"] == "Reset":
            if on:
                break
            on = r["beh"] == idx
        elif on:
            res.append(r)
    return res


def history(rows, line):
    """steps of the behaviour that the violating state (position `line`) belongs to, up to the violating step"""
    steps = []
    for r in rows[:max(0, (line or 1) - 1)]:
        if r["a"] == "Reset":
            steps = []
        else:
            steps.append({k: r[k] for k in ("a", "u", "p", "s", "one", "pr", "kind")})
    return steps


def measure(ctx, rows):
    """non-vacuity, measured on what the real code answered"""
    act = ctx.cov["actions"]
    cnt = {"auth_ok": 0, "auth_refused": 0, "password_cache_hits": 0, "stale_or_dead_session_refused": 0, "disabled_password_refused": 0,
           "one_time_second_use_refused": 0, "aged_regular_session_refreshed": 0, "aged_one_time_cookie_presented": 0, "concurrent_episodes": 0, "concurrent_episodes_one_winner": 0, "recreated_user_old_session_refused": 0}
    nontrivial = 0
    cur = None
    prev = None

    def close(c):
        nonlocal nontrivial
        if c is None:
            return
        if c["ok"] and c["no"]:
            nontrivial += 1
        if c["pres"]:
            cnt["concurrent_episodes"] += 1
            if c["wins"] == 1:
                cnt["concurrent_episodes_one_winner"] += 1
    for r in rows:
        if r["a"] == "Reset":
            close(cur)
            cur = {"ok": 0, "no": 0, "pres": 0, "wins": 0, "used": set(), "deleted": set(), "recreated": set()}
            prev = None
            continue
        res = r["res"]
        if res["op"] == "AuthCookie" and prev is not None and prev["S"][res["s"]]["aged"]:
            if prev["S"][res["s"]]["oneTime"]:
                cnt["aged_one_time_cookie_presented"] += 1
            elif r["S"][res["s"]]["exists"] and not r["S"][res["s"]]["aged"]:
                cnt["aged_regular_session_refreshed"] += 1
        prev = r
        if r["a"] == "DeleteUser":
            cur["deleted"].add(r["u"])
        if r["a"] == "CreateUser" and r["u"] in cur["deleted"]:
            cur["recreated"].add(r["u"])
        if res["op"] in AUTH_OPS:
            if res["ok"]:
                cnt["auth_ok"] += 1
                cur["ok"] += 1
            else:
                cnt["auth_refused"] += 1
                cur["no"] += 1
            if r.get("hit") and res["ok"]:
                cnt["password_cache_hits"] += 1
            if res["op"] == "AuthPassword" and not res["ok"] and r["U"][r["u"]]["disabled"]:
                cnt["disabled_password_refused"] += 1
            if res["op"] != "AuthPassword":
                s = res["s"]
                if not res["ok"] and r["S"][s]["exists"]:
                    cnt["stale_or_dead_session_refused"] += 1
                    if r["S"][s]["user"] in cur["recreated"]:
                        cnt["recreated_user_old_session_refused"] += 1
                if not res["ok"] and s in cur["used"]:
                    cnt["one_time_second_use_refused"] += 1
                if res["ok"] and not r["S"][s]["exists"]:
                    cur["used"].add(s)
                if res["pr"]:
                    cur["pres"] += 1
                    cur["wins"] += 1 if res["ok"] else 0
    close(cur)
    for k, v in cnt.items():
        act[k] = act.get(k, 0) + v
    ctx.cov["distinct_nontrivial"] += nontrivial
