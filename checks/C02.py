"""C02 - no document content is disclosed outside the reader's channels (DESIGN 4.2; specs/ReadAuth).

1. TLC enumerates the case product (access configuration x revision-tree shape x channel assignment) of
   specs/ReadAuth, checks the four property invariants on the design's intended responses for every read
   (surface x abstract flags x user x revision) and exports the cases.
2. A seeded, coverage-directed selection of the cases is hosted side by side in ONE RestTester
   (harness/rest/c02_readauth_test.go); every response given to a non-admin requester is scanned for the per-revision
   markers and projected; the read events are recorded.
3. TLC evaluates NoLeak / StubOnly / NoExistenceLeak / Available on every recorded event (pass P) and the design
   envelope (pass C).
"""
import collections
import json
import os
import random
import re

from vlib.core import *

SPEC = os.path.join(VERIF, "specs", "ReadAuth")
HARNESS = ["harness/rest/c02_readauth_test.go"]
PROPERTY_INVS = ("NoLeak", "StubOnly", "NoExistenceLeak", "Available")
BLIP_SLICE = 12


def run(ctx):
    cfg = "MC_ReadAuth.cfg" if ctx.quick() else "MC_ReadAuth_thorough.cfg"
    r = model_check(ctx, SPEC, "MC_ReadAuth", cfg, timeout=3000, coverage=False)
    ctx.cov["exhaustive"] = True
    cases = exported_cases(r)
    if not cases:
        raise Inconclusive("MC_ReadAuth exported no cases")
    log("  %d cases exported by TLC" % len(cases))
    ctx.cov["cases_in_model"] = len(cases)
    rnd = random.Random(ctx.seed)
    runs = []
    if ctx.quick():
        # REST surfaces on 110 cases; the first BLIP_SLICE of them (documents that left a user's channels, superseded,
        # tombstoned) are also pulled over the replication protocol (v3, v2, v3/v4 with revocations=true), both cache passes
        front = removal_slice(cases, rnd, BLIP_SLICE)
        rest = [c for c in select(cases, rnd, 110) if c not in front][:110 - len(front)]
        runs.append(("rest", front + rest, {"VERIF_C02_BLIP": "also:%d" % len(front)}))
    else:
        runs.append(("rest", select(cases, rnd, 700), {}))
        runs.append(("rest-fullflags", select(cases, rnd, 140), {"VERIF_C02_FLAGS": "full"}))
        runs.append(("rest-defaultcollection", select(cases, rnd, 200), {"VERIF_C02_DEFAULT_COLLECTION": "1"}))
        front = removal_slice(cases, rnd, 50)
        runs.append(("blip", front + [c for c in select(cases, rnd, 110) if c not in front][:60], {"VERIF_C02_BLIP": "1"}))
    tot = collections.Counter()
    for name, sel, env in runs:
        host_and_validate(ctx, name, sel, env, tot)
    ctx.cov["evaluations"] = tot["reads"]
    ctx.cov["distinct_nontrivial"] = tot["denied"]
    ctx.cov["reads_by_surface"] = {k[5:]: v for k, v in tot.items() if k.startswith("surf:")}
    ctx.cov["reads_with_content_delivered"] = tot["delivered"]
    ctx.cov["cases_hosted"] = tot["cases"]
    ctx.cov["rule"] = ("one case = access configuration (role channels, two users with direct grants / role membership, guest) x revision tree "
                       "(single, updated, tombstoned, three-deep, conflicting with either winner, conflicting tombstone, extended losing branch) x "
                       "channel set of every revision; cases selected by seed so that every document configuration and every (shape, effective user "
                       "type) pair occurs; per case every user issues every read surface with its flag variants, caches cold and warmed by an "
                       "administrator; evaluations = read events judged by TLC; non-trivial = events in which the gateway had to withhold "
                       "something (error status, redacted stub, or a listing that omits the document)")
    ctx.assumptions += [
        "ground truth = the channels each revision was written with (channels body field, sync function channel(doc.channels)) and the admin grants; the gateway's own answer is never used",
        "markers are searched in raw response bytes and headers (attachment markers also base64-encoded); a disclosure that re-encodes content otherwise (gzip, delta) is not seen",
        "delta replication (rev with deltaSrc) is enterprise-only and not compiled in this build; it is not exercised",
        "conflicting revision trees are created with the test-only EnableAllowConflicts switch (4.x serves them as legacy data)",
    ]


def exported_cases(r):
    res, seen = [], set()
    for t, txt in r.printed:
        if t != "BEH":
            continue
        js = json.loads(txt)
        if js in seen:
            continue
        seen.add(js)
        res.append(json.loads(js))
    return res


def utype(c, u):
    usr = c["users"][u]
    return (tuple(usr["direct"]), tuple(c["role"]) if usr["inRole"] else None)


def docconf(c):
    return (c["shape"], tuple(tuple(r["chans"]) for r in c["revs"]))


def select(cases, rnd, k):
    """seeded, coverage-directed: every document configuration, then every (shape, user type) pair, then random."""
    order = list(cases)
    rnd.shuffle(order)
    chosen, have_dc, have_su = [], set(), set()
    picked = set()

    def take(i, c):
        picked.add(i)
        chosen.append(c)
        have_dc.add(docconf(c))
        for u in ("u1", "u2"):
            have_su.add((c["shape"], utype(c, u)))

    for i, c in enumerate(order):
        if len(chosen) < k and docconf(c) not in have_dc:
            take(i, c)
    for i, c in enumerate(order):
        if len(chosen) < k and i not in picked and any((c["shape"], utype(c, u)) not in have_su for u in ("u1", "u2")):
            take(i, c)
    for i, c in enumerate(order):
        if len(chosen) < k and i not in picked:
            take(i, c)
    rnd.shuffle(chosen)
    return chosen


def removal_slice(cases, rnd, k):
    """cases (linear trees only, so current = last written) for the replication-protocol slice: mostly documents whose
    current revision LEFT a channel through which some user could read an earlier revision (the puller is told about the
    removal and requests that revision), plus tombstoned / plainly superseded / single-revision ones.  Used only to pick
    inputs; what is right or wrong is decided by TLC on the recorded events."""
    def chans(c, u):
        usr = c["users"][u]
        return set(usr["direct"]) | (set(c["role"]) if usr["inRole"] else set()) | {"!"}

    def lost(c):
        last = c["revs"][-1]
        if last["del"]:
            return False
        for u in c["users"]:
            uc = chans(c, u)
            if "*" in uc or set(last["chans"]) & uc:
                continue
            if any(set(r["chans"]) & uc for r in c["revs"][:-1]):
                return True
        return False

    order = [c for c in cases if c["shape"] in ("single", "chain2", "chain3", "tomb")]
    rnd.shuffle(order)
    quota = [("chain2", True, k // 2), ("chain3", True, max(1, k // 6)), ("tomb", False, max(1, k // 6)), ("chain2", False, 1), ("single", False, 1)]
    out = []
    for shape, want_lost, n in quota:
        got = 0
        for c in order:
            if got < n and c not in out and c["shape"] == shape and lost(c) == want_lost:
                out.append(c)
                got += 1
    for c in order:
        if len(out) < k and c not in out and lost(c):
            out.append(c)
    return out[:k]


def host_and_validate(ctx, name, cases, env, tot):
    bf = os.path.join(ctx.scratch, "c02-%s-cases.json" % name)
    tr = os.path.join(ctx.scratch, "c02-%s.ndjson" % name)
    write_json(bf, cases)
    e = {"VERIF_BEH": bf, "VERIF_TRACE_OUT": tr}
    e.update(env)
    rc, out = go_test(ctx, "rest", "^TestVerif_C02_ReadAuth$", HARNESS, env=e, timeout=2400)
    if rc != 0 or not os.path.exists(tr):
        raise Inconclusive("C02 harness failed (%s):\n%s" % (name, harness_failure(out)))
    rows = read_ndjson(tr)
    reads = [r for r in rows if r["a"] == "Read"]
    if not reads:
        raise Inconclusive("C02 harness recorded no read events (%s)" % name)
    tot["cases"] += len(cases)
    tot["reads"] += len(reads)
    for r in reads:
        tot["surf:" + r["surf"]] += 1
        if r["mk"] or r["am"]:
            tot["delivered"] += 1
        if r["st"] >= 300 or any((not e_["err"]) and "_removed" in e_["props"] for e_ in r["ents"]) or any(e_["err"] for e_ in r["ents"]) \
                or (r["surf"] in ("AllDocs", "Changes", "BlipChanges") and not r["listed"]):
            tot["denied"] += 1
    mid = reads[len(reads) // 2]
    ctx.sample({"run": name, "case": next(x for x in rows if x["a"] == "Case" and x["c"] == mid["c"]), "read": mid}, cap=4)
    log("  %s: %d cases, %d read events recorded" % (name, len(cases), len(reads)))

    # chunk the trace at case boundaries (keeps each TLC run small); every chunk starts with the Meta line
    chunks, cur = [], []
    for r in rows[1:]:
        if r["a"] == "Case" and r.get("pass") == "cold" and len(cur) > 40000:
            chunks.append(cur)
            cur = []
        cur.append(r)
    chunks.append(cur)
    accepted = True
    for ci, ch in enumerate(chunks):
        p = os.path.join(ctx.scratch, "c02-%s-%d.ndjson" % (name, ci))
        lines = [rows[0]] + ch
        write_ndjson(p, lines)
        # pass P: the four property predicates on every recorded event.  Run in the trace module's collect mode: the
        # same predicates, but a failure is printed (<<"VIOL", invariant, line, class>>) instead of stopping TLC at the
        # first one, so that every distinct failure can be keyed (known findings are matched per key).
        new_violation = pass_p(ctx, name, ci, p, lines)
        if new_violation:
            accepted = False
            continue
        vc = validate(ctx, SPEC, "Trace_ReadAuth", "Trace_ReadAuth_C.cfg", p, timeout=3000, tag="C-%s-%d" % (name, ci))
        if vc.inv:
            raise Inconclusive("pass C evaluated a property invariant to false that pass P accepted (%s, %s)" % (name, vc.inv))
        if not vc.accepted:
            ctx.cov["nonconformance"] += 1
            ln = vc.line
            ctx.notes.append("pass C (%s) rejected line %s: %s" % (name, ln, json.dumps(lines[ln - 1])[:600] if ln and ln <= len(lines) else None))
            accepted = False
    if accepted:
        ctx.cov["traces_validated_against_impl"] += len(cases)


_VIOL = re.compile(r'^<<"VIOL", "(\w+)", (\d+), "([^"]*)">>$')


def pass_p(ctx, name, ci, path, lines):
    """returns True iff a failure that is not a recorded known finding was reported."""
    r = tlc(ctx, SPEC, "Trace_ReadAuth", "Trace_ReadAuth_P.cfg", workers=1, env={"VERIF_TRACE": path, "VERIF_C02_COLLECT": "1"},
            timeout=3000, dfs=True, tag="P-%s-%d" % (name, ci), allow_violation=True)
    if r.inv_violated or r.error_text:
        raise Inconclusive("pass P could not be evaluated (%s): %s\n%s" % (name, r.inv_violated or r.error_text, r.out[-1500:]))
    hwm = max([int(txt.split(",")[0]) for t, txt in r.printed if t == "HWM"] or [0])
    if hwm < len(lines):
        raise Inconclusive("pass P stopped at line %s of %s (%s; trace shape not accepted)\n%s" % (hwm + 1, len(lines), name, r.out[-1500:]))
    found = []
    for ln in r.out.splitlines():
        m = _VIOL.match(ln.strip())
        if m:
            found.append((m.group(1), int(m.group(2)), m.group(3)))
    if not found:
        return False
    case_at, cur = {}, None
    for i, l in enumerate(lines, 1):
        if l["a"] == "Case":
            cur = l
        case_at[i] = cur
    groups = collections.OrderedDict()
    new = False
    for inv, ln, cls in found:
        ev, cs = lines[ln - 1], case_at[ln]
        surf = ev.get("surf", "?")
        if surf == "Changes" and ev.get("fl", {}).get("filter"):
            surf += "/" + ev["fl"]["filter"]
        if inv == "Available":
            key = "%s:%s:%s" % (inv, surf, cls)     # cls = how the requester is entitled to the current revision
        elif cls in ("", "other"):
            key = "%s:%s:%s:%s" % (inv, surf, cs.get("shape") if cs else "?", "rev" if ev.get("rev") else "norev")
        else:
            key = "%s:%s" % (inv, cls)                # cls = the named deviation of the code that explains the disclosure
        groups.setdefault(key, []).append((ln, ev, cs))
    for key, items in groups.items():
        ln, ev, cs = items[0]
        what = ("%s broken on the real gateway (%s run, %d events): user %s, %s %s -> status %s, body markers of %s, attachment markers of %s; case %s"
                % (key, name, len(items), ev.get("u"), ev.get("surf"), ev.get("rq"), ev.get("st"), ev.get("mk"), ev.get("am"),
                   json.dumps({k: cs[k] for k in ("shape", "role", "users", "revs", "cur")}) if cs else None))
        if report_violation(ctx, key, what, {"invariant": key, "events": len(items), "case": cs, "read": ev, "run": name,
                                             "more": [{"case": c, "read": e} for _, e, c in items[1:4]]}):
            new = True
        ctx.cov.setdefault("property_failures_by_key", {})[key] = ctx.cov.get("property_failures_by_key", {}).get(key, 0) + len(items)
    return new
