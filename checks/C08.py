"""C08 - sequence buffering delivers each change once, in order, and never hides gaps (DESIGN 4.8)."""
import json
import os
import random
from vlib.core import *

SPEC = os.path.join(VERIF, "specs", "ChangeCache")
HARNESS = ["harness/db/c08_changecache_test.go"]


def run(ctx):
    q = ctx.quick()
    # 1. exhaustive: policy-independent safety for every feed (incl. contradictory ones); thorough adds the exact policy and a deeper legal-feed run
    #    (the exact policy of the tiny instance is also checked exhaustively by the Beh_ cfg in both tiers)
    model_check(ctx, SPEC, "MC_ChangeCache", "MC_ChangeCache.cfg" if q else "MC_ChangeCache_thorough.cfg", timeout=1500 if q else 6000)
    if not q:
        model_check(ctx, SPEC, "MC_ChangeCache", "MC_ChangeCache_exact.cfg", timeout=6000)
        model_check(ctx, SPEC, "MC_ChangeCache", "MC_ChangeCache_legal.cfg", timeout=6000)
    ctx.cov["exhaustive"] = True
    # 2. behaviours: all of a tiny instance + seeded simulations (unconstrained feeds, legal feeds)
    behs = behaviours(ctx, SPEC, "MC_ChangeCache", "Beh_ChangeCache.cfg")
    rnd = random.Random(ctx.seed)
    behs += per_prefix(behaviours(ctx, SPEC, "MC_ChangeCache", "Sim_ChangeCache.cfg", num=120 if q else 800, depth=14), rnd, 4)
    behs += per_prefix(behaviours(ctx, SPEC, "MC_ChangeCache", "Sim_ChangeCache_legal.cfg", num=150 if q else 1000, depth=14), rnd, 4)
    nseq = len(behs)
    # 3. concurrent variant: the arrivals of simulated behaviours delivered by 2-4 goroutines (final state + forward order)
    conc = []
    for b in behs[-(120 if q else 1200):]:
        steps = [s for s in b["steps"] if s["a"] in ("Arrive", "Range")]
        if len(steps) >= 4:
            rnd.shuffle(steps)
            conc.append({"mn": b["mn"], "w": b["w"], "mode": "conc", "g": rnd.choice([2, 3, 4]), "steps": steps})
    behs += conc
    replay_and_validate(ctx, behs, nseq)
    ctx.cov["rule"] = ("behaviours = every action sequence of length 5 over 4 document sequences + one unused range x MaxNum {0,1,100}, "
                       "plus seeded TLC simulations (one successor per action kind, arguments drawn with RandomElement) of length 12 over a window of 7 (document/principal/unused singles arriving up to twice, "
                       "8 unused ranges, document feed events with unused_sequences/recent_sequences through DocChanged, Tick, Abandon, MaxNum {0,1,2,100}, entries forged older than MaxWait), half of them restricted to legal "
                       "feeds, plus shuffled multisets delivered concurrently by 2-4 goroutines; non-trivial = the real cache skipped a gap or "
                       "delivered a late arrival during the behaviour")
    ctx.assumptions += [
        "sequences enter the buffering only through comparisons and +1/-1: the window is an offset from the cache's initialSequence (seeded bases up to 2^62)",
        "skipped being a subset of the missing sequences is demanded for legal feeds (every sequence declared by one event identity; redelivery allowed); "
        "at-most-once, no loss of a live document arrival, order, high-water-mark soundness, no hidden gap, late handling, overdue skipping and the "
        "stable sequence for every feed (contradictory declarations included)",
        "abandonment after CacheSkippedSeqMaxWait is an explicit environment action and abandoned sequences are excluded from SkippedExact",
        "the response clause (LowSeq = stable in _changes) is bound through C01; here the exposed stable sequence itself is checked, and - because "
        "_changes reads the skipped list without changeCache.lock - also the lock-free view (skipped membership, high cache sequence) at the instant of "
        "every forward inside a critical section (MidNoHiddenGap)",
    ]


def per_prefix(behs, rnd, k):
    """TLC's simulator evaluates the export invariant on every candidate last step, so each simulated trace yields a
    family of behaviours that differ in the last step only: keep at most k of each family."""
    fam = {}
    for b in behs:
        fam.setdefault(json.dumps([b["mn"], b["steps"][:-1]], sort_keys=True), []).append(b)
    res = []
    for key in sorted(fam):
        g = fam[key]
        rnd.shuffle(g)
        res += g[:k]
    return res


def replay_and_validate(ctx, behs, nseq):
    bf = os.path.join(ctx.scratch, "c08-beh.json")
    tr = os.path.join(ctx.scratch, "c08.ndjson")
    write_json(bf, behs)
    rc, out = go_test(ctx, "db", "^TestVerif_C08_ChangeCache$", HARNESS, env={"VERIF_BEH": bf, "VERIF_TRACE_OUT": tr})
    if rc != 0 or not os.path.exists(tr):
        raise Inconclusive("C08 harness failed:\n" + harness_failure(out))
    rows = read_ndjson(tr)
    ctx.cov["evaluations"] += len(behs)
    nontriv, skipped_seen, late_seen, conc_n, cur = set(), 0, 0, 0, None
    for r in rows:
        if r["a"] == "Reset":
            cur = r["beh"]
            continue
        if r["a"] == "Conc":
            conc_n += 1
        if r["skip"]:
            skipped_seen += 1
            nontriv.add(cur)
        if any(o["late"] for o in r["out"]):
            late_seen += 1
            nontriv.add(cur)
    ctx.cov["distinct_nontrivial"] += len(nontriv)
    hist = {}
    for b in behs:
        for st in b["steps"]:
            k = st["a"] if st["a"] != "Arrive" else "Arrive:" + st["kind"]
            hist[k] = hist.get(k, 0) + 1
    ctx.cov["c08"] = {"sequential_behaviours": nseq, "concurrent_behaviours": conc_n, "trace_lines": len(rows),
                      "lines_with_skipped": skipped_seen, "lines_with_late_delivery": late_seen,
                      "action_histogram": hist,
                      "db_wired": sum(1 for r in rows if r["a"] == "Reset" and r.get("wiring") == "db")}
    ctx.sample({"behaviour": behs[nseq // 2], "real_trace_head": rows[:3]})
    vp = validate(ctx, SPEC, "Trace_ChangeCache", "Trace_ChangeCache_P.cfg", tr, timeout=3000)
    if vp.inv:
        beh_idx, beh = locate(rows, vp.line, behs)
        key = "%s:%s" % (vp.inv, json.dumps(beh, sort_keys=True))
        report_violation(ctx, key, "real changeCache breaks %s at trace line %s (behaviour %s)" % (vp.inv, vp.line, beh_idx),
                         {"behaviour": beh, "invariant": vp.inv, "state": (vp.state or {}).get("_txt"),
                          "trace": trace_of(rows, vp.line)})
        return
    if not vp.accepted:
        raise Inconclusive("pass P stopped at line %s of %s (trace shape not accepted)\n%s" % (vp.line, vp.total, vp.out[-1500:]))
    vc = validate(ctx, SPEC, "Trace_ChangeCache", "Trace_ChangeCache_C.cfg", tr, timeout=3000)
    if vc.inv or not vc.accepted:
        ctx.cov["nonconformance"] += 1
        ctx.notes.append("pass C rejected at line %s (%s): %s" % (vc.line, vc.inv, rows[vc.line - 1] if vc.line and vc.line <= len(rows) else None))
    else:
        ctx.cov["traces_validated_against_impl"] += len(behs)


def locate(rows, line, behs):
    idx = None
    for r in rows[:max(0, (line or 1) - 1)]:
        if r["a"] == "Reset":
            idx = r["beh"]
    return idx, (behs[idx] if idx is not None else None)


def trace_of(rows, line):
    """the recorded real lines of the failing behaviour up to the failing line"""
    end = max(0, (line or 1) - 1)
    start = 0
    for i, r in enumerate(rows[:end]):
        if r["a"] == "Reset":
            start = i
    return rows[start:end]
