"""C08 - sequence buffering delivers each change once, in order, and never hides gaps (DESIGN 4.8)."""
import json
import os
import random
import subprocess
from vlib.core import *

SPEC = os.path.join(VERIF, "specs", "ChangeCache")
HARNESS = ["harness/db/c08_changecache_test.go"]


def _run_core(ctx):
    q = ctx.quick()
    # 1. exhaustive: policy-independent safety for every feed (incl. contradictory ones); thorough adds the exact policy and a deeper legal-feed run
    #    (the exact policy of the tiny instance is also checked exhaustively by the Beh_ cfg in both tiers)
    model_check(ctx, SPEC, "MC_ChangeCache", "MC_ChangeCache.cfg" if q else "MC_ChangeCache_thorough.cfg", timeout=1500 if q else 6000)
    if not q:
        model_check(ctx, SPEC, "MC_ChangeCache", "MC_ChangeCache_exact.cfg", timeout=6000)
        model_check(ctx, SPEC, "MC_ChangeCache", "MC_ChangeCache_legal.cfg", timeout=6000)
    ctx.cov["exhaustive"] = True
    # 2. behaviours: all of a tiny instance + seeded simulations (unconstrained feeds, legal feeds)
    behs = behaviours(ctx, SPEC, "MC_ChangeCache", "Beh_ChangeCache.cfg")
    rnd = random.Random(ctx.seed)
    behs += per_prefix(behaviours(ctx, SPEC, "MC_ChangeCache", "Sim_ChangeCache.cfg", num=120 if q else 800, depth=14), rnd, 4)
    behs += per_prefix(behaviours(ctx, SPEC, "MC_ChangeCache", "Sim_ChangeCache_legal.cfg", num=150 if q else 1000, depth=14), rnd, 4)
    nseq = len(behs)
    # 3. concurrent variant: the arrivals of simulated behaviours delivered by 2-4 goroutines (final state + forward order)
    conc = []
    for b in behs[-(120 if q else 1200):]:
        steps = [s for s in b["steps"] if s["a"] in ("Arrive", "Range")]
        if len(steps) >= 4:
            rnd.shuffle(steps)
            conc.append({"mn": b["mn"], "w": b["w"], "mode": "conc", "g": rnd.choice([2, 3, 4]), "steps": steps})
    behs += conc
    replay_and_validate(ctx, behs, nseq)
    if not q:
        existing_tests(ctx)
    ctx.cov["rule"] = ("behaviours = every action sequence of length 5 over 4 document sequences + one unused range x MaxNum {0,1,100}, "
                       "plus seeded TLC simulations (one successor per action kind, arguments drawn with RandomElement) of length 12 over a window of 7 (document/principal/unused singles arriving up to twice, "
                       "8 unused ranges, document feed events with unused_sequences/recent_sequences through DocChanged, Tick, Abandon, MaxNum {0,1,2,100}, entries forged older than MaxWait), half of them restricted to legal "
                       "feeds, plus shuffled multisets delivered concurrently by 2-4 goroutines; non-trivial = the real cache skipped a gap or "
                       "delivered a late arrival during the behaviour")
    ctx.assumptions += [
        "sequences enter the buffering only through comparisons and +1/-1: the window is an offset from the cache's initialSequence (seeded bases up to 2^62)",
        "skipped being a subset of the missing sequences is demanded for legal feeds (every sequence declared by one event identity; redelivery allowed); "
        "at-most-once, no loss of a live document arrival, order, high-water-mark soundness, no hidden gap, late handling, overdue skipping and the "
        "stable sequence for every feed (contradictory declarations included)",
        "abandonment after CacheSkippedSeqMaxWait is an explicit environment action and abandoned sequences are excluded from SkippedExact",
        "the response clause (LowSeq = stable in _changes) is bound through C01; here the exposed stable sequence itself is checked, and - because "
        "_changes reads the skipped list without changeCache.lock - also the lock-free view (skipped membership, high cache sequence) at the instant of "
        "every forward inside a critical section (MidNoHiddenGap)",
    ]


def per_prefix(behs, rnd, k):
    """TLC's simulator evaluates the export invariant on every candidate last step, so each simulated trace yields a
    family of behaviours that differ in the last step only: keep at most k of each family."""
    fam = {}
    for b in behs:
        fam.setdefault(json.dumps([b["mn"], b["steps"][:-1]], sort_keys=True), []).append(b)
    res = []
    for key in sorted(fam):
        g = fam[key]
        rnd.shuffle(g)
        res += g[:k]
    return res


def replay_and_validate(ctx, behs, nseq):
    bf = os.path.join(ctx.scratch, "c08-beh.json")
    tr = os.path.join(ctx.scratch, "c08.ndjson")
    write_json(bf, behs)
    rc, out = go_test(ctx, "db", "^TestVerif_C08_ChangeCache$", HARNESS, env={"VERIF_BEH": bf, "VERIF_TRACE_OUT": tr})
    if rc != 0 or not os.path.exists(tr):
        raise Inconclusive("C08 harness failed:\n" + harness_failure(out))
    rows = read_ndjson(tr)
    ctx.cov["evaluations"] += len(behs)
    nontriv, skipped_seen, late_seen, conc_n, conc_steps, cur = set(), 0, 0, 0, 0, None
    for r in rows:
        if r["a"] == "Reset":
            cur = r["beh"]
            continue
        if r["a"] == "Conc":
            conc_n += 1
        if r.get("conc"):
            conc_steps += 1
        if r["skip"]:
            skipped_seen += 1
            nontriv.add(cur)
        if any(o["late"] for o in r["out"]):
            late_seen += 1
            nontriv.add(cur)
    ctx.cov["distinct_nontrivial"] += len(nontriv)
    hist = {}
    for b in behs:
        for st in b["steps"]:
            k = st["a"] if st["a"] != "Arrive" else "Arrive:" + st["kind"]
            hist[k] = hist.get(k, 0) + 1
    ctx.cov["c08"] = {"sequential_behaviours": nseq, "concurrent_behaviours": len(behs) - nseq, "concurrent_final_state_only": conc_n,
                      "concurrent_steps_linearized_by_hook": conc_steps, "trace_lines": len(rows),
                      "lines_with_skipped": skipped_seen, "lines_with_late_delivery": late_seen,
                      "action_histogram": hist,
                      "db_wired": sum(1 for r in rows if r["a"] == "Reset" and r.get("wiring") == "db")}
    ctx.sample({"behaviour": behs[nseq // 2], "real_trace_head": rows[:3]})
    vp = validate(ctx, SPEC, "Trace_ChangeCache", "Trace_ChangeCache_P.cfg", tr, timeout=3000)
    if vp.inv:
        beh_idx, beh = locate(rows, vp.line, behs)
        key = "%s:%s" % (vp.inv, json.dumps(beh, sort_keys=True))
        report_violation(ctx, key, "real changeCache breaks %s at trace line %s (behaviour %s)" % (vp.inv, vp.line, beh_idx),
                         {"behaviour": beh, "invariant": vp.inv, "state": (vp.state or {}).get("_txt"),
                          "trace": trace_of(rows, vp.line)})
        return
    if not vp.accepted:
        raise Inconclusive("pass P stopped at line %s of %s (trace shape not accepted)\n%s" % (vp.line, vp.total, vp.out[-1500:]))
    vc = validate(ctx, SPEC, "Trace_ChangeCache", "Trace_ChangeCache_C.cfg", tr, timeout=3000)
    if vc.inv or not vc.accepted:
        ctx.cov["nonconformance"] += 1
        ctx.notes.append("pass C rejected at line %s (%s): %s" % (vc.line, vc.inv, rows[vc.line - 1] if vc.line and vc.line <= len(rows) else None))
    else:
        ctx.cov["traces_validated_against_impl"] += len(behs)


def locate(rows, line, behs):
    idx = None
    for r in rows[:max(0, (line or 1) - 1)]:
        if r["a"] == "Reset":
            idx = r["beh"]
    return idx, (behs[idx] if idx is not None else None)


def trace_of(rows, line):
    """the recorded real lines of the failing behaviour up to the failing line"""
    end = max(0, (line or 1) - 1)
    start = 0
    for i, r in enumerate(rows[:end]):
        if r["a"] == "Reset":
            start = i
    return rows[start:end]


# --------------------------------------------------------------------------------------------
# CCF style: the repository's own change-cache tests, unmodified, with hook H2 on (hooks/H2-changecache.patch)
# --------------------------------------------------------------------------------------------
EXISTING_DB = [
    "TestLateSequenceErrorRecovery", "TestLateSequenceHandlingDuringCompact", "TestChannelCacheBufferingWithUserDoc",
    "TestChannelCacheBackfill", "TestContinuousChangesBackfill", "TestLowSequenceHandling", "TestLowSequenceHandlingAcrossChannels",
    "TestLowSequenceHandlingWithAccessGrant", "TestLateArrivingSequenceTriggersOnChange", "TestUnusedSequencesInSyncData",
    "TestChangeCache_InsertPendingEntries", "TestProcessSkippedEntry", "TestProcessSkippedEntryStats", "TestSkippedSequenceCompact",
    "TestReleasedSequenceRangeHandlingEverythingSkipped", "TestReleasedSequenceRangeHandlingEverythingPending",
    "TestReleasedSequenceRangeHandlingEverythingPendingAndProcessPending", "TestReleasedSequenceRangeHandlingEverythingPendingLowPendingCapacity",
    "TestReleasedSequenceRangeHandlingSingleSequence", "TestReleasedSequenceRangeHandlingEdgeCase1", "TestReleasedSequenceRangeHandlingEdgeCase2",
    "TestReleasedSequenceRangeHandlingDuplicateSequencesInSkipped", "TestBroadcastFrequencyAfterSkippedCompact", "TestAddPendingLogs",
    "TestChangeInBroadcastForSkipped", "TestUnblockPendingWithUnusedRange", "TestRecentSequenceHandlingForSkippedSequences",
    "TestInitializeEmptyCache", "TestNotifyForInactiveChannel", "TestStopChangeCache", "TestChannelRace",
]
EXISTING = [
    ("db", EXISTING_DB),
    ("rest/changestest", ["TestChangesLoopingWhenLowSequence", "TestUnusedSequences", "TestChangesBackfillContinuationSkippedByCompoundLowSeq",
                          "TestChangesBackfillGrantSuppressedByCompoundLowSeq"]),
    ("rest", ["TestJumpInSequencesAtAllocatorSkippedSequenceFill", "TestJumpInSequencesAtAllocatorRangeInPending", "TestRequestPlusSkippedSequence"]),
]
# tests that put state into the cache behind the API: a rejection by pass C is expected there and only noted
KNOWN_DIRECT = {
    "TestStopChangeCache": "pushes a skipped entry straight into changeCache.skippedSeqs",
    "TestAddPendingLogs": "pushes into pendingLogs and calls _addPendingLogs directly (forwards only, no action event)",
}
MAXW = 38   # Trace_ChangeCache_*_any.cfg: W = 40


def hook_present():
    f = os.path.join(REPO, "db", "change_cache.go")
    return os.path.exists(f) and 'VerifEmit(verifObj(c), "entry"' in open(f, errors="replace").read()


def convert_hook_events(evs, label):
    """hook H2 events of ONE test process -> Trace_ChangeCache lines, one instance per cache `start`.
    Sequences become offsets from that cache's initialSequence; skipped ranges are expanded; no-op ticks are dropped;
    the `old` flags (TimeReceived older than MaxWait) are real-clock dependent and flip between events, so they are
    normalised to false - these traces are validated with the *_any cfgs, where WHEN a gap is skipped is not judged;
    star / lls are derived from the forwards (the hook does not read the channel cache)."""
    objs = {}
    for e in evs:
        if str(e.get("obj", "")).startswith("*db.changeCache"):
            objs.setdefault(e["obj"], []).append(e)
    insts = []
    for obj in sorted(objs):
        cur = None
        for e in sorted(objs[obj], key=lambda x: x["n"]):
            if e["ev"] == "start":
                cur = {"label": "%s#%d" % (label, len(insts)), "evs": [e]}
                insts.append(cur)
            elif e["ev"] == "clear":
                cur = None          # Clear() re-bases the cache and drops pending entries: the instance ends here
            elif cur is not None:
                cur["evs"].append(e)
    res = []
    for inst in insts:
        lines, why = convert_instance(inst)
        res.append({"label": inst["label"], "lines": lines, "skipped_why": why, "broken": inst.get("broken"),
                    "events": sum(1 for l in (lines or []) if l["a"] != "Reset"),
                    "forwards": sum(1 for e in inst["evs"] if e["ev"] == "fwd")})
    return res


def convert_instance(inst):
    evs = inst["evs"]
    init = evs[0]["init"]
    off = lambda x: int(x) - init

    def expand(ranges):
        out = []
        for a, b in ranges or []:
            if b - a > 4 * MAXW:
                return None
            out += list(range(off(a), off(b) + 1))
        return out
    mx = 0
    for e in evs:
        for k in ("seq", "end", "next"):
            if e.get(k):
                mx = max(mx, off(e[k]))
        for a, b in e.get("skip") or []:
            mx = max(mx, off(b))
        for p in e.get("pend") or []:
            mx = max(mx, off(p[0]), off(p[1]) if p[1] else 0)
    if mx > MAXW:
        return None, "window %d > %d" % (mx, MAXW)

    def post(e, star, lls):
        sk = expand(e["skip"])
        pend = sorted(({"seq": off(p[0]), "end": off(p[1]) if p[1] else 0, "kind": p[2], "old": False} for p in e["pend"]),
                      key=lambda x: json.dumps(x, sort_keys=True))
        return {"next": off(e["next"]), "pend": pend, "recv": sorted(off(x) for x in e["recv"]), "skip": sk, "nsk": len(sk),
                "hcs": off(e["hcs"]), "stable": off(e["stable"]), "star": list(star), "lls": lls}
    # was the state touched behind the API between two hook events?  (pre digest of an event vs post-state of the previous one;
    # the skipped count is not compared next to an `abandon`, which is not ordered with the locked events)
    broken = None
    last = evs[0]
    seq = [e for e in evs if e["ev"] != "fwd"]
    has_abandon = any(e["ev"] == "abandon" for e in seq)
    for i, e in enumerate(seq[1:], 1):
        if e["ev"] == "abandon":
            continue
        if "pre" in e and "next" in last:
            # an `abandon` (not under c.lock; its event may be numbered after sweeps that already saw its effect) only removes
            near_abandon = any(x["ev"] == "abandon" for x in seq[max(0, i - 2):i + 2]) or \
                (has_abandon and e["pre"][2] < sum(b - a + 1 for a, b in last["skip"] or []))
            nsk = sum(b - a + 1 for a, b in last["skip"] or [])
            want = [last["next"], len(last["pend"]), nsk, len(last["recv"])]
            got = list(e["pre"])
            if near_abandon:
                want[2] = got[2]
            if want != got and broken is None:
                broken = "before event n=%s (%s): state %s, previous event left %s" % (e["n"], e["ev"], got, want)
        last = e
    inst["broken"] = broken
    star, lls, fw = [], 0, []
    first = evs[0]
    lines = [dict({"a": "Reset", "beh": inst["label"], "mn": first["mn"], "w": mx + 2, "wiring": "existing-test", "out": []}, **post(first, star, lls))]
    prev = lines[0]
    for e in evs[1:]:
        ev = e["ev"]
        if ev == "fwd":
            fw.append({"seq": off(e["seq"]), "end": off(e["end"]) if e["end"] else 0, "kind": e["kind"], "late": bool(e["late"]),
                       "sk": expand(e["skip"]), "hcs": off(e["hcs"])})
            continue
        if ev == "entry" and e.get("disabled"):
            continue
        for f in fw:
            if f["kind"] == "doc":
                star = sorted(star + [f["seq"]])
                if f["late"]:
                    lls = f["seq"]
        if ev == "abandon":
            sk = expand(e["skip"])
            line = dict(prev, a="Abandon", skip=sk, nsk=len(sk), out=fw, star=list(star), lls=lls,
                        stable=(min(sk) - 1) if sk else prev["next"] - 1)
        else:
            line = dict(post(e, star, lls), out=fw)
            if ev == "entry":
                line.update(a="Arrive", seq=off(e["seq"]), end=off(e["end"]) if e["end"] else 0, kind=e["kind"], old=False, sk=bool(e["sk"]))
            elif ev == "range":
                line.update(a="Range", seq=off(e["seq"]), end=off(e["end"]), kind="unused", old=False)
            elif ev == "tick":
                line.update(a="Tick")
                if not fw and all(line[k] == prev[k] for k in ("next", "pend", "recv", "hcs")):
                    # a sweep that did nothing (tests run it every few nanoseconds).  skip/stable are not compared: a sweep cannot
                    # change the skipped list without advancing next, and its snapshot may be older than a concurrent `abandon`
                    # event (CleanSkippedSequenceQueue does not take c.lock, and hook arguments are read before the event is numbered)
                    continue
            else:
                continue
        if line["a"] in ("Tick", "Abandon"):
            for k in ("seq", "end", "kind", "old", "sk", "beh", "mn", "w", "wiring"):
                line.pop(k, None)
        fw = []
        lines.append(line)
        prev = line
    return lines, None


def existing_tests(ctx):
    if not hook_present():
        ctx.notes.append("hook H2 (hooks/H2-changecache.patch) is not applied to %s: existing-tests validation skipped" % REPO)
        return
    e = go_env()
    insts, failed, ntests = [], [], 0
    for pkg, tests in EXISTING:
        exe = os.path.join(ctx.scratch, "c08-%s.test" % pkg.replace("/", "_"))
        p = subprocess.run(["go", "test", "-c", "-tags", "verif", "-vet=off", "-o", exe, "./" + pkg], cwd=REPO, env=e,
                           stdout=subprocess.PIPE, stderr=subprocess.STDOUT, text=True, errors="replace")
        if p.returncode != 0 or not os.path.exists(exe):
            raise Inconclusive("cannot build the %s test binary with -tags verif:\n%s" % (pkg, p.stdout[-2000:]))
        for t in tests:
            ntests += 1
            hook = os.path.join(ctx.scratch, "c08-ex-%s.ndjson" % t)
            e2 = dict(e, VERIF_HOOK_TRACE=hook)
            try:
                r = subprocess.run([exe, "-test.run", "^%s$" % t, "-test.count=1", "-test.timeout", "300s"], cwd=os.path.join(REPO, pkg), env=e2,
                                   stdout=subprocess.PIPE, stderr=subprocess.STDOUT, text=True, errors="replace", timeout=400)
                rc = r.returncode
            except subprocess.TimeoutExpired:
                rc = -1
            if rc != 0:
                failed.append(t)
            if os.path.exists(hook):
                insts += convert_hook_events(read_ndjson(hook), t)
        os.remove(exe)
    usable = [i for i in insts if i["lines"] and i["events"] > 0]
    too_big = [i["label"] + ": " + i["skipped_why"] for i in insts if i["skipped_why"]]
    fwd_only = [i["label"] for i in insts if i["lines"] and i["events"] == 0 and i["forwards"] > 0]
    log("  existing tests with hook H2: %d tests (%d failed), %d cache instances, %d with events, %d outside the window"
        % (ntests, len(failed), len(insts), len(usable), len(too_big)))
    # an instance whose state was changed behind the API between two hook events (a test pushing into skippedSeqs / pendingLogs
    # directly) is not judged; every other instance goes through pass P (property) and then pass C (conformance, any skipping
    # policy: real clocks)
    direct = [i for i in usable if i["broken"]]
    judged = [i for i in usable if not i["broken"]]
    info = {"tests": ntests, "tests_failed": failed, "forwards_without_action_event": fwd_only, "cache_instances": len(insts),
            "instances_with_events": len(usable), "events": sum(i["events"] for i in usable), "outside_window": too_big,
            "state_changed_behind_api": [{"instance": i["label"], "where": i["broken"], "expected": KNOWN_DIRECT.get(i["label"].split("#")[0])} for i in direct],
            "judged_instances": len(judged), "judged_events": sum(i["events"] for i in judged), "nonconforming": []}
    ctx.cov["existing_tests"] = info
    for i in direct:
        ctx.notes.append("existing test instance %s not judged: state changed between hook events (%s)%s"
                         % (i["label"], i["broken"], "; expected: the test " + KNOWN_DIRECT[i["label"].split("#")[0]] if i["label"].split("#")[0] in KNOWN_DIRECT else ""))
    if not judged:
        return
    tr = os.path.join(ctx.scratch, "c08-existing-P.ndjson")
    rows = [l for i in judged for l in i["lines"]]
    write_ndjson(tr, rows)
    ctx.cov["evaluations"] += len(judged)
    vp = validate(ctx, SPEC, "Trace_ChangeCache", "Trace_ChangeCache_P_any.cfg", tr, timeout=3000, tag="existingP")
    if vp.inv:
        bad, start = locate_label(rows, max(0, (vp.line or 2) - 2))
        report_violation(ctx, "existing:%s:%s" % (str(bad).split("#")[0], vp.inv), "repository test %s: real changeCache breaks %s at event %s" % (bad, vp.inv, vp.line),
                         {"instance": bad, "invariant": vp.inv, "state": (vp.state or {}).get("_txt"), "trace": rows[start:max(0, (vp.line or 1) - 1)]})
        return
    if not vp.accepted:
        raise Inconclusive("existing tests: pass P stopped at line %s of %s\n%s" % (vp.line, vp.total, vp.out[-1500:]))
    conforming = list(judged)
    for _ in range(8):
        tr = os.path.join(ctx.scratch, "c08-existing-C%d.ndjson" % len(info["nonconforming"]))
        rows = [l for i in conforming for l in i["lines"]]
        if not rows:
            break
        write_ndjson(tr, rows)
        vc = validate(ctx, SPEC, "Trace_ChangeCache", "Trace_ChangeCache_C_any.cfg", tr, timeout=3000, tag="existingC%d" % len(info["nonconforming"]))
        if not vc.inv and vc.accepted:
            break
        idx = min(len(rows), max(1, (vc.line or 1) - (1 if vc.inv else 0))) - 1      # the line that was not accepted
        bad, _ = locate_label(rows, idx)
        row = rows[idx]
        info["nonconforming"].append({"instance": bad, "invariant": vc.inv, "line": {k: row.get(k) for k in ("a", "seq", "end", "kind", "sk", "next", "pend", "skip", "out")}})
        ctx.cov["nonconformance"] += 1
        ctx.notes.append("existing test instance %s: pass C rejected (%s) at %s" % (bad, vc.inv, json.dumps(info["nonconforming"][-1]["line"])[:300]))
        conforming = [i for i in conforming if i["label"] != bad]
    info["conforming_instances"] = len(conforming)
    ctx.cov["traces_validated_against_impl"] += len(conforming)
    ctx.cov["distinct_nontrivial"] += sum(1 for i in conforming if any(l["skip"] or any(o["late"] for o in l["out"]) for l in i["lines"]))


def locate_label(rows, idx):
    """instance (Reset label, index of its Reset row) that the 0-based row idx belongs to"""
    for i in range(min(idx, len(rows) - 1), -1, -1):
        if rows[i]["a"] == "Reset":
            return rows[i]["beh"], i
    return None, 0


def run(ctx):
    """the property's own check, then (thorough tier) the end-to-end Pipeline stage (specs/Pipeline): the composed
    write -> allocator -> feed -> change cache -> changes model, whose predicates owned by this property are reported here."""
    _run_core(ctx)
    if not ctx.quick():
        import checks.Pipeline as pipeline
        pipeline.run_stage(ctx, owners=["C08", "C01"], model=True, free=True)
