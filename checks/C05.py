"""C05 - acknowledged writes are never lost; one accepted child per parent revision (DESIGN 4.5, specs/DocUpdate/NOTES.md).

model_check (exhaustive, 2-3 writers, both AllowConflicts modes; exports one witness behaviour per final state in which a
named deviation fired) -> behaviours (every 2-writer behaviour + seeded simulations of 2-3 writers + deviation witnesses)
-> schedule-forcing replay on a real database over a LeakyBucket -> pass P (all C05 predicates evaluated by TLC on every
recorded real state, collected per behaviour) and pass C (conformance + which named deviation the real run took + the
relaxed X_ predicates) -> verdicts.

Local additions to vlib.core (rule 9): TLC runs of one stage run concurrently; the recorded trace is validated in chunks;
pass P/C results are read from PrintT'ed TLC registers instead of a stop-on-first INVARIANT.
"""
import concurrent.futures
import json
import os
import random
from vlib.core import *

SPEC = os.path.join(VERIF, "specs", "DocUpdate")
HARNESS = ["harness/db/c05_docupdate_test.go"]
# pass-P predicate -> relaxed predicate (pass C) that must still hold for a failure to be explained by ResurrectNoCas
EXCUSED_BY_RESURRECT = {"NoLostAck": "X_NoLostAck", "OwnSequence": "X_OwnSequence",
                        "OneChildPerParent": "X_OneChildPerParent", "FeedAnnouncesFinal": "X_FeedAnnouncesFinal"}
AUX = ("TypeOK", "SeqSane", "NotYetWritten", "CurIsWinner", "SequencesAccounted", "DevSane")
CHUNK = 450          # behaviours per TLC validation process
MAX_REPORTS = 4      # replay files written per predicate for unexplained failures


def run(ctx):
    quick = ctx.quick()
    nsim = int(os.environ.get("VERIF_C05_NSIM") or (300 if quick else 4000))
    with concurrent.futures.ThreadPoolExecutor(6) as ex:
        # ClockAhead family: the post-commit CAS re-stamp (correctVersionAheadOfCAS) as a second storage step of a request
        f_mca = ex.submit(model_check_tagged, ctx, "MC_DocUpdate_ahead.cfg" if quick else "MC_DocUpdate_ahead_thorough.cfg", "MCahead")
        f_beha = ex.submit(gen_behaviours, ctx, "Beh_DocUpdate_ahead.cfg", None, "BehAhead")
        f_mc = ex.submit(model_check, ctx, SPEC, "MC_DocUpdate", "MC_DocUpdate.cfg" if quick else "MC_DocUpdate_thorough.cfg", 5400)
        f_beh = ex.submit(gen_behaviours, ctx, "Beh_DocUpdate.cfg", None, "Beh")
        # two mixes: SimNext (one successor per action kind: requests start late, parents created by other writers) and the
        # plain Next (every writer begins early: highest contention on the CAS window)
        f_sim = ex.submit(gen_behaviours, ctx, "Sim_DocUpdate.cfg", nsim // 2, "Sim")
        f_sim2 = ex.submit(gen_behaviours, ctx, "Sim_DocUpdate_burst.cfg", nsim - nsim // 2, "SimBurst")
        mc, beh_all, beh_sim = f_mc.result(), f_beh.result(), f_sim.result() + f_sim2.result()
        final_coverage(ctx, f_mca.result(), ignore=(), key="action_coverage_clock_ahead")   # Restamp is only enabled in the ClockAhead model
        beh_ahead = select_ahead(ctx, f_beha.result(), other=40 if quick else 400)
    ctx.cov["behaviour_action_mix"] = action_mix(beh_sim)
    ctx.cov["exhaustive"] = True
    final_coverage(ctx, mc)
    wit = deviation_witnesses(ctx, mc, per_class=25 if quick else 300)
    behs, seen = [], set()
    for src, lst in (("all2w", beh_all), ("sim", beh_sim), ("witness", wit), ("ahead", beh_ahead)):
        for b in lst:
            k = json.dumps({"conf": b["conf"], "steps": b["steps"]}, sort_keys=True)
            if k not in seen:
                seen.add(k)
                behs.append({"conf": b["conf"], "steps": b["steps"], "src": src})
    replay_and_validate(ctx, behs)
    ctx.cov["rule"] = ("behaviours = EVERY complete interleaving of 2 writers (put-with-parent / parentless put / pushed revision with history / delete; "
                       "parent = any revision present when the request starts) on a 1-revision document in both AllowConflicts modes, plus seeded TLC "
                       "simulations of 2-3 writers on absent / 1- / 2-revision documents incl. tombstoned tips, plus witnesses exported by the exhaustive run for "
                       "each named deviation; each is forced on the real code by parking writers at LeakyDataStore.UpdateCallback; "
                       "non-trivial = some writer lost a CAS race (its write was refused by the storage after another writer committed)")
    ctx.assumptions += [
        "a failed CAS write has no effect on shared state, so CAS-failure + re-read + re-run of the callback is one atomic step (as in the real loop)",
        "single Sync Gateway node, sequence batching suspended (consecutive sequences); revision ids and sequences enter only through =, <",
        "the sync function accepts every write; pushed revisions add exactly one new revision; each writer's body is distinct",
        "with conflicts disallowed a pushed revision always names a parent (a parentless push onto a tombstone is a sanctioned second root)",
        "storage = Rosmar (the only storage available in this sandbox); its WriteUpdateWithXattrs loop is part of what is bound"]


def model_check_tagged(ctx, cfg, tag):
    """vlib.core.model_check with its own staging directory (runs concurrently with the main exhaustive check)."""
    r = tlc(ctx, SPEC, "MC_DocUpdate", cfg, timeout=5400, tag=tag, coverage=not ctx.quick())
    if r.inv_violated:
        raise Inconclusive("model counterexample in MC_DocUpdate/%s: %s violated (candidate only)\n%s" % (
            cfg, r.inv_violated, "\n".join("\n".join(st["_txt"]) for st in r.error_trace[-2:])))
    if r.distinct == 0:
        raise Inconclusive("TLC reported no states for %s\n%s" % (cfg, r.out[-800:]))
    ctx.cov["states"] += r.distinct
    ctx.cov["transitions"] += r.generated
    log("  TLC %-28s %-22s %9d distinct %10d generated depth %3d  %.1fs" % ("MC_DocUpdate", cfg, r.distinct, r.generated, r.depth, r.wall))
    return r


def in_window(b):
    """another writer commits between some writer's commit and that writer's post-commit re-stamp."""
    waiting = set()
    for st in b["steps"]:
        if st["a"] == "Cas" and st["e"] in ("committed", "restamp"):
            if waiting - {st["w"]}:
                return True
            if st["e"] == "restamp":
                waiting.add(st["w"])
        elif st["a"] == "Restamp":
            waiting.discard(st["w"])
    return False


def select_ahead(ctx, behs, other):
    """the directed family: every 2-writer behaviour with a commit inside a re-stamp window, plus a seeded sample of the rest."""
    win = [b for b in behs if in_window(b)]
    rest = sorted((b for b in behs if not in_window(b)), key=lambda b: json.dumps(b, sort_keys=True))
    random.Random(ctx.seed).shuffle(rest)
    ctx.cov["ahead_family"] = {"all": len(behs), "commit_inside_restamp_window": len(win), "sampled_others": min(other, len(rest))}
    return win + rest[:other]


def gen_behaviours(ctx, cfg, num, tag):
    """vlib.core.behaviours with its own staging directory (runs concurrently with the exhaustive check)."""
    if num is None:
        r = tlc(ctx, SPEC, "MC_DocUpdate", cfg, timeout=3000, workers=4, tag=tag)
    else:
        r = tlc(ctx, SPEC, "MC_DocUpdate", cfg, mode="simulate", simulate=num, depth=40, timeout=3000, tag=tag)
    if r.inv_violated:
        raise Inconclusive("behaviour generation %s violated %s" % (cfg, r.inv_violated))
    res, seen = [], set()
    for t, txt in r.printed:
        if t == "BEH" and txt not in seen:
            seen.add(txt)
            res.append(json.loads(json.loads(txt)))
    if not res:
        raise Inconclusive("no behaviours exported by %s\n%s" % (cfg, r.out[-800:]))
    log("  TLC %-28s %-22s exported %d distinct behaviours  %.1fs" % ("MC_DocUpdate", cfg, len(res), r.wall))
    return res


def final_coverage(ctx, mc, ignore=("Restamp",), key="action_coverage"):
    """vacuity guard on the LAST coverage block (core scans the periodic blocks too, where late actions are still 0)."""
    import re
    last = {}
    for line in mc.out.splitlines():
        m = re.match(r"^<(\w+) line .* of module DocUpdate>: (\d+):(\d+)$", line.strip())
        if m:
            last[m.group(1)] = int(m.group(3))
    if last:
        ctx.notes[:] = [n for n in ctx.notes if not n.startswith("zero-coverage actions in MC_DocUpdate")]
        ctx.cov[key] = last
        zero = sorted(a for a, n in last.items() if n == 0 and a != "Init" and a not in ignore)
        if zero:
            raise Inconclusive("actions never taken in the exhaustive run: %s" % zero)


def action_mix(behs):
    """what the simulated behaviours contain (checked once by eye, recorded in the evidence)."""
    h = {"behaviours": len(behs), "begin_after_a_commit": 0, "parent_is_another_writers_revision": 0, "lost_cas": 0, "actions": {}}
    for b in behs:
        committed = late = wp = lost = False
        for st in b["steps"]:
            h["actions"][st["a"]] = h["actions"].get(st["a"], 0) + 1
            if st["a"] == "Begin":
                late = late or committed
                wp = wp or st["p"] > 10
            if st["a"] == "Cas":
                committed = committed or st["e"] == "committed"
                lost = lost or st["e"] != "committed"
        h["begin_after_a_commit"] += late
        h["parent_is_another_writers_revision"] += wp
        h["lost_cas"] += lost
    return h


def deviation_witnesses(ctx, mc, per_class):
    by = {}
    for t, txt in mc.printed:
        if t != "BEH":
            continue
        b = json.loads(json.loads(txt))
        names = tuple(sorted({d[0] for d in b.get("dev", [])}))
        by.setdefault(names, []).append(b)
    rnd = random.Random(ctx.seed)
    out = []
    ctx.cov["model_deviation_witnesses"] = {"+".join(k): len(v) for k, v in sorted(by.items())}
    for k in sorted(by):
        lst = sorted(by[k], key=lambda b: json.dumps(b, sort_keys=True))
        rnd.shuffle(lst)
        out += lst[:per_class]
    return out


def _printed(out, tag):
    res = []
    for t, txt in parse_printed(out):
        if t == tag:
            res += json.loads(json.loads(txt))
    return res


def replay_and_validate(ctx, behs):
    bf = os.path.join(ctx.scratch, "c05-beh.json")
    tr = os.path.join(ctx.scratch, "c05.ndjson")
    write_json(bf, behs)
    rc, out = go_test(ctx, "db", "^TestVerif_C05_DocUpdate$", HARNESS, env={"VERIF_BEH": bf, "VERIF_TRACE_OUT": tr}, timeout=2400)
    if rc != 0 or not os.path.exists(tr):
        raise Inconclusive("C05 harness failed:\n" + harness_failure(out))
    rows = read_ndjson(tr)
    ctx.cov["evaluations"] += len(behs)
    # rows of each behaviour
    per, cur = {}, None
    for r in rows:
        if r["a"] == "Reset":
            cur = r["beh"]
            per[cur] = []
        per[cur].append(r)
    if len(per) != len(behs):
        raise Inconclusive("harness recorded %d behaviours, %d were given" % (len(per), len(behs)))
    stats = measure(ctx, behs, per)

    # ---- TLC: pass P and pass C over chunks of the trace, concurrently
    chunks = []
    idx = sorted(per)
    for i in range(0, len(idx), CHUNK):
        p = os.path.join(ctx.scratch, "c05-%03d.ndjson" % (i // CHUNK))
        write_ndjson(p, [r for b in idx[i:i + CHUNK] for r in per[b]])
        chunks.append(p)
    jobs = [(p, c) for p in chunks for c in ("P", "C")]
    nproc = max(1, min(len(jobs), (int(os.environ.get("VERIF_TLC_WORKERS") or NCPU)) // 2 or 1))

    def one(job):
        p, c = job
        return job, validate(ctx, SPEC, "Trace_DocUpdate", "Trace_DocUpdate_%s.cfg" % c, p, timeout=3000,
                             tag="%s-%s" % (c, os.path.basename(p)[:-7]))
    with concurrent.futures.ThreadPoolExecutor(nproc) as ex:
        results = list(ex.map(one, jobs))
    pviol, conf, cdiv = {}, {}, {}
    for (p, c), v in results:
        if not v.accepted:
            raise Inconclusive("pass %s stopped at line %s of %s in %s (trace shape not accepted)\n%s" % (c, v.line, v.total, p, v.out[-1500:]))
        if c == "P":
            for r in _printed(v.out, "PVIOL"):
                pviol.setdefault(r["b"], {}).setdefault(r["p"], r["line"])
                pviol[r["b"]][r["p"]] = min(pviol[r["b"]][r["p"]], r["line"])
        else:
            for r in _printed(v.out, "CCONF"):
                conf.setdefault(r["b"], []).append(r)
            for r in _printed(v.out, "CDIV"):
                cdiv[r["b"]] = min(cdiv.get(r["b"], 1 << 30), r["line"])

    verdicts(ctx, behs, per, pviol, conf, cdiv, stats)


def measure(ctx, behs, per):
    """non-vacuity, measured on the recorded real runs."""
    st = {"behaviours": len(behs), "cas_race_lost": 0, "retry_then_committed": 0, "retry_then_conflict": 0, "acks": 0, "conflicts": 0,
          "other_errors": 0, "aborted": 0, "writers3": 0, "allow_conflicts": 0, "max_attempts": 0, "by_source": {}}
    nontriv = 0
    for b, rs in per.items():
        src = behs[b]["src"]
        st["by_source"][src] = st["by_source"].get(src, 0) + 1
        lost = False
        for r in rs:
            if r["a"] == "Abort":
                st["aborted"] += 1
            if r["a"] == "Restamp":
                st["restamps"] = st.get("restamps", 0) + 1
            if r["a"] == "Cas":
                pc = r["pc"][r["w"] - 1]
                st["max_attempts"] = max(st["max_attempts"], r.get("att", 0))
                if pc != "committed":
                    lost = True
                    st["cas_race_lost"] += 1
                    if pc == "failed":
                        st["retry_then_conflict"] += 1
                elif r.get("att", 0) > 1:
                    st["retry_then_committed"] += 1
        last = rs[-1]
        if "res" in last:
            for x in last["res"]:
                st["acks"] += x["cls"] == "ok"
                st["conflicts"] += x["cls"] == "conflict"
                st["other_errors"] += x["cls"] == "error"
        st["writers3"] += rs[0].get("nw") == 3
        st["allow_conflicts"] += bool(rs[0].get("allow"))
        nontriv += lost
    ctx.cov["distinct_nontrivial"] += nontriv
    ctx.cov["c05"] = st
    mid = sorted(per)[len(per) // 2]
    ctx.sample({"behaviour": behs[mid], "real_trace_tail": [slim(r) for r in per[mid][-3:]]})
    return st


def slim(r):
    return {k: r[k] for k in ("a", "w", "k", "p", "att", "cas", "tree", "cur", "seq", "unused", "recent", "last", "rel", "pc", "res", "feed", "why") if k in r}


def verdicts(ctx, behs, per, pviol, conf, cdiv, stats):
    nonconf = [b for b in per if b not in conf]
    for b in nonconf[:5]:
        ln = cdiv.get(b)
        ctx.notes.append("pass C: behaviour %d does not conform (first unexplained line %s)%s" % (
            b, ln, ": " + json.dumps(slim(per[b][-1])) if per[b][-1]["a"] == "Abort" else ""))
    ctx.cov["nonconformance"] += len(nonconf)
    auxbad = {}
    devcount, leaks = {}, []
    for b, recs in conf.items():
        c = recs[0]
        for d in c["dev"]:
            devcount[d[0]] = devcount.get(d[0], 0) + 1
        for n in c["xfail"]:
            if n in AUX:
                auxbad.setdefault(n, []).append(b)
        if c["leaked"]:
            leaks.append(b)
    for n, bs in sorted(auxbad.items()):
        ctx.cov["nonconformance"] += len(bs)
        ctx.notes.append("pass C: auxiliary invariant %s fails on the real final state of %d conforming behaviours (e.g. %d)" % (n, len(bs), bs[0]))
    ctx.cov["real_runs_by_deviation"] = devcount
    ctx.cov["traces_validated_against_impl"] += sum(1 for b in conf if b not in pviol and not any(n in AUX for n in conf[b][0]["xfail"]))

    # ---- property verdicts (pass P failures), behaviour by behaviour
    resurrect, refusal, unexplained = {}, {}, {}
    for b, fails in sorted(pviol.items()):
        c = conf[b][0] if b in conf else None
        devs = {d[0] for d in c["dev"]} if c else set()
        xfail = set(c["xfail"]) if c else set()
        for p, line in sorted(fails.items()):
            if c and p == "RefusalsAreConflicts" and "DeleteRaceError" in devs and "X_RefusalsAreConflicts" not in xfail:
                doc = per[b][0].get("doc", "")
                for x in per[b][-1].get("res", []):
                    if x["cls"] == "error":
                        refusal.setdefault(x.get("msg", "").replace(doc, "<doc>"), []).append(b)
            elif c and p in EXCUSED_BY_RESURRECT and "ResurrectNoCas" in devs and EXCUSED_BY_RESURRECT[p] not in xfail:
                resurrect.setdefault(p, []).append(b)
            else:
                unexplained.setdefault(p, []).append((b, line))
    if resurrect:
        bs = sorted({b for v in resurrect.values() for b in v})
        ex = bs[0]
        report_violation(
            ctx, "Deviation:ResurrectNoCas",
            "a write that resurrects a tombstone is not CAS-protected: in %d replayed behaviours an acknowledged write was overwritten "
            "(predicates failing on real state: %s); e.g. behaviour %d %s" % (
                len(bs), ", ".join("%s x%d" % (p, len(v)) for p, v in sorted(resurrect.items())), ex, json.dumps(behs[ex]["steps"])),
            {"behaviour": behs[ex], "real_trace": [slim(r) for r in per[ex]], "deviation": conf[ex][0]["dev"], "lost_revisions": conf[ex][0]["lost"]})
    for msg, bs in sorted(refusal.items()):
        bs = sorted(set(bs))
        report_violation(ctx, "RefusalsAreConflicts:" + msg,
                         "a refused writer received a non-conflict error (%s) in %d replayed behaviours, e.g. behaviour %d" % (msg, len(bs), bs[0]),
                         {"behaviour": behs[bs[0]], "real_trace": [slim(r) for r in per[bs[0]]]})
    for p, lst in sorted(unexplained.items()):
        for b, line in lst[:MAX_REPORTS]:
            key = "%s:%s" % (p, json.dumps({"conf": behs[b]["conf"], "steps": behs[b]["steps"]}, sort_keys=True))
            rs = per[b]
            off = max(0, min(len(rs) - 1, line - first_line(per, b)))
            report_violation(ctx, key, "real document update breaks %s in behaviour %d (%s) at step %d: %s" % (
                p, b, "conforming, deviations %s" % json.dumps(conf[b][0]["dev"]) if b in conf else "NOT conforming to the spec", off, json.dumps(slim(rs[off]))),
                {"behaviour": behs[b], "invariant": p, "real_trace": [slim(r) for r in rs]})
        if len(lst) > MAX_REPORTS:
            ctx.notes.append("%s fails unexplained in %d behaviours (first %d reported)" % (p, len(lst), MAX_REPORTS))
    ctx.cov["c05"]["pass_p_failing_behaviours"] = len(pviol)
    ctx.cov["c05"]["unexplained_failures"] = {p: len(v) for p, v in unexplained.items()}

    # ---- auxiliary: sequence accounting (C07's "every reserved number is carried by a doc or published as unused"): evaluated by TLC
    # on the real allocator / document / unused-sequence docs (Leaked, SequencesAccounted in pass C); never a C05 verdict
    ctx.cov["c05"]["seq_leak_behaviours"] = len(leaks)
    if leaks:
        b = leaks[0]
        ctx.notes.append("C07-relevant: in %d behaviours a reserved sequence is neither on the document, nor listed as unused, nor released; "
                         "e.g. behaviour %d leaked %s: %s" % (len(leaks), b, conf[b][0]["leaked"], json.dumps(behs[b]["steps"])))
        ctx.sample({"c07_leak_example": behs[b], "leaked": conf[b][0]["leaked"], "real_trace_tail": [slim(r) for r in per[b][-2:]]})


def first_line(per, b):
    """1-based line of behaviour b's Reset inside its chunk file."""
    idx = sorted(per)
    i = idx.index(b)
    start = (i // CHUNK) * CHUNK
    return 1 + sum(len(per[x]) for x in idx[start:i])
