"""C19 - document bodies come back exactly as written on every path (DESIGN 4.19; PARTIALLY decided, DESIGN 8).

TLC decides the path matrix (write path x revision kind x read path x cache, and the reserved-property table) over
uninterpreted body tokens and exports every behaviour of the bounded model; the harness binds the tokens to a seeded
catalogue + generator of concrete JSON, drives the real REST / bucket / BLIP / replication paths and records which token
each read returned; TLC evaluates Fidelity / ReservedRejected on the recorded facts (pass P) and conformance (pass C).
The space of JSON values is SAMPLED, not decided.
"""
import json
import os
import re
from vlib.core import *

SPEC = os.path.join(VERIF, "specs", "BodyPaths")
PROPERTY_INVS = ("Fidelity", "ReservedRejected")
# number formats beyond IEEE double range cannot be indexed by the Rosmar view engine (JS), so the document never shows
# up in view-backed listings; that is the store standing in for Couchbase Server, not the gateway (NOTES.md)
ENV_UNOBSERVABLE = {(rp, "float_overflow") for rp in ("Changes", "BlipPull", "PeerPush", "PeerPull")}


def is_canonical(steps):
    """behaviours that get EVERY token of the catalogue: at most one non-canonical write path in them."""
    if steps[-1]["act"] == "WriteReserved":
        return False
    if steps[-1]["act"] == "TombstoneWinner":
        # promotion of a non-winning leaf: every token as the promoted body written by every write path
        # (Create(wp), Branch(BulkDocsNE, wins), TombstoneWinner); the other promotion behaviours are sampled
        return len(steps) == 3 and steps[1]["act"] == "Branch" and steps[1]["wp"] == "BulkDocsNE" and steps[1]["wins"]
    if len(steps) == 1:
        return True
    if len(steps) == 2:
        s2 = steps[1]
        canon2 = (s2["act"] == "Supersede" and s2["wp"] == "PutSingle") or (s2["act"] == "Branch" and s2["wp"] == "BulkDocsNE")
        return canon2 or steps[0]["wp"] == "PutSingle"
    return False


def run(ctx):
    cfg = "MC_BodyPaths.cfg" if ctx.quick() else "MC_BodyPaths_thorough.cfg"
    r = model_check(ctx, SPEC, "MC_BodyPaths", cfg, timeout=1800, coverage=False)
    ctx.cov["exhaustive"] = True
    behs, seen, matrix = [], set(), None
    for tag, txt in r.printed:
        if tag == "CELLS":
            matrix = {tuple(c) for c in json.loads(json.loads(txt))}
        elif tag == "BEH":
            js = json.loads(txt)
            if js not in seen:
                seen.add(js)
                behs.append(json.loads(js))
    if not behs or matrix is None:
        raise Inconclusive("MC_BodyPaths exported no behaviours / no matrix\n" + r.out[-800:])
    behs.sort(key=lambda b: json.dumps(b["steps"], sort_keys=True))
    covered = {(c["wp"], c["kind"], c["rp"]) for b in behs for c in b["reads"]}
    if not matrix <= covered:
        raise Inconclusive("exported behaviours do not cover the declared matrix: missing %s" % sorted(matrix - covered)[:8])
    nresv = sum(1 for b in behs if b["steps"][-1]["act"] == "WriteReserved")
    if not any(b["steps"][-1]["act"] == "TombstoneWinner" for b in behs):
        raise Inconclusive("no behaviour promotes a non-winning leaf (TombstoneWinner)")
    sample = 8 if ctx.quick() else 5
    for b in behs:
        b["ntok"] = 0 if is_canonical(b["steps"]) else (sample if len(b["steps"]) <= 2 else 2)
    log("  %d behaviours (%d reserved-property writes), %d matrix cells (write path x kind x read path)" % (len(behs), nresv, len(matrix)))

    bf = os.path.join(ctx.scratch, "c19-beh.json")
    tr = os.path.join(ctx.scratch, "c19.ndjson")
    write_json(bf, behs)
    env = {"VERIF_BEH": bf, "VERIF_TRACE_OUT": tr, "VERIF_C19_NGEN": 30 if ctx.quick() else 120}
    rc, out = go_test(ctx, "rest", "^TestVerif_C19_BodyPaths$", ["harness/rest/c19_bodypaths_test.go"], env=env,
                      timeout=1500 if ctx.quick() else 3000)
    if rc != 0 or not os.path.exists(tr) or not os.path.exists(tr + ".meta") or not os.path.exists(tr + ".detail"):
        raise Inconclusive("C19 harness failed:\n" + harness_failure(out))
    rows = read_ndjson(tr + ".detail")      # same lines as the trace TLC reads, plus diagnostic fields
    meta = json.load(open(tr + ".meta"))
    reads = [x for r_ in rows if r_["a"] == "Reads" for x in r_["items"]]
    resv = [x for x in rows if x["a"] == "WriteReserved"]
    writes = [x for x in rows if x["a"] in ("Create", "Supersede", "Branch")]
    ctx.cov["evaluations"] += len(reads) + len(resv)
    ctx.cov["distinct_nontrivial"] += len({(x["wp"], x["kind"], x["rp"], x["cache"], x["tokId"]) for x in reads if x["status"] == 200})
    cells_real = {(x["wp"], x["kind"], x["rp"]) for x in reads if x["status"] == 200}
    refused = sorted({(x["wp"], x["tokId"], x["status"]) for x in writes if not x["acc"]})
    ctx.cov["c19"] = {
        "behaviours": len(behs), "instances": meta["instances"], "tokens": len(meta["tokens"]),
        "matrix_cells_declared": len(matrix), "matrix_cells_observed_200": len(cells_real & matrix),
        "read_cases": len(reads), "reserved_cases": len(resv), "body_writes": len(writes),
        "path_pair_x_token_cases": len({(x["wp"], x["rp"], x["tokId"]) for x in reads if x["status"] == 200}),
        "refused_body_writes": [list(x) for x in refused][:40],
        "lenient_reserved_outcomes": sorted({"%s/%s/%s->%s" % (x["wp"], x["cls"], x["mode"], x["status"]) for x in resv
                                             if x["cls"] in ("id_nonstring", "deleted_nonbool", "attachments_badtype", "exp_null")
                                             and x["wp"] not in ("BlipPushRev",)}),
    }
    if matrix - cells_real:
        ctx.notes.append("matrix cells never observed with status 200 on the real code: %s" % sorted(matrix - cells_real)[:10])
    unobs = meta.get("unobserved", [])
    bad_unobs = [u for u in unobs if (u["rp"], u["cls"]) not in ENV_UNOBSERVABLE]
    if unobs:
        ctx.notes.append("%d read cells not observable (%d outside the documented store limitation)" % (len(unobs), len(bad_unobs)))
    for x in reads[:1] + reads[len(reads) // 2:len(reads) // 2 + 1] + resv[:1]:
        ctx.sample({k: v for k, v in x.items() if k != "diff"})

    # ---- pass P: property predicates on the recorded facts; every violating instance is reported (-continue)
    viols, bads, hwm = validate_all(ctx, "Trace_BodyPaths_P.cfg", tr, "P")
    shape = [v for v in viols if v[0] not in ("FidelityR", "ReservedRejected")]
    if shape:
        raise Inconclusive("pass P: trace shape not accepted (%s at line %s: %s)" % (shape[0][0], shape[0][1], str(rows[shape[0][1] - 1])[:600] if shape[0][1] else None))
    if any(v[0] == "FidelityR" for v in viols) and not bads:
        raise Inconclusive("pass P: Fidelity violated but no failing item was printed")
    bad_instances = set()
    for line, n in bads:
        row = rows[line - 1]["items"][n - 1]
        inst = instance_of(rows, line)
        bad_instances.add(inst.get("inst"))
        key = "Fidelity|wp=%s|rp=%s|cls=%s" % (row.get("wp"), row.get("rp"), row.get("tokCls"))
        what = ("read path %s (kind %s, cache %s) of a body written through %s did not return the written JSON value: token %s, status %s, valid %s, "
                "got token #%s expected #%s, added keys %s, first difference %s"
                % (row.get("rp"), row.get("kind"), row.get("cache"), row.get("wp"), row.get("tokId"), row.get("status"), row.get("valid"),
                   row.get("got"), row.get("expect"), row.get("extra"), json.dumps(row.get("diff"))[:400]))
        report_violation(ctx, key, what, replay(rows, line, row, inst, meta, "Fidelity", ctx))
    for inv, line in viols:
        if inv != "ReservedRejected":
            continue
        row = rows[line - 1] if line and line <= len(rows) else {}
        inst = instance_of(rows, line)
        bad_instances.add(inst.get("inst"))
        key = "ReservedRejected|wp=%s|cls=%s" % (row.get("wp"), row.get("cls"))
        what = ("reserved property class %s through %s (%s mode) was not refused cleanly: status %s, stored=%s, GET afterwards %s"
                % (row.get("cls"), row.get("wp"), row.get("mode"), row.get("status"), row.get("stored"), row.get("getStatus")))
        report_violation(ctx, key, what, replay(rows, line, row, inst, meta, inv, ctx))
    if not viols and hwm < len(rows):     # (PNotStuck already demands that every line of every instance is accepted)
        raise Inconclusive("pass P consumed %s of %s lines" % (hwm, len(rows)))
    if bad_unobs:
        raise Inconclusive("read cells could not be observed: %s" % bad_unobs[:5])

    # ---- pass C: conformance to the model (real rev tree = model tree, exactly the model's cells exercised, statuses as
    # modelled); instances with a property violation are necessarily outside the model and are not counted again
    ninst = meta["instances"]
    cviol, _, chwm = validate_all(ctx, "Trace_BodyPaths_C.cfg", tr, "C")
    stuck = {}
    for inv, line in cviol:
        stuck.setdefault(instance_of(rows, line).get("inst"), (inv, line))
    nonconf = {i: v for i, v in stuck.items() if i not in bad_instances}
    if nonconf:
        ctx.cov["nonconformance"] += len(nonconf)
        inv, line = sorted(nonconf.values(), key=lambda v: v[1] or 0)[0]
        ctx.notes.append("pass C rejected %d instance(s); first: %s at line %s: %s" % (len(nonconf), inv, line, str(rows[line - 1])[:500] if line else None))
    elif not cviol and chwm < len(rows):
        ctx.cov["nonconformance"] += 1
        ctx.notes.append("pass C consumed %s of %s lines" % (chwm, len(rows)))
    ctx.cov["traces_validated_against_impl"] += ninst - len(set(stuck) | bad_instances)
    ctx.cov["c19"]["harness_timing"] = meta.get("timing")
    if meta.get("replication"):
        ctx.cov["c19"]["replication"] = meta["replication"]
    ctx.cov["rule"] = ("one evaluation = one (behaviour, token binding, read cell) or one reserved-property write on the real gateway; "
                       "non-trivial = distinct (write path, kind, read path, cache, token) whose read returned a body (status 200) that TLC compared with the written token")
    ctx.assumptions += [
        "JSON-value equality is computed by the harness (numbers as normalised decimal strings, duplicate keys last-wins, -0 = 0); TLC decides which token each path must return",
        "the JSON value space is sampled (seeded catalogue + generator), not decided (DESIGN 8)",
        "Rosmar stands in for Couchbase Server; on-demand import only (auto import off); conflicting revisions via EnableAllowConflicts as the repository's own tests do",
        "superseded (non-leaf) revisions may legitimately be 404; when returned they must be faithful",
    ]


def instance_of(rows, line):
    for i in range(min(line or 0, len(rows)) - 1, -1, -1):
        if rows[i]["a"] == "Reset":
            return rows[i]
    return {}


def replay(rows, line, row, inst, meta, inv, ctx):
    start = line - 1
    while start > 0 and rows[start]["a"] != "Reset":
        start -= 1
    return {"invariant": inv, "instance": inst, "events": [r for r in rows[start:line] if r["a"] != "Reads"], "failing": row,
            "token_texts": {t["id"]: t.get("text") for t in meta["tokens"] if t["id"] in (inst.get("toks") or [])}, "seed": ctx.seed}


def validate_all(ctx, cfg, trace_path, tag):
    """trace validation with one initial state per instance and `-continue`: returns ([(invariant, failing line)], [(line, failing item)], lines consumed).
    (local variant of vlib.core.validate, which stops at the first violation)"""
    r = tlc(ctx, SPEC, "Trace_BodyPaths", cfg, workers=1, env={"VERIF_TRACE": trace_path}, timeout=1800, dfs=True,
            tag="Trace-" + tag, allow_violation=True, extra=["-continue"])
    hwm, bads = 0, []
    for t, txt in r.printed:
        if t == "HWM":
            hwm = max(hwm, int(txt.split(",")[0]))
        elif t == "BAD":
            pair = tuple(int(x) for x in txt.split(","))
            if pair not in bads:
                bads.append(pair)
    viols = []
    blocks = re.split(r"Error: Invariant (\S+) is violated", r.out)
    for i in range(1, len(blocks), 2):
        inv, body = blocks[i], blocks[i + 1]
        body = body.split("Error: Invariant")[0]
        ls = re.findall(r"^/\\ l = (\d+)", body, flags=re.M)
        line = int(ls[-1]) - 1 if ls else None
        if inv.endswith("NotStuck") and ls:
            line = int(ls[-1])      # the line nobody accepts is the NEXT one
        if (inv, line) not in viols:
            viols.append((inv, line))
    if not viols and r.error_text:
        raise Inconclusive("TLC error validating %s with %s: %s\n%s" % (trace_path, cfg, r.error_text, r.out[-1500:]))
    return viols, bads, hwm
