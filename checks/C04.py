"""C04 - revision trees stay well-formed with a deterministic, order-independent winner (DESIGN 4.4)."""
import json
import os
import random
import re
from vlib.core import *

SPEC = os.path.join(VERIF, "specs", "RevTree")
HARNESS = ["harness/db/c04_revtree_test.go"]
STEP_ACTS = ("Add", "Hist", "Prune", "Child")
# A defect this check found (now repaired in /repo): documentUpdateFunc computed the flags and then pruned to revs_limit, so
# the write that aged out the last other (tombstoned) branch stored Branched=true.  Should it return, TLC recognises the class
# on real state (RevTree.tla: StaleBranched, Trace_RevTree_Pm.cfg) and it is reported under this fixed key.
STALE_KEY = "FlagsAgree:Branched-stale-after-the-write-that-aged-out-the-last-tombstoned-branch"
# local variants of core.model_check / core.behaviours with a unique tag (own scratch directory): the TLC runs of one stage
# are independent JVMs and run side by side, at most POOL at a time
POOL = max(2, min(8, NCPU // 2))


def parallel(jobs, pool=POOL):
    """jobs: {name: thunk} -> {name: result}; the first exception (Inconclusive included) is re-raised"""
    from concurrent.futures import ThreadPoolExecutor
    with ThreadPoolExecutor(max_workers=pool) as ex:
        futs = {k: ex.submit(f) for k, f in jobs.items()}
        return {k: f.result() for k, f in futs.items()}


def mc(ctx, cfg, tag, workers):
    r = tlc(ctx, SPEC, "MC_RevTree", cfg, timeout=3000, coverage=(ctx.tier == "thorough"), workers=workers, tag=tag)
    if r.inv_violated:
        raise Inconclusive("model counterexample in MC_RevTree/%s: %s violated (candidate only; not reproduced on real code)\n%s"
                           % (cfg, r.inv_violated, "\n".join("\n".join(x["_txt"]) for x in r.error_trace[-3:])))
    if r.distinct == 0:
        raise Inconclusive("TLC reported no states for MC_RevTree/%s\n%s" % (cfg, r.out[-800:]))
    ctx.cov["states"] += r.distinct
    ctx.cov["transitions"] += r.generated
    if r.coverage_zero:
        ctx.notes.append("zero-coverage actions in %s: %s" % (cfg, sorted(set(r.coverage_zero))))
    log("  TLC %-14s %-32s %9d distinct %10d generated depth %3d  %.1fs" % ("MC_RevTree", cfg, r.distinct, r.generated, r.depth, r.wall))
    return r


def beh(ctx, cfg, tag, num=None, depth=None):
    if num is None:
        r = tlc(ctx, SPEC, "MC_RevTree", cfg, timeout=3000, workers=1, tag=tag)
    else:
        r = tlc(ctx, SPEC, "MC_RevTree", cfg, mode="simulate", simulate=num, depth=depth, timeout=3000, tag=tag)
    if r.inv_violated:
        raise Inconclusive("behaviour generation MC_RevTree/%s violated %s" % (cfg, r.inv_violated))
    res, seen = [], set()
    for t, txt in r.printed:
        if t == "BEH":
            js = json.loads(txt)
            if js not in seen:
                seen.add(js)
                res.append(json.loads(js))
    if not res:
        raise Inconclusive("no behaviours exported by MC_RevTree/%s\n%s" % (cfg, r.out[-800:]))
    log("  TLC %-14s %-32s exported %d distinct behaviours  %.1fs" % ("MC_RevTree", cfg, len(res), r.wall))
    return res


def run(ctx):
    q = ctx.quick()
    rnd = random.Random(ctx.seed)
    if getattr(ctx, "replay", None):          # --replay <file>: re-run one recorded counterexample on the real code
        rep = json.load(open(ctx.replay))
        replay_and_validate(ctx, [rep["replay"]["behaviour"]])
        ctx.cov["rule"] = "replay of %s" % ctx.replay
        return
    # stage 1, side by side: the design (one replica, every action, both levels and modes; two replicas fed the same
    # inputs), the behaviour exports, and a warm-up build of the package test binary
    suf = ".cfg" if q else "_thorough.cfg"
    jobs = {"warm": lambda: warm_build(ctx)}
    if not os.environ.get("VERIF_C04_SKIP_MC"):          # development knob
        jobs["mc"] = lambda: mc(ctx, "MC_RevTree" + suf, "mc", max(2, NCPU // 3))
        jobs["mcoi"] = lambda: mc(ctx, "MC_RevTree_OI.cfg", "mcoi", 2)
        if not q:
            jobs["mcoi2"] = lambda: mc(ctx, "MC_RevTree_OI_thorough.cfg", "mcoi2", 2)
    cache = os.environ.get("VERIF_C04_BEH_CACHE")        # development knob: reuse exported behaviours
    cached = cache and os.path.exists(cache)
    if not cached:
        for name in ("tree", "db", "oi"):
            jobs["beh_" + name] = (lambda n: lambda: drop_prefixes(beh(ctx, "Beh_RevTree_%s%s" % (n, suf), "beh_" + n)))(name)
            if not q and name != "oi":      # the thorough tier also replays (a sample of) the small covers
                jobs["behs_" + name] = (lambda n: lambda: drop_prefixes(beh(ctx, "Beh_RevTree_%s.cfg" % n, "behs_" + n)))(name)
        # conflicts allowed, three steps: the writes after which the winner falls back to an older live branch
        jobs["beh_dbconf"] = lambda: drop_prefixes(beh(ctx, "Beh_RevTree_dbconf.cfg", "beh_dbconf"))
        # (TLC's simulator evaluates the exporting invariant on every successor of the last step: sampled below)
        jobs["sim"] = lambda: beh(ctx, "Sim_RevTree.cfg", "sim", num=200 if q else 2000, depth=8)
        jobs["simoi"] = lambda: beh(ctx, "Sim_RevTree_oi.cfg", "simoi", num=300 if q else 4000, depth=8)
    res = parallel(jobs)
    ctx.cov["exhaustive"] = "mc" in res
    if cached:
        behs = json.load(open(cache))
        ctx.notes.append("behaviours replayed: %d from cache %s" % (len(behs), cache))
    else:
        behs = select(ctx, q, rnd, res)
        if cache:
            write_json(cache, behs)
    # stage 2: replay on the real code; stage 3: validation of the recorded real state (pass P and pass C side by side)
    replay_and_validate(ctx, behs)
    ctx.cov["rule"] = ("behaviours = transition covers (every transition out of every distinct reachable state; seeded sample stratified by the kind "
                       "of the last step) of the tree-level model (TryAdd/PutHistory/Prune, gens 1..2(3) x 2 digests, two generation-value maps) and the "
                       "database-level model (Put/DeleteDoc/PutExistingRevWithBody, AllowConflicts x revs_limit {default,1,2}; a 3-step conflicts-allowed "
                       "cover), all (input sequence, permutation) pairs for two replicas, plus seeded TLC simulations of length 6 over 3-4 gens x 3 "
                       "digests; non-trivial = the real tree had >= 2 leaves at some step")
    ctx.assumptions += ["digests enter the code only through string comparison and generations through order, +1 and the prune threshold: rev ids are "
                        "projected to [generation, rank of digest] (order preserving); tree-level generations use the behaviour's generation-value map",
                        "order independence is stated for mutually consistent inputs (one parent and one deleted flag per revision id, complete ancestries) "
                        "and for replicas that did not prune; interior deleted flags are not compared (only a head revision carries its flag)",
                        "a stored tombstone is served without the properties it was written with: WinningBody is required for live winners",
                        "RepairCycles (legacy data repair) is outside the property"]


def warm_build(ctx):
    """compile the package test binary while TLC works (the harness skips without VERIF_BEH); failures surface in the real run"""
    try:
        go_test(ctx, "db", "^TestVerif_C04_RevTree$", HARNESS, env={"VERIF_BEH": "", "VERIF_TRACE_OUT": ""}, timeout=2400)
    except Inconclusive:
        pass


def select(ctx, q, rnd, res):
    cap = {"tree": 800, "db": 700, "dbconf": 600, "oi": 400, "sim": 250, "simoi": 100} if q else \
          {"tree": 8000, "db": 6000, "dbconf": 10000, "oi": 4000, "sim": 3000, "simoi": 1500}
    if os.environ.get("VERIF_C04_CAPS"):     # development knob: "tree,db,dbconf,oi,sim,simoi"
        cap = dict(zip(("tree", "db", "dbconf", "oi", "sim", "simoi"), [int(x) for x in os.environ["VERIF_C04_CAPS"].split(",")]))
    parts = []
    for name in ("tree", "db", "dbconf", "oi", "sim", "simoi"):
        allb = res["beh_" + name] if "beh_" + name in res else res[name]
        allb = allb + res.get("behs_" + name, [])
        parts.append((name, len(allb), sample(rnd, allb, cap[name])))
    ctx.notes.append("behaviours replayed: " + ", ".join("%s %d of %d" % (nm, len(bs), tot) for nm, tot, bs in parts))
    return [b for _, _, bs in parts for b in bs]


def drop_prefixes(behs):
    """a behaviour that is a proper prefix of another exported behaviour adds nothing to a replay"""
    seen = set()
    for b in behs:
        st = b["steps"]
        for k in range(1, len(st)):
            seen.add(json.dumps([b["cfg"], st[:k]], sort_keys=True))
    return [b for b in behs if json.dumps([b["cfg"], b["steps"]], sort_keys=True) not in seen]


def sample(rnd, behs, n):
    """seeded sample, stratified by (configuration, kind of the last step): a transition cover is dominated by the
    actions with many argument choices (histories); every kind of last transition gets an equal share"""
    if len(behs) <= n:
        return behs
    strata = {}
    for k, b in enumerate(behs):
        last = b["steps"][-1]
        key = (b["cfg"]["lvl"], b["cfg"]["ac"], b["cfg"]["lim"], last["a"], last["del"], last["i"])
        strata.setdefault(key, []).append(k)
    for v in strata.values():
        rnd.shuffle(v)
    picked, keys = [], sorted(strata)
    while len(picked) < n and keys:
        for key in list(keys):
            if not strata[key]:
                keys.remove(key)
            elif len(picked) < n:
                picked.append(strata[key].pop())
    return [behs[i] for i in sorted(picked)]


def split(rows):
    """trace rows -> list of (first line number (1-based), rows of one behaviour)"""
    out, cur, start = [], None, 0
    for n, r in enumerate(rows, 1):
        if r["a"] == "Reset":
            if cur is not None:
                out.append((start, cur))
            cur, start = [r], n
        elif r["a"] == "End":
            continue
        elif cur is not None:
            cur.append(r)
    if cur is not None:
        out.append((start, cur))
    return out


def replay_and_validate(ctx, behs):
    bf = os.path.join(ctx.scratch, "c04-beh.json")
    tr = os.path.join(ctx.scratch, "c04.ndjson")
    write_json(bf, behs)
    rc, out = go_test(ctx, "db", "^TestVerif_C04_RevTree$", HARNESS, env={"VERIF_BEH": bf, "VERIF_TRACE_OUT": tr}, timeout=2400)
    if rc != 0 or not os.path.exists(tr):
        raise Inconclusive("C04 harness failed:\n" + harness_failure(out))
    rows = read_ndjson(tr)
    if not rows or rows[-1].get("a") != "End":
        raise Inconclusive("C04 trace is incomplete (no End line)")
    groups = [g for _, g in split(rows)]
    if len(groups) != len(behs):
        raise Inconclusive("C04 trace has %d behaviours, %d were sent" % (len(groups), len(behs)))
    ctx.cov["evaluations"] += len(behs)
    measure(ctx, groups, rows[-1])
    mid = groups[len(groups) // 2]
    ctx.sample({"behaviour": behs[mid[0]["beh"]], "real_trace_head": mid[1:3]})

    # pass P (the property on the recorded real state) and pass C (every recorded step is an instance of the spec's action
    # from the previous real state), side by side and in chunks.  Every recorded behaviour is a TLC behaviour of its own
    # (initial states = Reset lines) and TLC runs with -continue: one run lists every violating behaviour.
    nchunk = max(1, min(POOL // 2, len(groups) // 1500 + 1))
    chunks = [groups[k::nchunk] for k in range(nchunk)]
    jobs = {}
    for k, ch in enumerate(chunks):
        jobs[("P", k)] = (lambda c, k: lambda: validate_all(ctx, "Trace_RevTree_P.cfg", c, "P%d" % k))(ch, k)
        jobs[("C", k)] = (lambda c, k: lambda: validate_all(ctx, "Trace_RevTree_C.cfg", c, "C%d" % k))(ch, k)
    out = parallel(jobs)
    res = merge([out[("P", k)] for k in range(nchunk)])
    resc = merge([out[("C", k)] for k in range(nchunk)])
    bad = res["viol"]                          # id(group) -> (invariant, step, state text)
    stale = set()
    cand = set(gid for gid, v in bad.items() if v[0] == "FlagsAgree")
    if cand:
        # TLC decides the class: these behaviours satisfy the property modulo the (repaired) deviation StaleBranched
        resm = validate_all(ctx, "Trace_RevTree_Pm.cfg", [g for g in groups if id(g) in cand], "Pm")
        stale = cand - set(resm["viol"]) - set(id(g) for g in resm["stalled"])
    if stale:
        first = [g for g in groups if id(g) in stale][0]
        report_violation(ctx, STALE_KEY,
                         "stored Branched flag disagrees with the stored leaves after a write whose pruning removed the last other (tombstoned) "
                         "branch - the flags are not recomputed after pruneRevisions in documentUpdateFunc (%d behaviours of this run, first: %d)"
                         % (len(stale), first[0]["beh"]),
                         {"behaviour": behs[first[0]["beh"]], "invariant": "FlagsAgree", "real_trace": first, "instances": len(stale)})
    reported = 0
    for g in groups:
        if id(g) in bad and id(g) not in stale:
            inv, step, txt = bad[id(g)]
            b = behs[g[0]["beh"]]
            if reported < 5:
                report_violation(ctx, "%s:%s" % (inv, json.dumps(b, sort_keys=True)),
                                 "real revision tree breaks %s in behaviour %d (level %s) at its step %s" % (inv, g[0]["beh"], g[0]["lvl"], step),
                                 {"behaviour": b, "invariant": inv, "real_trace": g, "state": txt})
            reported += 1
    if reported > 5:
        ctx.notes.append("pass P: %d violating behaviours, 5 reported" % reported)
    if res["stalled"]:
        g = res["stalled"][0]
        msg = "pass P could not consume behaviour %d (trace shape not accepted): %s" % (g[0]["beh"], json.dumps(g[:3])[:1200])
        if not ctx.violations:
            raise Inconclusive(msg)
        ctx.notes.append(msg)
    # conformance is counted over the behaviours on which the property held
    pbad = set(bad) | set(id(g) for g in res["stalled"])
    badc = {gid: v for gid, v in resc["viol"].items() if gid not in pbad}
    for g in resc["stalled"]:
        if id(g) not in pbad:
            badc.setdefault(id(g), ("no matching action", None, None))
    if badc:
        ctx.cov["nonconformance"] += len(badc)
        for g in [g for g in groups if id(g) in badc][:3]:
            ctx.notes.append("pass C rejected behaviour %d (%s, step %s): %s" % (g[0]["beh"], badc[id(g)][0], badc[id(g)][1], json.dumps(g)[:1500]))
    ctx.cov["traces_validated_against_impl"] += len(groups) - len(pbad) - len(badc)


def merge(results):
    viol, stalled = {}, []
    for r in results:
        viol.update(r["viol"])
        stalled += r["stalled"]
    return {"viol": viol, "stalled": stalled}


def validate_all(ctx, cfg, groups, tag):
    """validate the recorded behaviours `groups` (lists of rows, first row = Reset) with Trace_RevTree/<cfg>.
    returns viol: id(group) -> (invariant, step number within the behaviour, state text) for every behaviour with a violated
    invariant, stalled: groups that were not consumed to their end, stall_known: whether TLC printed the end-of-run report."""
    path = os.path.join(ctx.scratch, "c04-%s.ndjson" % tag)
    starts = {}
    n = 0
    with open(path, "w") as f:
        for g in groups:
            starts[n + 1] = g
            for r in g:
                f.write(json.dumps(r, separators=(",", ":"), sort_keys=True) + "\n")
                n += 1
        f.write('{"a":"End","skipped":0}\n')
    r = tlc(ctx, SPEC, "Trace_RevTree", cfg, workers=1, env={"VERIF_TRACE": path}, timeout=3000, tag=tag, allow_violation=True,
            extra=["-continue"])
    m = re.search(r"(?m)^Error: (?!Invariant \S+ is violated|The behavior up to this point)(.*)$", r.out)
    if m or (r.rc != 0 and not r.inv_violated):
        raise Inconclusive("TLC error validating with %s: %s\n%s" % (cfg, m.group(1) if m else r.error_text, r.out[-1500:]))
    viol = {}
    chunks = re.split(r"(?m)^Error: Invariant (\S+) is violated\.?.*$", r.out)
    for k in range(1, len(chunks) - 1, 2):
        inv, body = chunks[k], chunks[k + 1]
        ls = re.findall(r"(?m)^/\\ l = (\d+)", body)
        ss = re.findall(r"(?m)^/\\ s0 = (\d+)", body)
        if not ls or not ss:
            raise Inconclusive("cannot locate a violation of %s reported by TLC (%s)" % (inv, cfg))
        g = starts.get(int(ss[-1]))
        if g is None:
            raise Inconclusive("TLC reported a violation in an unknown behaviour (s0=%s)" % ss[-1])
        last = body.rfind("State ")
        viol.setdefault(id(g), (inv, int(ls[-1]) - int(ss[-1]) - 1, body[last:last + 4000] if last >= 0 else None))
    stalled, known = [], False
    m = re.search(r'<<\s*"STALL",\s*\{([^}]*)\}\s*>>', r.out)     # TLC wraps a long set over several lines
    if m:
        known = True
        stalled = [starts[int(x)] for x in re.findall(r"\d+", m.group(1)) if int(x) in starts]
    if not known:
        raise Inconclusive("TLC did not report which behaviours were consumed (%s)\n%s" % (cfg, r.out[-1500:]))
    return {"viol": viol, "stalled": [g for g in stalled if id(g) not in viol], "stall_known": known}


def measure(ctx, groups, end):
    c = {"two_leaves": 0, "conflict": 0, "tombstone_winner": 0, "winner_not_newest": 0, "prune_removed": 0, "rejected_call": 0,
         "two_replicas": 0, "two_replicas_same_accepted": 0, "db_level": 0, "tree_level": 0, "cut_short": end.get("skipped", 0)}
    for g in groups:
        hdr, steps = g[0], [r for r in g[1:] if r["a"] in STEP_ACTS]
        c["db_level" if hdr["lvl"] == "db" else "tree_level"] += 1
        f = lambda p: any(p(r) for r in steps)
        c["two_leaves"] += f(lambda r: len(r["lv"]) >= 2)
        c["conflict"] += f(lambda r: r["fl"][1])
        c["tombstone_winner"] += f(lambda r: r["fl"][0])
        c["rejected_call"] += f(lambda r: not r["ok"])
        c["winner_not_newest"] += f(lambda r: r["ok"] and r["a"] in ("Add", "Child") and r["r"] != r["cur"] and r["r"][0] > 0)
        prev = {}
        for r in steps:
            if (r["a"] == "Prune" or hdr["lim"] > 0) and r["i"] in prev and len(r["tree"]) < len(prev[r["i"]]):
                c["prune_removed"] += 1
                break
            prev[r["i"]] = r["tree"]
        if hdr["nrep"] == 2:
            c["two_replicas"] += 1
            acc = {1: set(), 2: set()}
            for r in steps:
                if r["ok"]:
                    acc[r["i"]].add((tuple(r["ch"][0]) if r["a"] == "Hist" else tuple(r["r"]), r["del"]))
            c["two_replicas_same_accepted"] += (acc[1] == acc[2] and bool(acc[1]))
    ctx.cov["distinct_nontrivial"] += c["two_leaves"]
    ctx.cov["c04_reach"] = c
    hist = {}
    for g in groups:
        for r in g[1:]:
            k = "%s/%s%s" % (g[0]["lvl"], r["a"], "" if r["ok"] else "(rejected)")
            hist[k] = hist.get(k, 0) + 1
    ctx.cov["c04_action_histogram"] = hist
    if c["two_replicas"] >= 50 and not c["two_replicas_same_accepted"]:
        raise Inconclusive("no two-replica behaviour ended with the same accepted set: OrderIndependent would be vacuous")
