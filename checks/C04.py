"""C04 - revision trees stay well-formed with a deterministic, order-independent winner (DESIGN 4.4)."""
import json
import os
import random
from vlib.core import *

SPEC = os.path.join(VERIF, "specs", "RevTree")
HARNESS = ["harness/db/c04_revtree_test.go"]
STEP_ACTS = ("Add", "Hist", "Prune", "Child")
# TLC-evaluated class of the one named deviation of the code (RevTree.tla: StaleBranched): documentUpdateFunc computes the
# flags and then prunes to revs_limit, so the write that ages out the last other (tombstoned) branch stores Branched=true
STALE_KEY = "FlagsAgree:Branched-stale-after-the-write-that-aged-out-the-last-tombstoned-branch"


def run(ctx):
    q = ctx.quick()
    rnd = random.Random(ctx.seed)
    # 1. the design: one replica, every action, both levels and modes; then two replicas fed the same inputs
    model_check(ctx, SPEC, "MC_RevTree", "MC_RevTree.cfg" if q else "MC_RevTree_thorough.cfg", timeout=3000)
    model_check(ctx, SPEC, "MC_RevTree", "MC_RevTree_OI.cfg", timeout=3000)
    if not q:
        model_check(ctx, SPEC, "MC_RevTree", "MC_RevTree_OI_thorough.cfg", timeout=3000)
    ctx.cov["exhaustive"] = True
    # 2. behaviours: transition covers of small instances (every transition out of every distinct reachable state),
    #    every (input sequence, permutation) pair for two replicas, plus seeded simulations of larger instances
    suf = ".cfg" if q else "_thorough.cfg"
    cap = (1500, 1200, 600) if q else (12000, 10000, 5000)
    parts = []
    for name, n in zip(("tree", "db", "oi"), cap):
        allb = drop_prefixes(behaviours(ctx, SPEC, "MC_RevTree", "Beh_RevTree_%s%s" % (name, suf), timeout=3000))
        if not q and name != "oi":   # the thorough tier also replays the whole small cover
            allb += drop_prefixes(behaviours(ctx, SPEC, "MC_RevTree", "Beh_RevTree_%s.cfg" % name, timeout=3000))
        parts.append((name, len(allb), sample(rnd, allb, n)))
    # (TLC's simulator evaluates the exporting invariant on every successor of the last step: sample them)
    sims = behaviours(ctx, SPEC, "MC_RevTree", "Sim_RevTree.cfg", num=120 if q else 1500, depth=8, timeout=1800)
    parts.append(("sim", len(sims), sample(rnd, sims, 300 if q else 6000)))
    sims = behaviours(ctx, SPEC, "MC_RevTree", "Sim_RevTree_oi.cfg", num=200 if q else 3000, depth=8, timeout=1800)
    parts.append(("simoi", len(sims), sample(rnd, sims, 150 if q else 3000)))
    behs = [b for _, _, bs in parts for b in bs]
    ctx.notes.append("behaviours replayed: " + ", ".join("%s %d%s" % (nm, len(bs), (" of %d" % tot) if tot else "") for nm, tot, bs in parts))
    replay_and_validate(ctx, behs)
    ctx.cov["rule"] = ("behaviours = transition covers (every transition out of every distinct reachable state, seeded sample in the quick tier) of the "
                       "tree-level model (TryAdd/PutHistory/Prune, gens 1..2(3) x 2 digests, two generation-value maps) and the database-level model "
                       "(Put/DeleteDoc/PutExistingRevWithBody, AllowConflicts x revs_limit {default,1,2}), all (input sequence, permutation) pairs for two "
                       "replicas, plus seeded TLC simulations of length 6 over 3 gens x 3 digests; non-trivial = the real tree had >= 2 leaves at some step")
    ctx.assumptions += ["digests enter the code only through string comparison and generations through order, +1 and the prune threshold: rev ids are "
                        "projected to [generation, rank of digest] (order preserving); tree-level generations use the behaviour's generation-value map",
                        "order independence is stated for mutually consistent inputs (one parent and one deleted flag per revision id, complete ancestries) "
                        "and for replicas that did not prune; interior deleted flags are not compared (only a head revision carries its flag)",
                        "a stored tombstone is served without the properties it was written with: WinningBody is required for live winners",
                        "RepairCycles (legacy data repair) is outside the property"]


def drop_prefixes(behs):
    """a behaviour that is a proper prefix of another exported behaviour adds nothing to a replay"""
    seen = set()
    for b in behs:
        st = b["steps"]
        for k in range(1, len(st)):
            seen.add(json.dumps([b["cfg"], st[:k]], sort_keys=True))
    return [b for b in behs if json.dumps([b["cfg"], b["steps"]], sort_keys=True) not in seen]


def sample(rnd, behs, n):
    if len(behs) <= n:
        return behs
    idx = sorted(rnd.sample(range(len(behs)), n))
    return [behs[i] for i in idx]


def split(rows):
    """trace rows -> list of (first line number (1-based), rows of one behaviour)"""
    out, cur, start = [], None, 0
    for n, r in enumerate(rows, 1):
        if r["a"] == "Reset":
            if cur is not None:
                out.append((start, cur))
            cur, start = [r], n
        elif r["a"] == "End":
            continue
        elif cur is not None:
            cur.append(r)
    if cur is not None:
        out.append((start, cur))
    return out


def replay_and_validate(ctx, behs):
    bf = os.path.join(ctx.scratch, "c04-beh.json")
    tr = os.path.join(ctx.scratch, "c04.ndjson")
    write_json(bf, behs)
    rc, out = go_test(ctx, "db", "^TestVerif_C04_RevTree$", HARNESS, env={"VERIF_BEH": bf, "VERIF_TRACE_OUT": tr}, timeout=2400)
    if rc != 0 or not os.path.exists(tr):
        raise Inconclusive("C04 harness failed:\n" + harness_failure(out))
    rows = read_ndjson(tr)
    if not rows or rows[-1].get("a") != "End":
        raise Inconclusive("C04 trace is incomplete (no End line)")
    groups = split(rows)
    if len(groups) != len(behs):
        raise Inconclusive("C04 trace has %d behaviours, %d were sent" % (len(groups), len(behs)))
    ctx.cov["evaluations"] += len(behs)
    measure(ctx, groups, rows[-1])
    mid = groups[len(groups) // 2][1]
    ctx.sample({"behaviour": behs[mid[0]["beh"]], "real_trace_head": mid[1:3]})

    # pass P - the property on the recorded real state.  TLC stops at the first violation: the violating behaviour is
    # reported and set aside, the rest is validated again (bounded number of rounds).
    live = list(groups)
    pcfg = "Trace_RevTree_P.cfg"
    clean = False
    for rnd_no in range(6):
        path = os.path.join(ctx.scratch, "c04-p%d.ndjson" % rnd_no)
        write_trace(path, live)
        vp = validate(ctx, SPEC, "Trace_RevTree", pcfg, path, timeout=3000, tag="P%d" % rnd_no)
        if not vp.inv:
            if not vp.accepted:
                raise Inconclusive("pass P stopped at line %s of %s (trace shape not accepted)\n%s" % (vp.line, vp.total, vp.out[-1500:]))
            clean = True
            break
        gi = group_at(live, vp.line)
        grp = live[gi][1]
        beh = behs[grp[0]["beh"]]
        if vp.inv == "FlagsAgree" and pcfg.endswith("_P.cfg") and is_stale_branched(ctx, grp):
            report_violation(ctx, STALE_KEY,
                             "stored Branched flag disagrees with the stored leaves after a write that pruned the last other (tombstoned) branch "
                             "(flags are computed before pruneRevisions in documentUpdateFunc); first seen in behaviour %d" % grp[0]["beh"],
                             {"behaviour": beh, "invariant": vp.inv, "real_trace": grp})
            pcfg = "Trace_RevTree_Pm.cfg"     # the rest of the run is validated modulo this TLC-classified deviation
            continue
        key = "%s:%s" % (vp.inv, json.dumps(beh, sort_keys=True))
        report_violation(ctx, key, "real revision tree breaks %s at trace line %s (behaviour %d, level %s)" % (vp.inv, vp.line, grp[0]["beh"], grp[0]["lvl"]),
                         {"behaviour": beh, "invariant": vp.inv, "real_trace": grp, "state": (vp.state or {}).get("_txt")})
        del live[gi]
    if not clean:
        ctx.notes.append("pass P: more violating behaviours than rounds; %d behaviours left unvalidated" % len(live))
        return
    # pass C - every recorded step is an instance of the spec's action from the previous real state
    path = os.path.join(ctx.scratch, "c04-c.ndjson")
    write_trace(path, live)
    vc = validate(ctx, SPEC, "Trace_RevTree", "Trace_RevTree_C.cfg", path, timeout=3000, tag="C")
    if vc.inv or not vc.accepted:
        ctx.cov["nonconformance"] += 1
        gi = group_at(live, vc.line) if vc.line else None
        grp = live[gi][1] if gi is not None else None
        off = (vc.line - live_start(live, gi)) if grp else None
        ctx.notes.append("pass C rejected at line %s (%s): %s" % (vc.line, vc.inv or "no matching action",
                                                                   json.dumps(grp[off] if grp and off is not None and off < len(grp) else None)[:600]))
    else:
        ctx.cov["traces_validated_against_impl"] += len(live)


def write_trace(path, groups):
    with open(path, "w") as f:
        for _, g in groups:
            for r in g:
                f.write(json.dumps(r, separators=(",", ":"), sort_keys=True) + "\n")
        f.write('{"a":"End","skipped":0}\n')


def live_start(groups, gi):
    return 1 + sum(len(g) for _, g in groups[:gi])


def group_at(groups, line):
    """index of the behaviour that contains (1-based) line of the trace written by write_trace"""
    n = 0
    for gi, (_, g) in enumerate(groups):
        n += len(g)
        if (line or 1) <= n:
            return gi
    return len(groups) - 1


def is_stale_branched(ctx, grp):
    """TLC decides: the behaviour passes the property modulo the named deviation (FlagsAgreeModuloAgeing)"""
    path = os.path.join(ctx.scratch, "c04-one.ndjson")
    write_trace(path, [(1, grp)])
    v = validate(ctx, SPEC, "Trace_RevTree", "Trace_RevTree_Pm.cfg", path, timeout=600, tag="Pm1")
    return (not v.inv) and v.accepted


def measure(ctx, groups, end):
    c = {"two_leaves": 0, "conflict": 0, "tombstone_winner": 0, "winner_not_newest": 0, "prune_removed": 0, "rejected_call": 0,
         "two_replicas": 0, "two_replicas_same_accepted": 0, "db_level": 0, "tree_level": 0, "cut_short": end.get("skipped", 0)}
    for _, g in groups:
        hdr, steps = g[0], [r for r in g[1:] if r["a"] in STEP_ACTS]
        c["db_level" if hdr["lvl"] == "db" else "tree_level"] += 1
        f = lambda p: any(p(r) for r in steps)
        c["two_leaves"] += f(lambda r: len(r["lv"]) >= 2)
        c["conflict"] += f(lambda r: r["fl"][1])
        c["tombstone_winner"] += f(lambda r: r["fl"][0])
        c["rejected_call"] += f(lambda r: not r["ok"])
        c["winner_not_newest"] += f(lambda r: r["ok"] and r["a"] in ("Add", "Child") and r["r"] != r["cur"] and r["r"][0] > 0)
        prev = {}
        for r in steps:
            if (r["a"] == "Prune" or hdr["lim"] > 0) and r["i"] in prev and len(r["tree"]) < len(prev[r["i"]]):
                c["prune_removed"] += 1
                break
            prev[r["i"]] = r["tree"]
        if hdr["nrep"] == 2:
            c["two_replicas"] += 1
            acc = {1: set(), 2: set()}
            for r in steps:
                if r["ok"]:
                    acc[r["i"]].add((tuple(r["ch"][0]) if r["a"] == "Hist" else tuple(r["r"]), r["del"]))
            c["two_replicas_same_accepted"] += (acc[1] == acc[2] and bool(acc[1]))
    ctx.cov["distinct_nontrivial"] += c["two_leaves"]
    ctx.cov["c04_reach"] = c
    if c["two_replicas"] and not c["two_replicas_same_accepted"]:
        raise Inconclusive("no two-replica behaviour ended with the same accepted set: OrderIndependent would be vacuous")
