"""C04 - revision trees stay well-formed with a deterministic, order-independent winner (DESIGN 4.4)."""
import json
import os
import random
import re
from vlib.core import *

SPEC = os.path.join(VERIF, "specs", "RevTree")
HARNESS = ["harness/db/c04_revtree_test.go"]
STEP_ACTS = ("Add", "Hist", "Prune", "Child")
# TLC-evaluated class of the one named deviation of the code (RevTree.tla: StaleBranched): documentUpdateFunc computes the
# flags and then prunes to revs_limit, so the write that ages out the last other (tombstoned) branch stores Branched=true
STALE_KEY = "FlagsAgree:Branched-stale-after-the-write-that-aged-out-the-last-tombstoned-branch"


def run(ctx):
    q = ctx.quick()
    rnd = random.Random(ctx.seed)
    if getattr(ctx, "replay", None):          # --replay <file>: re-run one recorded counterexample on the real code
        rep = json.load(open(ctx.replay))
        replay_and_validate(ctx, [rep["replay"]["behaviour"]])
        ctx.cov["rule"] = "replay of %s" % ctx.replay
        return
    # 1. the design: one replica, every action, both levels and modes; then two replicas fed the same inputs
    if not os.environ.get("VERIF_C04_SKIP_MC"):          # development knob
        model_check(ctx, SPEC, "MC_RevTree", "MC_RevTree.cfg" if q else "MC_RevTree_thorough.cfg", timeout=3000)
        model_check(ctx, SPEC, "MC_RevTree", "MC_RevTree_OI.cfg", timeout=3000)
    if not q:
        model_check(ctx, SPEC, "MC_RevTree", "MC_RevTree_OI_thorough.cfg", timeout=3000)
    ctx.cov["exhaustive"] = True
    # 2. behaviours: transition covers of small instances (every transition out of every distinct reachable state),
    #    every (input sequence, permutation) pair for two replicas, plus seeded simulations of larger instances
    behs = generate(ctx, q, rnd)
    replay_and_validate(ctx, behs)
    ctx.cov["rule"] = ("behaviours = transition covers (every transition out of every distinct reachable state, seeded sample in the quick tier) of the "
                       "tree-level model (TryAdd/PutHistory/Prune, gens 1..2(3) x 2 digests, two generation-value maps) and the database-level model "
                       "(Put/DeleteDoc/PutExistingRevWithBody, AllowConflicts x revs_limit {default,1,2}), all (input sequence, permutation) pairs for two "
                       "replicas, plus seeded TLC simulations of length 6 over 3 gens x 3 digests; non-trivial = the real tree had >= 2 leaves at some step")
    ctx.assumptions += ["digests enter the code only through string comparison and generations through order, +1 and the prune threshold: rev ids are "
                        "projected to [generation, rank of digest] (order preserving); tree-level generations use the behaviour's generation-value map",
                        "order independence is stated for mutually consistent inputs (one parent and one deleted flag per revision id, complete ancestries) "
                        "and for replicas that did not prune; interior deleted flags are not compared (only a head revision carries its flag)",
                        "a stored tombstone is served without the properties it was written with: WinningBody is required for live winners",
                        "RepairCycles (legacy data repair) is outside the property"]


def generate(ctx, q, rnd):
    cache = os.environ.get("VERIF_C04_BEH_CACHE")            # development knob: reuse exported behaviours
    if cache and os.path.exists(cache):
        behs = json.load(open(cache))
        ctx.notes.append("behaviours replayed: %d from cache %s" % (len(behs), cache))
        return behs
    suf = ".cfg" if q else "_thorough.cfg"
    cap = (1200, 1000, 800, 600) if q else (8000, 6000, 10000, 4000)
    simcap = (300, 150) if q else (3000, 1500)
    if os.environ.get("VERIF_C04_CAPS"):     # development knob: "tree,db,dbconf,oi,sim,simoi"
        v = [int(x) for x in os.environ["VERIF_C04_CAPS"].split(",")]
        cap, simcap = tuple(v[:4]), tuple(v[4:6])
    parts = []
    for name, n in zip(("tree", "db", "dbconf", "oi"), cap):
        # dbconf: conflicts allowed, three steps - the writes after which the winner falls back to an older live branch
        cfgname = "Beh_RevTree_dbconf.cfg" if name == "dbconf" else "Beh_RevTree_%s%s" % (name, suf)
        allb = drop_prefixes(behaviours(ctx, SPEC, "MC_RevTree", cfgname, timeout=3000))
        if not q and name in ("tree", "db"):   # the thorough tier also replays (a sample of) the small covers
            allb += drop_prefixes(behaviours(ctx, SPEC, "MC_RevTree", "Beh_RevTree_%s.cfg" % name, timeout=3000))
        parts.append((name, len(allb), sample(rnd, allb, n)))
    # (TLC's simulator evaluates the exporting invariant on every successor of the last step: sample them)
    sims = behaviours(ctx, SPEC, "MC_RevTree", "Sim_RevTree.cfg", num=200 if q else 2000, depth=8, timeout=1800)
    parts.append(("sim", len(sims), sample(rnd, sims, simcap[0])))
    sims = behaviours(ctx, SPEC, "MC_RevTree", "Sim_RevTree_oi.cfg", num=400 if q else 4000, depth=8, timeout=1800)
    parts.append(("simoi", len(sims), sample(rnd, sims, simcap[1])))
    behs = [b for _, _, bs in parts for b in bs]
    ctx.notes.append("behaviours replayed: " + ", ".join("%s %d%s" % (nm, len(bs), (" of %d" % tot) if tot else "") for nm, tot, bs in parts))
    if cache:
        write_json(cache, behs)
    return behs


def drop_prefixes(behs):
    """a behaviour that is a proper prefix of another exported behaviour adds nothing to a replay"""
    seen = set()
    for b in behs:
        st = b["steps"]
        for k in range(1, len(st)):
            seen.add(json.dumps([b["cfg"], st[:k]], sort_keys=True))
    return [b for b in behs if json.dumps([b["cfg"], b["steps"]], sort_keys=True) not in seen]


def sample(rnd, behs, n):
    """seeded sample, stratified by (configuration, kind of the last step): a transition cover is dominated by the
    actions with many argument choices (histories); every kind of last transition gets an equal share"""
    if len(behs) <= n:
        return behs
    strata = {}
    for k, b in enumerate(behs):
        last = b["steps"][-1]
        key = (b["cfg"]["lvl"], b["cfg"]["ac"], b["cfg"]["lim"], last["a"], last["del"], last["i"])
        strata.setdefault(key, []).append(k)
    for v in strata.values():
        rnd.shuffle(v)
    picked, keys = [], sorted(strata)
    while len(picked) < n and keys:
        for key in list(keys):
            if not strata[key]:
                keys.remove(key)
            elif len(picked) < n:
                picked.append(strata[key].pop())
    return [behs[i] for i in sorted(picked)]


def split(rows):
    """trace rows -> list of (first line number (1-based), rows of one behaviour)"""
    out, cur, start = [], None, 0
    for n, r in enumerate(rows, 1):
        if r["a"] == "Reset":
            if cur is not None:
                out.append((start, cur))
            cur, start = [r], n
        elif r["a"] == "End":
            continue
        elif cur is not None:
            cur.append(r)
    if cur is not None:
        out.append((start, cur))
    return out


def replay_and_validate(ctx, behs):
    bf = os.path.join(ctx.scratch, "c04-beh.json")
    tr = os.path.join(ctx.scratch, "c04.ndjson")
    write_json(bf, behs)
    rc, out = go_test(ctx, "db", "^TestVerif_C04_RevTree$", HARNESS, env={"VERIF_BEH": bf, "VERIF_TRACE_OUT": tr}, timeout=2400)
    if rc != 0 or not os.path.exists(tr):
        raise Inconclusive("C04 harness failed:\n" + harness_failure(out))
    rows = read_ndjson(tr)
    if not rows or rows[-1].get("a") != "End":
        raise Inconclusive("C04 trace is incomplete (no End line)")
    groups = [g for _, g in split(rows)]
    if len(groups) != len(behs):
        raise Inconclusive("C04 trace has %d behaviours, %d were sent" % (len(groups), len(behs)))
    ctx.cov["evaluations"] += len(behs)
    measure(ctx, groups, rows[-1])
    mid = groups[len(groups) // 2]
    ctx.sample({"behaviour": behs[mid[0]["beh"]], "real_trace_head": mid[1:3]})

    # pass P - the property on the recorded real state.  Every recorded behaviour is a TLC behaviour of its own (initial
    # states = Reset lines) and TLC runs with -continue: one run lists every violating behaviour.
    live = list(groups)
    res = validate_all(ctx, "Trace_RevTree_P.cfg", live, "P")
    bad = res["viol"]                          # id(group) -> (invariant, step, state text)
    stale = set()
    cand = set(gid for gid, v in bad.items() if v[0] == "FlagsAgree")
    if cand:
        # TLC decides the class: these behaviours satisfy the property modulo the named deviation (FlagsAgreeModuloAgeing)
        resm = validate_all(ctx, "Trace_RevTree_Pm.cfg", [g for g in live if id(g) in cand], "Pm")
        stale = cand - set(resm["viol"]) - set(id(g) for g in resm["stalled"])
    if stale:
        first = [g for g in live if id(g) in stale][0]
        report_violation(ctx, STALE_KEY,
                         "stored Branched flag disagrees with the stored leaves after a write whose pruning removed the last other (tombstoned) "
                         "branch - documentUpdateFunc computes the flags before pruneRevisions (%d behaviours of this run, first: %d)"
                         % (len(stale), first[0]["beh"]),
                         {"behaviour": behs[first[0]["beh"]], "invariant": "FlagsAgree", "real_trace": first, "instances": len(stale)})
    reported = 0
    for g in live:
        if id(g) in bad and id(g) not in stale:
            inv, step, txt = bad[id(g)]
            beh = behs[g[0]["beh"]]
            if reported < 5:
                report_violation(ctx, "%s:%s" % (inv, json.dumps(beh, sort_keys=True)),
                                 "real revision tree breaks %s in behaviour %d (level %s) at its step %s" % (inv, g[0]["beh"], g[0]["lvl"], step),
                                 {"behaviour": beh, "invariant": inv, "real_trace": g, "state": txt})
            reported += 1
    if reported > 5:
        ctx.notes.append("pass P: %d violating behaviours, 5 reported" % reported)
    if res["stalled"]:
        g = res["stalled"][0]
        msg = "pass P could not consume behaviour %d (trace shape not accepted): %s" % (g[0]["beh"], json.dumps(g[:3])[:1200])
        if not ctx.violations:
            raise Inconclusive(msg)
        ctx.notes.append(msg)
    stalled_ids = set(id(g) for g in res["stalled"])
    live = [g for g in live if (id(g) not in bad or id(g) in stale) and id(g) not in stalled_ids]
    # pass C - every recorded step is an instance of the spec's action from the previous real state
    try:
        conformance(ctx, live)
    except Inconclusive as ex:
        if not ctx.violations:
            raise
        ctx.notes.append("pass C could not be completed after violations were recorded: %s" % str(ex)[:300])


def conformance(ctx, live):
    res = validate_all(ctx, "Trace_RevTree_C.cfg", live, "C")
    badc = dict(res["viol"])
    for g in res["stalled"]:
        badc.setdefault(id(g), ("no matching action", None, None))
    if res["viol"] and not res["stall_known"]:
        # TLC skipped the end-of-run report: validate the remaining behaviours once more to see which were not consumed
        rest = [g for g in live if id(g) not in badc]
        res2 = validate_all(ctx, "Trace_RevTree_C.cfg", rest, "C2")
        for gid, v in res2["viol"].items():
            badc.setdefault(gid, v)
        for g in res2["stalled"]:
            badc.setdefault(id(g), ("no matching action", None, None))
    if badc:
        ctx.cov["nonconformance"] += len(badc)
        for g in [g for g in live if id(g) in badc][:3]:
            ctx.notes.append("pass C rejected behaviour %d (%s, step %s): %s" % (g[0]["beh"], badc[id(g)][0], badc[id(g)][1], json.dumps(g)[:700]))
    ctx.cov["traces_validated_against_impl"] += len(live) - len(badc)


def validate_all(ctx, cfg, groups, tag):
    """validate the recorded behaviours `groups` (lists of rows, first row = Reset) with Trace_RevTree/<cfg>.
    returns viol: id(group) -> (invariant, step number within the behaviour, state text) for every behaviour with a violated
    invariant, stalled: groups that were not consumed to their end, stall_known: whether TLC printed the end-of-run report."""
    path = os.path.join(ctx.scratch, "c04-%s.ndjson" % tag)
    starts = {}
    n = 0
    with open(path, "w") as f:
        for g in groups:
            starts[n + 1] = g
            for r in g:
                f.write(json.dumps(r, separators=(",", ":"), sort_keys=True) + "\n")
                n += 1
        f.write('{"a":"End","skipped":0}\n')
    r = tlc(ctx, SPEC, "Trace_RevTree", cfg, workers=1, env={"VERIF_TRACE": path}, timeout=3000, tag=tag, allow_violation=True,
            extra=["-continue"])
    m = re.search(r"(?m)^Error: (?!Invariant \S+ is violated|The behavior up to this point)(.*)$", r.out)
    if m or (r.rc != 0 and not r.inv_violated):
        raise Inconclusive("TLC error validating with %s: %s\n%s" % (cfg, m.group(1) if m else r.error_text, r.out[-1500:]))
    viol = {}
    chunks = re.split(r"(?m)^Error: Invariant (\S+) is violated\.?.*$", r.out)
    for k in range(1, len(chunks) - 1, 2):
        inv, body = chunks[k], chunks[k + 1]
        ls = re.findall(r"(?m)^/\\ l = (\d+)", body)
        ss = re.findall(r"(?m)^/\\ s0 = (\d+)", body)
        if not ls or not ss:
            raise Inconclusive("cannot locate a violation of %s reported by TLC (%s)" % (inv, cfg))
        g = starts.get(int(ss[-1]))
        if g is None:
            raise Inconclusive("TLC reported a violation in an unknown behaviour (s0=%s)" % ss[-1])
        last = body.rfind("State ")
        viol.setdefault(id(g), (inv, int(ls[-1]) - int(ss[-1]) - 1, body[last:last + 4000] if last >= 0 else None))
    stalled, known = [], False
    m = re.search(r'<<\s*"STALL",\s*\{([^}]*)\}\s*>>', r.out)     # TLC wraps a long set over several lines
    if m:
        known = True
        stalled = [starts[int(x)] for x in re.findall(r"\d+", m.group(1)) if int(x) in starts]
    if not known and not viol:
        raise Inconclusive("TLC did not report which behaviours were consumed (%s)\n%s" % (cfg, r.out[-1500:]))
    return {"viol": viol, "stalled": [g for g in stalled if id(g) not in viol], "stall_known": known}


def measure(ctx, groups, end):
    c = {"two_leaves": 0, "conflict": 0, "tombstone_winner": 0, "winner_not_newest": 0, "prune_removed": 0, "rejected_call": 0,
         "two_replicas": 0, "two_replicas_same_accepted": 0, "db_level": 0, "tree_level": 0, "cut_short": end.get("skipped", 0)}
    for g in groups:
        hdr, steps = g[0], [r for r in g[1:] if r["a"] in STEP_ACTS]
        c["db_level" if hdr["lvl"] == "db" else "tree_level"] += 1
        f = lambda p: any(p(r) for r in steps)
        c["two_leaves"] += f(lambda r: len(r["lv"]) >= 2)
        c["conflict"] += f(lambda r: r["fl"][1])
        c["tombstone_winner"] += f(lambda r: r["fl"][0])
        c["rejected_call"] += f(lambda r: not r["ok"])
        c["winner_not_newest"] += f(lambda r: r["ok"] and r["a"] in ("Add", "Child") and r["r"] != r["cur"] and r["r"][0] > 0)
        prev = {}
        for r in steps:
            if (r["a"] == "Prune" or hdr["lim"] > 0) and r["i"] in prev and len(r["tree"]) < len(prev[r["i"]]):
                c["prune_removed"] += 1
                break
            prev[r["i"]] = r["tree"]
        if hdr["nrep"] == 2:
            c["two_replicas"] += 1
            acc = {1: set(), 2: set()}
            for r in steps:
                if r["ok"]:
                    acc[r["i"]].add((tuple(r["ch"][0]) if r["a"] == "Hist" else tuple(r["r"]), r["del"]))
            c["two_replicas_same_accepted"] += (acc[1] == acc[2] and bool(acc[1]))
    ctx.cov["distinct_nontrivial"] += c["two_leaves"]
    ctx.cov["c04_reach"] = c
    hist = {}
    for g in groups:
        for r in g[1:]:
            k = "%s/%s%s" % (g[0]["lvl"], r["a"], "" if r["ok"] else "(rejected)")
            hist[k] = hist.get(k, 0) + 1
    ctx.cov["c04_action_histogram"] = hist
    if c["two_replicas"] >= 50 and not c["two_replicas_same_accepted"]:
        raise Inconclusive("no two-replica behaviour ended with the same accepted set: OrderIndependent would be vacuous")
