"""C07 - sequence numbers are unique, per-document increasing, and fully accounted (DESIGN 4.7).

Component level: specs/SeqAlloc (1..3 allocators sharing _sync:seq, one action per critical section) is
model-checked exhaustively; TLC-generated behaviours are replayed on real sequenceAllocator instances through
a gating storage decorator; the recorded real outputs/state are validated by TLC (pass P: Unique, Above,
Accounted on real values; pass C: every step is an instance of the named action)."""
import json
import os
import random
from vlib.core import *

SPEC = os.path.join(VERIF, "specs", "SeqAlloc")
HARNESS = ["harness/db/c07_seqalloc_test.go"]
MAX_FINDINGS = 12         # failing behaviours confirmed and reported per replay family


def _run_core(ctx):
    if getattr(ctx, "replay", None):
        rp = json.load(open(ctx.replay))["replay"]
        if rp.get("family") == "doc":
            tr, rows = replay(ctx, DOC, [rp["behaviour"]], "replay")
            ctx.cov["evaluations"] += 1
            pass_p(ctx, DOC, [rp["behaviour"]], rows, tr, "replay")
        else:
            replay_and_validate(ctx, [rp["behaviour"]], "replay")
        return
    # exhaustive: 2 allocators x 7 actions and 3 allocators x 5 actions (quick); 3 x 7 and 2 x 9, counter <= 14 (thorough)
    for cfg in (("MC_SeqAlloc.cfg", "MC_SeqAlloc_3.cfg") if ctx.quick() else ("MC_SeqAlloc_thorough.cfg", "MC_SeqAlloc_thorough2.cfg")):
        model_check(ctx, SPEC, "MC_SeqAlloc", cfg, timeout=3000)
    ctx.cov["exhaustive"] = True
    rnd = random.Random(ctx.seed)
    # every behaviour of a small instance (2 allocators, every action-level interleaving, growth on and off)
    allb = behaviours(ctx, SPEC, "MC_SeqAlloc", "Beh_SeqAlloc.cfg", timeout=900)
    ctx.cov["beh_small_instance_total"] = len(allb)
    if ctx.quick() and len(allb) > 1500:
        allb = rnd.sample(allb, 1500)
    elif not ctx.quick():
        deeper = behaviours(ctx, SPEC, "MC_SeqAlloc", "Beh_SeqAlloc_thorough.cfg", timeout=1800)    # every action sequence of length 5 ...
        ctx.cov["beh_small_instance_len5_total"] = len(deeper)
        allb += rnd.sample(deeper, min(len(deeper), 12000))                                         # ... a seeded sample of them
    ctx.cov["beh_small_instance_replayed"] = len(allb)
    # deeper seeded simulations, 3 allocators: action-level interleavings, then call-level ones
    fine = behaviours(ctx, SPEC, "MC_SeqAlloc", "Sim_SeqAlloc.cfg", num=150 if ctx.quick() else 2500, depth=18, timeout=900)
    coarse = behaviours(ctx, SPEC, "MC_SeqAlloc", "Sim_SeqAlloc_coarse.cfg", num=100 if ctx.quick() else 1500, depth=26, timeout=900)
    ctx.cov["beh_sim_fine"], ctx.cov["beh_sim_call_level"] = len(fine), len(coarse)
    # every behaviour of length 6 of the in-batch family (growing batches, nextSequenceGreaterThan inside the batch, idle release)
    batch = behaviours(ctx, SPEC, "MC_SeqAlloc", "Beh_SeqAlloc_batch.cfg", timeout=900)
    ctx.cov["beh_in_batch_family"] = len(batch)
    behs = allb + batch + fine + coarse
    # document level: every scenario with <= 2 (quick) / 3 (thorough) lost CAS races; the exhaustive run checks
    # Monotone/DocAccounted on the model too.  The scenarios ride along with the first go test invocation.
    scns = behaviours(ctx, SPEC, "MC_SeqDoc", "MC_SeqDoc.cfg" if ctx.quick() else "MC_SeqDoc_thorough.cfg", timeout=600)
    ctx.cov["states"] += ctx.cov["tlc_runs"][-1]["distinct"]
    ctx.cov["transitions"] += ctx.cov["tlc_runs"][-1]["generated"]
    chunk = 3000 if ctx.quick() else 8000
    for i in range(0, len(behs), chunk):
        replay_and_validate(ctx, behs[i:i + chunk], "part%d" % (i // chunk), also_doc=scns if i == 0 else None)
    doc_level(ctx, scns)
    ctx.cov["rule"] = ("behaviours = every action sequence of length 4 of the 2-allocator instance (quick: a seeded sample of 1500 of them; thorough: all, plus a seeded sample of 12000 of length 5) "
                       "+ every action sequence of length 6 of the in-batch family (Next / in-batch nextSequenceGreaterThan / idle release, growth on) "
                       "+ seeded TLC simulations over 3 allocators, length <= 16 at action granularity (storage operations of "
                       "nextSequenceGreaterThan interleaved across allocators) and length <= 24 at call granularity; each is drained and "
                       "stopped at the end so Accounted is evaluated at quiescence on every one. non-trivial = the behaviour wrote at "
                       "least one unused-sequence range from nextSequenceGreaterThan or an idle/stop release; 'raced' = another "
                       "allocator moved _sync:seq between the Get and the Incr of a nextSequenceGreaterThan call")
    ctx.cov["rule"] += ("; document level: every scenario of specs/SeqAlloc/SeqDoc.tla (one writer losing up to 2 (quick) / 3 (thorough) CAS races to "
                        "sibling or same-revision writers, then success / rejection / cancel / storage error / timeout; UpdatePrincipal with CAS "
                        "mismatches then success / storage error) on a real database, ledger = stored sequences + unused_sequences + "
                        "unused-sequence documents + counter")
    ctx.assumptions += ["writes of the unused-sequence notices are not fault-injected; _sync:seq rollback (_fixSyncSeqRollback) is not modelled",
                        "component level: a number returned by the allocator and not given back counts as used/outstanding; its fate in the "
                        "write path is decided by the document-level scenarios (single node, allow_conflicts=true so that a writer can lose "
                        "several CAS races and still be valid)",
                        "model batch cap is 4 in the exhaustive run; behaviours are generated and replayed with the code's cap 10"]


class Family:
    """one replay family: Go test, trace module, name of the line that starts a behaviour"""
    def __init__(self, name, test, module, reset, what, suffix):
        self.name, self.test, self.module, self.reset, self.what, self.suffix = name, test, module, reset, what, suffix


ALLOC = Family("alloc", "^TestVerif_C07_SeqAlloc$", "Trace_SeqAlloc", "Reset", "real sequenceAllocator", "")
DOC = Family("doc", "^TestVerif_C07_DocLedger$", "Trace_SeqDoc", "DReset", "real document/principal write path", "_DOC")


def split_behaviours(rows, fam):
    """-> [(beh index, a, b)] per segment: a = 1-based line of its Reset line, b = 1-based line of its last line;
    rows[a-1:b] is the segment"""
    segs, start, idx = [], None, None
    for i, r in enumerate(rows):
        if r["a"] == fam.reset:
            if start is not None:
                segs.append((idx, start, i))
            start, idx = i + 1, r["beh"] if "beh" in r else r["sc"]
    if start is not None:
        segs.append((idx, start, len(rows)))
    return segs


def replay(ctx, fam, behs, tag, also_doc=None):
    """run the behaviours of one family on the real code -> (trace path, rows).  also_doc: scenarios of the document
    family to run in the same go test invocation (one link instead of two); their trace is left in ctx.doc_pre"""
    env = {"SG_TEST_LOG_LEVEL": "error"}
    fams = [(fam, behs)] + ([(DOC, also_doc)] if also_doc is not None else [])
    paths = {}
    for f, b in fams:
        bf = os.path.join(ctx.scratch, "c07-%s-beh-%s.json" % (f.name, tag))
        tr = os.path.join(ctx.scratch, "c07-%s-%s.ndjson" % (f.name, tag))
        write_json(bf, b)
        env["VERIF_BEH" + f.suffix], env["VERIF_TRACE_OUT" + f.suffix] = bf, tr
        paths[f.name] = tr
    pattern = fam.test if also_doc is None else "^TestVerif_C07_(SeqAlloc|DocLedger)$"
    rc, out = go_test(ctx, "db", pattern, HARNESS, env=env, timeout=1500)
    if rc != 0 or any(not os.path.exists(p) for p in paths.values()):
        raise Inconclusive("C07 harness %s failed:\n%s" % (pattern, harness_failure(out)))
    if also_doc is not None:
        ctx.doc_pre = (paths["doc"], read_ndjson(paths["doc"]))
    return paths[fam.name], read_ndjson(paths[fam.name])


def beh_key(fam, beh):
    if fam is DOC:
        beh = {"mode": beh["mode"], "reject": beh["reject"], "steps": beh["steps"]}
    return json.dumps(beh, sort_keys=True, separators=(",", ":"))


def run_p(ctx, fam, rows, tr, tag):
    """one pass-P run; -> {(beh index, predicate): first failing line relative to the behaviour}"""
    vp = validate(ctx, SPEC, fam.module, fam.module + "_P.cfg", tr, timeout=1500, tag="P-%s-%s" % (fam.name, tag))
    if vp.inv:
        raise Inconclusive("pass P (%s): unexpected TLC invariant stop %s at line %s" % (fam.name, vp.inv, vp.line))
    if not vp.accepted:
        raise Inconclusive("pass P (%s) stopped at line %s of %s (trace shape not accepted)\n%s" % (fam.name, vp.line, vp.total, vp.out[-1500:]))
    segs = split_behaviours(rows, fam)
    found = {}
    for t, txt in parse_printed(vp.out):
        if t != "VIOL":
            continue
        name, l = json.loads("[" + txt + "]")
        line = l - 1                          # the reporting state has consumed line l-1
        for idx, a, b in segs:
            if a <= line <= b:
                k = (idx, name)
                found[k] = min(found.get(k, line - a), line - a)
                break
        else:
            raise Inconclusive("pass P (%s): %s reported at line %s but no behaviour found there" % (fam.name, name, line))
    return found


def pass_p(ctx, fam, behs, rows, tr, tag):
    """pass P on the recorded real values: TLC evaluates the property predicates on every recorded state and reports
    every failure.  Failing behaviours are replayed once more on their own (reproduce-twice rule) and then reported;
    -> (rows, trace path) without the failing behaviours (for pass C)"""
    found = run_p(ctx, fam, rows, tr, tag)
    if not found:
        return rows, tr
    bad = sorted({idx for idx, _ in found})
    shown = bad[:MAX_FINDINGS]
    if len(bad) > len(shown):
        ctx.notes.append("%d failing behaviours in %s/%s; the first %d are reported" % (len(bad), fam.name, tag, len(shown)))
    tr2, rows2 = replay(ctx, fam, [behs[i] for i in shown], "confirm-%s" % tag)
    again = run_p(ctx, fam, rows2, tr2, "confirm-%s" % tag)
    segs2 = {idx: (a, b) for idx, a, b in split_behaviours(rows2, fam)}
    keep = ("a", "n", "x", "ret", "fl", "rel", "give", "counter", "last", "max", "batch", "docs", "seq", "unused", "ctr", "base", "err", "k", "id")
    for j, i in enumerate(shown):
        for (idx, name), rel_line in sorted(found.items()):
            if idx != i:
                continue
            if (j, name) not in again:
                raise Inconclusive("pass P reported %s on behaviour %s but the stand-alone replay did not (not reproducible)" % (
                    name, beh_key(fam, behs[i])[:400]))
            a, b = segs2[j]
            report_violation(ctx, "%s:%s" % (name, beh_key(fam, behs[i])),
                             "%s breaks %s (line %s of the recorded run of %s)" % (
                                 fam.what, name, rel_line, json.dumps(behs[i]["steps"], separators=(",", ":"))[:300]),
                             {"family": fam.name, "behaviour": behs[i], "invariant": name,
                              "real_trace": [{k: r[k] for k in keep if k in r} for r in rows2[a - 1:b]]})
    cut = []
    badset = set(bad)
    for idx, a, b in split_behaviours(rows, fam):
        if idx not in badset:
            cut += rows[a - 1:b]
    if not cut:
        return [], None
    cut_tr = os.path.join(ctx.scratch, "c07-%s-%s-cut.ndjson" % (fam.name, tag))
    write_ndjson(cut_tr, cut)
    return cut, cut_tr


def pass_c(ctx, fam, rows, tr, tag, n_behs, extra_bad=0):
    if not rows:
        return
    vc = validate(ctx, SPEC, fam.module, fam.module + "_C.cfg", tr, timeout=1500, tag="C-%s-%s" % (fam.name, tag))
    if vc.inv or not vc.accepted or extra_bad:
        ctx.cov["nonconformance"] += 1
        ctx.notes.append("pass C (%s/%s): rejected at line %s (%s): %s; behaviours the harness could not follow to the end: %d" % (
            fam.name, tag, vc.line, vc.inv, json.dumps(rows[vc.line - 2])[:600] if vc.line and 2 <= vc.line <= len(rows) + 1 else None, extra_bad))
    else:
        ctx.cov["traces_validated_against_impl"] += n_behs


def replay_and_validate(ctx, behs, tag, also_doc=None):
    fam = ALLOC
    tr, rows = replay(ctx, fam, behs, tag, also_doc=also_doc)
    segs = split_behaviours(rows, fam)
    if len(segs) != len(behs):
        raise Inconclusive("C07 harness recorded %d of %d behaviours" % (len(segs), len(behs)))
    ctx.cov["evaluations"] += len(behs)
    nontriv = raced = diverged = pendrel = 0
    for idx, a, b in segs:
        seg = rows[a - 1:b]
        if any(r.get("rel") and r["a"] in ("GTBegin", "PendRel", "Idle", "Stop") for r in seg):
            nontriv += 1
        prev, hit = None, False
        for r in seg:
            if r["a"] == "GTFinish" and prev is not None and prev.get("pc") and prev["pc"][r["n"] - 1]["st"] == "got" \
                    and prev["counter"] != prev["pc"][r["n"] - 1]["sync"]:
                hit = True
            prev = r
        raced += hit
        pendrel += any(r["a"] == "PendRel" for r in seg)
        q = seg[-1]
        if q.get("followed", 0) < q.get("steps", 0) or any(r["a"] == "Drain" for r in seg) or q.get("note"):
            diverged += 1
    ctx.cov["distinct_nontrivial"] += nontriv
    ctx.cov["raced_get_incr"] = ctx.cov.get("raced_get_incr", 0) + raced
    ctx.cov["with_post_unlock_release"] = ctx.cov.get("with_post_unlock_release", 0) + pendrel
    for idx, a, b in segs:
        if any(r["a"] == "PendRel" and r["ret"] for r in rows[a - 1:b]) and len(ctx.cov["samples"]) < 2:
            ctx.sample({"behaviour": behs[idx], "real_trace": [{k: r[k] for k in ("a", "n", "x", "ret", "fl", "rel", "counter", "last", "max", "batch") if k in r}
                                                             for r in rows[a - 1:b]]})
            break
    rows2, tr2 = pass_p(ctx, fam, behs, rows, tr, tag)
    pass_c(ctx, fam, rows2, tr2, tag, len(split_behaviours(rows2, fam)), diverged)      # conformance of the behaviours without findings


def doc_level(ctx, scns):
    """document level: scenarios of specs/SeqAlloc/SeqDoc.tla on a real database"""
    fam = DOC
    tr, rows = getattr(ctx, "doc_pre", None) or replay(ctx, fam, scns, "scn")
    segs = split_behaviours(rows, fam)
    if len(segs) != len(scns):
        raise Inconclusive("C07 doc harness recorded %d of %d scenarios" % (len(segs), len(scns)))
    ctx.cov["evaluations"] += len(scns)
    ctx.cov["doc_scenarios"] = len(scns)
    ctx.cov["doc_scenarios_with_cas_retry"] = sum(1 for s in scns if any(st["a"] == "Env" or st["k"] == "cas" for st in s["steps"]))
    ctx.cov["distinct_nontrivial"] += ctx.cov["doc_scenarios_with_cas_retry"]
    for idx, a, b in segs:
        if sum(1 for st in scns[idx]["steps"] if st["a"] == "Env") >= 2 and scns[idx]["steps"][-1]["k"] == "ok":
            ctx.sample({"scenario": scns[idx]["steps"], "real_ledger": [{k: r[k] for k in ("a", "seq", "unused", "ctr", "docs", "base") if k in r} for r in rows[a - 1:b]]})
            break
    rows2, tr2 = pass_p(ctx, fam, scns, rows, tr, "scn")
    pass_c(ctx, fam, rows2, tr2, "scn", len(split_behaviours(rows2, fam)))
    resync_level(ctx)


RESYNC_SCNS = [{"mode": "resync", "reject": False, "steps": [{"a": "Env", "k": "other"}] * n + [{"a": "Cas", "k": "ok"}],
                "ctr": 0, "used": [], "pubDoc": [], "pubRel": []} for n in (0, 1, 2)]


def resync_level(ctx):
    """the resync write with regenerate_sequences is a document write too ("all document write outcomes ... CAS retry"):
    ResyncDocument on a real database, 0..2 writers committing between its callback and its CAS write.  The ledger is
    judged by the property predicates only (pass P: Monotone, DocAccounted on the recorded real ledger); SeqDoc.tla has no
    transcription of this write yet, so there is no pass C for it."""
    fam = DOC
    tr, rows = replay(ctx, fam, RESYNC_SCNS, "rs")
    segs = split_behaviours(rows, fam)
    if len(segs) != len(RESYNC_SCNS):
        raise Inconclusive("C07 doc harness recorded %d of %d resync scenarios" % (len(segs), len(RESYNC_SCNS)))
    ctx.cov["evaluations"] += len(RESYNC_SCNS)
    ctx.cov["resync_regen_scenarios"] = len(RESYNC_SCNS)
    ctx.cov["distinct_nontrivial"] += len(RESYNC_SCNS) - 1
    pass_p(ctx, fam, RESYNC_SCNS, rows, tr, "rs")


def run(ctx):
    """the property's own check, then (thorough tier) the end-to-end Pipeline stage (specs/Pipeline): the composed
    write -> allocator -> feed -> change cache -> changes model, whose predicates owned by this property are reported here."""
    _run_core(ctx)
    if not ctx.quick():
        import checks.Pipeline as pipeline
        pipeline.run_stage(ctx, owners=["C07"], model=True, free=True)
