"""C07 - sequence numbers are unique, per-document increasing, and fully accounted (DESIGN 4.7).

Component level: specs/SeqAlloc (1..3 allocators sharing _sync:seq, one action per critical section) is
model-checked exhaustively; TLC-generated behaviours are replayed on real sequenceAllocator instances through
a gating storage decorator; the recorded real outputs/state are validated by TLC (pass P: Unique, Above,
Accounted on real values; pass C: every step is an instance of the named action)."""
import json
import os
import random
from vlib.core import *

SPEC = os.path.join(VERIF, "specs", "SeqAlloc")
HARNESS = ["harness/db/c07_seqalloc_test.go"]
MAX_FINDINGS = 4          # distinct failing behaviours reported per run


def run(ctx):
    if getattr(ctx, "replay", None):
        rp = json.load(open(ctx.replay))["replay"]
        replay_and_validate(ctx, [rp["behaviour"]], "replay")
        return
    model_check(ctx, SPEC, "MC_SeqAlloc", "MC_SeqAlloc.cfg", timeout=1500)
    if not ctx.quick():
        model_check(ctx, SPEC, "MC_SeqAlloc", "MC_SeqAlloc_thorough.cfg", timeout=3000)
    ctx.cov["exhaustive"] = True
    rnd = random.Random(ctx.seed)
    # every behaviour of a small instance (2 allocators, every action-level interleaving, growth on and off)
    allb = behaviours(ctx, SPEC, "MC_SeqAlloc", "Beh_SeqAlloc.cfg", timeout=900)
    ctx.cov["beh_small_instance_total"] = len(allb)
    if ctx.quick() and len(allb) > 2000:
        allb = rnd.sample(allb, 2000)
    ctx.cov["beh_small_instance_replayed"] = len(allb)
    # deeper seeded simulations, 3 allocators: action-level interleavings, then call-level ones
    fine = behaviours(ctx, SPEC, "MC_SeqAlloc", "Sim_SeqAlloc.cfg", num=150 if ctx.quick() else 2500, depth=18, timeout=900)
    coarse = behaviours(ctx, SPEC, "MC_SeqAlloc", "Sim_SeqAlloc_coarse.cfg", num=100 if ctx.quick() else 1500, depth=26, timeout=900)
    ctx.cov["beh_sim_fine"], ctx.cov["beh_sim_call_level"] = len(fine), len(coarse)
    behs = allb + fine + coarse
    chunk = 3000
    for i in range(0, len(behs), chunk):
        replay_and_validate(ctx, behs[i:i + chunk], "part%d" % (i // chunk))
    ctx.cov["rule"] = ("behaviours = every action sequence of length 4 of the 2-allocator instance (quick: a seeded sample of 2000 of them) "
                       "+ seeded TLC simulations over 3 allocators, length <= 16 at action granularity (storage operations of "
                       "nextSequenceGreaterThan interleaved across allocators) and length <= 24 at call granularity; each is drained and "
                       "stopped at the end so Accounted is evaluated at quiescence on every one. non-trivial = the behaviour wrote at "
                       "least one unused-sequence range from nextSequenceGreaterThan or an idle/stop release; 'raced' = another "
                       "allocator moved _sync:seq between the Get and the Incr of a nextSequenceGreaterThan call")
    ctx.assumptions += ["writes of the unused-sequence notices are not fault-injected; _sync:seq rollback (_fixSyncSeqRollback) is not modelled",
                        "a number returned by the allocator and not given back counts as used/outstanding (the document-level fate of a number "
                        "- crud.go/users.go error paths, DESIGN section 7 F2/F3 - is not decided by this component-level check)",
                        "model batch cap is 4 in the exhaustive run; behaviours are generated and replayed with the code's cap 10"]


def split_behaviours(rows):
    """-> [(beh index, a, b)] per Reset-delimited segment: a = 1-based line of the Reset, b = 1-based line of its
    last step; rows[a-1:b] is the segment"""
    segs, start, idx = [], None, None
    for i, r in enumerate(rows):
        if r["a"] == "Reset":
            if start is not None:
                segs.append((idx, start, i))
            start, idx = i + 1, r["beh"]
    if start is not None:
        segs.append((idx, start, len(rows)))
    return segs


def replay(ctx, behs, tag):
    bf = os.path.join(ctx.scratch, "c07-beh-%s.json" % tag)
    tr = os.path.join(ctx.scratch, "c07-%s.ndjson" % tag)
    write_json(bf, behs)
    rc, out = go_test(ctx, "db", "^TestVerif_C07_SeqAlloc$", HARNESS,
                      env={"VERIF_BEH": bf, "VERIF_TRACE_OUT": tr, "SG_TEST_LOG_LEVEL": "error"}, timeout=1500)
    if rc != 0 or not os.path.exists(tr):
        raise Inconclusive("C07 harness failed:\n" + harness_failure(out))
    return tr, read_ndjson(tr)


def replay_and_validate(ctx, behs, tag):
    tr, rows = replay(ctx, behs, tag)
    segs = split_behaviours(rows)
    if len(segs) != len(behs):
        raise Inconclusive("C07 harness recorded %d of %d behaviours" % (len(segs), len(behs)))
    ctx.cov["evaluations"] += len(behs)
    nontriv = raced = diverged = pendrel = 0
    for idx, a, b in segs:
        seg = rows[a - 1:b]
        if any(r.get("rel") and r["a"] in ("GTBegin", "PendRel", "Idle", "Stop") for r in seg):
            nontriv += 1
        prev = None
        hit = False
        for r in seg:
            if r["a"] == "GTFinish" and prev is not None and prev.get("pc") and prev["pc"][r["n"] - 1]["st"] == "got" \
                    and prev["counter"] != prev["pc"][r["n"] - 1]["sync"]:
                hit = True
            prev = r
        raced += hit
        pendrel += any(r["a"] == "PendRel" for r in seg)
        q = seg[-1]
        if q.get("followed", 0) < q.get("steps", 0) or any(r["a"] == "Drain" for r in seg) or q.get("note"):
            diverged += 1
    ctx.cov["distinct_nontrivial"] += nontriv
    ctx.cov["raced_get_incr"] = ctx.cov.get("raced_get_incr", 0) + raced
    ctx.cov["with_post_unlock_release"] = ctx.cov.get("with_post_unlock_release", 0) + pendrel
    mid = segs[len(segs) // 2]
    for idx, a, b in segs:
        if any(r["a"] == "PendRel" and r["ret"] for r in rows[a - 1:b]) and len(ctx.cov["samples"]) < 2:
            ctx.sample({"behaviour": behs[idx], "real_trace": [{k: r[k] for k in ("a", "n", "x", "ret", "fl", "rel", "counter", "last", "max", "batch") if k in r}
                                                             for r in rows[a - 1:b]]})
            break
    # ---- pass P: the property on real values.  A failing behaviour is reported, cut out, and the rest re-validated.
    cur_rows, cur_tr = rows, tr
    for attempt in range(MAX_FINDINGS + 1):
        vp = validate(ctx, SPEC, "Trace_SeqAlloc", "Trace_SeqAlloc_P.cfg", cur_tr, timeout=1500, tag="P-%s-%d" % (tag, attempt))
        if not vp.inv:
            if not vp.accepted:
                raise Inconclusive("pass P stopped at line %s of %s (trace shape not accepted)\n%s" % (vp.line, vp.total, vp.out[-1500:]))
            break
        csegs = split_behaviours(cur_rows)
        # the violating state has consumed line l-1
        line = (vp.line or 2) - 1
        hit = [s for s in csegs if s[1] <= line <= s[2]]
        if not hit:
            raise Inconclusive("pass P: %s violated at line %s but no behaviour found there" % (vp.inv, vp.line))
        idx, a, b = hit[0]
        beh = behs[idx]
        confirm_and_report(ctx, vp.inv, beh, cur_rows[a - 1:b], line - a, vp)
        if attempt == MAX_FINDINGS:
            ctx.notes.append("more than %d failing behaviours in %s; the rest was not examined" % (MAX_FINDINGS, tag))
            return
        cur_rows = cur_rows[:a - 1] + cur_rows[b:]          # drop the behaviour (Reset line a .. line b, 1-based)
        cur_tr = os.path.join(ctx.scratch, "c07-%s-cut%d.ndjson" % (tag, attempt))
        write_ndjson(cur_tr, cur_rows)
        if not cur_rows:
            return
    if cur_rows is not rows:
        return                      # conformance is not examined on a run that produced findings
    # ---- pass C: conformance
    vc = validate(ctx, SPEC, "Trace_SeqAlloc", "Trace_SeqAlloc_C.cfg", tr, timeout=1500, tag="C-%s" % tag)
    if vc.inv or not vc.accepted or diverged:
        ctx.cov["nonconformance"] += 1
        ctx.notes.append("pass C (%s): rejected at line %s (%s): %s; behaviours the harness could not follow to the end: %d" % (
            tag, vc.line, vc.inv, json.dumps(rows[vc.line - 1])[:600] if vc.line and vc.line <= len(rows) else None, diverged))
    else:
        ctx.cov["traces_validated_against_impl"] += len(behs)


def confirm_and_report(ctx, inv, beh, seg, rel_line, vp):
    """reproduce-twice rule: the failing behaviour is replayed alone; only then it is a finding"""
    tr2, rows2 = replay(ctx, [beh], "confirm%d" % len(ctx.cov["go_runs"]))
    v2 = validate(ctx, SPEC, "Trace_SeqAlloc", "Trace_SeqAlloc_P.cfg", tr2, timeout=600, tag="P-confirm")
    if v2.inv != inv:
        raise Inconclusive("pass P reported %s on behaviour %s but the stand-alone replay gave %s (not reproducible)" % (
            inv, json.dumps(beh, sort_keys=True)[:400], v2.inv))
    key = "%s:%s" % (inv, json.dumps(beh, sort_keys=True, separators=(",", ":")))
    slim = [{k: r[k] for k in ("a", "n", "x", "ret", "fl", "rel", "give", "counter", "last", "max", "batch", "docs") if k in r} for r in rows2[1:]]
    report_violation(ctx, key, "real sequenceAllocator breaks %s (step %s of the recorded run of behaviour %s)" % (
        inv, rel_line, json.dumps(beh["steps"], separators=(",", ":"))[:300]),
        {"behaviour": beh, "invariant": inv, "real_trace": slim, "state": (vp.state or {}).get("_txt")})
