"""C03 - effective access equals what admin grants and current documents confer (DESIGN 4.3)."""
import json
import os
import random
from vlib.core import *

SPEC = os.path.join(VERIF, "specs", "Access")
HARNESS = ["harness/db/c03_access_test.go"]
MODES = ("eager", "mixed", "lazy")
GRANTING = ("DocWrite", "DocDelete", "DocConflict")
WRITES = GRANTING + ("AdminPut", "AdminDelete")
CHUNK = 1500          # behaviours per go test / TLC validation run


def run(ctx):
    # 1. the design: the invalidation protocol with document commit / post-commit invalidation as separate steps and
    #    principal recomputation atomic: EffectiveAccess, CacheSound, ... over all interleavings of the bounded model
    model_check(ctx, SPEC, "MC_Access", "MC_Access.cfg" if ctx.quick() else "MC_Access_thorough.cfg", timeout=3000)
    ctx.cov["exhaustive"] = True

    # 2. behaviours: every action sequence (length 3) of the one-user/one-role/one-document instance + seeded TLC
    #    simulations (length 12) of the two-user/two-role/two-document instance; replayed on one real database,
    #    the recorded real state validated by TLC (property on real state, then action conformance)
    rnd = random.Random(ctx.seed)
    small = behaviours(ctx, SPEC, "MC_Access", "Beh_Access.cfg")
    if ctx.quick():
        rnd.shuffle(small)
        small = small[:400]
    sim = behaviours(ctx, SPEC, "MC_Access", "Sim_Access.cfg", num=50 if ctx.quick() else 500, depth=14, timeout=3000)
    behs = small + pick_sim(sim, rnd, 200 if ctx.quick() else 3000)
    jobs = [{"id": i, "mode": MODES[(i + ctx.seed) % 3], "steps": b} for i, b in enumerate(behs)]
    for k in range(0, len(jobs), CHUNK):
        replay_and_validate(ctx, jobs[k:k + CHUNK], "main%d" % (k // CHUNK))

    # 3. candidates: the same model with the recomputation split at its CAS write (SplitLoad) admits behaviours that
    #    end in a quiet request not seeing Eff(u).  They are model counterexamples, i.e. candidates only; each is
    #    replayed on the real code with the schedule forced at the storage boundary and judged by pass P.
    race_candidates(ctx)

    ctx.cov["rule"] = ("behaviours = all action sequences of length 3 over {u1,r1,d1} (seeded sample of 400 in the quick tier) + seeded TLC "
                       "simulations of length 12 over 2 users/2 roles/2 docs/channels A,B,* (conflicting branches that win or lose, "
                       "tombstones, resurrection, role delete/purge/recreate, user delete/recreate); the harness adds Request(u) after "
                       "every action (eager), after about half (mixed) or only at the end (lazy), and always for every user at the end; "
                       "non-trivial = a behaviour with a granting/revoking revision followed by a request of an existing user")
    ctx.assumptions += [
        "ground truth = admin inputs + the grants each revision was written with + the REAL current revision (branch) of each document; "
        "the gateway's own access maps are only cross-checked (pass C: StoredMatchesWinner, CacheSound)",
        "tombstones are written with DeleteDoc (body {_deleted:true}); a tombstone whose own body makes the sync function grant is outside "
        "the replayed inputs (specs/Access/NOTES.md)",
        "the window between a document commit and its post-commit invalidation is explored in the model only (a request inside it is "
        "concurrent with the write, for which the property demands nothing)",
        "Rosmar + views (stale=false) stand for the access queries; storage faults are C11's subject",
    ]


def pick_sim(sim, rnd, cap):
    """TLC -simulate evaluates the export on every successor of the last state: keep two per common prefix."""
    groups = {}
    for b in sim:
        groups.setdefault(json.dumps(b[:-1], sort_keys=True), []).append(b)
    res = []
    for k in sorted(groups):
        g = groups[k]
        rnd.shuffle(g)
        res += g[:2]
    rnd.shuffle(res)
    return res[:cap]


def run_harness(ctx, jobs, tag):
    bf = os.path.join(ctx.scratch, "c03-%s-beh.json" % tag)
    tr = os.path.join(ctx.scratch, "c03-%s.ndjson" % tag)
    write_json(bf, jobs)
    rc, out = go_test(ctx, "db", "^TestVerif_C03_Access$", HARNESS, env={"VERIF_BEH": bf, "VERIF_TRACE_OUT": tr}, timeout=2400)
    if rc != 0 or not os.path.exists(tr):
        raise Inconclusive("C03 harness failed (%s):\n%s" % (tag, harness_failure(out)))
    return tr, read_ndjson(tr)


def split_rows(rows):
    """-> {behaviour id: rows of that behaviour (starting with its Reset)}"""
    res, cur = {}, None
    for r in rows:
        if r["a"] == "Reset":
            cur = r["beh"]
            res[cur] = []
        res[cur].append(r)
    return res


def nontrivial(rs):
    seen = False
    for r in rs:
        if r["a"] in GRANTING:
            seen = True
        elif r["a"] == "Request" and r["found"] and seen:
            return True
    return False


def failing(rows, line):
    """violating state = position `line`, produced by trace row line-1 (1-based) -> (behaviour id, index in behaviour, row)"""
    bid, first = None, 0
    n = max(0, (line or 1) - 1)
    for i, r in enumerate(rows[:n]):
        if r["a"] == "Reset":
            bid, first = r["beh"], i
    row = rows[n - 1] if 0 < n <= len(rows) else {}
    return bid, n - 1 - first, row


def describe(row):
    if row.get("a") != "Request":
        return " after %s" % row.get("a")
    return " Request(%s) returned found=%s channels %s roles %s" % (row["u"], row["found"], row["chans"], row["roles"])


def slim(rs):
    return [{k: v for k, v in r.items() if k not in ("cache", "dacc", "win")} for r in rs]


def ordinary_violation(ctx, vp, rows, jobs, where):
    bid, _, row = failing(rows, vp.line)
    job = next((j for j in jobs if j["id"] == bid), None)
    key = "%s:%s" % (vp.inv, json.dumps(job["steps"] if job else None, sort_keys=True))
    report_violation(ctx, key, "real database breaks %s at %s line %s (behaviour %s, mode %s):%s" % (
        vp.inv, where, vp.line, bid, job and job["mode"], describe(row)),
        {"behaviour": job, "invariant": vp.inv, "real_trace": slim(split_rows(rows).get(bid, [])), "state": (vp.state or {}).get("_txt")})


def conformance(ctx, tr, rows, njobs, tag):
    vc = validate(ctx, SPEC, "Trace_Access", "Trace_Access_C.cfg", tr, timeout=1800, tag=tag + "-C")
    if vc.inv or not vc.accepted:
        ctx.cov["nonconformance"] += 1
        bid, _, row = failing(rows, (vc.line or 0) + (0 if vc.inv else 1))
        ctx.notes.append("pass C rejected %s at line %s (%s), behaviour %s: %s" % (tag, vc.line, vc.inv, bid, json.dumps(row)[:700]))
    else:
        ctx.cov["traces_validated_against_impl"] += njobs


def replay_and_validate(ctx, jobs, tag):
    tr, rows = run_harness(ctx, jobs, tag)
    per = split_rows(rows)
    ctx.cov["evaluations"] += len(jobs)
    ctx.cov["distinct_nontrivial"] += sum(1 for k in per if nontrivial(per[k]))
    ctx.cov["requests_evaluated"] = ctx.cov.get("requests_evaluated", 0) + sum(1 for r in rows if r["a"] == "Request")
    ctx.cov["trace_lines"] = ctx.cov.get("trace_lines", 0) + len(rows)
    mid = jobs[len(jobs) // 2]
    ctx.sample({"behaviour": mid, "real_trace_tail": slim(per[mid["id"]][-2:])}, cap=2)
    vp = validate(ctx, SPEC, "Trace_Access", "Trace_Access_P.cfg", tr, timeout=1800, tag=tag + "-P")
    if vp.inv:
        ordinary_violation(ctx, vp, rows, jobs, "trace " + tag)
        return
    if not vp.accepted:
        raise Inconclusive("pass P stopped at line %s of %s (trace shape not accepted)\n%s" % (vp.line, vp.total, vp.out[-1500:]))
    conformance(ctx, tr, rows, len(jobs), tag)


# ------------------------------------------------------------------------------------------------------------
# split-load candidates
def race_class(b):
    """the forced-schedule family: which kind of principal is being recomputed while something else is written"""
    kind, overl = None, False
    for st in b:
        if st["a"] == "LoadBegin":
            kind = "user" if st["p"].startswith("u") else "role"
        elif st["a"] == "LoadEnd":
            break
        elif kind and st["a"] in WRITES:
            overl = True
    return kind if (kind and overl) else None


def control(b):
    """the same inputs with the recomputation not overlapping anything (atomic, where it completed)"""
    res = []
    for st in b:
        if st["a"] == "LoadBegin":
            continue
        res.append({"a": "Load", "p": st["p"]} if st["a"] == "LoadEnd" else st)
    return res


def race_candidates(ctx):
    try:
        cands = behaviours(ctx, SPEC, "MC_Access", "Race_Access.cfg" if ctx.quick() else "Race_Access_thorough.cfg", tagname="RACE", timeout=3000)
    except Inconclusive as ex:
        if "no behaviours exported" in str(ex):
            ctx.notes.append("split-load model: no candidate behaviour within bounds")
            return
        raise
    ctx.cov["race_candidates"] = len(cands)
    cands.sort(key=lambda b: (len(b), json.dumps(b, sort_keys=True)))
    cap = 6 if ctx.quick() else 40
    jobs, group = [], {}
    for cls in ("user", "role"):
        for b in [b for b in cands if race_class(b) == cls][:cap]:
            for g, steps in ((cls, b), ("ctrl", control(b))):
                jobs.append({"id": len(jobs), "mode": "lazy", "steps": steps})
                group[jobs[-1]["id"]] = g
    if not jobs:
        return
    tr, rows = run_harness(ctx, jobs, "race")
    per = split_rows(rows)
    ctx.cov["evaluations"] += len(jobs)
    ctx.sample({"race_candidate": jobs[0]["steps"], "real_trace": slim(per[0])}, cap=3)
    for g in ("ctrl", "user", "role"):
        ids = [j["id"] for j in jobs if group[j["id"]] == g]
        if not ids:
            continue
        grows = [r for i in ids for r in per[i]]
        gtr = os.path.join(ctx.scratch, "c03-race-%s.ndjson" % g)
        write_ndjson(gtr, grows)
        gjobs = [j for j in jobs if j["id"] in ids]
        vp = validate(ctx, SPEC, "Trace_Access", "Trace_Access_P.cfg", gtr, timeout=900, tag="race-%s-P" % g)
        if vp.inv:
            bid, idx, row = failing(grows, vp.line)
            steps = jobs[bid]["steps"] if bid is not None else []
            ends = [i for i, r in enumerate(per.get(bid, [])) if r["a"] == "LoadEnd"]
            if g != "ctrl" and race_class(steps) == g and row.get("a") == "Request" and ends and idx > ends[0]:
                # the class key is the schedule family; a failure of a control, or before the overlapped
                # recomputation completed, is an ordinary violation and keeps its own key
                report_violation(ctx, "%s:recompute-of-%s-overlaps-write" % (vp.inv, g),
                                 "lost invalidation: the recomputation of an already-invalidated %s (auth.getPrincipal: view query ... CAS write) "
                                 "overlapped a write; its invalidation left the principal document untouched, the stale result was saved as valid "
                                 "and a later quiet%s; ground truth from behaviour %s" % (g, describe(row), json.dumps(steps)),
                                 {"behaviour": jobs[bid], "invariant": vp.inv, "real_trace": slim(per[bid]),
                                  "schedule": "LoadBegin..LoadEnd forced with LeakyBucket UpdateCallback on the principal document "
                                              "(after the recomputation, before its CAS write)"})
                ctx.cov["race_reproduced_" + g] = True
            else:
                ordinary_violation(ctx, vp, grows, gjobs, "race trace " + g)
            continue
        if not vp.accepted:
            raise Inconclusive("pass P stopped at line %s of %s on split-load traces (%s)\n%s" % (vp.line, vp.total, g, vp.out[-1500:]))
        if g != "ctrl":
            ctx.notes.append("split-load candidates (%s): %d replayed with the forced schedule, none reproduced on the real code" % (g, len(ids)))
        conformance(ctx, gtr, grows, len(ids), "race-" + g)
