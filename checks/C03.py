"""C03 - effective access equals what admin grants and current documents confer (DESIGN 4.3)."""
import json
import os
import random
from vlib.core import *

SPEC = os.path.join(VERIF, "specs", "Access")
HARNESS = ["harness/db/c03_access_test.go"]
MODES = ("eager", "mixed", "lazy")
GRANTING = ("DocWrite", "DocDelete", "DocConflict")


def run(ctx):
    # 1. the design: the invalidation protocol with commit / post-commit invalidation as separate steps and
    #    recomputation atomic - EffectiveAccess, CacheSound, ... over all interleavings of the bounded model
    model_check(ctx, SPEC, "MC_Access", "MC_Access.cfg" if ctx.quick() else "MC_Access_thorough.cfg", timeout=3000)
    ctx.cov["exhaustive"] = True

    # 2. behaviours: every action sequence of a one-user/one-role/one-document instance + seeded simulations of the
    #    two-user/two-role/two-document instance; replayed on one real database, validated by TLC (P then C)
    rnd = random.Random(ctx.seed)
    behs = behaviours(ctx, SPEC, "MC_Access", "Beh_Access.cfg")
    sim = behaviours(ctx, SPEC, "MC_Access", "Sim_Access.cfg", num=60 if ctx.quick() else 700, depth=14)
    behs += pick_sim(sim, rnd, 240 if ctx.quick() else 3000)
    jobs = [{"id": i, "mode": MODES[(i + ctx.seed) % 3], "steps": b} for i, b in enumerate(behs)]
    replay_and_validate(ctx, jobs, "main")

    # 3. candidates: the same model with the recomputation split at its CAS write (SplitLoad) admits behaviours that
    #    end in a quiet request not seeing Eff(u).  They are model counterexamples = candidates only; each is replayed
    #    on the real code with the schedule forced at the storage boundary and judged by pass P on the real trace.
    race_candidates(ctx)

    ctx.cov["rule"] = ("behaviours = all action sequences of length 3 over {u1,r1,d1} + seeded TLC simulations of length 12 over "
                       "2 users/2 roles/2 docs/channels A,B,* (conflicting branches, tombstones, resurrection, role delete/purge/recreate); "
                       "the harness adds Request(u) after every action (eager), after random actions (mixed) or only at the end (lazy); "
                       "non-trivial = a behaviour with a granting revision followed by a request of an existing user")
    ctx.assumptions += [
        "ground truth = admin inputs + the grants each revision was written with + the REAL current revision (branch) of each document; "
        "the gateway's own access maps are only cross-checked (pass C)",
        "tombstones are written with DeleteDoc (body {_deleted:true}); a tombstone that itself carries granting body fields is outside the replayed inputs (see NOTES.md)",
        "the window between a document commit and its post-commit invalidation is explored in the model only (a request inside it is concurrent with the write)",
        "Rosmar + views (stale=false) stand for the access queries; storage faults are C11's subject",
    ]


def pick_sim(sim, rnd, cap):
    """TLC -simulate prints one behaviour per successor of the last state: keep few per common prefix."""
    groups = {}
    for b in sim:
        groups.setdefault(json.dumps(b[:-1], sort_keys=True), []).append(b)
    res = []
    for k in sorted(groups):
        g = groups[k]
        rnd.shuffle(g)
        res += g[:2]
    rnd.shuffle(res)
    return res[:cap]


def run_harness(ctx, jobs, tag):
    bf = os.path.join(ctx.scratch, "c03-%s-beh.json" % tag)
    tr = os.path.join(ctx.scratch, "c03-%s.ndjson" % tag)
    write_json(bf, jobs)
    rc, out = go_test(ctx, "db", "^TestVerif_C03_Access$", HARNESS, env={"VERIF_BEH": bf, "VERIF_TRACE_OUT": tr}, timeout=2400)
    if rc != 0 or not os.path.exists(tr):
        raise Inconclusive("C03 harness failed (%s):\n%s" % (tag, harness_failure(out)))
    return tr, read_ndjson(tr)


def split_rows(rows):
    """-> {behaviour id: (first line index (0-based), rows)}"""
    res, cur = {}, None
    for i, r in enumerate(rows):
        if r["a"] == "Reset":
            cur = r["beh"]
            res[cur] = (i, [])
        res[cur][1].append(r)
    return res


def nontrivial(rs):
    seen_grant = False
    for r in rs:
        if r["a"] in GRANTING:
            seen_grant = True
        elif r["a"] == "Request" and r["found"] and seen_grant:
            return True
    return False


def locate(rows, line):
    idx = None
    for r in rows[:max(0, (line or 1) - 1)]:
        if r["a"] == "Reset":
            idx = r["beh"]
    return idx


def describe(rows, line):
    if not line or line < 2 or line - 1 > len(rows):
        return ""
    r = rows[line - 2]          # the state at position l was produced by line l-1
    if r.get("a") != "Request":
        return " after %s" % r.get("a")
    return " Request(%s) returned channels %s roles %s" % (r["u"], r["chans"], r["roles"])


def replay_and_validate(ctx, jobs, tag):
    tr, rows = run_harness(ctx, jobs, tag)
    per = split_rows(rows)
    ctx.cov["evaluations"] += len(jobs)
    ctx.cov["distinct_nontrivial"] += sum(1 for k in per if nontrivial(per[k][1]))
    ctx.cov["requests_evaluated"] = ctx.cov.get("requests_evaluated", 0) + sum(1 for r in rows if r["a"] == "Request")
    mid = jobs[len(jobs) // 2]
    ctx.sample({"behaviour": mid, "real_trace_tail": [{k: v for k, v in r.items() if k in ("a", "u", "found", "chans", "roles")}
                                                      for r in per[mid["id"]][1][-2:]]})
    vp = validate(ctx, SPEC, "Trace_Access", "Trace_Access_P.cfg", tr, timeout=1800)
    if vp.inv:
        bid = locate(rows, vp.line)
        job = next((j for j in jobs if j["id"] == bid), None)
        key = "%s:%s" % (vp.inv, json.dumps(job["steps"] if job else None, sort_keys=True))
        report_violation(ctx, key, "real database breaks %s at trace line %s (behaviour %s, mode %s):%s" % (
            vp.inv, vp.line, bid, job and job["mode"], describe(rows, vp.line)),
            {"behaviour": job, "invariant": vp.inv, "real_trace": per.get(bid, (0, []))[1], "state": (vp.state or {}).get("_txt")})
        return
    if not vp.accepted:
        raise Inconclusive("pass P stopped at line %s of %s (trace shape not accepted)\n%s" % (vp.line, vp.total, vp.out[-1500:]))
    vc = validate(ctx, SPEC, "Trace_Access", "Trace_Access_C.cfg", tr, timeout=1800)
    if vc.inv or not vc.accepted:
        ctx.cov["nonconformance"] += 1
        ctx.notes.append("pass C rejected at line %s (%s), behaviour %s: %s" % (
            vc.line, vc.inv, locate(rows, vc.line), json.dumps(rows[vc.line - 1])[:600] if vc.line and vc.line <= len(rows) else None))
    else:
        ctx.cov["traces_validated_against_impl"] += len(jobs)


# ------------------------------------------------------------------------------------------------------------
def race_class(b):
    """which principal kind was being recomputed while something else was written"""
    for st in b:
        if st["a"] == "LoadBegin":
            return "user" if st["p"].startswith("u") else "role"
    return "none"


def race_candidates(ctx):
    try:
        cands = behaviours(ctx, SPEC, "MC_Access", "Race_Access.cfg" if ctx.quick() else "Race_Access_thorough.cfg", tagname="RACE", timeout=3000)
    except Inconclusive as ex:
        if "no behaviours exported" in str(ex):
            ctx.notes.append("split-load model: no candidate behaviour within bounds")
            return
        raise
    ctx.cov["race_candidates"] = len(cands)
    cands.sort(key=lambda b: (len(b), json.dumps(b, sort_keys=True)))
    for cls in ("user", "role"):
        sel = [b for b in cands if race_class(b) == cls][:8 if ctx.quick() else 40]
        if not sel:
            continue
        jobs = [{"id": i, "mode": "lazy", "steps": b} for i, b in enumerate(sel)]
        tr, rows = run_harness(ctx, jobs, "race-" + cls)
        ctx.cov["evaluations"] += len(jobs)
        vp = validate(ctx, SPEC, "Trace_Access", "Trace_Access_P.cfg", tr, timeout=900, tag="race-%s-P" % cls)
        if vp.inv:
            bid = locate(rows, vp.line)
            per = split_rows(rows)
            key = "%s:recompute-of-%s-overlaps-write" % (vp.inv, cls)
            report_violation(ctx, key,
                             "real database breaks %s when the recomputation of an invalidated %s (getPrincipal: view query ... CAS write) overlaps a "
                             "write whose invalidation finds the principal already invalid:%s; expected per ground truth of behaviour %s" % (
                                 vp.inv, cls, describe(rows, vp.line), json.dumps(jobs[bid]["steps"]) if bid is not None else "?"),
                             {"behaviour": jobs[bid] if bid is not None else None, "invariant": vp.inv,
                              "real_trace": per.get(bid, (0, []))[1], "schedule": "LoadBegin..LoadEnd forced with LeakyBucket UpdateCallback on the principal document"})
            continue
        if not vp.accepted:
            raise Inconclusive("pass P stopped at line %s of %s on race candidates (%s)\n%s" % (vp.line, vp.total, cls, vp.out[-1500:]))
        ctx.notes.append("split-load candidates (%s): %d replayed with forced schedule, none reproduced on the real code" % (cls, len(sel)))
        vc = validate(ctx, SPEC, "Trace_Access", "Trace_Access_C.cfg", tr, timeout=900, tag="race-%s-C" % cls)
        if vc.inv or not vc.accepted:
            ctx.cov["nonconformance"] += 1
            ctx.notes.append("pass C rejected race trace (%s) at line %s (%s)" % (cls, vc.line, vc.inv))
        else:
            ctx.cov["traces_validated_against_impl"] += len(jobs)
