"""C09 - external writes are imported exactly once; the gateway's own writes never are (DESIGN 4.9, specs/Import/NOTES.md).

model_check (exhaustive: external set / delete, metadata-only rewrite, gateway read / write, feed and cache deliveries of any
captured mutation, all split so that the feed import, the on-demand import and external writes race) -> behaviours (every
sequential behaviour to a short depth, every racing behaviour of a smaller instance, seeded simulations of a larger one) ->
schedule-forcing replay on a real database with AutoImport off (captured feeds, LeakyDataStore.UpdateCallback gate) ->
pass P (the C09 predicates evaluated by TLC on every recorded real state, collected per behaviour) and pass C (conformance)
-> verdicts.

Local additions to vlib.core (rule 9): TLC runs of one stage run concurrently; the recorded trace is validated in chunks;
pass P/C results are read from PrintT'ed TLC registers instead of a stop-on-first INVARIANT (as in C05).
"""
import concurrent.futures
import json
import os
from vlib.core import *

SPEC = os.path.join(VERIF, "specs", "Import")
HARNESS = ["harness/db/c09_import_test.go"]
CHUNK = 400
MAX_REPORTS = 3
IMPORT_ACTS = ("Feed", "FeedBegin", "FeedRel", "Get", "GetBegin", "GetRel")
# failure of ImportMintsVersion explained by the named deviation of the transcribed code (X_ImportMintsVersion holds)
KEY_MOU = "ImportMintsVersion:ImportAfterMetadataOnlyRewriteKeepsOldVersion"


def run(ctx):
    quick = ctx.quick()
    nsim = int(os.environ.get("VERIF_C09_NSIM") or (300 if quick else 5000))
    with concurrent.futures.ThreadPoolExecutor(6) as ex:
        skipmc = bool(os.environ.get("VERIF_C09_SKIPMC"))      # development aid (mutation self-tests of the binding)
        f_mc = ex.submit(lambda: None) if skipmc else ex.submit(model_check, ctx, SPEC, "MC_Import", "MC_Import.cfg" if quick else "MC_Import_thorough.cfg", 5400)
        f_seq = ex.submit(gen_behaviours, ctx, "Beh_Import.cfg", None, 0, "BehSeq")
        f_race = ex.submit(gen_behaviours, ctx, "Beh_Import_race.cfg", None, 0, "BehRace")
        f_sim = ex.submit(gen_behaviours, ctx, "Sim_Import.cfg", nsim, 14, "Sim")
        # conflicts-allowed family (a document with a winning and a losing live leaf; external write; import by feed / read)
        f_mcc = ex.submit(lambda: None) if skipmc else ex.submit(model_check, ctx, SPEC, "MC_Import", "MC_Import_conflict.cfg", 3000, False)
        f_cf = ex.submit(gen_behaviours, ctx, "Beh_Import_conflict.cfg", None, 0, "BehConflict")
        mc, b_seq, b_race, b_sim = f_mc.result(), f_seq.result(), f_race.result(), f_sim.result()
        f_mcc.result()
        b_cf = f_cf.result()
    if mc is not None:
        ctx.cov["exhaustive"] = True
        final_coverage(ctx, mc)
    cap = int(os.environ.get("VERIF_C09_CAP") or (500 if quick else 100000))
    behs, seen = [], set()
    capc = int(os.environ.get("VERIF_C09_CAPC") or (150 if quick else 4000))
    for src, lst in (("seq", pick(ctx, b_seq, cap)), ("race", pick(ctx, b_race, cap)), ("sim", b_sim),
                     ("conflict", [{"steps": st} for st in DIRECTED_CONFLICT] + pick(ctx, b_cf, capc))):
        for b in lst:
            k = json.dumps(b["steps"], sort_keys=True)
            if k not in seen:
                seen.add(k)
                behs.append({"steps": b["steps"], "src": src})
    ctx.cov["behaviour_sources"] = {"seq_all": len(b_seq), "race_all": len(b_race), "sim": len(b_sim), "conflict_all": len(b_cf), "replayed": len(behs)}
    ctx.cov["behaviour_action_mix"] = action_mix(behs)
    replay_and_validate(ctx, behs)
    ctx.cov["rule"] = ("behaviours = sequential: every action sequence of length 5 over {external set, external delete, metadata-only rewrite (resync), "
                       "feed delivery of ANY captured mutation (late / twice / out of order), cache delivery, gateway read, gateway write}; racing: every "
                       "interleaving of length 6 of a smaller instance with the feed import, the gateway read and the gateway write each split into "
                       "compute and CAS write; conflicts-allowed family: a document with a winning and a losing live leaf (newest revision on either), then every "
                       "sequence of 4 steps over external set / feed / cache / read (split) / resync plus 10 directed behaviours; plus seeded TLC simulations of length 14 (quick tier: a seeded sample of the two exhaustive sets, thorough: all); "
                       "each is forced on the real code (captured feeds, UpdateCallback gate), then drained (every undelivered mutation delivered) and read; "
                       "non-trivial = the real run performed an import (a revision created by an import action)")
    ctx.assumptions += [
        "one document, one Sync Gateway node, Rosmar store (its CAS / xattr / feed semantics are the environment, e.g. a set over a tombstone drops the xattrs)",
        "external writers write bodies only (never xattrs): _vv.cv = _sync.rev cv always; cross-cluster (XDCR / ECCV) attribution is out of scope",
        "every external write carries a fresh body (an external rewrite of the identical body is indistinguishable from no write by design)",
        "no import filter; conflicts disallowed except in the conflicts-allowed family (two live leaves, no gateway write / delete / user xattr there); while a gateway read / write is in flight no external delete and no set over a tombstone",
        "a feed import of one document is sequential (one vbucket, one worker); the metadata-only rewrite is ResyncDocument(regenerateSequences)"]


def _cf(nw, *steps):
    return [{"a": "Conflict", "i": nw}] + [{"a": a, "i": i} for a, i in steps]


# directed behaviours of the conflicts-allowed family (always replayed): newest revision on the winner (1) / on the loser (0)
# x import by the feed with redelivery and delivery of the import's own mutation / by repeated reads / feed and read racing
DIRECTED_CONFLICT = [b for nw in (0, 1) for b in (
    _cf(nw, ("ExtSet", 1), ("Feed", 4), ("Feed", 4), ("Feed", 5)),
    _cf(nw, ("ExtSet", 1), ("Get", 0), ("Get", 0), ("Feed", 4)),
    _cf(nw, ("ExtSet", 1), ("FeedBegin", 4), ("Get", 0), ("FeedRel", 0)),
    _cf(nw, ("ExtSet", 1), ("GetBegin", 0), ("Feed", 4), ("GetRel", 0)),
    _cf(nw, ("ExtSet", 1), ("Feed", 4), ("ExtSet", 2), ("Get", 0)))]


def pick(ctx, lst, cap):
    if len(lst) <= cap:
        return lst
    import random
    rnd = random.Random(ctx.seed)
    lst = sorted(lst, key=lambda b: json.dumps(b["steps"], sort_keys=True))
    rnd.shuffle(lst)
    return lst[:cap]


def gen_behaviours(ctx, cfg, num, depth, tag):
    if num is None:
        r = tlc(ctx, SPEC, "MC_Import", cfg, timeout=3000, workers=4, tag=tag)
    else:
        r = tlc(ctx, SPEC, "MC_Import", cfg, mode="simulate", simulate=num, depth=depth, timeout=3000, tag=tag)
    if r.inv_violated:
        raise Inconclusive("behaviour generation %s violated %s" % (cfg, r.inv_violated))
    res, seen = [], set()
    for t, txt in r.printed:
        if t == "BEH" and txt not in seen:
            seen.add(txt)
            res.append(json.loads(json.loads(txt)))
    if not res:
        raise Inconclusive("no behaviours exported by %s\n%s" % (cfg, r.out[-800:]))
    log("  TLC %-28s %-22s exported %d distinct behaviours  %.1fs" % ("MC_Import", cfg, len(res), r.wall))
    return res


def final_coverage(ctx, mc):
    """vacuity guard on the LAST coverage block of the exhaustive run (thorough tier runs with -coverage)."""
    import re
    lastc = {}
    for line in mc.out.splitlines():
        m = re.match(r"^<(\w+) line .* of module Import>: (\d+):(\d+)$", line.strip())
        if m:
            lastc[m.group(1)] = int(m.group(3))
    if lastc:
        ctx.notes[:] = [n for n in ctx.notes if not n.startswith("zero-coverage actions in MC_Import")]
        ctx.cov["action_coverage"] = lastc
        # `Conflict` belongs to the conflicts-allowed family, which has its own exhaustive cfg (MC_Import_conflict.cfg); it is
        # switched off (constant Conflicts = FALSE) in the main cfg, so zero coverage there is by construction, not vacuity
        zero = sorted(a for a, n in lastc.items() if n == 0 and a not in ("Init", "Conflict"))
        if zero:
            raise Inconclusive("actions never taken in the exhaustive run: %s" % zero)


def action_mix(behs):
    h = {}
    for b in behs:
        for st in b["steps"]:
            h[st["a"]] = h.get(st["a"], 0) + 1
    return h


def _printed(out, tag):
    res = []
    for t, txt in parse_printed(out):
        if t == tag:
            res += json.loads(json.loads(txt))
    return res


def replay_and_validate(ctx, behs):
    bf = os.path.join(ctx.scratch, "c09-beh.json")
    tr = os.path.join(ctx.scratch, "c09.ndjson")
    write_json(bf, [{"steps": b["steps"]} for b in behs])
    rc, out = go_test(ctx, "db", "^TestVerif_C09_Import$", HARNESS, env={"VERIF_BEH": bf, "VERIF_TRACE_OUT": tr}, timeout=3000)
    if rc != 0 or not os.path.exists(tr):
        raise Inconclusive("C09 harness failed:\n" + harness_failure(out))
    rows = read_ndjson(tr)
    ctx.cov["evaluations"] += len(behs)
    per, cur = {}, None
    for r in rows:
        if r["a"] == "Reset":
            cur = r["beh"]
            per[cur] = []
        per[cur].append(r)
    if len(per) != len(behs):
        raise Inconclusive("harness recorded %d behaviours, %d were given" % (len(per), len(behs)))
    measure(ctx, behs, per)

    chunks, idx = [], sorted(per)
    for i in range(0, len(idx), CHUNK):
        p = os.path.join(ctx.scratch, "c09-%03d.ndjson" % (i // CHUNK))
        write_ndjson(p, [strip(r) for b in idx[i:i + CHUNK] for r in per[b]])
        chunks.append(p)
    jobs = [(p, c) for p in chunks for c in ("P", "C")]
    nproc = max(1, min(len(jobs), (int(os.environ.get("VERIF_TLC_WORKERS") or NCPU)) // 2 or 1))

    def one(job):
        p, c = job
        return job, validate(ctx, SPEC, "Trace_Import", "Trace_Import_%s.cfg" % c, p, timeout=3000, tag="%s-%s" % (c, os.path.basename(p)[:-7]))
    with concurrent.futures.ThreadPoolExecutor(nproc) as ex:
        results = list(ex.map(one, jobs))
    pviol, conf, cdiv = {}, set(), {}
    for (p, c), v in results:
        if not v.accepted:
            raise Inconclusive("pass %s stopped at line %s of %s in %s (trace shape not accepted)\n%s" % (c, v.line, v.total, p, v.out[-1500:]))
        if c == "P":
            for r in _printed(v.out, "PVIOL"):
                d = pviol.setdefault(r["b"], {}).setdefault(r["p"], {"line": r["line"], "x": True})
                d["line"] = min(d["line"], r["line"])
                d["x"] = d["x"] and bool(r["x"])
        else:
            for r in _printed(v.out, "CCONF"):
                conf.add(r["b"])
            for r in _printed(v.out, "CDIV"):
                d = cdiv.setdefault(r["b"], {"line": r["line"], "aux": []})
                d["line"] = min(d["line"], r["line"])
                d["aux"] = sorted(set(d["aux"]) | set(r.get("aux", [])))
    verdicts(ctx, behs, per, pviol, conf, cdiv)


def strip(r):
    return {k: v for k, v in r.items() if k in ("a", "i", "o", "beh", "drained")}


def measure(ctx, behs, per):
    st = {"behaviours": len(behs), "imports": 0, "import_by_feed": 0, "import_by_read": 0, "import_by_write": 0, "feed_cancelled_or_ignored": 0,
          "user_xattr_imports": 0, "parked_imports": 0, "reads": 0, "writes_ok": 0, "writes_conflict": 0, "cache_accepted": 0, "cache_ignored": 0, "aborted": 0,
          "restamp_aborts": 0, "strange": 0, "by_source": {}, "race_lost_cas": 0}
    nontriv = 0
    for b, rs in per.items():
        src = behs[b]["src"]
        st["by_source"][src] = st["by_source"].get(src, 0) + 1
        imported = False
        prev = None
        for r in rs:
            if r["a"] == "Abort":
                st["aborted"] += 1
                st["restamp_aborts"] += 1 if r.get("restamp") else 0
            if "strange" in r:
                st["strange"] += 1
            if "o" not in r:
                continue
            o = r["o"]
            nrev = len(o["meta"]["revs"])
            prevn = len(prev["meta"]["revs"]) if prev and prev["meta"]["has"] else 0
            grew = o["meta"]["has"] and nrev > prevn
            a = r["a"]
            if a in IMPORT_ACTS and grew:
                st["imports"] += 1
                imported = True
                st["import_by_feed" if a.startswith("Feed") else "import_by_read"] += 1
            if a in ("Write", "WriteRel") and grew and o["out"]["wres"] != "ok":
                st["imports"] += 1
                st["import_by_write"] += 1
                imported = True
            if a in IMPORT_ACTS and not grew and prev and prev["meta"]["has"] and o["meta"]["has"] and o["meta"]["ucrc"] != prev["meta"]["ucrc"]:
                st["user_xattr_imports"] += 1
                imported = True
            if a in ("Feed", "FeedRel") and not grew:
                st["feed_cancelled_or_ignored"] += 1
            if a in ("FeedBegin", "GetBegin", "WriteBegin") and "imp" in (o["pcF"], o["pcG"], o["pcW"]):
                st["parked_imports"] += 1
            if a in ("FeedRel", "GetRel", "WriteRel") and prev and prev["doc"]["cas"] == o["doc"]["cas"] and not r.get("drain"):
                st["race_lost_cas"] += 1
            if o["out"]["vst"] != "na":
                st["reads"] += 1
            st["writes_ok"] += o["out"]["wres"] == "ok"
            st["writes_conflict"] += o["out"]["wres"] == "conflict"
            st["cache_accepted"] += o["out"]["acc"] == 1
            st["cache_ignored"] += o["out"]["acc"] == 0
            prev = o
        nontriv += imported
    ctx.cov["distinct_nontrivial"] += nontriv
    ctx.cov["c09"] = st
    mid = sorted(per)[len(per) // 2]
    ctx.sample({"behaviour": behs[mid]["steps"], "real_trace_tail": [slim(r) for r in per[mid][-3:]]})


def slim(r):
    o = r.get("o")
    d = {k: r[k] for k in ("a", "i", "why", "drained", "strange", "drain") if k in r}
    if o:
        d["doc"], d["meta"] = o["doc"], (o["meta"] if o["meta"]["has"] else None)
        d["pc"] = [o["pcF"], o["pcG"], o["pcW"]]
        d["out"] = {k: v for k, v in o["out"].items() if v not in (-1, "na", 0)}
    return d


def first_line(per, b):
    idx = sorted(per)
    i = idx.index(b)
    start = (i // CHUNK) * CHUNK
    return 1 + sum(len(per[x]) for x in idx[start:i])


def verdicts(ctx, behs, per, pviol, conf, cdiv):
    aborted = {b for b, rs in per.items() if any(r["a"] == "Abort" for r in rs)}
    nonconf = sorted(b for b in per if b not in conf and b not in aborted)
    auxbad = sorted(b for b, d in cdiv.items() if d["aux"] and b in conf)
    for b in nonconf[:5]:
        d = cdiv.get(b, {"line": None})
        off = (d["line"] - first_line(per, b)) if d["line"] else None
        row = per[b][off] if off is not None and 0 <= off < len(per[b]) else None
        ctx.notes.append("pass C: behaviour %d %s does not conform at step %s: %s" % (b, json.dumps(behs[b]["steps"]), off, json.dumps(slim(row)) if row else None))
    for b in auxbad[:3]:
        ctx.notes.append("pass C: auxiliary invariants %s fail on conforming behaviour %d %s" % (cdiv[b]["aux"], b, json.dumps(behs[b]["steps"])))
    ctx.cov["nonconformance"] += len(nonconf) + len(auxbad)
    if aborted:
        ra = sum(1 for b in aborted if any(r.get("restamp") for r in per[b]))
        if len(aborted) - ra:
            b = sorted(x for x in aborted if not any(r.get("restamp") for r in per[x]))[0]
            ctx.notes.append("%d behaviours could not be executed to the end, e.g. %d: %s" % (len(aborted) - ra, b, [r.get("why") for r in per[b] if r["a"] == "Abort"]))
            ctx.cov["nonconformance"] += len(aborted) - ra
    ctx.cov["traces_validated_against_impl"] += sum(1 for b in conf if b not in pviol and b not in auxbad)

    explained, unexplained = [], {}
    for b, fails in sorted(pviol.items()):
        for p, d in sorted(fails.items()):
            if p == "ImportMintsVersion" and d["x"]:
                explained.append(b)
            else:
                unexplained.setdefault(p, []).append((b, d["line"]))
    if explained:
        bs = sorted(set(explained), key=lambda x: (len(behs[x]["steps"]), x))
        ex = bs[0]
        report_violation(
            ctx, KEY_MOU,
            "an import that follows a metadata-only rewrite (resync) of a document carrying an un-imported external write creates the new revision "
            "WITHOUT a new version: updateHLV(Import) sees _mou.cas == cas and keeps the previous cv, so two revisions with different bodies share one "
            "current version (%d replayed behaviours; shortest: behaviour %d %s)" % (len(bs), ex, json.dumps(behs[ex]["steps"])),
            {"behaviour": behs[ex], "real_trace": [slim(r) for r in per[ex]]})
    for p, lst in sorted(unexplained.items()):
        lst.sort(key=lambda x: (len(behs[x[0]]["steps"]), x[0]))
        for b, line in lst[:MAX_REPORTS]:
            rs = per[b]
            off = max(0, min(len(rs) - 1, line - first_line(per, b)))
            key = "%s:%s" % (p, json.dumps(behs[b]["steps"], sort_keys=True))
            report_violation(ctx, key, "real import path breaks %s in behaviour %d %s at step %d (%s): %s" % (
                p, b, json.dumps(behs[b]["steps"]), off, "conforming" if b in conf else "NOT conforming to the spec", json.dumps(slim(rs[off]))),
                {"behaviour": behs[b], "invariant": p, "real_trace": [slim(r) for r in rs]})
        if len(lst) > MAX_REPORTS:
            ctx.notes.append("%s fails in %d behaviours (first %d reported)" % (p, len(lst), MAX_REPORTS))
    ctx.cov["c09"]["pass_p_failing_behaviours"] = len(pviol)
    ctx.cov["c09"]["explained_by_named_deviation"] = len(set(explained))
    ctx.cov["c09"]["unexplained_failures"] = {p: len(v) for p, v in unexplained.items()}
