"""C16 - the revision cache returns what the bucket holds and accounts for itself exactly (DESIGN 4.16, specs/RevCache/NOTES.md).

1. exhaustive TLC of specs/RevCache at the lock granularity of the code (2-3 threads): the accounting clauses hold exactly in
   every interleaving free of the *named deviations* of the code (ghost `dev`), and in the production environment (writers hand
   over what the bucket holds, loads fail only on keys not being written) no deviation is reachable at all.
2. sequential binding: every TLC behaviour of a small instance + seeded simulations, one whole API call at a time on a real
   LRURevisionCache / RevisionCacheOrchestrator / ShardedLRURevisionCache; pass P (property on the real state and outputs) and
   pass C (the model, run from the same inputs, must reproduce the real state and outputs after every call).
3. concurrent randomized driver (goroutines; -race in the thorough tier): pass P on the real state at quiescence.
4. candidates: each named deviation is forced on the real code (sequential script or gated schedule) and judged by pass P with the
   strict invariants; a reproduction is a VIOLATION keyed by the deviation (genuine defect of the code).
"""
import json
import os
from vlib.core import *

SPEC = os.path.join(VERIF, "specs", "RevCache")
HARNESS = ["harness/db/c16_revcache_test.go"]
RUN = "^TestVerif_C16_RevCache$"

# candidates: model counterexamples of the strict accounting invariants (found by TLC with NoDev switched off; see NOTES.md)
F8_BEH = {"cap": 2, "maxBytes": 0, "store": {"A": "c1", "B": "c2"},
          "steps": [{"t": "t1", "op": "Get", "k": "k1", "c": "nil", "f": "ok"},
                    {"t": "t1", "op": "Put", "k": "k1", "c": "c2", "f": "ok"},
                    {"t": "t1", "op": "Remove", "k": "k1", "c": "nil", "f": "ok"}]}
CANDIDATES = [
    # (key, harness mode, description)
    ("resize:Get(k);Put(k,revision of another size);Remove(k)", "cand",
     "LRURevisionCache.Put overwrites itemBytes of an already-sized value (CAS fails, no increment); the later Remove/eviction "
     "decrements the new size: RevisionCacheTotalMemory != 0 on an empty cache (DESIGN section 7, F8)"),
    ("revive:Get(k) load fails || Put(k)", "sched-revive",
     "Get(k) misses and its load fails while a concurrent Put(k) sizes the same value (CAS Loading->Sized, increment); "
     "removeValueForFailedLoad stores memStateRemoved without decrementing: RevisionCacheTotalMemory stays inflated on an empty cache"),
    ("stalefill:GetActive(k) has read the document || StoreUpdate;Invalidate(k); then Get(k)", "sched-stale-getactive",
     "GetActive reads the document BEFORE getValue: a metadata-only channel update and its feed-side Remove(k) that fall in between "
     "find nothing to remove, GetActive then creates the entry and fills it from the old document; later Get/Peek are served the "
     "pre-update channels although the invalidation has completed"),
]
TORN_PEEK_KEY = "tornpeek:Peek(k) overlapping Put/Upsert/Get(k) returns a partially written revision"
TORN_PEEK_WHAT = ("LRURevisionCache.Peek calls value.asDocumentRevision without value.lock while value.store / value.load write the fields "
                  "one by one: a Peek overlapping a Put/Upsert/Get of the same key can return found=true with a revision that is neither "
                  "the bucket's nor any earlier content (e.g. body set, channels/history not yet); timing dependent, the race detector reports it")
# forced schedules that the unchanged code is expected to survive (strict pass P; a failure is a VIOLATION with this key)
SCHEDULES = [
    ("FreshAfterInvalidate:Get(k) has read the document || StoreUpdate;Invalidate(k); then Get(k),Peek(k)", "sched-stale-get"),
]


def run(ctx):
    quick = ctx.quick()
    # ---- 1. exhaustive
    skip_mc = bool(os.environ.get("VERIF_C16_SKIP_MC"))      # development / self-test of the binding only; recorded in the evidence
    if skip_mc:
        ctx.notes.append("exhaustive model checking skipped by VERIF_C16_SKIP_MC (binding self-test run)")
    if not skip_mc:
        _mc(ctx, "MC_RevCache.cfg" if quick else "MC_RevCache_thorough.cfg")
        _mc(ctx, "MC_RevCache_env.cfg" if quick else "MC_RevCache_env_thorough.cfg")
        _mc(ctx, "MC_RevCache_stale.cfg", guard=False)        # staleness clause, Get/Peek/Invalidate + StoreUpdate: strict FreshAfterInvalidate
        _mc(ctx, "MC_RevCache_stale_ga.cfg", guard=False)     # ... plus GetActive: modulo the named deviation "stalefill"
        if not quick:
            _mc(ctx, "MC_RevCache_thorough3.cfg", guard=False)     # three concurrent calls (one configuration without byte limit)
            _mc(ctx, "MC_RevCache_onecv.cfg", guard=False)         # "one CV => one body": only `revive` is left
        ctx.cov["exhaustive"] = True

    # ---- 2. sequential binding
    behs = behaviours(ctx, SPEC, "MC_RevCache", "Beh_RevCache.cfg", timeout=1800)
    if quick:                                     # a seeded third of the exhaustive set per run (all of it in the thorough tier)
        behs = [b for i, b in enumerate(behs) if (i + ctx.seed) % 3 == 0]
    sims = behaviours(ctx, SPEC, "MC_RevCache", "Sim_RevCache.cfg", num=150 if quick else 3000, depth=150, timeout=1800)
    hist = {}
    for b in sims:                                # action mix of the simulated behaviours (SimNext: one successor per call kind)
        for st in b["steps"]:
            hist[st["op"]] = hist.get(st["op"], 0) + 1
            if st["op"] != "StoreUpdate" and st["f"] != "ok":
                hist["loader_failure"] = hist.get("loader_failure", 0) + 1
    ctx.cov["sim_call_histogram"] = hist
    log("  simulated behaviours: %d, call mix %s" % (len(sims), json.dumps(hist, sort_keys=True)))
    behs += sims
    for b in behs:                                # the export shows the bucket at the END of the behaviour: undo the StoreUpdates
        for st in reversed(b["steps"]):
            if st["op"] == "StoreUpdate":
                b["store"][st["k"]] = st["f"]
    # ---- one start of the db test binary for: sequential replay, concurrent driver, candidates (forced deviations)
    bf = os.path.join(ctx.scratch, "c16-beh.json")
    cf = os.path.join(ctx.scratch, "c16-cand-beh.json")
    write_json(bf, behs)
    write_json(cf, [F8_BEH])
    modes = ["seq"] + [m for _, m, _ in CANDIDATES] + [m for _, m in SCHEDULES]
    env = {"VERIF_BEH": bf, "VERIF_BEH_CAND": cf,
           "VERIF_C16_RUNS": 30 if quick else 300, "VERIF_C16_ROUNDS": 5 if quick else 6, "VERIF_C16_CALLS": 10 if quick else 20, "VERIF_C16_G": 4}
    if quick:
        traces = _go(ctx, modes + ["conc"], env)
    else:
        traces = _go(ctx, modes, env)
        traces.update(_go(ctx, ["conc"], env, race=True))
    seq_replay(ctx, behs, traces["seq"])          # 2. sequential binding
    conc(ctx, traces["conc"])                     # 3. concurrent driver
    for key, mode, what in CANDIDATES:            # 4. named deviations forced on the real code
        candidate(ctx, key, traces[mode], what)
    for key, mode in SCHEDULES:                   # 5. forced schedules of the staleness clause
        schedule(ctx, key, traces[mode])
    # ---- 6. hook H3 (hooks/H3-revcache.patch): with it the concurrent driver above was validated step by step; thorough: the
    #         repository's own revision cache tests, unmodified, are recorded and validated the same way
    try:
        hooked = "verifRCLocked(" in open(os.path.join(REPO, "db", "revision_cache_lru.go")).read()
    except OSError:
        hooked = False
    ctx.cov["hook_H3_present"] = hooked
    if hooked and not quick:
        existing_tests(ctx)
    if not hooked:
        ctx.notes.append("hook H3 is not in this tree: concurrent runs judged at quiescence only (apply hooks/H3-revcache.patch for step-level validation)")

    ctx.cov["rule"] = ("behaviours = every sequence of 3 whole calls (Get/GetActive/Put/Upsert/Remove/Peek x 2 keys x 2 contents x loader "
                       "ok/fail, + StoreUpdate and Invalidate) x 2 configurations [quick: a seeded third] + seeded simulations of 10 calls over 4 keys, 36 configurations, "
                       "each followed by a drain (Remove of every key); non-trivial = the real cache held at least one sized value at some "
                       "point of the behaviour (so gauges and recount were compared on non-empty contents)")
    ctx.assumptions += [
        "Fresh/FreshAfterInvalidate are demanded for keys that never received a Put/Upsert of content other than the bucket's at the time the call started (a writer whose Put overlaps a StoreUpdate taints the key)",
        "staleness clause at component level: StoreUpdate = the scripted bucket changes the channels of a revision (same rev id and version); Invalidate(k) = Remove(k) as the feed issues it, per key. Which keys DocChanged/crud.go actually remove (user-xattr change: the rev-id key only; UnchangedCV: the cv key only) is not decided here (no real database in the binding)",
        "accounting clauses are judged at quiescence (sequential: after every call; concurrent: when all goroutines have returned)",
        "expected contents are what the real BypassRevisionCache loads from the same scripted backing store",
        "with hook H3 every hooked step of the cache runs inside one global mutex (verif build only), so the recorded event order is the order of effect; this serialises steps but excludes no interleaving of steps. Steps without a hook (GetActive's document read, the over-capacity check, Peek's read) are placed by the validator",
        "own tests of the repository: return values and bucket contents are not recorded, so Fresh is not judged there; cache instances with more than %d concurrent calls or %d keys are validated on recorded scalars only (pass P), not replayed by the model" % (OWN_MAX_THREADS, OWN_MAX_KEYS),
    ]


# --------------------------------------------------------------------------------------------
def _mc(ctx, cfg, guard=True):
    """exhaustive run; vacuity guard on TLC's FINAL coverage listing (the interim listings of -coverage report actions that simply
    have not fired yet, which core notes as zero coverage): every disjunct of Act/Calls must have generated states."""
    n = len(ctx.notes)
    r = model_check(ctx, SPEC, "MC_RevCache", cfg, timeout=5400)
    del ctx.notes[n:]
    if ctx.tier == "thorough" and guard:
        import re
        last = {}
        for line in r.out.splitlines():
            m = re.match(r"^<(\w+) line .*\((\d+ \d+ \d+ \d+)\)>: (\d+):(\d+)$", line.strip())
            if m:
                last[(m.group(1), m.group(2))] = int(m.group(4))
        src = open(os.path.join(SPEC, "RevCache.tla")).read().splitlines()
        # disjuncts that exist only for the staleness clause are switched off in the cfgs whose bucket never changes (MaxUpd = 0)
        off = ('"loadfin"', '"Inval"')
        zero = sorted(k for k, v in last.items()
                      if v == 0 and not any(o in src[int(k[1].split()[0]) - 1] for o in off))
        if zero:
            raise Inconclusive("vacuity: actions never taken in %s: %s" % (cfg, zero))
        ctx.cov.setdefault("action_coverage", {})[cfg] = "%d action disjuncts, all taken" % len(last)
    return r


def _go(ctx, modes, env, race=False, timeout=3000):
    base = os.path.join(ctx.scratch, "c16-%d.ndjson" % len(ctx.cov["go_runs"]))
    e = {"VERIF_C16_MODE": ",".join(modes), "VERIF_TRACE_OUT": base}
    e.update(env or {})
    rc, out = go_test(ctx, "db", RUN, HARNESS, env=e, race=race, timeout=timeout)
    traces = {m: base + "." + m for m in modes}
    if rc != 0 or not all(os.path.exists(p) for p in traces.values()):
        raise Inconclusive("C16 harness failed (modes %s):\n%s" % (modes, harness_failure(out)))
    return traces


def _beh_at(rows, line):
    """(index of the behaviour, its Reset row, rows of that behaviour up to the failing line)"""
    start = None
    for i, r in enumerate(rows[:max(0, (line or 1) - 1)]):
        if r["a"] == "Reset":
            start = i
    if start is None:
        return None, None, []
    return rows[start].get("beh"), rows[start], rows[start:(line or 1) - 1]


def _calls(part):
    return [{k: r[k] for k in ("t", "op", "k", "c", "f")} for r in part if r["a"] == "Begin"]


def _violation(ctx, what_prefix, vp, rows, behs=None, key=None):
    idx, reset, part = _beh_at(rows, vp.line)
    calls = _calls(part)
    cfg = {k: reset.get(k) for k in ("mode", "impl", "cap", "maxBytes", "store", "csz")} if reset else {}
    k = key or "%s:%s:%s" % (vp.inv, json.dumps(cfg, sort_keys=True), json.dumps(calls, sort_keys=True))
    last = part[-1] if part else None
    report_violation(ctx, k, "%s: real revision cache breaks %s at trace line %s (behaviour %s, %d calls issued)" % (
        what_prefix, vp.inv, vp.line, idx, len(calls)),
        {"invariant": vp.inv, "config": cfg, "calls": calls, "last_recorded_line": last,
         "behaviour": (behs[idx] if behs is not None and isinstance(idx, int) and idx < len(behs) else None),
         "state": (vp.state or {}).get("_txt")})


def seq_replay(ctx, behs, tr):
    rows = read_ndjson(tr)
    ctx.cov["evaluations"] += len(behs)
    # non-vacuity, measured on the recorded real state
    nontriv, cur, impls, hits = set(), None, {}, {"evict": 0, "failed_load": 0}
    prev_keys = set()
    for r in rows:
        if r["a"] == "Reset":
            cur, prev_keys = r["beh"], set()
            impls[r["impl"]] = impls.get(r["impl"], 0) + 1
        elif r["a"] == "End":
            s = r["S"]
            keys = {m[0] for m in s["map"]}
            if any(v["ms"] == "S" for v in s["vals"]):
                nontriv.add(cur)
            if r["err"]:
                hits["failed_load"] += 1
            if r["op"] != "Remove" and (prev_keys - keys):
                hits["evict"] += 1            # a key left the cache in a call that was not Remove: capacity or memory eviction
            prev_keys = keys
    ctx.cov["distinct_nontrivial"] += len(nontriv)
    ctx.cov["seq_impls"] = impls
    ctx.cov["seq_calls_that_evicted"] = hits["evict"]
    ctx.cov["seq_failed_loads"] = hits["failed_load"]
    mid = next((i for i, r in enumerate(rows) if r["a"] == "Reset" and r["beh"] == len(behs) // 2), 0)
    ctx.sample({"behaviour": behs[len(behs) // 2], "real_trace": [_strip(r) for r in rows[mid:mid + 5]]})
    vp = validate(ctx, SPEC, "Trace_RevCache", "Trace_RevCache_P.cfg", tr, timeout=3600)
    if vp.inv:
        _violation(ctx, "sequential replay", vp, rows, behs)
        return
    if not vp.accepted:
        raise Inconclusive("pass P stopped at line %s of %s (trace shape not accepted)\n%s" % (vp.line, vp.total, vp.out[-1500:]))
    vc = validate(ctx, SPEC, "Trace_RevCache", "Trace_RevCache_C.cfg", tr, timeout=3600)
    if vc.inv or not vc.accepted:
        ctx.cov["nonconformance"] += 1
        idx, reset, part = _beh_at(rows, (vc.line or 1) + 1)
        ctx.notes.append("pass C rejected at line %s (%s): behaviour %s calls %s line %s" % (
            vc.line, vc.inv, idx, _calls(part), _strip(rows[vc.line - 1]) if vc.line and vc.line <= len(rows) else None))
    else:
        ctx.cov["traces_validated_against_impl"] += len(behs)


MS = {0: "L", 1: "S", 2: "R"}
KEYDOC = {"k1": "A", "k2": "A", "k3": "B", "k4": "B", "k5": "C", "k6": "C", "k7": "D", "k8": "D"}
LOCKED = ("GetValue", "UpsertToCache", "Remove", "FrmRem", "PeekGet", "MeEvict")


def step_line(e, t, k, vid):
    """one hook event -> one Step line (facts only; see specs/RevCache/Trace_RevCacheH.tla)"""
    ev = e["ev"]
    ln = {"a": "Step", "t": t, "ev": ev, "vid": vid, "n": e["n"]}
    for f in ("items", "total"):
        if f in e:
            ln[f] = e[f]
    if ev in LOCKED:
        ln["len"], ln["maplen"] = e["len"], e["maplen"]
    if "msnow" in e:
        ln["msnow"] = MS[e["msnow"]]
    if ev in ("GetValue", "UpsertToCache", "Remove", "PeekGet"):
        ln["k"] = k
    if ev == "GetValue":
        ln["hit"] = e["hit"]
    elif ev == "UpsertToCache":
        ln["nrem"] = e["nrem"]
        ln["oldms"] = MS[e["oldms"]] if e.get("old") else ""
    elif ev == "UpDec":
        ln["nn"] = e["dec"]
    elif ev == "Load":
        ln["hit"], ln["err"], ln["bytes"] = e["hit"], e["err"], e["bytes"]
    elif ev in ("Cas", "PCas"):
        ln["ok"] = e["ok"]
    elif ev in ("Add", "PAdd", "SBytes"):
        ln["bytes"] = e["bytes"]
    elif ev == "PStore":
        ln["stored"] = e["stored"]
    elif ev == "FrmMark":
        ln["ms"] = MS[e["ms"]]
    elif ev == "FrmRem":
        ln["removed"] = e["removed"]
    elif ev == "Remove":
        ln["found"] = e["found"]
        ln["ms"], ln["bytes"] = (MS[e["ms"]], e["bytes"]) if e["found"] else ("", 0)
    elif ev == "PeekGet":
        ln["found"] = bool(e.get("vid"))
    elif ev == "MeLock":
        ln["need"] = e["need"]
    elif ev == "MeEvict":
        ln["found"] = e["found"]
        ln["ms"], ln["bytes"] = (MS[e["ms"]], e["bytes"]) if e["found"] else ("", 0)
    elif ev == "MeFin":
        ln["freed"] = e["freed"]
    return ln


def convert_steps(rows):
    """raw stream of the concurrent driver (harness lines + H3 hook events, globally ordered) ->
    (step-level runs [one cache instance, hook events present], plain runs [snapshots only], stats)"""
    rows = sorted(rows, key=lambda r: r["n"])
    runs, cur = [], None
    for r in rows:
        if r["obj"] == "c16":
            ln = r["line"]
            if ln["a"] == "Reset":
                cur = {"reset": ln, "items": [], "objs": set(), "gmap": {}}
                runs.append(cur)
            elif cur is not None:
                if ln["a"] == "Begin":
                    cur["gmap"][ln["g"]] = (ln["t"], ln["k"])
                cur["items"].append(("H", ln, None))
                if ln["a"] == "End":
                    cur["gmap"] = {g: v for g, v in cur["gmap"].items() if v[0] != ln["t"]}
        elif cur is not None and r["ev"] not in ("Call", "Ret"):
            if r["obj"].startswith("*db.LRURevisionCache"):
                cur["objs"].add(r["obj"])
            cur["items"].append(("E", r, cur["gmap"].get(r.get("g"))))
    step, plain, st = [], [], {"step_runs": 0, "plain_runs": 0, "events": 0, "by_event": {}}
    for run in runs:
        hooks = [x for x in run["items"] if x[0] == "E"]
        if len(run["objs"]) != 1 or not hooks:
            st["plain_runs"] += 1
            plain.append(run["reset"])
            plain += [ln for kind, ln, _ in run["items"] if kind == "H"]
            continue
        st["step_runs"] += 1
        rs = dict(run["reset"])
        rs["mode"] = "step"
        rs["store"] = {k: run["reset"]["store"][d] for k, d in KEYDOC.items()}
        step.append(rs)
        vids, nv, vict = {}, 0, {}
        for kind, x, who in run["items"]:
            if kind == "H":
                step.append(x)
                continue
            if who is None:
                raise Inconclusive("hook event outside any harness call: %s" % x)
            t, k = who
            if x["ev"] == "CapEvict":
                continue                        # its effect is part of the GetValue / UpsertToCache step that follows (same lock section)
            if x["ev"] in ("UpsertToCache",) or (x["ev"] == "GetValue" and not x["hit"]):
                nv += 1
                vids[x["vid"]] = nv
            step.append(step_line(x, t, k, vids.get(x.get("vid"), 0)))
            st["events"] += 1
            st["by_event"][x["ev"]] = st["by_event"].get(x["ev"], 0) + 1
    if step:
        pass
    return step, plain, st


OWN_TESTS = ("^(TestLRURevisionCacheEviction|TestLRURevisionCacheEvictionMemoryBased|TestBackingStore|TestBackingStoreCV|TestBackingStoreMemoryCalculation|"
             "TestSingleLoad|TestConcurrentLoad|TestConcurrentLoadByCVAndRevOnCache|TestGetActive|TestRevCacheOperationsCV|TestLoaderMismatchInCV|"
             "TestConcurrentPutAndGetOnRevCache|TestConcurrentPutAndRemoveRace|TestConcurrentGetAndRemoveRace|TestConcurrentUpsertAndRemoveRace|"
             "TestRemoveDuringNumberBasedEviction|TestMemoryEvictionDuringConcurrentPuts|TestMemoryBasedEvictionRevisionCacheOnly|"
             "TestCombinedNumberAndMemoryEviction|TestMemoryStatTracksUsageWithUnlimitedCapacity|TestUpsertReplacesItemMemoryBytes|"
             "TestRevisionCacheRemove|TestRevCacheCapacityStat|TestBasicOperationsOnCacheWithMemoryStat|TestImmediateRevCacheItemBasedEviction|"
             "TestImmediateRevCacheMemoryBasedEviction|TestShardedMemoryEviction|TestLoadActiveDocFromBucketRevCacheChurn|"
             "TestLoadRequestedRevFromBucketHighChurn|TestPutRevHighRevCacheChurn|TestRevCacheOnDemandMemoryEviction|TestResetRevCache)$")
OWN_MAX_KEYS, OWN_MAX_THREADS, OWN_POOL = 112, 32, 64


def convert_own(evs):
    """H3 events of the repository's own tests -> (lines for pass P [every cache instance: recorded scalars],
    lines for pass C [instances the model can replay], stats).  Structural rules for pass C (not outcomes):
    every event lies inside an API call (Call..Ret of its goroutine, memory eviction after Ret included); at most OWN_MAX_KEYS keys,
    OWN_MAX_THREADS concurrent calls, min(capacity, keys) + threads + 2 <= OWN_POOL values."""
    evs = sorted(evs, key=lambda e: e["n"])
    owner, inst = {}, {}
    for e in evs:
        o = e["obj"]
        if o.startswith("*db.LRURevisionCache"):
            x = inst.setdefault(o, {"evs": [], "first": e["n"], "last": e["n"]})
            x["evs"].append(e)
            x["last"] = e["n"]
            if e["ev"] == "UpsertToCache" or (e["ev"] == "GetValue" and not e["hit"]):
                owner[e["vid"]] = o
        elif o == "revCacheValue" and e.get("vid") in owner:
            x = inst[owner[e["vid"]]]
            x["evs"].append(e)
            x["last"] = e["n"]
    plines, clines = [], []
    st = {"instances": len(inst), "events": 0, "replayed_instances": 0, "replayed_events": 0, "scalar_only": {}}
    st_users, mc_users = {}, {}                      # which cache instances use an item gauge / a memory controller (Call events carry their addresses)
    for o, x in inst.items():
        c0 = next((e for e in x["evs"] if e["ev"] == "Call"), None)
        if c0:
            st_users.setdefault(c0["st"], set()).add(o)
            mc_users.setdefault(c0["mc"], set()).add(o)
            x["st"], x["mc"] = c0["st"], c0["mc"]
    for o, x in inst.items():
        es = x["evs"]
        overl = len(st_users.get(x.get("st"), {o})) > 1                                   # the item gauge is shared with another cache (shards, or a test reusing its stats)
        capv = next((e["cap"] for e in es if e["ev"] == "Call"), None)
        mb = next((e["maxBytes"] for e in es if e["ev"] == "Call"), 0)
        if capv is None:
            capv = 1 << 30
        if not any(e["ev"] == "MeLock" for e in es):
            mb = 0                                   # no orchestrator eviction in this instance (bare LRURevisionCache, or never over the limit)
        # ---- calls
        why = None
        open_call, calls, gthread, free = {}, [], {}, ["t%d" % i for i in range(OWN_MAX_THREADS, 0, -1)]
        keys, store, sizes = {}, {}, set()
        body = []                                    # (kind, payload)
        vids, nv = {}, 0
        last_of = {}
        for i, e in enumerate(es):                   # extent of a call: up to the last memory-eviction event of its goroutine before that goroutine's next Call
            if e["ev"] in ("MeLock", "MeEvict", "MeFin"):
                last_of[e["g"]] = i
            if e["ev"] == "Call":
                last_of.pop(e["g"], None)
        ext = {}
        nxt = {}
        for i in range(len(es) - 1, -1, -1):
            e = es[i]
            g = e.get("g")
            if e["ev"] in ("MeLock", "MeEvict", "MeFin") and g not in nxt:
                nxt[g] = i
            if e["ev"] == "Ret":
                ext[i] = nxt.get(g, i)
            if e["ev"] == "Call":
                nxt.pop(g, None)
        def key_of(e):
            kk = (e["doc"], e["ver"])
            if kk not in keys:
                keys[kk] = "k%d" % (len(keys) + 1)
            return keys[kk]
        cur = {}                                     # g -> call record
        end_at = {}                                  # index -> [call]
        for i, e in enumerate(es):
            ev, g = e["ev"], e.get("g")
            if ev == "Call":
                if not free:
                    why = why or "more than %d concurrent calls" % OWN_MAX_THREADS
                    free.append("t0")
                c = {"t": free.pop(), "op": e["op"], "k": None, "c": "nil", "f": "ok", "n": 0, "begin": len(body)}
                if e["op"] != "GetActive":
                    c["k"] = key_of(e)
                cur[g] = c
                body.append(("B", c))
                continue
            if ev == "Ret":
                c = cur.get(g)
                if c is not None:
                    end_at.setdefault(ext[i], []).append((g, c))
            else:
                c = cur.get(g)
                if c is None:
                    why = why or "events outside any API call (the test calls internal functions of the cache directly)"
                    c = {"t": "t1", "k": "k1"}
                else:
                    c["n"] += 1
                if ev == "CapEvict":
                    pass
                else:
                    if ev == "UpsertToCache" or (ev == "GetValue" and not e["hit"]):
                        nv += 1
                        vids[e["vid"]] = nv
                    if ev == "GetValue" and c.get("k") is None:
                        c["k"] = key_of(e)
                    if ev == "SBytes":
                        c["c"] = "b%d" % e["bytes"]
                        sizes.add(e["bytes"])
                    if ev == "Load" and not e["hit"]:
                        if e["err"]:
                            c["f"] = "fd"
                        else:
                            sizes.add(e["bytes"])
                            tok = "b%d" % e["bytes"]
                            if store.get(c["k"]) not in (None, tok):
                                body.insert(c["begin"], ("U", {"a": "StoreUpdate", "d": c["k"], "c": tok}))
                                for cc in cur.values():
                                    if cc.get("begin", -1) >= c["begin"] and cc is not c:
                                        cc["begin"] += 1
                            store.setdefault(c["k"], tok)
                            if store[c["k"]] != tok:
                                store[c["k"]] = tok
                    body.append(("S", step_line(e, c["t"], c.get("k"), vids.get(e.get("vid"), 0))))
                    st["events"] += 1
            for g2, c2 in end_at.pop(i, []):
                body.append(("E", c2))
                free.append(c2["t"])
                if cur.get(g2) is c2:
                    del cur[g2]
        for g2, c2 in list(cur.items()):             # calls still open at the end of the instance
            body.append(("E", c2))
        nthreads = len({c["t"] for k_, c in body if k_ == "B"})
        if len(keys) > OWN_MAX_KEYS:
            why = why or "more than %d keys" % OWN_MAX_KEYS
        if min(capv, max(len(keys), 1)) + nthreads + 2 > OWN_POOL:
            why = why or "more live values than the id pool"
        reset = {"a": "Reset", "beh": o, "mode": "step", "cap": min(capv, 1 << 30), "maxBytes": mb, "cmpItems": not overl,
                 "store": {"k%d" % i: "missing" for i in range(1, OWN_MAX_KEYS + 1)},
                 "csz": [["b%d" % b, b] for b in sorted(sizes)] or [["b0", 0]]}
        for kname, tok in store.items():
            reset["store"][kname] = tok
        if len(mc_users.get(x.get("mc"), {o})) > 1:
            why = why or "memory controller shared with another cache"
        plines.append(reset)
        plines += [u for kind, u in body if kind == "S"]
        if why:
            st["scalar_only"][why] = st["scalar_only"].get(why, 0) + 1
            continue
        if any(kind == "U" for kind, u in body):
            st["scalar_only"]["bucket content of a key changes during the test"] = st["scalar_only"].get("bucket content of a key changes during the test", 0) + 1
            continue
        st["replayed_instances"] += 1
        clines.append(reset)
        anykey = next(iter(keys.values()), "k1")
        for kind, u in body:
            if kind == "S":
                clines.append(u)
                st["replayed_events"] += 1
            elif kind == "B":
                if u["n"] == 0 and u["op"] != "GetActive":
                    u["skip"] = True                 # rejected before touching the cache (empty doc id, invalid revision)
                    continue
                clines.append({"a": "Begin", "t": u["t"], "op": u["op"], "k": u["k"] or anykey, "c": u["c"],
                               "f": "fd" if (u["op"] == "GetActive" and u["n"] == 0) else u["f"]})
            elif kind == "E" and not u.get("skip"):
                clines.append({"a": "End", "t": u["t"], "op": u["op"], "k": u["k"] or anykey, "c": "nil", "err": False, "gd": 0, "gr": 0, "nf": True})
    return plines, clines, st


def existing_tests(ctx):
    """the repository's own revision cache tests, unmodified, with -tags verif: hook H3 -> $VERIF_HOOK_TRACE -> the same specification"""
    import subprocess
    hook = os.path.join(ctx.scratch, "c16-own-hook.ndjson")
    e = go_env()
    e["VERIF_HOOK_TRACE"] = hook
    p = subprocess.run(["go", "test", "-tags", "verif", "-vet=off", "-count=1", "-timeout", "30m", "-run", OWN_TESTS, "./db"],
                       cwd=REPO, env=e, stdout=subprocess.PIPE, stderr=subprocess.STDOUT, text=True, errors="replace")
    ctx.cov["go_runs"].append({"pkg": "db", "run": "own revision cache tests with hooks on", "rc": p.returncode})
    if not os.path.exists(hook):
        ctx.notes.append("own-tests run produced no hook trace (rc=%d)" % p.returncode)
        return
    plines, clines, st = convert_own(read_ndjson(hook))
    st["go_test_rc"] = p.returncode
    ctx.cov["own_tests"] = st
    log("  own revision cache tests with hooks on: rc=%d, %d cache instances, %d events; replayed by the model: %d instances, %d events" % (
        p.returncode, st["instances"], st["events"], st["replayed_instances"], st["replayed_events"]))
    ctx.cov["evaluations"] += st["instances"]
    fp = os.path.join(ctx.scratch, "c16-own-p.ndjson")
    write_ndjson(fp, plines)
    vp = validate(ctx, SPEC, "Trace_RevCacheH", "Trace_RevCacheH_own_P.cfg", fp, timeout=3600)
    if vp.inv:
        idx, reset, part = _beh_at(plines, vp.line)
        report_violation(ctx, "own-tests:%s" % vp.inv, "repository test run: revision cache breaks %s at recorded step %s (cache instance %s)" % (vp.inv, vp.line, idx),
                         {"invariant": vp.inv, "steps": plines[max(0, (vp.line or 1) - 10):(vp.line or 1)], "state": (vp.state or {}).get("_txt")})
        return
    if not vp.accepted:
        raise Inconclusive("own tests: pass P stopped at line %s of %s\n%s" % (vp.line, vp.total, vp.out[-1500:]))
    if clines:
        fc = os.path.join(ctx.scratch, "c16-own-c.ndjson")
        write_ndjson(fc, clines)
        vc = validate(ctx, SPEC, "Trace_RevCacheH", "Trace_RevCacheH_own_C.cfg", fc, timeout=3600)
        if vc.inv or not vc.accepted:
            ctx.cov["nonconformance"] += 1
            idx, reset, part = _beh_at(clines, (vc.line or 1) + 1)
            ctx.notes.append("own tests: step-level pass C rejected at line %s (%s): instance %s, line %s" % (
                vc.line, vc.inv, idx, clines[vc.line - 1] if vc.line and vc.line <= len(clines) else None))
            return
    ctx.cov["traces_validated_against_impl"] += st["instances"]


def conc(ctx, tr):
    raw = read_ndjson(tr)
    step, plain, st = convert_steps(raw)
    rows = step + plain
    runs = sum(1 for r in rows if r["a"] == "Reset")
    snaps = [r for r in rows if r["a"] == "Quiesce"]
    ctx.cov["evaluations"] += runs
    ctx.cov["conc_runs"] = runs
    ctx.cov["conc_step_level"] = st
    ctx.cov["conc_calls"] = sum(1 for r in rows if r["a"] == "End")
    ctx.cov["conc_quiescent_snapshots"] = len(snaps)
    ctx.cov["conc_nonempty_snapshots"] = sum(1 for r in snaps if r["S"]["lru"])
    ctx.cov["distinct_nontrivial"] += ctx.cov["conc_nonempty_snapshots"]
    ctx.sample({"concurrent_run_config": _strip(rows[0]), "first_steps": [r for r in step[:40] if r["a"] == "Step"][:6],
                "quiescent_snapshot": next((r["S"] for r in snaps if r["S"]["lru"]), None)})
    log("  concurrent driver: %d step-level runs (%d recorded steps), %d snapshot-level runs" % (st["step_runs"], st["events"], st["plain_runs"]))
    ok = True
    if plain:
        ok &= _conc_pass_p(ctx, plain, "Trace_RevCache", "Trace_RevCache_PS.cfg", "Trace_RevCache_PS2.cfg", "conc")
    if step:
        ok &= _conc_pass_p(ctx, step, "Trace_RevCacheH", "Trace_RevCacheH_P.cfg", "Trace_RevCacheH_P2.cfg", "step")
        if ok:
            f = os.path.join(ctx.scratch, "c16-step.ndjson")
            vc = validate(ctx, SPEC, "Trace_RevCacheH", "Trace_RevCacheH_C.cfg", f, timeout=3600)
            if vc.inv or not vc.accepted:
                ctx.cov["nonconformance"] += 1
                idx, reset, part = _beh_at(step, (vc.line or 1) + 1)
                ctx.notes.append("step-level pass C rejected at line %s (%s): run %s, line %s" % (
                    vc.line, vc.inv, idx, step[vc.line - 1] if vc.line and vc.line <= len(step) else None))
                ok = False
    if ok:
        ctx.cov["traces_validated_against_impl"] += runs


def _conc_pass_p(ctx, rows, module, cfg, cfg2, label):
    f = os.path.join(ctx.scratch, "c16-%s.ndjson" % label)
    write_ndjson(f, rows)
    vp = validate(ctx, SPEC, module, cfg, f, timeout=3600)      # strict: no deviation is reachable in this environment
    if vp.inv == "NoTornPeek":
        # timing dependent (Peek reads the value without its lock): reported under a fixed key, then the whole trace is
        # validated again without this one classification so that nothing else goes unjudged
        _violation(ctx, "concurrent driver: %s" % TORN_PEEK_WHAT, vp, rows, key=TORN_PEEK_KEY)
        ctx.cov["torn_peek_seen"] = True
        vp = validate(ctx, SPEC, module, cfg2, f, timeout=3600)
    if vp.inv:
        _violation(ctx, "concurrent driver (%s)" % ("recorded step" if label == "step" else "quiescent snapshot"), vp, rows)
        return False
    if not vp.accepted:
        raise Inconclusive("pass P (concurrent, %s) stopped at line %s of %s\n%s" % (label, vp.line, vp.total, vp.out[-1500:]))
    return True


def candidate(ctx, key, tr, what):
    rows = read_ndjson(tr)
    ctx.cov["evaluations"] += 1
    vp = validate(ctx, SPEC, "Trace_RevCache", "Trace_RevCache_PS.cfg", tr, timeout=900)
    name = key.split(":")[0]
    if vp.inv:
        _violation(ctx, "candidate '%s' (%s)" % (name, what), vp, rows, key=key)
        ctx.cov.setdefault("candidates", {})[name] = "reproduced on the real code: %s violated" % vp.inv
    elif vp.accepted:
        ctx.cov.setdefault("candidates", {})[name] = "not reproduced (real code kept the strict invariants)"
        ctx.notes.append("named deviation '%s' of specs/RevCache did not reproduce on this tree: the model is more pessimistic than the code there" % name)
    else:
        raise Inconclusive("candidate %s: pass P stopped at line %s\n%s" % (name, vp.line, vp.out[-1200:]))


def schedule(ctx, key, tr):
    rows = read_ndjson(tr)
    n = sum(1 for r in rows if r["a"] == "Reset")
    ctx.cov["evaluations"] += n
    vp = validate(ctx, SPEC, "Trace_RevCache", "Trace_RevCache_PS.cfg", tr, timeout=900)
    if vp.inv:
        idx, reset, part = _beh_at(rows, vp.line)
        _violation(ctx, "forced schedule %s" % key.split(":")[0], vp, rows,
                   key="%s [%s, %s]" % (key, reset.get("impl") if reset else "?", vp.inv))
    elif not vp.accepted:
        raise Inconclusive("schedule %s: pass P stopped at line %s\n%s" % (key, vp.line, vp.out[-1200:]))
    else:
        ctx.cov["traces_validated_against_impl"] += n
        ctx.cov.setdefault("forced_schedules", {})[key] = "%d runs (key kinds x LRU/orchestrator) accepted by strict pass P" % n


def _strip(r):
    r = dict(r)
    r.pop("desc", None)
    return r
