"""C01 - changes feed returns exactly the changes visible to the requester (DESIGN 4.1).

(a) ChannelCache: one channel's cache against its ground truth (component level, real singleChannelCacheImpl)
(b) Changes:      the multi-channel feed on real databases in four cache configurations (system level)
(c) Listener:     wake-up of waiting feeds - liveness of the model under fairness (TLC only)
"""
import json
import os
from vlib.core import *

SPEC_A = os.path.join(VERIF, "specs", "ChannelCache")
SPEC_B = os.path.join(VERIF, "specs", "Changes")
SPEC_C = os.path.join(VERIF, "specs", "Listener")
# TLC runs here are small and many; on a shared machine the default GC/JIT thread counts cost more than they give
JOPT = {"JAVA_TOOL_OPTIONS": "-XX:ParallelGCThreads=2 -XX:CICompilerCount=2"}


def run(ctx):
    part_a(ctx)
    part_b(ctx)
    part_c(ctx)
    ctx.cov["exhaustive"] = True
    ctx.cov["rule"] = (
        "(a) behaviours = every action sequence of length %d (add / write-later+deliver / prune-by-age / purge / re-create / query-backed read) "
        "over 3 documents, 6 sequences, cache length 1..3, plus seeded TLC simulations of length 12 (cache length 1..3, min length 0..1, 2 writes "
        "in flight, reads split at the query with up to 2 interleaved actions); every distinct real cache state visited is probed with every read "
        "(since x limit 0..2 x active_only) on a copy; non-trivial = the real cache's validity point moved or a late entry was delivered. "
        "(b) behaviours = seeded TLC simulations of 6 writes (put / channel move / delete / resurrect / losing and winning conflicting revision) over "
        "3 documents x 3 channels, grouped in epochs on four databases (warm, flushed+cleared, cache length 1, channel-count limit 1); after every "
        "write seeded request groups (requester incl. admin x requested channels incl. wildcard x active_only): answer from 0, from later plain and "
        "compound positions with limits, page-through chains resumed from last_seq strings; non-trivial = a response carried a removal or deletion row"
        % (4 if ctx.quick() else 5))
    ctx.assumptions += [
        "(a) the channel query handler is the environment and answers from the same truth the oracle uses (N1QL semantics: active_only filters, then limit)",
        "(a) a write that changes the channel's rows is always handed to the cache (immediately or late, in any order) unless older than validFrom; a purge never "
        "races a write of the same document or a query backfill (see specs/ChannelCache/NOTES.md for the purge/backfill race the model shows)",
        "(b) grants are static and predate every document (dynamic grants / revocation: C13); the feed is read in a quiescent system (cache caught up) - "
        "the racing, continuous case is covered by the Listener model only",
        "(b) Rosmar's view query is the bucket; sequences enter only through comparison so small real sequence numbers are used as they are",
    ]


# ------------------------------------------------------------------------------------------------------------
# (a) ChannelCache
# ------------------------------------------------------------------------------------------------------------
def part_a(ctx):
    q = ctx.quick()
    model_check(ctx, SPEC_A, "MC_ChannelCache", "MC_ChannelCache.cfg" if q else "MC_ChannelCache_thorough.cfg", timeout=1500 if q else 7000, env=JOPT)
    behs = behaviours(ctx, SPEC_A, "MC_ChannelCache", "Beh_ChannelCache.cfg" if q else "Beh_ChannelCache_thorough.cfg", timeout=3000, env=JOPT)
    behs += behaviours(ctx, SPEC_A, "MC_ChannelCache", "Sim_ChannelCache.cfg", num=60 if q else 1200, depth=14, timeout=3000, env=JOPT)
    # shared prefixes are executed and logged once (Trace_ChannelCache: Back)
    behs.sort(key=lambda b: (b["mx"], b["mn"], json.dumps(b["steps"], sort_keys=True)))
    bf = os.path.join(ctx.scratch, "c01a-beh.json")
    tr = os.path.join(ctx.scratch, "c01a.ndjson")
    write_json(bf, behs)
    rc, out = go_test(ctx, "db", "^TestVerif_C01_ChannelCache$", ["harness/db/c01_channelcache_test.go"],
                      env={"VERIF_BEH": bf, "VERIF_TRACE_OUT": tr})
    if rc != 0 or not os.path.exists(tr):
        raise Inconclusive("C01 channel cache harness failed:\n" + harness_failure(out))
    rows = read_ndjson(tr)
    ctx.cov["evaluations"] += len(behs)
    nontriv, cur, probes, reads = set(), None, 0, 0
    for r in rows:
        if r["a"] in ("Reset", "Back"):
            cur = r["beh"]
        elif r["a"] == "Probe":
            probes += 1
            reads += len(r["results"])
        elif r.get("vf", 1) != 1 or r["a"] == "Deliver":
            nontriv.add(cur)
    ctx.cov["distinct_nontrivial"] += len(nontriv)
    ctx.cov["c01_channelcache"] = {"behaviours": len(behs), "trace_lines": len(rows), "distinct_states_probed": probes, "probe_reads": reads}
    ctx.sample({"part": "a", "behaviour": behs[len(behs) // 2], "real_trace_line": next((r for r in rows if r["a"] == "Read"), rows[1])})
    vp = validate(ctx, SPEC_A, "Trace_ChannelCache", "Trace_ChannelCache_P.cfg", tr, timeout=3000 if q else 12000, env=JOPT)
    if vp.inv:
        line = max(1, (vp.line or 2) - 1)
        beh_idx = locate(rows, line)
        beh = behs[beh_idx] if beh_idx is not None else None
        fail = rows[line - 1]
        key = "a:%s:%s:%s" % (vp.inv, json.dumps(beh, sort_keys=True), fail["a"])
        report_violation(ctx, key, "real singleChannelCacheImpl breaks %s at trace line %d (behaviour %s, after %s)" % (vp.inv, line, beh_idx, fail["a"]),
                         {"part": "ChannelCache", "behaviour": beh, "invariant": vp.inv, "failing_line": trim(fail), "state": (vp.state or {}).get("_txt")})
        return
    if not vp.accepted:
        raise Inconclusive("C01(a) pass P stopped at line %s of %s (trace shape not accepted)\n%s" % (vp.line, vp.total, vp.out[-1500:]))
    vc = validate(ctx, SPEC_A, "Trace_ChannelCache", "Trace_ChannelCache_C.cfg", tr, timeout=3000 if q else 12000, env=JOPT)
    if vc.inv or not vc.accepted:
        ctx.cov["nonconformance"] += 1
        ln = vc.line if not vc.inv else max(1, (vc.line or 2) - 1)
        ctx.notes.append("C01(a) pass C rejected at line %s (%s): %s" % (ln, vc.inv, trim(rows[ln - 1]) if ln and ln <= len(rows) else None))
    else:
        ctx.cov["traces_validated_against_impl"] += len(behs)


def locate(rows, line):
    idx = None
    for r in rows[:line]:
        if r["a"] in ("Reset", "Back", "Begin"):
            idx = r.get("beh", idx)
    return idx


def trim(r):
    s = json.dumps(r, sort_keys=True)
    return s if len(s) < 1500 else s[:1500] + "..."


# ------------------------------------------------------------------------------------------------------------
# (b) Changes
# ------------------------------------------------------------------------------------------------------------
def part_b(ctx):
    q = ctx.quick()
    model_check(ctx, SPEC_B, "MC_Changes", "MC_Changes.cfg" if q else "MC_Changes_thorough.cfg", timeout=1500 if q else 7000, env=JOPT)
    behs = behaviours(ctx, SPEC_B, "MC_Changes", "Beh_Changes.cfg", timeout=1500, env=JOPT)        # every 2-write history of one document
    sims = behaviours(ctx, SPEC_B, "MC_Changes", "Sim_Changes.cfg", num=18 if q else 250, depth=10, timeout=1500, env=JOPT)
    # TLC's simulator also prints the siblings of the last step: keep two per simulated history
    seen = {}
    for b in sims:
        k = json.dumps([b["grants"], b["steps"][:-1]], sort_keys=True)
        seen[k] = seen.get(k, 0) + 1
        if seen[k] <= 2:
            behs.append(b)
    behs.sort(key=lambda b: json.dumps(b["grants"], sort_keys=True))   # an epoch (one set of databases) has one grant assignment
    bf = os.path.join(ctx.scratch, "c01b-beh.json")
    tr = os.path.join(ctx.scratch, "c01b.ndjson")
    write_json(bf, behs)
    rc, out = go_test(ctx, "db", "^TestVerif_C01_Changes$", ["harness/db/c01_changes_test.go"],
                      env={"VERIF_BEH": bf, "VERIF_TRACE_OUT": tr, "VERIF_C01_MID_GROUPS": 3 if q else 6, "VERIF_C01_FINAL_GROUPS": 10 if q else 30,
                           "VERIF_C01_EPOCH": 8})
    if rc != 0 or not os.path.exists(tr):
        raise Inconclusive("C01 changes harness failed:\n" + harness_failure(out))
    rows = read_ndjson(tr)
    ctx.cov["evaluations"] += len(behs)
    nontriv, cur, nreq, nrows, nrem, ncompound, diff = set(), None, 0, 0, 0, 0, 0
    for r in rows:
        if r["a"] == "Begin":
            cur = r["beh"]
        elif r["a"] in ("Base", "Since", "Pages"):
            nreq += 1
            ncompound += 1 if "::" in r.get("since", "") else 0
            diff += sum(1 for x in r["resp"][1:] if not x["eq"])
            first = r["resp"][0]
            for lst in ([first["rows"]] if "rows" in first else [p["rows"] for p in first["pages"]]):
                for x in lst:
                    nrows += 1
                    if x["removed"] or x["del"]:
                        nrem += 1
                        nontriv.add(cur)
    ctx.cov["distinct_nontrivial"] += len(nontriv)
    ctx.cov["c01_changes"] = {"behaviours": len(behs), "trace_lines": len(rows), "request_lines_x4_configurations": nreq, "rows_in_first_configuration": nrows,
                              "removal_or_deletion_rows": nrem, "compound_since_tokens": ncompound, "configuration_payloads_differing": diff}
    ctx.sample({"part": "b", "behaviour": behs[len(behs) // 2],
                "real_response": next((trim(r) for r in rows if r["a"] == "Base" and r["resp"][0]["rows"]), None)})
    vp = validate(ctx, SPEC_B, "Trace_Changes", "Trace_Changes_P.cfg", tr, timeout=3000 if q else 12000, env=JOPT)
    if vp.inv:
        line = max(1, (vp.line or 2) - 1)
        fail = rows[line - 1]
        history = epoch_history(rows, line)
        reqkey = {k: fail.get(k) for k in ("a", "u", "req", "ao", "since", "lim", "k")}
        key = "b:%s:%s:%s" % (vp.inv, json.dumps(history, sort_keys=True), json.dumps(reqkey, sort_keys=True))
        report_violation(ctx, key, "real changes feed breaks %s at trace line %d: request %s after %d writes" % (vp.inv, line, json.dumps(reqkey, sort_keys=True), len(history["writes"])),
                         {"part": "Changes", "history": history, "request": reqkey, "invariant": vp.inv, "failing_line": trim(fail),
                          "admin_view": last_view(rows, line), "state": (vp.state or {}).get("_txt", [])[:60]})
        return
    if not vp.accepted:
        raise Inconclusive("C01(b) pass P stopped at line %s of %s (trace shape not accepted)\n%s" % (vp.line, vp.total, vp.out[-1500:]))
    vc = validate(ctx, SPEC_B, "Trace_Changes", "Trace_Changes_C.cfg", tr, timeout=3000 if q else 12000, env=JOPT)
    if vc.inv or not vc.accepted:
        ctx.cov["nonconformance"] += 1
        ln = vc.line if not vc.inv else max(1, (vc.line or 2) - 1)
        ctx.notes.append("C01(b) pass C rejected at line %s (%s): %s" % (ln, vc.inv, trim(rows[ln - 1]) if ln and ln <= len(rows) else None))
    else:
        ctx.cov["traces_validated_against_impl"] += len(behs)


def epoch_history(rows, line):
    """grants and writes of the epoch up to the failing line (this is the input that identifies the failure)"""
    grants, writes = None, []
    for r in rows[:line]:
        if r["a"] == "Reset":
            grants, writes = r["grants"], []
        elif r["a"] == "Write":
            writes.append([r["op"], r["doc"].split("_")[0] + "#" + r["doc"].split("_")[-1], r["chans"]])
    # document names carry the behaviour index; renumber them by first use so that the key is stable across runs
    ren = {}
    for w in writes:
        w[1] = ren.setdefault(w[1], "d%d" % (len(ren) + 1))
    return {"grants": grants, "writes": writes}


def last_view(rows, line):
    for r in reversed(rows[:line]):
        if r["a"] == "Write":
            return r["views"][0]
    return None


# ------------------------------------------------------------------------------------------------------------
# (c) Listener: liveness of the wake-up model (no binding in this round)
# ------------------------------------------------------------------------------------------------------------
def part_c(ctx):
    if not os.path.isdir(SPEC_C):
        return
    r = tlc(ctx, SPEC_C, "MC_Listener", "MC_Listener.cfg", timeout=900, env=JOPT, allow_violation=True)
    if r.inv_violated or r.error_text:
        raise Inconclusive("Listener model: %s\n%s" % (r.inv_violated or r.error_text, r.out[-1200:]))
    ctx.cov["states"] += r.distinct
    ctx.cov["transitions"] += r.generated
    log("  TLC %-28s %-22s %9d distinct %10d generated (safety + liveness under fairness)  %.1fs" % ("MC_Listener", "MC_Listener.cfg", r.distinct, r.generated, r.wall))
    ctx.notes.append("Listener: liveness (every notification of a watched key leads to the waiter running) checked by TLC on the model under weak fairness of "
                     "the broadcast tick and the waiter; not bound to the implementation in this round")
