"""C01 - changes feed returns exactly the changes visible to the requester (DESIGN 4.1).

(a) ChannelCache: one channel's cache against its ground truth (component level, real singleChannelCacheImpl)
(b) Changes:      the multi-channel feed on real databases in four cache configurations (system level)
(c) Listener:     wake-up of waiting feeds - liveness of the model under fairness (TLC), and continuous feeds racing with
                  writers on a real database (eventual delivery judged by TLC on the recorded rows, reproduce-twice rule)
"""
import json
import os
from vlib.core import *

SPEC_A = os.path.join(VERIF, "specs", "ChannelCache")
SPEC_B = os.path.join(VERIF, "specs", "Changes")
SPEC_C = os.path.join(VERIF, "specs", "Listener")
DEV_NO_MC = bool(os.environ.get("VERIF_C01_DEV_NO_MC"))   # development aid (mutation runs): skip the exhaustive model checks
HARNESS = ["harness/db/c01_channelcache_test.go", "harness/db/c01_changes_test.go"]
# TLC runs here are small and many; on a shared machine the default GC/JIT thread counts cost more than they give
JOPT = {"JAVA_TOOL_OPTIONS": "-XX:ParallelGCThreads=2 -XX:CICompilerCount=2"}


# -- local variants of core.model_check / core.behaviours / core.validate that take a unique tag, so that independent TLC
# -- runs (separate JVMs, separate scratch directories) can run side by side; at most POOL at a time
POOL = max(1, min(4, int(os.environ.get("VERIF_TLC_WORKERS") or 4)))


def mc(ctx, spec_dir, module, cfg, tag, timeout=900):
    r = tlc(ctx, spec_dir, module, cfg, timeout=timeout, coverage=False, env=JOPT, workers=max(1, NCPU // POOL), tag=tag)
    if r.inv_violated:
        raise Inconclusive("model counterexample in %s/%s: %s violated (candidate only; not reproduced on real code)\n%s"
                           % (module, cfg, r.inv_violated, "\n".join("\n".join(x["_txt"]) for x in r.error_trace[-3:])))
    if r.distinct == 0:
        raise Inconclusive("TLC reported no states for %s/%s\n%s" % (module, cfg, r.out[-800:]))
    ctx.cov["states"] += r.distinct
    ctx.cov["transitions"] += r.generated
    log("  TLC %-28s %-30s %9d distinct %10d generated depth %3d  %.1fs" % (module, cfg, r.distinct, r.generated, r.depth, r.wall))
    return r


def beh(ctx, spec_dir, module, cfg, tag, num=None, depth=None, timeout=3000, env=None):
    e = dict(JOPT, **(env or {}))
    if num is None:
        r = tlc(ctx, spec_dir, module, cfg, timeout=timeout, env=e, workers=1, tag=tag)
    else:
        r = tlc(ctx, spec_dir, module, cfg, mode="simulate", simulate=num, depth=depth, timeout=timeout, env=e, tag=tag)
    if r.inv_violated:
        raise Inconclusive("behaviour generation %s/%s violated %s" % (module, cfg, r.inv_violated))
    res, seen = [], set()
    for t, txt in r.printed:
        if t == "BEH":
            js = json.loads(txt)
            if js not in seen:
                seen.add(js)
                res.append(json.loads(js))
    if not res:
        raise Inconclusive("no behaviours exported by %s/%s\n%s" % (module, cfg, r.out[-800:]))
    log("  TLC %-28s %-30s exported %d distinct behaviours  %.1fs" % (module, cfg, len(res), r.wall))
    return res


def parallel(jobs):
    """jobs: {name: thunk}; returns {name: result}; the first exception (Inconclusive included) is re-raised"""
    from concurrent.futures import ThreadPoolExecutor
    with ThreadPoolExecutor(max_workers=POOL) as ex:
        futs = {k: ex.submit(f) for k, f in jobs.items()}
        return {k: f.result() for k, f in futs.items()}


def run(ctx):
    q = ctx.quick()
    jobs = {}
    if not DEV_NO_MC:
        jobs["mcA"] = lambda: mc(ctx, SPEC_A, "MC_ChannelCache", "MC_ChannelCache.cfg" if q else "MC_ChannelCache_thorough.cfg", "mcA", 1500 if q else 7000)
        jobs["mcB"] = lambda: mc(ctx, SPEC_B, "MC_Changes", "MC_Changes.cfg" if q else "MC_Changes_thorough.cfg", "mcB", 1500 if q else 7000)
        jobs["mcC"] = lambda: part_c(ctx)
    if q:
        # every behaviour of length 4 (full alphabet, cache length 1..3) and every behaviour of length 5 over the core alphabet
        # (add / write-later / deliver / prune-by-age / query-backed read, 2 documents) for one cache length chosen by the seed
        jobs["behA1"] = lambda: beh(ctx, SPEC_A, "MC_ChannelCache", "Beh_ChannelCache.cfg", "behA1")
        jobs["behA2"] = lambda: beh(ctx, SPEC_A, "MC_ChannelCache", "Beh_ChannelCache_deep.cfg", "behA2", env={"VERIF_C01_MAXLEN": str(1 + ctx.seed % 2)})
    else:
        jobs["behA1"] = lambda: beh(ctx, SPEC_A, "MC_ChannelCache", "Beh_ChannelCache_thorough.cfg", "behA1", timeout=6000)
    # named deviation (specs/ChannelCache/NOTES.md): a purge landing between the backfill query and its prepend.  The model check
    # is expected to give the counterexample; the behaviours of the small instance are replayed on the real cache.
    jobs["mcR"] = lambda: tlc(ctx, SPEC_A, "MC_ChannelCache", "MC_ChannelCache_purgerace.cfg", timeout=900, env=JOPT, workers=2, tag="mcR", allow_violation=True)
    jobs["behR"] = lambda: beh(ctx, SPEC_A, "MC_ChannelCache", "Beh_ChannelCache_purgerace.cfg", "behR")
    jobs["simA"] = lambda: beh(ctx, SPEC_A, "MC_ChannelCache", "Sim_ChannelCache.cfg", "simA", num=150 if q else 3000, depth=14)
    jobs["behB"] = lambda: beh(ctx, SPEC_B, "MC_Changes", "Beh_Changes.cfg", "behB")        # every 2-write history of one document
    # ... and every 3-write history of one document over put {A} / put {A,B} / delete (create, move, delete, resurrect)
    jobs["behB3"] = lambda: beh(ctx, SPEC_B, "MC_Changes", "Beh_Changes3.cfg", "behB3")
    # ... and every put followed by a put / delete / coalesced pair of updates (the first mutation of the pair never reaches the
    # change cache: feed de-duplication; the cache learns that sequence from recent_sequences)
    jobs["behBC"] = lambda: beh(ctx, SPEC_B, "MC_Changes", "Beh_ChangesCoal.cfg", "behBC")
    jobs["simB"] = lambda: beh(ctx, SPEC_B, "MC_Changes", "Sim_Changes.cfg", "simB", num=10 if q else 200, depth=10)
    res = parallel(jobs)
    a = gen_a(ctx, res["behA1"] + res.get("behA2", []) + res["simA"])
    ctx.notes.append("purge-race model (PurgeRace = TRUE): " + ("TLC gives the counterexample to PurgedNotServedAll (expected; named deviation)"
                     if res["mcR"].inv_violated == "PurgedNotServedAll" else "NO counterexample (%s) - the deviation note is stale" % (res["mcR"].inv_violated or res["mcR"].error_text)))
    behr = sorted(res["behR"], key=lambda b: (b["mx"], b["mn"], json.dumps(b["steps"], sort_keys=True)))
    rbf, rtr = os.path.join(ctx.scratch, "c01r-beh.json"), os.path.join(ctx.scratch, "c01r.ndjson")
    write_json(rbf, behr)
    renv = {"VERIF_BEH_R": rbf, "VERIF_TRACE_OUT_R": rtr}
    b = gen_b(ctx, res["behB"] + res["behB3"] + res["behBC"], res["simB"])
    # one go test invocation (one link of the db test binary) runs both harnesses
    ctr = os.path.join(ctx.scratch, "c01c.ndjson")
    cenv = {"VERIF_TRACE_OUT_C": ctr, "VERIF_C01_CONT_ROUNDS": 2 if ctx.quick() else 8,
            "VERIF_C01_LATE_ROUNDS": 1 if ctx.quick() else 4, "VERIF_C01_ROLE_ROUNDS": 1 if ctx.quick() else 3, "VERIF_C01_LATE_GROUPS": 3 if ctx.quick() else 6}
    rc, out = go_test(ctx, "db", "^TestVerif_C01_(ChannelCache|PurgeRace|Changes|Continuous)$", HARNESS, env=dict(a["env"], **b["env"], **cenv, **renv),
                      timeout=1800 if ctx.quick() else 7200)
    if rc != 0 or not os.path.exists(a["tr"]) or not os.path.exists(b["tr"]) or not os.path.exists(ctr) or not os.path.exists(rtr):
        raise Inconclusive("C01 harness failed:\n" + harness_failure(out))
    # the five trace validations are independent TLC runs
    vres = parallel({
        "aP": lambda: validate(ctx, SPEC_A, "Trace_ChannelCache", "Trace_ChannelCache_P.cfg", a["tr"], timeout=3000 if q else 12000, env=JOPT, tag="aP"),
        "aC": lambda: validate(ctx, SPEC_A, "Trace_ChannelCache", "Trace_ChannelCache_C.cfg", a["tr"], timeout=3000 if q else 12000, env=JOPT, tag="aC"),
        "bP": lambda: validate(ctx, SPEC_B, "Trace_Changes", "Trace_Changes_P.cfg", b["tr"], timeout=3000 if q else 12000, env=JOPT, tag="bP"),
        "bC": lambda: validate(ctx, SPEC_B, "Trace_Changes", "Trace_Changes_C.cfg", b["tr"], timeout=3000 if q else 12000, env=JOPT, tag="bC"),
        "cP": lambda: validate(ctx, SPEC_B, "Trace_Changes", "Trace_Changes_P.cfg", ctr, timeout=1500, env=JOPT, tag="cP"),
        "rP": lambda: validate(ctx, SPEC_A, "Trace_ChannelCache", "Trace_ChannelCache_PR.cfg", rtr, timeout=1500, env=JOPT, tag="rP"),
        "rC": lambda: validate(ctx, SPEC_A, "Trace_ChannelCache", "Trace_ChannelCache_CR.cfg", rtr, timeout=1500, env=JOPT, tag="rC"),
    })
    check_r(ctx, behr, rtr, vres["rP"], vres["rC"])
    check_a(ctx, a, vres["aP"], vres["aC"])
    check_b(ctx, b, vres["bP"], vres["bC"])
    check_c(ctx, ctr, cenv, vres["cP"])
    ctx.cov["exhaustive"] = True
    ctx.cov["rule"] = (
        "(a) behaviours = every action sequence of length %s (add / write-later+deliver / prune-by-age / purge / re-create / query-backed read) "
        "over 3 documents, 6 sequences, cache length 1..3, plus seeded TLC simulations of length 12 (cache length 1..3, min length 0..1, 2 writes "
        "in flight, reads split at the query with up to 2 interleaved actions); every distinct real cache state visited is probed with every read "
        "(since x limit 0..2 x active_only) on a copy; non-trivial = the real cache's validity point moved or a late entry was delivered. "
        "(b) behaviours = seeded TLC simulations of 6 writes (put / channel move / delete / resurrect / losing and winning conflicting revision) over "
        "3 documents x 3 channels, grouped in epochs on four databases (warm, flushed+cleared, cache length 1, channel-count limit 1); after every "
        "write seeded request groups (requester incl. admin x requested channels incl. wildcard x active_only): answer from 0, from later plain and "
        "compound positions with limits, page-through chains resumed from last_seq strings; non-trivial = a response carried a removal or deletion row"
        % ("4, and of length 5 over the core alphabet for one cache length picked by the seed" if ctx.quick() else "5"))
    ctx.assumptions += [
        "(a) the channel query handler is the environment and answers from the same truth the oracle uses (N1QL semantics: active_only filters, then limit)",
        "(a) a write that changes the channel's rows is always handed to the cache (immediately or late, in any order) unless older than validFrom; a purge never "
        "races a write of the same document or a query backfill (see specs/ChannelCache/NOTES.md for the purge/backfill race the model shows)",
        "(b) grants are static and predate every document (dynamic grants / revocation: C13); the feed is read in a quiescent system (cache caught up) - "
        "continuous feeds racing with writers are only required to deliver the final revision of every visible document once the writers stopped "
        "(listened to until 1.5 s of silence, bound 15 s); soundness/order of what they deliver while racing is not judged",
        "(b) Rosmar's view query is the bucket; sequences enter only through comparison so small real sequence numbers are used as they are",
    ]


# ------------------------------------------------------------------------------------------------------------
# (a) ChannelCache
# ------------------------------------------------------------------------------------------------------------
def gen_a(ctx, behs):
    hist = {}
    for b in behs:
        for s in b["steps"]:
            hist[s["a"]] = hist.get(s["a"], 0) + 1
    ctx.cov["c01_channelcache_action_histogram"] = hist
    # shared prefixes are executed and logged once (Trace_ChannelCache: Back)
    behs.sort(key=lambda b: (b["mx"], b["mn"], json.dumps(b["steps"], sort_keys=True)))
    bf = os.path.join(ctx.scratch, "c01a-beh.json")
    tr = os.path.join(ctx.scratch, "c01a.ndjson")
    write_json(bf, behs)
    return {"behs": behs, "tr": tr, "env": {"VERIF_BEH": bf, "VERIF_TRACE_OUT": tr}}


def check_a(ctx, a, vp, vc):
    behs, tr = a["behs"], a["tr"]
    rows = read_ndjson(tr)
    ctx.cov["evaluations"] += len(behs)
    nontriv, cur, probes, reads = set(), None, 0, 0
    for r in rows:
        if r["a"] in ("Reset", "Back"):
            cur = r["beh"]
        elif r["a"] == "Probe":
            probes += 1
            reads += len(r["results"])
        elif r.get("vf", 1) != 1 or r["a"] == "Deliver":
            nontriv.add(cur)
    ctx.cov["distinct_nontrivial"] += len(nontriv)
    ctx.cov["c01_channelcache"] = {"behaviours": len(behs), "trace_lines": len(rows), "distinct_states_probed": probes, "probe_reads": reads}
    ctx.sample({"part": "a", "behaviour": behs[len(behs) // 2], "real_trace_line": next((r for r in rows if r["a"] == "Read"), rows[1])})
    vlog("Trace_ChannelCache_P", vp, len(rows))
    if vp.inv:
        line = max(1, (vp.line or 2) - 1)
        beh_idx = locate(rows, line)
        beh = behs[beh_idx] if beh_idx is not None else None
        fail = rows[line - 1]
        key = "a:%s:%s:%s" % (vp.inv, json.dumps(beh, sort_keys=True), fail["a"])
        report_violation(ctx, key, "real singleChannelCacheImpl breaks %s at trace line %d (behaviour %s, after %s)" % (vp.inv, line, beh_idx, fail["a"]),
                         {"part": "ChannelCache", "behaviour": beh, "invariant": vp.inv, "failing_line": trim(fail), "state": (vp.state or {}).get("_txt", [])[:80]})
        return
    if not vp.accepted:
        raise Inconclusive("C01(a) pass P stopped at line %s of %s (trace shape not accepted)\n%s" % (vp.line, vp.total, vp.out[-1500:]))
    vlog("Trace_ChannelCache_C", vc, len(rows))
    if vc.inv or not vc.accepted:
        ctx.cov["nonconformance"] += 1
        ln = vc.line if not vc.inv else max(1, (vc.line or 2) - 1)
        ctx.notes.append("C01(a) pass C rejected at line %s (%s): %s" % (ln, vc.inv, trim(rows[ln - 1]) if ln and ln <= len(rows) else None))
    else:
        ctx.cov["traces_validated_against_impl"] += len(behs)


def vlog(name, v, n):
    log("  TLC %-28s validated %d/%d lines%s" % (name, v.consumed if not v.inv else max(0, (v.line or 1) - 1), n, (" violated " + v.inv) if v.inv else ""))


PURGE_KEY = "PurgedNotServed:purge-between-backfill-query-and-prepend"


def check_r(ctx, behs, tr, vp, vc):
    """purge-race family: only PurgedNotServed (on completed reads and on the probes), Asc, OnePerDoc, Complete are evaluated"""
    rows = read_ndjson(tr)
    ctx.cov["evaluations"] += len(behs)
    races = sum(1 for b in behs if any(s["a"] == "Purge" and any(x["a"] == "ReadBegin" for x in b["steps"][:i]) and
                                       not any(x["a"] == "ReadEnd" for x in b["steps"][:i]) for i, s in enumerate(b["steps"])))
    ctx.cov["c01_purge_race"] = {"behaviours": len(behs), "with_purge_inside_a_split_read": races, "trace_lines": len(rows)}
    ctx.cov["distinct_nontrivial"] += races
    vlog("Trace_ChannelCache_PR", vp, len(rows))
    if vp.inv:
        line = max(1, (vp.line or 2) - 1)
        beh_idx = locate(rows, line)
        beh = behs[beh_idx] if beh_idx is not None else None
        start = max(i for i, r in enumerate(rows[:line]) if r["a"] in ("Reset", "Back"))
        purge_race = vp.inv in ("PurgedNotServed", "ProbePurgedNotServed")
        key = PURGE_KEY if purge_race else "r:%s:%s" % (vp.inv, json.dumps(beh, sort_keys=True))
        what = ("a document purged between the backfill query of GetChanges and its prependChanges is re-inserted into the channel cache "
                "(validFrom lowered) and served by later reads" if purge_race else "real singleChannelCacheImpl breaks %s in the purge-race family" % vp.inv)
        report_violation(ctx, key, "%s [%s at trace line %d, behaviour %s]" % (what, vp.inv, line, beh_idx),
                         {"part": "ChannelCache purge race", "behaviour": beh, "invariant": vp.inv,
                          "real_trace": [trim(r) for r in rows[start:line]]})
        return
    if not vp.accepted:
        raise Inconclusive("C01 purge-race pass P stopped at line %s of %s\n%s" % (vp.line, vp.total, vp.out[-1500:]))
    ctx.notes.append("purge-race family: PurgedNotServed held on the real cache for every behaviour (the recorded finding no longer reproduces)")
    vlog("Trace_ChannelCache_CR", vc, len(rows))
    if vc.inv or not vc.accepted:
        ctx.cov["nonconformance"] += 1
        ctx.notes.append("C01 purge-race pass C rejected at line %s (%s)" % (vc.line, vc.inv))
    else:
        ctx.cov["traces_validated_against_impl"] += len(behs)


def locate(rows, line):
    idx = None
    for r in rows[:line]:
        if r["a"] in ("Reset", "Back", "Begin"):
            idx = r.get("beh", idx)
    return idx


def trim(r):
    s = json.dumps(r, sort_keys=True)
    return s if len(s) < 1500 else s[:1500] + "..."


# ------------------------------------------------------------------------------------------------------------
# (b) Changes
# ------------------------------------------------------------------------------------------------------------
def gen_b(ctx, behs, sims):
    q = ctx.quick()
    behs = list(behs)
    # TLC's simulator also prints the siblings of the last step: keep two per simulated history
    seen = {}
    for b in sims:
        k = json.dumps([b["grants"], b["steps"][:-1]], sort_keys=True)
        seen[k] = seen.get(k, 0) + 1
        if seen[k] <= 2:
            behs.append(b)
    hist = {}
    for b in behs:
        for s in b["steps"]:
            hist[s["a"]] = hist.get(s["a"], 0) + 1
    ctx.cov["c01_changes_action_histogram"] = hist
    behs.sort(key=lambda b: json.dumps(b["grants"], sort_keys=True))   # an epoch (one set of databases) has one grant assignment
    bf = os.path.join(ctx.scratch, "c01b-beh.json")
    tr = os.path.join(ctx.scratch, "c01b.ndjson")
    write_json(bf, behs)
    return {"behs": behs, "tr": tr, "env": {"VERIF_BEH_B": bf, "VERIF_TRACE_OUT_B": tr, "VERIF_C01_MID_GROUPS": 3 if q else 5,
                                            "VERIF_C01_FINAL_GROUPS": 10 if q else 24, "VERIF_C01_EPOCH": 8}}


def check_b(ctx, b, vp, vc):
    behs, tr = b["behs"], b["tr"]
    rows = read_ndjson(tr)
    ctx.cov["evaluations"] += len(behs)
    nontriv, cur, nreq, nrows, nrem, ncompound, diff = set(), None, 0, 0, 0, 0, 0
    for r in rows:
        if r["a"] == "Begin":
            cur = r["beh"]
        elif r["a"] in ("Base", "Since", "Pages"):
            nreq += 1
            ncompound += 1 if "::" in r.get("since", "") else 0
            diff += sum(1 for x in r["resp"][1:] if not x["eq"])
            first = r["resp"][0]
            for lst in ([first["rows"]] if "rows" in first else [p["rows"] for p in first["pages"]]):
                for x in lst:
                    nrows += 1
                    if x["removed"] or x["del"]:
                        nrem += 1
                        nontriv.add(cur)
    ctx.cov["distinct_nontrivial"] += len(nontriv)
    ctx.cov["c01_changes"] = {"behaviours": len(behs), "trace_lines": len(rows), "request_lines_x4_configurations": nreq, "rows_in_first_configuration": nrows,
                              "removal_or_deletion_rows": nrem, "compound_since_tokens": ncompound, "configuration_payloads_differing": diff}
    ctx.sample({"part": "b", "behaviour": behs[len(behs) // 2],
                "real_response": next((trim(r) for r in rows if r["a"] == "Base" and r["resp"][0]["rows"]), None)})
    vlog("Trace_Changes_P", vp, len(rows))
    if vp.inv:
        line = max(1, (vp.line or 2) - 1)
        fail = rows[line - 1]
        history = epoch_history(rows, line)
        reqkey = {k: fail.get(k) for k in ("a", "u", "req", "ao", "since", "lim", "k")}
        key = "b:%s:%s:%s" % (vp.inv, json.dumps(history, sort_keys=True), json.dumps(reqkey, sort_keys=True))
        report_violation(ctx, key, "real changes feed breaks %s at trace line %d: request %s after %d writes" % (vp.inv, line, json.dumps(reqkey, sort_keys=True), len(history["writes"])),
                         {"part": "Changes", "history": history, "request": reqkey, "invariant": vp.inv, "failing_line": trim(fail),
                          "admin_view": last_view(rows, line), "state": (vp.state or {}).get("_txt", [])[:60]})
        return
    if not vp.accepted:
        raise Inconclusive("C01(b) pass P stopped at line %s of %s (trace shape not accepted)\n%s" % (vp.line, vp.total, vp.out[-1500:]))
    vlog("Trace_Changes_C", vc, len(rows))
    if vc.inv or not vc.accepted:
        ctx.cov["nonconformance"] += 1
        ln = vc.line if not vc.inv else max(1, (vc.line or 2) - 1)
        ctx.notes.append("C01(b) pass C rejected at line %s (%s): %s" % (ln, vc.inv, trim(rows[ln - 1]) if ln and ln <= len(rows) else None))
    else:
        ctx.cov["traces_validated_against_impl"] += len(behs)


def epoch_history(rows, line):
    """grants and writes of the epoch up to the failing line (this is the input that identifies the failure)"""
    grants, writes = None, []
    for r in rows[:line]:
        if r["a"] == "Reset":
            grants, writes = r["grants"], []
        elif r["a"] == "Write":
            writes.append([r["op"], r["doc"].split("_")[0] + "#" + r["doc"].split("_")[-1], r["chans"]])
    # document names carry the behaviour index; renumber them by first use so that the key is stable across runs
    ren = {}
    for w in writes:
        w[1] = ren.setdefault(w[1], "d%d" % (len(ren) + 1))
    return {"grants": grants, "writes": writes}


def last_view(rows, line):
    for r in reversed(rows[:line]):
        if r["a"] == "Write":
            return r["views"][0]
    return None


# ------------------------------------------------------------------------------------------------------------
# (c) continuous feeds racing with writers (bounded-time delivery, reproduce-twice), and the Listener model
# ------------------------------------------------------------------------------------------------------------
def check_c(ctx, tr, cenv, vfirst):
    def one(path, tag, vp=None):
        rows = read_ndjson(path)
        vp = vp or validate(ctx, SPEC_B, "Trace_Changes", "Trace_Changes_P.cfg", path, timeout=1500, env=JOPT, tag=tag)
        vlog("Trace_Changes_P (continuous)", vp, len(rows))
        if not vp.inv and not vp.accepted:
            raise Inconclusive("C01(c) pass P stopped at line %s of %s\n%s" % (vp.line, vp.total, vp.out[-1500:]))
        return rows, vp
    rows, vp = one(tr, "contP", vfirst)
    feeds = [r for r in rows if r["a"] in ("Cont", "Late")]
    nrows = lambda r: sum(len(p["rows"]) for p in r["resp"][0]["pages"]) if r["a"] == "Late" else len(r["resp"][0]["rows"])
    late = [r for r in feeds if r["a"] == "Late"]
    ctx.cov["evaluations"] += len(feeds)
    ctx.cov["c01_continuous"] = {"feeds_racing_writers": len(feeds) - len(late), "feeds_over_late_arrivals": len(late),
                                 "rows_delivered": sum(nrows(r) for r in feeds), "first_run_missed": bool(vp.inv),
                                 "late_feed_iterations": sum(len(r["resp"][0]["pages"]) for r in late),
                                 "compound_tokens_delivered": sum(1 for r in late for p in r["resp"][0]["pages"] for x in p["rows"] if "::" in x["seq"])}

    def report(rows_, v, twice):
        line = max(1, (v.line or 2) - 1)
        fail = rows_[line - 1]
        scen = fail.get("scenario") or ("racing with writers" if fail["a"] == "Cont" else "over late-arriving sequences")
        key = "c:%s:%s:%s:%s:%s" % (fail["a"], v.inv, scen, fail.get("u"), json.dumps(fail.get("req")))
        what = ("(" + scen + ")") if fail.get("scenario") else scen
        report_violation(ctx, key, "continuous feed of %s on %s %s: %s%s" % (fail.get("u"), fail.get("req"), what, v.inv, " (in two independent runs)" if twice else ""),
                         {"part": "Continuous", "invariant": v.inv, "feed": {"u": fail.get("u"), "req": fail.get("req")},
                          "admin_view": last_view2(rows_, line), "delivered": trim(fail)})

    if vp.inv and vp.inv != "REventually":
        report(rows, vp, False)       # order / repetition / soundness of what was delivered: a fact about recorded output
    elif vp.inv:
        # a miss of the eventual delivery must reproduce: second, independent run
        tr2 = tr + ".2"
        rc, out = go_test(ctx, "db", "^TestVerif_C01_Continuous$", HARNESS, env=dict(cenv, VERIF_TRACE_OUT_C=tr2, VERIF_SEED=ctx.seed + 1000))
        if rc != 0 or not os.path.exists(tr2):
            raise Inconclusive("C01 continuous harness failed on the confirmation run:\n" + harness_failure(out))
        rows2, vp2 = one(tr2, "contP2")
        if vp2.inv:
            report(rows2, vp2, vp2.inv == "REventually")
        else:
            ctx.notes.append("C01(c): a continuous feed missed a final revision within the bound in one run and not in the confirmation run (not reported)")
    else:
        ctx.cov["traces_validated_against_impl"] += len(feeds)
        ctx.cov["distinct_nontrivial"] += sum(1 for r in feeds if nrows(r))


def last_view2(rows, line):
    for r in reversed(rows[:line]):
        if r["a"] == "View":
            return r["views"][0]
    return None

def part_c(ctx):
    r = tlc(ctx, SPEC_C, "MC_Listener", "MC_Listener.cfg", timeout=900, env=JOPT, allow_violation=True, tag="mcC", workers=2)
    if r.inv_violated or r.error_text:
        raise Inconclusive("Listener model: %s\n%s" % (r.inv_violated or r.error_text, r.out[-1200:]))
    ctx.cov["states"] += r.distinct
    ctx.cov["transitions"] += r.generated
    log("  TLC %-28s %-22s %9d distinct %10d generated (safety + liveness under fairness)  %.1fs" % ("MC_Listener", "MC_Listener.cfg", r.distinct, r.generated, r.wall))
    ctx.notes.append("Listener: liveness (every notification of a watched channel key is eventually seen; every change of the user document or of a role the user "
                     "currently holds eventually makes the waiter reload the user, also after a role swap) checked by TLC on the model under weak fairness "
                     "of the broadcast tick and the waiter; on the real code: continuous feeds racing with writers must deliver every final revision "
                     "(TLC predicate REventually on the recorded rows, a miss must reproduce in a second run)")
