"""C17 - replication checkpoints never run ahead of processed changes (DESIGN 4.17)."""
import json
import os
from vlib.core import *

SPEC = os.path.join(VERIF, "specs", "Checkpointer")
PROPERTY_INVS = ("SafeCkpt", "NoRegress")


def run(ctx):
    model_check(ctx, SPEC, "MC_Checkpointer", "MC_Checkpointer.cfg" if ctx.quick() else "MC_Checkpointer_thorough.cfg", timeout=3000)
    ctx.cov["exhaustive"] = True
    behs = behaviours(ctx, SPEC, "MC_Checkpointer", "Beh_Checkpointer.cfg")            # all behaviours of a small instance
    behs += behaviours(ctx, SPEC, "MC_Checkpointer", "Beh5_Checkpointer.cfg")          # depth 5 over two tokens (tick, late lower token, tick)
    sim = behaviours(ctx, SPEC, "MC_Checkpointer", "Sim_Checkpointer.cfg", num=600 if ctx.quick() else 6000, depth=14)
    behs += sim[:3000 if ctx.quick() else 30000]
    replay_and_validate(ctx, behs)
    system_level(ctx)
    ctx.cov["rule"] = ("behaviours = every action sequence of length 4 over 3 tokens (all three token forms) x thresholds {0,100} plus seeded TLC simulations of length 12 over "
                       "all emitted-form tokens of 0..2; non-trivial = contains a Tick that returned a checkpoint")
    ctx.assumptions += ["tokens enter only through SequenceID.Before / equality: rank compression is property-preserving",
                        "NoRegress is required only when the environment lists changes in feed order (logged per behaviour)"]


def replay_and_validate(ctx, behs):
    bf = os.path.join(ctx.scratch, "c17-beh.json")
    tr = os.path.join(ctx.scratch, "c17.ndjson")
    write_json(bf, behs)
    rc, out = go_test(ctx, "db", "^TestVerif_C17_Checkpointer$", ["harness/db/c17_checkpointer_test.go", "harness/db/c20_seqtoken_test.go"],
                      env={"VERIF_BEH": bf, "VERIF_TRACE_OUT": tr})
    if rc != 0 or not os.path.exists(tr):
        raise Inconclusive("C17 harness failed:\n" + harness_failure(out))
    rows = read_ndjson(tr)
    ctx.cov["evaluations"] += len(behs)
    nontriv = set()
    cur = None
    for r in rows:
        if r["a"] == "Reset":
            cur = r["beh"]
        elif r["a"] == "Tick" and r["ret"]:
            nontriv.add(cur)
    ctx.cov["distinct_nontrivial"] += len(nontriv)
    ctx.sample({"behaviour": behs[len(behs) // 2], "real_trace_head": rows[:4]})
    vp = validate(ctx, SPEC, "Trace_Checkpointer", "Trace_Checkpointer_P.cfg", tr)
    if vp.inv:
        beh_idx, beh = locate(rows, vp.line, behs)
        key = "%s:%s" % (vp.inv, json.dumps(beh, sort_keys=True))
        report_violation(ctx, key, "real Checkpointer breaks %s at trace line %s (behaviour %s)" % (vp.inv, vp.line, beh_idx),
                         {"behaviour": beh, "invariant": vp.inv, "state": (vp.state or {}).get("_txt")})
        return
    if not vp.accepted:
        raise Inconclusive("pass P stopped at line %s of %s (trace shape not accepted)\n%s" % (vp.line, vp.total, vp.out[-1500:]))
    vc = validate(ctx, SPEC, "Trace_Checkpointer", "Trace_Checkpointer_C.cfg", tr)
    if vc.inv or not vc.accepted:
        ctx.cov["nonconformance"] += 1
        ctx.notes.append("pass C rejected at line %s (%s): %s" % (vc.line, vc.inv, rows[vc.line - 1] if vc.line and vc.line <= len(rows) else None))
    else:
        ctx.cov["traces_validated_against_impl"] += len(behs)


def locate(rows, line, behs):
    idx = None
    for r in rows[:max(0, (line or 1) - 1)]:
        if r["a"] == "Reset":
            idx = r["beh"]
    return idx, (behs[idx] if idx is not None else None)


def convert_hook_events(evs):
    """hook H6 events (grouped per checkpointer instance, rank-compressed) -> Trace_Checkpointer lines"""
    objs = {}
    for e in evs:
        objs.setdefault(e["obj"], []).append(e)
    lines, ninst, nticks = [], 0, 0
    for obj, es in objs.items():
        es.sort(key=lambda e: e["n"])
        vals = {0}
        for e in es:
            for f in ("toks", "E", "P", "ret"):
                for t in e.get(f, []) or []:
                    vals.update(t)
        rank = {v: i for i, v in enumerate(sorted(vals))}
        rk = lambda ts: [[rank[x] for x in t] for t in (ts or [])]
        th = next((e["th"] for e in es if e["ev"] == "Tick"), 100)
        lines.append({"a": "Reset", "th": th, "beh": obj})
        ninst += 1
        for e in es:
            if e["ev"] in ("Expect", "AlreadyKnown", "Processed"):
                lines.append({"a": e["ev"], "toks": rk(e["toks"]), "E": rk(e["E"]), "P": sorted(rk(e["P"]))})
            elif e["ev"] == "Sort":
                lines.append({"a": "Sort", "E": rk(e["E"]), "P": sorted(rk(e["P"]))})
            elif e["ev"] == "Tick":
                r = rk(e["ret"])
                lines.append({"a": "Tick", "ret": r[0] if r else [], "E": rk(e["E"]), "P": sorted(rk(e["P"]))})
                nticks += 1 if r else 0
    return lines, ninst, nticks


def validate_system_trace(ctx, lines, ninst, label):
    tr = os.path.join(ctx.scratch, "c17-%s.ndjson" % label)
    write_ndjson(tr, lines)
    ctx.cov["evaluations"] += ninst
    ctx.cov["distinct_nontrivial"] += ninst
    vp = validate(ctx, SPEC, "Trace_Checkpointer", "Trace_Checkpointer_P.cfg", tr, tag=label + "P")
    if vp.inv:
        report_violation(ctx, "%s:%s" % (label, vp.inv), "real replication run (%s): checkpointer breaks %s at event %s" % (label, vp.inv, vp.line),
                         {"invariant": vp.inv, "events": lines[max(0, (vp.line or 1) - 12):(vp.line or 1)], "state": (vp.state or {}).get("_txt")})
        return
    if not vp.accepted:
        raise Inconclusive("%s trace: pass P stopped at line %s of %s\n%s" % (label, vp.line, vp.total, vp.out[-1500:]))
    vc = validate(ctx, SPEC, "Trace_Checkpointer", "Trace_Checkpointer_C.cfg", tr, tag=label + "C")
    if vc.inv or not vc.accepted:
        ctx.cov["nonconformance"] += 1
        ctx.notes.append("%s trace pass C rejected at line %s (%s)" % (label, vc.line, vc.inv))
    else:
        ctx.cov["traces_validated_against_impl"] += ninst


def system_level(ctx):
    """real push + pull replications (rest package); hook H6 events validated against the same spec.  Where hook H6b
    is in the tree (hooks/H6b-pushprotocol.patch) the same go test run also drives the push-protocol scenarios."""
    raw = os.path.join(ctx.scratch, "c17-sys-raw.ndjson")
    ppraw = os.path.join(ctx.scratch, "c17-pp-raw.ndjson")
    gate = has_push_hooks()
    env = {"VERIF_TRACE_OUT": raw}
    if gate:
        env["VERIF_PP_TRACE_OUT"] = ppraw       # unset: TestVerif_C17_PushProtocol skips itself
    rc, out = go_test(ctx, "rest", "^TestVerif_C17_(System|PushProtocol)$",
                      ["harness/rest/c17_system_test.go", "harness/rest/c17_pushprotocol_test.go"], env=env, timeout=900)
    if rc != 0 or not os.path.exists(raw):
        raise Inconclusive("C17 system harness failed:\n" + harness_failure(out))
    evs = read_ndjson(raw)
    lines, ninst, nticks = convert_hook_events([e for e in evs if str(e.get("obj", "")).startswith("*db.Checkpointer")])
    if nticks == 0:
        raise Inconclusive("system-level run produced no checkpoint (hook H6 not firing?)")
    ctx.cov["system_level"] = {"checkpointer_instances": ninst, "events": len(lines), "ticks_with_checkpoint": nticks}
    validate_system_trace(ctx, lines, ninst, "system")
    push_protocol(ctx, gate, ppraw, evs)
    if not ctx.quick():
        existing_tests(ctx)


# --------------------------------------------------------------------------------------------
# push protocol (DESIGN 7 item F6): specs/Checkpointer/PushProtocol.tla, hook H6b
# --------------------------------------------------------------------------------------------
# model matrix: cfg -> invariant TLC must report as violated (None = must be proved).  The AsCoded rows are the named
# deviations (hole a = AllowIntraBatch, hole b = AllowCrossBatch); the other rows say which repair closes which hole.
PP_MATRIX = [
    ("PP_AsCoded_FF", None),                       # the code as it is, proved modulo both named deviations
    ("PP_AsCoded_TF", "SafeOffered"),              # (a) tick between AddAlreadyKnownSeq and AddExpectedSeqs of one batch
    ("PP_AsCoded_FT", "SafeOffered"),              # (b) later batch registered before an earlier one
    ("PP_AtOffer_TT", None),                       # repair: register the whole batch as expected when it is offered - closes both
    ("PP_AsCoded_TT", "SafeOffered"),
    ("PP_ExpectFirst_FF", None),
    ("PP_ExpectFirst_TF", "NoRegressOffered"),     # swapping the callbacks closes (a) for SafeOffered, but checkpoints can still regress
    ("PP_ExpectFirst_FT", "SafeOffered"),          # ... and leaves (b)
    ("PP_ExpectFirst_TT", "SafeOffered"),
    ("PP_ExpectBeforeSend_FF", None),
    ("PP_ExpectBeforeSend_TF", "NoRegressOffered"),
    ("PP_ExpectBeforeSend_FT", "SafeOffered"),
    ("PP_ExpectBeforeSend_TT", "SafeOffered"),
    ("PP_AtOffer_FF", None), ("PP_AtOffer_TF", None), ("PP_AtOffer_FT", None),
]
PP_KEYS = {"intra": "known-callback-before-expect-callback", "cross": "later-batch-registered-before-earlier"}


def has_push_hooks():
    try:
        return "VerifHasGate" in open(os.path.join(REPO, "base", "verif_on.go")).read()
    except OSError:
        return False


def push_protocol_model(ctx):
    """PushProtocol model matrix: counterexamples (a) and (b) are EXPECTED (named deviations); a different outcome
    than the table is model drift (inconclusive), never a verdict about the real code."""
    rows = PP_MATRIX[:3] if ctx.quick() else PP_MATRIX
    res = {}
    for cfg, expect in rows:
        # rows that must yield a counterexample are tiny; one worker = strict BFS, so WHICH invariant is reported first is deterministic
        r = tlc(ctx, SPEC, "MC_PushProtocol", cfg + ".cfg", timeout=1800, allow_violation=True, tag=cfg, workers=1 if expect else None)
        if r.error_text:
            raise Inconclusive("TLC error in MC_PushProtocol/%s: %s" % (cfg, r.error_text))
        if r.inv_violated != expect:
            raise Inconclusive("PushProtocol model drift: %s expected %s, TLC says %s" % (cfg, expect or "no violation", r.inv_violated or "no violation"))
        if expect is None:
            ctx.cov["states"] += r.distinct
            ctx.cov["transitions"] += r.generated
        res[cfg] = expect or "proved"
        log("  TLC %-28s %-26s %9d distinct  -> %s  %.1fs" % ("MC_PushProtocol", cfg, r.distinct, expect and ("counterexample " + expect + " (expected: hole left open by this variant)") or "proved", r.wall))
    ctx.cov["push_protocol_model"] = res


def convert_push_events(evs):
    """H6 + H6b events -> one group of Trace_PushProtocol lines per PUSH checkpointer instance (a PushBind event starts
    an instance and ties the BlipSyncContext's Offered/Answer events of that collection to the checkpointer)."""
    groups, cur_ck, cur_bsc = [], {}, {}
    for e in sorted([e for e in evs if "n" in e], key=lambda e: e["n"]):
        obj, ev = str(e.get("obj", "")), e.get("ev")
        if ev == "PushBind":
            g = {"ckpt": e["ckpt"], "scn": e.get("scn", ""), "events": []}
            groups.append(g)
            cur_ck[e["ckpt"]] = g
            cur_bsc[(obj, e.get("coll", -1))] = g
        elif obj.startswith("*db.Checkpointer"):
            if obj in cur_ck:
                cur_ck[obj]["events"].append(e)
        elif ev in ("Offered", "Answer") and (obj, e.get("coll", -1)) in cur_bsc:
            cur_bsc[(obj, e.get("coll", -1))]["events"].append(e)
    for g in groups:
        es = g["events"]
        vals = {0}
        for e in es:
            for f in ("toks", "E", "P", "ret", "seqs"):
                for t in e.get(f, []) or []:
                    vals.update(t)
        rank = {v: i for i, v in enumerate(sorted(vals))}
        rk = lambda ts: [[rank[x] for x in t] for t in (ts or [])]
        th = next((e["th"] for e in es if e["ev"] == "Tick"), 100)
        lines = [{"a": "Reset", "th": th, "beh": g["ckpt"]}]
        for e in es:
            ev = e["ev"]
            if ev in ("Expect", "AlreadyKnown", "Processed"):
                lines.append({"a": ev, "toks": rk(e["toks"]), "E": rk(e["E"]), "P": sorted(rk(e["P"]))})
            elif ev == "Sort":
                lines.append({"a": "Sort", "E": rk(e["E"]), "P": sorted(rk(e["P"]))})
            elif ev == "Tick":
                r = rk(e["ret"])
                lines.append({"a": "Tick", "ret": r[0] if r else [], "E": rk(e["E"]), "P": sorted(rk(e["P"]))})
            elif ev == "Offered":
                lines.append({"a": "Offered", "seqs": rk(e["seqs"]), "batch": e.get("batch", "")})
            elif ev == "Answer":
                lines.append({"a": "Answer", "want": [t for t, w in zip(rk(e["seqs"]), e.get("want") or []) if w], "batch": e.get("batch", "")})
            else:
                continue
            lines[-1]["n"] = e["n"]
        g["lines"] = lines
        g["offers"] = sum(1 for x in lines if x["a"] == "Offered")
        g["ticks"] = sum(1 for x in lines if x["a"] == "Tick" and x["ret"])
    return [g for g in groups if g["offers"]]


def classify_push_violation(lines, upto):
    """which hole does the failing tick fall into?  (bookkeeping for the finding key only - the verdict is TLC's)"""
    batch_of, wanted, done, ret = {}, set(), set(), None
    for x in lines[:upto]:
        if x["a"] == "Offered":
            for t in x["seqs"]:
                batch_of[tuple(t)] = x["batch"]
        elif x["a"] == "Answer":
            wanted.update(tuple(t) for t in x["want"])
        elif x["a"] in ("Processed", "AlreadyKnown"):
            done.update(tuple(t) for t in x["toks"])
        elif x["a"] == "Tick":
            ret = tuple(x["ret"]) if x["ret"] else None
    if ret is None:
        return None, []
    missed = sorted(t for t in wanted - done if t <= ret)          # plain sequences on the push path: rank order = Before
    if not missed:
        return None, []
    kind = "intra" if any(batch_of.get(t) == batch_of.get(ret) for t in missed) else "cross"
    return kind, [list(t) for t in missed]


def push_protocol(ctx, gate, ppraw, sys_evs):
    push_protocol_model(ctx)
    if not gate:
        ctx.notes.append("push-protocol scenario SKIPPED: hook H6b (hooks/H6b-pushprotocol.patch) is not in this tree; "
                         "model counterexamples (a)/(b) of PushProtocol remain candidates")
        ctx.cov["push_protocol"] = {"skipped": "hook H6b absent"}
        return
    if not os.path.exists(ppraw):
        raise Inconclusive("push-protocol harness wrote no trace")
    evs = read_ndjson(ppraw)
    if any(e.get("ev") == "Skip" for e in evs):
        ctx.notes.append("push-protocol scenario SKIPPED by the harness: " + next(e.get("why", "") for e in evs if e.get("ev") == "Skip"))
        ctx.cov["push_protocol"] = {"skipped": "no Offered events"}
        return
    done = next((e for e in evs if e.get("ev") == "Done"), None)
    if done is None:
        raise Inconclusive("push-protocol harness did not finish")
    outcome = [e for e in evs if e.get("ev") == "Outcome"]
    groups = convert_push_events(evs)
    free = convert_push_events(sys_evs)                 # free-running push replications of TestVerif_C17_System
    for g in free:
        g["scn"] = "free-running"
    info = {"forced_instances": len(groups), "free_running_instances": len(free), "windows_reached": {k: v for k, v in done.items() if k.endswith("_reached")},
            "restart_outcome": [{k: v for k, v in o.items() if k not in ("obj", "scn", "ev")} for o in outcome], "reproduced": []}
    ctx.cov["push_protocol"] = info
    if not done.get("intra_window_reached") or not done.get("cross_window_reached"):
        ctx.notes.append("push-protocol scenario: a forced window was not reached (%s)" % info["windows_reached"])
    clean = []
    for g in groups + free:
        label = "pp-" + (g["scn"] or "x")
        forced = g["scn"].startswith(("intra", "cross")) and not g["scn"].endswith(("-pre", "-restart"))
        if not forced:
            clean.append(g)
            continue
        validate_push_group(ctx, [g], label, info, outcome)
    if clean:
        validate_push_group(ctx, clean, "pp-rest", info, outcome)


def validate_push_group(ctx, gs, label, info, outcome):
    lines = [x for g in gs for x in g["lines"]]
    tr = os.path.join(ctx.scratch, "c17-%s.ndjson" % label)
    write_ndjson(tr, lines)
    ctx.cov["evaluations"] += len(gs)
    ctx.cov["distinct_nontrivial"] += sum(1 for g in gs if g["ticks"])
    vp = validate(ctx, SPEC, "Trace_PushProtocol", "Trace_PushProtocol_P.cfg", tr, tag=label + "P")
    if vp.inv:
        at = (vp.line or 2) - 1                          # TLC's l is the position AFTER the consumed line
        start = max(i for i in range(at) if lines[i]["a"] == "Reset")
        kind, missed = classify_push_violation(lines[start:], at - start)
        scn = next((g["scn"] for g in gs if g["lines"][0] is lines[start]), "")
        kind = kind or ("intra" if scn.startswith("intra") else "cross" if scn.startswith("cross") else "unclassified")
        inv = "NoRegressOffered" if vp.inv == "TNoRegressOffered" else vp.inv
        key = "%s:%s" % (inv, PP_KEYS.get(kind, kind))
        excerpt = lines[max(start, at - 10):at]
        what = ("real push replication (%s): the checkpointer handed %s to persistence while offered change(s) %s, which the peer had asked for, were neither "
                "acknowledged nor already known [%s] (ranks; %s at event n=%s)" % (scn or label, excerpt[-1].get("ret"), missed, PP_KEYS.get(kind, kind), inv, excerpt[-1].get("n")))
        if kind == "cross" and outcome:
            what += "; after Stop/Start from that persisted checkpoint: %s" % json.dumps({k: v for k, v in outcome[-1].items() if k.endswith("_on_passive")}, sort_keys=True)
        info["reproduced"].append({"key": key, "scenario": scn, "events": excerpt})
        ctx.sample({"push_protocol": key, "real_events": excerpt[-6:]})
        report_violation(ctx, key, what, {"invariant": inv, "scenario": scn, "events": excerpt, "missed": missed,
                                          "restart_outcome": outcome[-1] if (kind == "cross" and outcome) else None, "state": (vp.state or {}).get("_txt")})
        return
    if not vp.accepted:
        raise Inconclusive("%s trace: pass P stopped at line %s of %s\n%s" % (label, vp.line, vp.total, vp.out[-1500:]))
    vc = validate(ctx, SPEC, "Trace_PushProtocol", "Trace_PushProtocol_C.cfg", tr, tag=label + "C")
    if vc.inv or not vc.accepted:
        ctx.cov["nonconformance"] += 1
        ctx.notes.append("%s trace pass C rejected at line %s (%s)" % (label, vc.line, vc.inv))
    else:
        ctx.cov["traces_validated_against_impl"] += len(gs)


EXISTING = "^(TestActiveReplicatorPushBasic|TestActiveReplicatorPullBasic|TestActiveReplicatorPushFromCheckpoint|TestActiveReplicatorPullFromCheckpoint|" \
           "TestActiveReplicatorPushFromCheckpointIgnored|TestActiveReplicatorPullFromCheckpointIgnored|TestActiveReplicatorPullConflict|TestActiveReplicatorPushAndPullConflict|" \
           "TestActiveReplicatorPullTombstone|TestActiveReplicatorPullPurgeOnRemoval|TestActiveReplicatorPushBasicWithInsecureSkipVerifyEnabled|TestActiveReplicatorRecoverFromLocalFlush|" \
           "TestActiveReplicatorPullOneshot|TestActiveReplicatorPushOneshot|TestActiveReplicatorReconnectOnStart|TestActiveReplicatorEdgeCheckpointNameCollisions)$"


def existing_tests(ctx):
    """CCF style: the repository's own replication tests run unmodified with -tags verif; the checkpointer events they
    produce (hook H6 -> $VERIF_HOOK_TRACE) are validated against the same specification."""
    import subprocess
    hook = os.path.join(ctx.scratch, "c17-existing-hook.ndjson")
    e = go_env()
    e["VERIF_HOOK_TRACE"] = hook
    e["CI"] = "1"   # the repository's own switch for longer wait windows
    p = subprocess.run(["go", "test", "-tags", "verif", "-vet=off", "-count=1", "-timeout", "30m", "-run", EXISTING, "./rest/replicatortest"],
                       cwd=REPO, env=e, stdout=subprocess.PIPE, stderr=subprocess.STDOUT, text=True, errors="replace")
    ctx.cov["go_runs"].append({"pkg": "rest/replicatortest", "run": "existing replication tests with hooks on", "rc": p.returncode})
    if not os.path.exists(hook):
        ctx.notes.append("existing-tests run produced no hook trace (rc=%d)" % p.returncode)
        return
    evs = [x for x in read_ndjson(hook) if str(x.get("obj", "")).startswith("*db.Checkpointer")]
    lines, ninst, nticks = convert_hook_events(evs)
    ctx.cov["existing_tests"] = {"go_test_rc": p.returncode, "checkpointer_instances": ninst, "events": len(lines), "ticks_with_checkpoint": nticks}
    log("  existing replication tests with hooks on: rc=%d, %d checkpointer instances, %d events, %d checkpoints" % (p.returncode, ninst, len(lines), nticks))
    if ninst:
        validate_system_trace(ctx, lines, ninst, "existing")
    if has_push_hooks():      # the same runs against the push-protocol ground truth (free-running: whatever interleavings happened)
        free = convert_push_events(read_ndjson(hook))
        for g in free:
            g["scn"] = "existing-tests"
        info = ctx.cov.setdefault("push_protocol", {"reproduced": []})
        info["existing_tests_push_instances"] = len(free)
        if free:
            validate_push_group(ctx, free, "pp-existing", info, [])
