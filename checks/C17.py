"""C17 - replication checkpoints never run ahead of processed changes (DESIGN 4.17)."""
import json
import os
from vlib.core import *

SPEC = os.path.join(VERIF, "specs", "Checkpointer")
PROPERTY_INVS = ("SafeCkpt", "NoRegress")


def run(ctx):
    model_check(ctx, SPEC, "MC_Checkpointer", "MC_Checkpointer.cfg" if ctx.quick() else "MC_Checkpointer_thorough.cfg", timeout=3000)
    ctx.cov["exhaustive"] = True
    behs = behaviours(ctx, SPEC, "MC_Checkpointer", "Beh_Checkpointer.cfg")            # all behaviours of a small instance
    behs += behaviours(ctx, SPEC, "MC_Checkpointer", "Beh5_Checkpointer.cfg")          # depth 5 over two tokens (tick, late lower token, tick)
    sim = behaviours(ctx, SPEC, "MC_Checkpointer", "Sim_Checkpointer.cfg", num=600 if ctx.quick() else 6000, depth=14)
    behs += sim[:3000 if ctx.quick() else 30000]
    replay_and_validate(ctx, behs)
    system_level(ctx)
    ctx.cov["rule"] = ("behaviours = every action sequence of length 4 over 3 tokens (all three token forms) x thresholds {0,100} plus seeded TLC simulations of length 12 over "
                       "all emitted-form tokens of 0..2; non-trivial = contains a Tick that returned a checkpoint")
    ctx.assumptions += ["tokens enter only through SequenceID.Before / equality: rank compression is property-preserving",
                        "NoRegress is required only when the environment lists changes in feed order (logged per behaviour)"]


def replay_and_validate(ctx, behs):
    bf = os.path.join(ctx.scratch, "c17-beh.json")
    tr = os.path.join(ctx.scratch, "c17.ndjson")
    write_json(bf, behs)
    rc, out = go_test(ctx, "db", "^TestVerif_C17_Checkpointer$", ["harness/db/c17_checkpointer_test.go", "harness/db/c20_seqtoken_test.go"],
                      env={"VERIF_BEH": bf, "VERIF_TRACE_OUT": tr})
    if rc != 0 or not os.path.exists(tr):
        raise Inconclusive("C17 harness failed:\n" + harness_failure(out))
    rows = read_ndjson(tr)
    ctx.cov["evaluations"] += len(behs)
    nontriv = set()
    cur = None
    for r in rows:
        if r["a"] == "Reset":
            cur = r["beh"]
        elif r["a"] == "Tick" and r["ret"]:
            nontriv.add(cur)
    ctx.cov["distinct_nontrivial"] += len(nontriv)
    ctx.sample({"behaviour": behs[len(behs) // 2], "real_trace_head": rows[:4]})
    vp = validate(ctx, SPEC, "Trace_Checkpointer", "Trace_Checkpointer_P.cfg", tr)
    if vp.inv:
        beh_idx, beh = locate(rows, vp.line, behs)
        key = "%s:%s" % (vp.inv, json.dumps(beh, sort_keys=True))
        report_violation(ctx, key, "real Checkpointer breaks %s at trace line %s (behaviour %s)" % (vp.inv, vp.line, beh_idx),
                         {"behaviour": beh, "invariant": vp.inv, "state": (vp.state or {}).get("_txt")})
        return
    if not vp.accepted:
        raise Inconclusive("pass P stopped at line %s of %s (trace shape not accepted)\n%s" % (vp.line, vp.total, vp.out[-1500:]))
    vc = validate(ctx, SPEC, "Trace_Checkpointer", "Trace_Checkpointer_C.cfg", tr)
    if vc.inv or not vc.accepted:
        ctx.cov["nonconformance"] += 1
        ctx.notes.append("pass C rejected at line %s (%s): %s" % (vc.line, vc.inv, rows[vc.line - 1] if vc.line and vc.line <= len(rows) else None))
    else:
        ctx.cov["traces_validated_against_impl"] += len(behs)


def locate(rows, line, behs):
    idx = None
    for r in rows[:max(0, (line or 1) - 1)]:
        if r["a"] == "Reset":
            idx = r["beh"]
    return idx, (behs[idx] if idx is not None else None)


def convert_hook_events(evs):
    """hook H6 events (grouped per checkpointer instance, rank-compressed) -> Trace_Checkpointer lines"""
    objs = {}
    for e in evs:
        objs.setdefault(e["obj"], []).append(e)
    lines, ninst, nticks = [], 0, 0
    for obj, es in objs.items():
        es.sort(key=lambda e: e["n"])
        vals = {0}
        for e in es:
            for f in ("toks", "E", "P", "ret"):
                for t in e.get(f, []) or []:
                    vals.update(t)
        rank = {v: i for i, v in enumerate(sorted(vals))}
        rk = lambda ts: [[rank[x] for x in t] for t in (ts or [])]
        th = next((e["th"] for e in es if e["ev"] == "Tick"), 100)
        lines.append({"a": "Reset", "th": th, "beh": obj})
        ninst += 1
        for e in es:
            if e["ev"] in ("Expect", "AlreadyKnown", "Processed"):
                lines.append({"a": e["ev"], "toks": rk(e["toks"]), "E": rk(e["E"]), "P": sorted(rk(e["P"]))})
            elif e["ev"] == "Sort":
                lines.append({"a": "Sort", "E": rk(e["E"]), "P": sorted(rk(e["P"]))})
            elif e["ev"] == "Tick":
                r = rk(e["ret"])
                lines.append({"a": "Tick", "ret": r[0] if r else [], "E": rk(e["E"]), "P": sorted(rk(e["P"]))})
                nticks += 1 if r else 0
    return lines, ninst, nticks


def validate_system_trace(ctx, lines, ninst, label):
    tr = os.path.join(ctx.scratch, "c17-%s.ndjson" % label)
    write_ndjson(tr, lines)
    ctx.cov["evaluations"] += ninst
    ctx.cov["distinct_nontrivial"] += ninst
    vp = validate(ctx, SPEC, "Trace_Checkpointer", "Trace_Checkpointer_P.cfg", tr, tag=label + "P")
    if vp.inv:
        report_violation(ctx, "%s:%s" % (label, vp.inv), "real replication run (%s): checkpointer breaks %s at event %s" % (label, vp.inv, vp.line),
                         {"invariant": vp.inv, "events": lines[max(0, (vp.line or 1) - 12):(vp.line or 1)], "state": (vp.state or {}).get("_txt")})
        return
    if not vp.accepted:
        raise Inconclusive("%s trace: pass P stopped at line %s of %s\n%s" % (label, vp.line, vp.total, vp.out[-1500:]))
    vc = validate(ctx, SPEC, "Trace_Checkpointer", "Trace_Checkpointer_C.cfg", tr, tag=label + "C")
    if vc.inv or not vc.accepted:
        ctx.cov["nonconformance"] += 1
        ctx.notes.append("%s trace pass C rejected at line %s (%s)" % (label, vc.line, vc.inv))
    else:
        ctx.cov["traces_validated_against_impl"] += ninst


def system_level(ctx):
    """real push + pull replications (rest package); hook H6 events validated against the same spec."""
    raw = os.path.join(ctx.scratch, "c17-sys-raw.ndjson")
    rc, out = go_test(ctx, "rest", "^TestVerif_C17_System$", ["harness/rest/c17_system_test.go"], env={"VERIF_TRACE_OUT": raw}, timeout=900)
    if rc != 0 or not os.path.exists(raw):
        raise Inconclusive("C17 system harness failed:\n" + harness_failure(out))
    lines, ninst, nticks = convert_hook_events(read_ndjson(raw))
    if nticks == 0:
        raise Inconclusive("system-level run produced no checkpoint (hook H6 not firing?)")
    ctx.cov["system_level"] = {"checkpointer_instances": ninst, "events": len(lines), "ticks_with_checkpoint": nticks}
    validate_system_trace(ctx, lines, ninst, "system")
    if not ctx.quick():
        existing_tests(ctx)


EXISTING = "^(TestActiveReplicatorPushBasic|TestActiveReplicatorPullBasic|TestActiveReplicatorPushFromCheckpoint|TestActiveReplicatorPullFromCheckpoint|" \
           "TestActiveReplicatorPushFromCheckpointIgnored|TestActiveReplicatorPullFromCheckpointIgnored|TestActiveReplicatorPullConflict|TestActiveReplicatorPushAndPullConflict|" \
           "TestActiveReplicatorPullTombstone|TestActiveReplicatorPullPurgeOnRemoval|TestActiveReplicatorPushBasicWithInsecureSkipVerifyEnabled|TestActiveReplicatorRecoverFromLocalFlush|" \
           "TestActiveReplicatorPullOneshot|TestActiveReplicatorPushOneshot|TestActiveReplicatorReconnectOnStart|TestActiveReplicatorEdgeCheckpointNameCollisions)$"


def existing_tests(ctx):
    """CCF style: the repository's own replication tests run unmodified with -tags verif; the checkpointer events they
    produce (hook H6 -> $VERIF_HOOK_TRACE) are validated against the same specification."""
    import subprocess
    hook = os.path.join(ctx.scratch, "c17-existing-hook.ndjson")
    e = go_env()
    e["VERIF_HOOK_TRACE"] = hook
    e["CI"] = "1"   # the repository's own switch for longer wait windows
    p = subprocess.run(["go", "test", "-tags", "verif", "-vet=off", "-count=1", "-timeout", "30m", "-run", EXISTING, "./rest/replicatortest"],
                       cwd=REPO, env=e, stdout=subprocess.PIPE, stderr=subprocess.STDOUT, text=True, errors="replace")
    ctx.cov["go_runs"].append({"pkg": "rest/replicatortest", "run": "existing replication tests with hooks on", "rc": p.returncode})
    if not os.path.exists(hook):
        ctx.notes.append("existing-tests run produced no hook trace (rc=%d)" % p.returncode)
        return
    evs = [x for x in read_ndjson(hook) if str(x.get("obj", "")).startswith("*db.Checkpointer")]
    lines, ninst, nticks = convert_hook_events(evs)
    ctx.cov["existing_tests"] = {"go_test_rc": p.returncode, "checkpointer_instances": ninst, "events": len(lines), "ticks_with_checkpoint": nticks}
    log("  existing replication tests with hooks on: rc=%d, %d checkpointer instances, %d events, %d checkpoints" % (p.returncode, ninst, len(lines), nticks))
    if ninst:
        validate_system_trace(ctx, lines, ninst, "existing")
