"""Pipeline - growth module (DESIGN section 5 item 1): the end-to-end write -> counter -> bucket -> feed -> change cache ->
channel cache -> changes client pipeline as ONE specification (specs/Pipeline), bound to a real database.

It is not a listed property.  Its predicates strengthen C07 (NoStall, LedgerAccounted), C05 (FeedAnnouncesFinal, FeedSound,
RowsAreCommitted), C08 (ResumeSafe, NoLostChange of the resume loop) and C01 (NoLostChange of the continuous feed,
OrderedPerResponse) at their seams.  Stand-alone (`bin/vcheck Pipeline`) every violation key starts with the owning
property id ("C07:NoStall:..."); called as a stage from an owning property's check (`run_stage(ctx)`, ctx.pid = "C08" ...)
the key carries no owner prefix and only predicates of the requested owners are reported.

Stages: (1) TLC: exhaustive safety of the composed model in its variants, liveness under fairness, the named deviations
shown to be real (as-coded variants must fail), (2) behaviours: all of a tiny instance + seeded action-uniform simulations
+ directed families, (3) replay on a real database, free-running storm, timer-driven abandonment (one go test invocation),
(4) TLC on the recorded real state: pass P (ReportP prints every failing predicate), classification, pass C.
"""
import json
import os
import random
from concurrent.futures import ThreadPoolExecutor
from vlib.core import *

SPEC = os.path.join(VERIF, "specs", "Pipeline")
HARNESS = ["harness/db/pipeline_test.go"]
JOPT = {"JAVA_TOOL_OPTIONS": "-XX:ParallelGCThreads=2 -XX:CICompilerCount=2"}
POOL = max(1, min(4, int(os.environ.get("VERIF_TLC_WORKERS") or 4)))
DEV_NO_MC = bool(os.environ.get("VERIF_PIPELINE_DEV_NO_MC"))      # development aid (mutation runs)

# Named deviations of the code from the intended behaviour (specs/Pipeline/NOTES.md).  True = the tree still behaves "as coded";
# when a deviation is repaired in /repo flip it to False: the model, the trace predicates and the expectations below follow.
AS_CODED = {
    "Fa": True,   # a continuous feed drops the low part of its since token for good          (changes.go, ContKeepsLow = FALSE)
    "Fc": False,  # (repaired in /repo: fix e2e3c6c) DocChanged ignored recent_sequences at/above unused_sequences[0]          (change_cache.go, RecentCutAtUnused = TRUE)
    "Fb": True,   # lowSequence = 0 when sequence 1 of a new database is the oldest skipped   (changes.go; only with Base = 0)
}
OWNER = {"ResumeSafe": "C08", "NoLostChange": "C08", "ContDelivers": "C01", "FeedAnnouncesFinal": "C05", "FeedSound": "C05", "RowsAreCommitted": "C05",
         "OrderedPerResponse": "C01", "LedgerAccounted": "C07", "QuietAccounted": "C07", "NoStall": "C07",
         "StormNoLostChange": "C08", "StormContDelivers": "C01", "StormFeedAnnouncesFinal": "C05", "StormRowsAreCommitted": "C05",
         "StormOrdered": "C01", "StormLedger": "C07", "StormNoStall": "C07", "StormResumeSafe": "C08", "AbandonNoStall": "C07"}
DEV = {"DevFa": ("C08", "ResumeSafe:cont-resume-compound-since",
                 "a continuous changes feed resumed from a compound token (low::seq) whose low part still is the low sequence never "
                 "sends a late arrival that is already cached between low and seq, and then hands out tokens beyond it (changes.go: LowSeq zeroed on the loop variable)"),
       "DevFb": ("C08", "ResumeSafe:first-sequence-skipped-low-zero",
                 "brand-new database: while sequence 1 is the oldest skipped sequence lowSequence is 0 (= nothing skipped), rows are not stamped "
                 "and a client resuming from its last_seq never gets the late arrival"),
       "DevFc": ("C07", "NoStall:recent-above-unused-coalesced",
                 "a CAS-retried write (unused_sequences present) whose competitor's mutation was de-duplicated by the feed: DocChanged only looks at "
                 "recent_sequences below unused_sequences[0], the competitor's sequence stays skipped until it is abandoned")}


# once a deviation is repaired its directed family must pass; if the defect returns, that family reports the SAME class key again
REGRESSION_FAMILY = {"dir-Fc": ("Fc", "DevFc", {"QuietAccounted", "NoStall"}),
                     "dir-Fa": ("Fa", "DevFa", {"ResumeSafe", "ContDelivers", "NoLostChange"}),
                     "dir-Fb": ("Fb", "DevFb", {"ResumeSafe", "NoLostChange"})}


def variant_env(intended=False):
    """environment selecting as-coded (default) or intended switches for the model / trace modules"""
    fa = AS_CODED["Fa"] and not intended
    fc = AS_CODED["Fc"] and not intended
    return {"PL_KEEPLOW": "0" if fa else "1", "PL_RECENTCUT": "1" if fc else "0"}


def parallel(jobs):
    with ThreadPoolExecutor(max_workers=POOL) as ex:
        futs = {k: ex.submit(f) for k, f in jobs.items()}
        return {k: f.result() for k, f in futs.items()}


# ------------------------------------------------------------------------------------------------------------
# (1) the model
# ------------------------------------------------------------------------------------------------------------
def mc(ctx, cfg, tag, env, timeout=1500, expect=None, count=True):
    """exhaustive run; expect = name of the invariant/property that MUST be violated (a named deviation or a model-level mutation)"""
    r = tlc(ctx, SPEC, "MC_Pipeline", cfg, timeout=timeout, coverage=False, env=dict(JOPT, **env), workers=max(1, NCPU // POOL), tag=tag,
            allow_violation=True)
    import re
    m = re.search(r"Temporal property (\S+) was violated", r.out)
    if m:                                   # core.tlc only knows the "Temporal properties were violated" wording
        r.inv_violated, r.error_text = m.group(1), None
    if r.error_text:
        raise Inconclusive("TLC error in MC_Pipeline/%s [%s]: %s\n%s" % (cfg, tag, r.error_text, r.out[-1500:]))
    if expect:
        if r.inv_violated != expect:
            raise Inconclusive("model variant %s was expected to violate %s (named deviation / mutation mirror) but TLC reported %s" % (tag, expect, r.inv_violated))
        log("  TLC %-14s %-24s violates %s as expected (%d states)  %.1fs" % (tag, cfg, expect, r.distinct, r.wall))
        return r
    if r.inv_violated:
        raise Inconclusive("model counterexample in MC_Pipeline/%s [%s]: %s violated (candidate only; not reproduced on real code)\n%s"
                           % (cfg, tag, r.inv_violated, "\n".join("\n".join(s["_txt"]) for s in r.error_trace[-2:])[:3000]))
    if r.distinct == 0:
        raise Inconclusive("TLC reported no states for MC_Pipeline/%s [%s]\n%s" % (cfg, tag, r.out[-800:]))
    if count:
        ctx.cov["states"] += r.distinct
        ctx.cov["transitions"] += r.generated
    log("  TLC %-14s %-24s %9d distinct %10d generated depth %3d  %.1fs" % (tag, cfg, r.distinct, r.generated, r.depth, r.wall))
    return r


def model_jobs(ctx):
    q = ctx.quick()
    cfg = "MC_Pipeline.cfg" if q else "MC_Pipeline_thorough.cfg"
    ac, it = variant_env(False), variant_env(True)
    jobs = {
        # one-shot resume loop, 409 mode: as coded = intended (no deviation is reachable)
        "os": lambda: mc(ctx, cfg, "os", dict(ac, PL_CLIENTS="os"), 6000),
        # continuous feed that may drop and resume, allow_conflicts off; the intended variant must hold ...
        "ct-int": lambda: mc(ctx, cfg, "ct-int", dict(it, PL_CLIENTS="ct", PL_RECONNECT="1"), 6000),
        # allow_conflicts (CAS losers retry with a new number): intended variant
        "conf-int": lambda: mc(ctx, cfg, "conf-int", dict(it, PL_CLIENTS="os", PL_CONFLICTS="1"), 6000),
        # liveness under fairness, both clients (no reconnect: every feed delivers without being re-issued)
        "live": lambda: mc(ctx, "Live_Pipeline.cfg", "live", dict(ac, PL_CLIENTS="both", PL_MAXSEQ="3" if q else "4"), 6000),
    }
    # ... and the as-coded variants must show the named deviations (otherwise the model no longer describes the code)
    if AS_CODED["Fc"]:
        jobs["conf-dev"] = lambda: mc(ctx, cfg, "conf-dev", dict(ac, PL_CLIENTS="os", PL_CONFLICTS="1"), 6000, expect="QuietAccounted")
    else:
        jobs["conf"] = lambda: mc(ctx, cfg, "conf", dict(ac, PL_CLIENTS="os", PL_CONFLICTS="1"), 6000)
    if AS_CODED["Fa"]:
        # needs four reservations: the thorough constants
        jobs["ct-dev"] = lambda: mc(ctx, "MC_Pipeline_thorough.cfg", "ct-dev", dict(ac, PL_CLIENTS="ct", PL_RECONNECT="1", PL_DUP="0", PL_FAIL="0"), 6000,
                                    expect="ResumeSafe", count=False)
    else:
        jobs["ct"] = lambda: mc(ctx, cfg, "ct", dict(ac, PL_CLIENTS="ct", PL_RECONNECT="1"), 6000)
    if AS_CODED["Fb"]:
        jobs["base0-dev"] = lambda: mc(ctx, cfg, "base0-dev", dict(ac, PL_CLIENTS="os", PL_BASE="0", PL_MAXSEQ="3"), 6000, expect="ResumeSafe", count=False)
    if not q:
        jobs["ct-noreconnect"] = lambda: mc(ctx, cfg, "ct-noreconnect", dict(ac, PL_CLIENTS="ct"), 6000)
        jobs["os-untimed"] = lambda: mc(ctx, cfg, "os-untimed", dict(ac, PL_CLIENTS="os", PL_TIMED="0"), 6000)
        jobs["live-ct-int"] = lambda: mc(ctx, "Live_Pipeline.cfg", "live-ct-int", dict(it, PL_CLIENTS="ct", PL_RECONNECT="1", PL_MAXSEQ="4"), 12000)
        # non-vacuity: the model-level mirrors of the self-test mutations are caught by the predicate they should break
        for m, inv, cl in (("norelease", "LedgerAccounted", "os"), ("norecent", "QuietAccounted", "os"), ("nolow", "ResumeSafe", "os")):
            jobs["mut-" + m] = (lambda m=m, inv=inv, cl=cl: mc(ctx, "MC_Pipeline.cfg", "mut-" + m, dict(ac, PL_CLIENTS=cl, PL_MUT=m), 3000, expect=inv, count=False))
        jobs["mut-nowake"] = lambda: mc(ctx, "Live_Pipeline.cfg", "mut-nowake", dict(ac, PL_CLIENTS="ct", PL_MUT="nowake_late", PL_MAXSEQ="4"), 6000,
                                        expect="NoLostChange", count=False)
    return jobs


# ------------------------------------------------------------------------------------------------------------
# (2) behaviours
# ------------------------------------------------------------------------------------------------------------
def beh(ctx, cfg, tag, env, num=None, depth=None, timeout=3000):
    e = dict(JOPT, **env)
    if num is None:
        r = tlc(ctx, SPEC, "MC_Pipeline", cfg, timeout=timeout, env=e, workers=1, tag=tag, allow_violation=True)
    else:
        r = tlc(ctx, SPEC, "MC_Pipeline", cfg, mode="simulate", simulate=num, depth=depth, timeout=timeout, env=e, tag=tag, allow_violation=True)
    if r.error_text:
        raise Inconclusive("behaviour generation %s [%s]: %s" % (cfg, tag, r.error_text))
    if r.inv_violated:
        raise Inconclusive("behaviour generation %s [%s] violated %s" % (cfg, tag, r.inv_violated))
    res, seen = [], set()
    for t, txt in r.printed:
        if t == "BEH":
            js = json.loads(txt)
            if js not in seen:
                seen.add(js)
                res.append(json.loads(js))
    if not res:
        raise Inconclusive("no behaviours exported by %s [%s]\n%s" % (cfg, tag, r.out[-800:]))
    log("  TLC %-14s %-24s exported %d distinct behaviours  %.1fs" % (tag, cfg, len(res), r.wall))
    return res


def S(a, w="", d="", seq=0, keep=False):
    return {"a": a, "w": w, "d": d, "seq": seq, "keep": keep}


def directed():
    """hand-written behaviours: the three named deviations, and the four shapes the self-test mutations break"""
    c = lambda **kw: dict({"mn": 0, "conflicts": False, "base": 1, "clients": ["os", "ct"], "timed": True}, **kw)
    two = [S("Reserve", "w1", "a"), S("Cas", "w1", "a"), S("Reserve", "w1", "b"), S("Cas", "w1", "b")]          # a@2, b@3
    fams = []
    # F-a: 2 is reserved and never arrives, a@3 and b@4 are committed, b@4 is delivered first (2,3 skipped)
    writes = [S("Reserve", "w1", "b"), S("Die", "w1", "b"), S("Reserve", "w2", "a"), S("Cas", "w2", "a"), S("Reserve", "w3", "b"), S("Cas", "w3", "b"),
              S("Deliver", d="b", seq=4)]
    fa = writes + [S("Connect"),                                          # the feed sends b@4 as "1::4"
                   S("Disconnect"), S("Deliver", d="a", seq=3),           # a@3 arrives late while the client is away; 2 is still skipped
                   S("Connect"),                                          # resumed from "1::4": the low part still is the low sequence
                   S("Reserve", "w3", "b"), S("Cas", "w3", "b"), S("Deliver", d="b", seq=5), S("Iter")]   # b@5 -> "1::5"; a@3 is never sent
    fams.append({"cfg": c(clients=["ct"]), "fam": "dir-Fa", "steps": fa})
    # the same history seen by the one-shot resume loop (not affected: it is re-sent a@3 once the low sequence moves)
    fams.append({"cfg": c(clients=["os"]), "fam": "dir-Fa-oneshot", "steps": writes + [S("Request"), S("Deliver", d="a", seq=3), S("Request")]})
    # F-b: brand-new database, sequence 1 skipped
    fams.append({"cfg": c(base=0, clients=["os"]), "fam": "dir-Fb", "steps": two + [S("Deliver", d="b", seq=2), S("Request"), S("Deliver", d="a", seq=1), S("Request")]})
    # F-c: CAS-retried write, competitor's mutation de-duplicated
    fams.append({"cfg": c(conflicts=True, mn=1, clients=["os"]), "fam": "dir-Fc",
                 "steps": [S("Reserve", "w1", "b"), S("Reserve", "w2", "b"), S("Cas", "w2", "b"), S("Cas", "w1", "b"), S("Cas", "w1", "b"),
                           S("Coalesce", d="b", seq=3), S("Deliver", d="b", seq=4)]})   # the closing steps sweep and ask: with the override back, 3 stays skipped (DevFc)
    # shapes (must pass on the unchanged tree): late arrival seen by a waiting continuous feed and by the resume loop
    fams.append({"cfg": c(), "fam": "dir-late", "steps": two + [S("Connect"), S("Deliver", d="b", seq=3), S("Request"), S("Iter"), S("Deliver", d="a", seq=2), S("Request"), S("Iter")]})
    # a failed write, a 409 and a dead reservation between two documents
    fams.append({"cfg": c(mn=1), "fam": "dir-fail", "steps": [S("Reserve", "w1", "a"), S("Reserve", "w2", "a"), S("Cas", "w1", "a"), S("Cas", "w2", "a"),
                                                              S("Reserve", "w2", "b"), S("Fail", "w2", "b"), S("Reserve", "w3", "b"), S("Die", "w3", "b"),
                                                              S("Reserve", "w1", "b"), S("Cas", "w1", "b"), S("Deliver", d="b", seq=6), S("Tick"), S("Request"), S("Connect")]})
    # a coalesced mutation (no CAS retry): a@2 replaced by a@3, b@4 delivered first
    fams.append({"cfg": c(mn=1), "fam": "dir-coalesce", "steps": [S("Reserve", "w1", "a"), S("Cas", "w1", "a"), S("Reserve", "w1", "a"), S("Cas", "w1", "a"),
                                                                  S("Reserve", "w2", "b"), S("Cas", "w2", "b"), S("Coalesce", d="a", seq=2),
                                                                  S("Deliver", d="b", seq=4), S("Tick"), S("Request"), S("Deliver", d="a", seq=3), S("Request")]})
    return fams


def per_prefix(behs, rnd, k):
    """the simulator prints one behaviour per candidate last step: keep at most k of each family"""
    fam = {}
    for b in behs:
        fam.setdefault(json.dumps([b["cfg"], b["steps"][:-1]], sort_keys=True), []).append(b)
    res = []
    for key in sorted(fam):
        g = fam[key]
        rnd.shuffle(g)
        res += g[:k]
    return res


def behaviour_jobs(ctx):
    q = ctx.quick()
    ac = variant_env(False)
    seed = ctx.seed
    jobs = {
        "beh": lambda: beh(ctx, "Beh_Pipeline.cfg", "beh", dict(ac, PL_CLIENTS="os", PL_WRITERS="1", PL_DUP="0", PL_FAIL="0", PL_DIE="0", PL_ABANDON="0",
                                                                PL_MAXSTEPS="8" if q else "9")),
        "sim1": lambda: beh(ctx, "Sim_Pipeline.cfg", "sim1", dict(ac, PL_CLIENTS="both", PL_MAXNUM=str(seed % 3)), num=40 if q else 400, depth=20),
        "sim2": lambda: beh(ctx, "Sim_Pipeline.cfg", "sim2", dict(ac, PL_CLIENTS="both", PL_RECONNECT="1", PL_MAXNUM=str((seed + 1) % 3), PL_WRITERS="3"), num=40 if q else 400, depth=20),
        "sim3": lambda: beh(ctx, "Sim_Pipeline.cfg", "sim3", dict(ac, PL_CLIENTS="both", PL_CONFLICTS="1", PL_RECONNECT="1", PL_MAXNUM=str((seed + 2) % 3), PL_WRITERS="3"),
                            num=40 if q else 400, depth=20),
        "sim4": lambda: beh(ctx, "Sim_Pipeline.cfg", "sim4", dict(ac, PL_CLIENTS="os", PL_TIMED="0", PL_MAXNUM="1"), num=20 if q else 200, depth=20),
    }
    return jobs


def assemble(ctx, res):
    rnd = random.Random(ctx.seed)
    q = ctx.quick()
    out = []
    allb = res["beh"]
    rnd.shuffle(allb)
    nb = len(allb)
    for b in allb[:(120 if q else 2500)]:
        out.append(dict(b, fam="beh"))
    for name in ("sim1", "sim2", "sim3", "sim4"):
        for b in per_prefix(res[name], rnd, 2):
            out.append(dict(b, fam=name))
    out += directed()
    for b in out:
        b["cfg"] = {"mn": b["cfg"]["mn"], "conflicts": bool(b["cfg"]["conflicts"]), "base": b["cfg"]["base"],
                    "clients": sorted(b["cfg"]["clients"]), "timed": bool(b["cfg"].get("timed", True))}
    ctx.cov["pipeline_generation"] = {"all_short_behaviours": nb, "replayed": len(out)}
    return out


# ------------------------------------------------------------------------------------------------------------
# (4) validation of what the real system did
# ------------------------------------------------------------------------------------------------------------
def cfg_key(c):
    return (c["mn"], c["conflicts"], c["base"], c["timed"])


def cfg_env(k):
    return dict(variant_env(False), PL_MAXNUM=str(k[0]), PL_CONFLICTS="1" if k[1] else "0", PL_BASE=str(k[2]), PL_TIMED="1" if k[3] else "0")


def split(rows):
    """[(behaviour index, fam, cfg, [lines])] from a replay trace"""
    segs = []
    for r in rows:
        if r["a"] == "Reset":
            segs.append([r["beh"], r["fam"], r["cfg"], []])
        segs[-1][3].append(r)
    return segs


def viols(v):
    out = []
    for t, txt in parse_printed(v.out):
        if t == "VIOL":
            name, l = json.loads("[" + txt + "]")
            out.append((name, l - 1))          # the reporting state has consumed line l-1
    return out


def validate_groups(ctx, segs, tagp):
    """pass P per configuration group (side by side) -> {beh index: {predicate: first line offset}}, accepted groups for pass C"""
    groups = {}
    for s in segs:
        groups.setdefault(cfg_key(s[2]), []).append(s)
    files = {}
    for k, gs in groups.items():
        p = os.path.join(ctx.scratch, "%s-%s.ndjson" % (tagp, "_".join(str(x) for x in k)))
        write_ndjson(p, [r for s in gs for r in s[3]])
        files[k] = p
    vps = parallel({k: (lambda k=k: validate(ctx, SPEC, "Trace_Pipeline", "Trace_Pipeline_P.cfg", files[k], timeout=3000, env=dict(JOPT, **cfg_env(k)),
                                             tag="%sP-%s" % (tagp, "_".join(str(x) for x in k)))) for k in groups})
    found = {}
    for k, vp in vps.items():
        if vp.inv:
            raise Inconclusive("pass P (%s %s): TLC stopped on %s (ReportP should never be false)\n%s" % (tagp, k, vp.inv, vp.out[-1200:]))
        if not vp.accepted:
            raise Inconclusive("pass P (%s %s) stopped at line %s of %s (trace shape not accepted)\n%s" % (tagp, k, vp.line, vp.total, vp.out[-1500:]))
        # map group line numbers back to behaviours
        bounds, n = [], 0
        for s in groups[k]:
            bounds.append((n + 1, n + len(s[3]), s))
            n += len(s[3])
        for name, line in viols(vp):
            for a, b, s in bounds:
                if a <= line <= b:
                    d = found.setdefault(s[0], {})
                    d[name] = min(d.get(name, line - a), line - a)
                    break
    return found, groups, files


def pass_c(ctx, groups, files, exclude, tagp):
    """pass C on the behaviours that passed P"""
    keep = {}
    for k, gs in groups.items():
        rows = [r for s in gs if s[0] not in exclude for r in s[3]]
        if rows:
            p = files[k] + ".c"
            write_ndjson(p, rows)
            keep[k] = (p, sum(1 for s in gs if s[0] not in exclude))
    vcs = parallel({k: (lambda k=k: validate(ctx, SPEC, "Trace_Pipeline", "Trace_Pipeline_C.cfg", keep[k][0], timeout=3000, env=dict(JOPT, **cfg_env(k)),
                                             tag="%sC-%s" % (tagp, "_".join(str(x) for x in k)))) for k in keep})
    ok = 0
    for k, vc in vcs.items():
        if vc.inv or not vc.accepted:
            ctx.cov["nonconformance"] += 1
            rows = read_ndjson(keep[k][0])
            ln = vc.line if not vc.inv else max(1, (vc.line or 2) - 1)
            ctx.notes.append("Pipeline pass C rejected group %s at line %s (%s): %s" % (k, ln, vc.inv, json.dumps(rows[ln - 1], sort_keys=True)[:1200] if ln and ln <= len(rows) else None))
        else:
            ok += keep[k][1]
    return ok


class Reporter:
    def __init__(self, ctx, owners):
        self.ctx, self.standalone = ctx, ctx.pid == "Pipeline"
        self.owners = owners

    def wants(self, owner):
        return self.standalone or self.owners is None or owner in self.owners

    def key(self, owner, key):
        return ("%s:%s" % (owner, key)) if self.standalone else key

    def report(self, owner, key, what, replay):
        if not self.wants(owner):
            self.ctx.notes.append("Pipeline stage: %s-owned predicate failed (%s) - reported by that property's check" % (owner, key[:200]))
            return
        report_violation(self.ctx, self.key(owner, key), "%s [%s] %s" % ("Pipeline" if self.standalone else "Pipeline stage", owner, what), replay)


def replay(ctx, behs, tag, extra_env=None, run="^TestVerif_Pipeline_Replay$"):
    bf = os.path.join(ctx.scratch, "pl-%s-beh.json" % tag)
    tr = os.path.join(ctx.scratch, "pl-%s.ndjson" % tag)
    write_json(bf, behs)
    env = {"VERIF_BEH": bf, "VERIF_TRACE_OUT": tr}
    env.update(extra_env or {})
    rc, out = go_test(ctx, "db", run, HARNESS, env=env, timeout=2400 if ctx.quick() else 9000)
    if rc != 0 or not os.path.exists(tr):
        raise Inconclusive("Pipeline harness failed (%s):\n%s" % (tag, harness_failure(out)))
    return read_ndjson(tr), out


def judge_replay(ctx, rep, behs, rows):
    segs = split(rows)
    if len(segs) != len(behs):
        raise Inconclusive("replay recorded %d behaviours, %d were sent" % (len(segs), len(behs)))
    found, groups, files = validate_groups(ctx, segs, "r")
    ctx.cov["evaluations"] += len(behs)
    # non-vacuity counters, measured on the real trace
    stats = {"behaviours": len(behs), "trace_lines": len(rows), "lines_with_skipped": 0, "late_arrivals": 0, "abandon_steps": 0, "compound_tokens": 0,
             "cas_retries": 0, "conflicts_409": 0, "failed_writes": 0, "dead_reservations": 0, "coalesced": 0, "redelivered": 0, "responses": 0, "rows": 0,
             "continuous_iterations": 0, "left_scripted_path": 0}
    nontriv = set()
    for s in segs:
        prev_late = 0
        for r in s[3]:
            if r["skip"]:
                stats["lines_with_skipped"] += 1
                nontriv.add(s[0])
            if len(r["late"]) > prev_late:
                stats["late_arrivals"] += len(r["late"]) - prev_late
                prev_late = len(r["late"])
                nontriv.add(s[0])
            a = r["a"]
            stats["abandon_steps"] += a == "Abandon"
            stats["left_scripted_path"] += a == "Quiesce" and r.get("phase") == 1 and r.get("done", 0) < r.get("of", 0)
            stats["cas_retries"] += a == "Cas" and r.get("kind", "").startswith("retry")
            stats["conflicts_409"] += a == "Cas" and r.get("kind") == "conflict"
            stats["failed_writes"] += a == "Fail"
            stats["dead_reservations"] += a == "Die"
            stats["coalesced"] += a == "Coalesce"
            stats["redelivered"] += a in ("Deliver", "DeliverUn") and bool(r.get("keep"))
            if a in ("Request", "Connect", "Iter"):
                stats["responses"] += 1
                stats["rows"] += len(r["resp"])
                stats["compound_tokens"] += sum(1 for x in r["resp"] if x["l"])
                stats["continuous_iterations"] += a != "Request"
    ctx.cov["distinct_nontrivial"] += len(nontriv)
    ctx.cov["pipeline_replay"] = stats
    hist = {}
    for b in behs:
        for st in b["steps"]:
            hist[st["a"]] = hist.get(st["a"], 0) + 1
    ctx.cov["pipeline_action_histogram"] = hist
    mid = next((s for s in segs if s[1].startswith("sim") and any(r["late"] for r in s[3])), segs[len(segs) // 2])
    ctx.sample({"behaviour": behs[mid[0]], "real_trace_tail": [{k: r[k] for k in ("a", "next", "skip", "chan", "os", "ctok", "resp")} for r in mid[3][-4:]]})

    bad = set()
    dev_hits = {}
    for bi in sorted(found):
        names = dict(found[bi])
        reg = REGRESSION_FAMILY.get(behs[bi].get("fam"))
        if reg and not AS_CODED[reg[0]] and any(n in reg[2] for n in names):
            # the repaired defect is back: same class key as the (now `fixed`) finding
            for n in [x for x in names if x in reg[2]]:
                del names[n]
            dev_hits.setdefault(reg[1], []).append(bi)
        news = [n for n in names if n not in DEV]
        for n in names:
            if n in DEV and bi not in dev_hits.get(n, []):
                dev_hits.setdefault(n, []).append(bi)
        if news:
            bad.add(bi)
    # known-class deviations: reported once per class (the key names the class, the replay shows one behaviour)
    for n, bis in sorted(dev_hits.items()):
        owner, key, what = DEV[n]
        bi = bis[0]
        seg = next(s for s in segs if s[0] == bi)
        rep.report(owner, key, "%s - observed in %d recorded behaviours, e.g. behaviour %d (%s)" % (what, len(bis), bi, seg[1]),
                   {"behaviour": behs[bi], "predicate": n, "trace": trim_trace(seg[3])})
    ctx.cov["pipeline_deviation_hits"] = {n: len(v) for n, v in dev_hits.items()}
    # anything else: confirm by replaying the failing behaviours alone, then report each with a behaviour-specific key
    if bad:
        shown = sorted(bad)[:8]
        rows2, _ = replay(ctx, [behs[i] for i in shown], "confirm")
        found2, _, _ = validate_groups(ctx, split(rows2), "c")
        segs2 = split(rows2)
        for j, bi in enumerate(shown):
            again = [n for n in found2.get(j, {}) if n not in DEV]
            for n in sorted(n for n in found[bi] if n not in DEV):
                if n not in again:
                    ctx.notes.append("Pipeline: %s failed on behaviour %d in the first run and not when replayed alone (not reported)" % (n, bi))
                    continue
                owner = OWNER.get(n, "C08")
                rep.report(owner, "%s:%s" % (n, json.dumps(behs[bi], sort_keys=True)),
                           "the real pipeline breaks %s (behaviour %d of family %s, twice)" % (n, bi, behs[bi].get("fam")),
                           {"behaviour": behs[bi], "predicate": n, "trace": trim_trace(segs2[j][3])})
    ok = pass_c(ctx, groups, files, bad, "r")
    ctx.cov["traces_validated_against_impl"] += ok


def trim_trace(lines):
    keep = ("a", "w", "d", "seq", "kind", "keep", "stall", "phase", "ctr", "next", "pend", "skip", "chan", "late", "os", "cton", "ctok", "resp", "notices", "docs")
    return [{k: r[k] for k in keep if k in r} for r in lines][:60]


# ------------------------------------------------------------------------------------------------------------
# free-running runs (Storm, Abandon): one line per run, judged at quiescence
# ------------------------------------------------------------------------------------------------------------
def judge_free(ctx, rep, path, cenv, first=True):
    rows = read_ndjson(path)
    vp = validate(ctx, SPEC, "Trace_Pipeline", "Trace_Pipeline_P.cfg", path, timeout=1500, env=dict(JOPT, **variant_env(False)),
                  tag="free" + ("" if first else "2"))
    if vp.inv:
        raise Inconclusive("pass P (free-running): TLC stopped on %s\n%s" % (vp.inv, vp.out[-1200:]))
    if not vp.accepted:
        raise Inconclusive("pass P (free-running) stopped at line %s of %s\n%s" % (vp.line, vp.total, vp.out[-1500:]))
    fails = {}
    for name, line in viols(vp):
        fails.setdefault(name, []).append(line)
    return rows, fails


def free_stats(ctx, rows):
    st = {"storm_runs": 0, "writes_acknowledged": 0, "writes_rejected_by_sync_function": 0, "writes_409": 0, "writes_storage_error": 0,
          "writes_timeout_applied": 0, "writes_timeout_not_applied": 0, "deletes": 0, "cas_retried_writes": 0, "numbers_reserved": 0, "notices": 0,
          "feed_events": 0, "feed_delayed": 0, "feed_redelivered": 0, "feed_replaced": 0, "skipped_total": 0, "late_arrivals": 0,
          "oneshot_requests": 0, "oneshot_rows": 0, "compound_tokens": 0, "continuous_rows": 0, "abandon_runs": 0, "abandoned_by_timer": 0}
    for r in rows:
        if r["a"] == "Storm":
            st["storm_runs"] += 1
            for k, v in r.get("stats", {}).items():
                if k in st:
                    st[k] += v
        elif r["a"] == "TimerAbandon":
            st["abandon_runs"] += 1
            st["abandoned_by_timer"] += r.get("abandoned", 0)
    return st


def stage_free(ctx, rep, cenv):
    tr = cenv["VERIF_TRACE_OUT_FREE"]
    rows, fails = judge_free(ctx, rep, tr, cenv)
    ctx.cov["pipeline_free_running"] = free_stats(ctx, rows)
    ctx.cov["evaluations"] += len(rows)
    for n in [x for x in fails if x in DEV]:     # a named deviation's blind spot was hit (known class)
        owner, key, what = DEV[n]
        r = rows[fails[n][0] - 1]
        rep.report(owner, key, "%s - observed in a free-running run (round %s, seed %s)" % (what, r.get("round"), r.get("seed")),
                   {"predicate": n, "run": summarize_free(r)})
        ctx.cov.setdefault("pipeline_deviation_hits", {})["storm:" + n] = len(fails[n])
    fails = {n: l for n, l in fails.items() if n not in DEV}
    facts = {n: l for n, l in fails.items() if n in ("StormRowsAreCommitted", "StormOrdered", "StormLedger", "StormResumeSafe")}
    timed = {n: l for n, l in fails.items() if n not in facts}
    for n, lines in sorted(facts.items()):           # facts about recorded output / the ledger: no second run needed
        r = rows[lines[0] - 1]
        rep.report(OWNER.get(n, "C08"), "%s:storm" % n, "free-running writers/feed/clients: %s is false on the recorded run (seed %s)" % (n, r.get("seed")),
                   {"predicate": n, "run": summarize_free(r)})
    if timed:
        # eventual-delivery style predicates judged after a generous bound: a miss must reproduce in a second, independent run
        tr2 = tr + ".2"
        env2 = dict(cenv, VERIF_TRACE_OUT_FREE=tr2, VERIF_SEED=ctx.seed + 1000)
        rc, out = go_test(ctx, "db", "^TestVerif_Pipeline_(Storm|Abandon)$", HARNESS, env=env2, timeout=2400)
        if rc != 0 or not os.path.exists(tr2):
            raise Inconclusive("Pipeline free-running harness failed on the confirmation run:\n" + harness_failure(out))
        rows2, fails2 = judge_free(ctx, rep, tr2, env2, first=False)
        for n, lines in sorted(timed.items()):
            if n in fails2:
                r = rows2[fails2[n][0] - 1]
                rep.report(OWNER.get(n, "C08"), "%s:storm" % n, "free-running writers/feed/clients: %s is false at quiescence in two independent runs" % n,
                           {"predicate": n, "run": summarize_free(r), "first_run": summarize_free(rows[lines[0] - 1])})
            else:
                ctx.notes.append("Pipeline free-running: %s failed in one run and not in the confirmation run (not reported)" % n)
    if not fails:
        ctx.cov["traces_validated_against_impl"] += len(rows)
        ctx.cov["distinct_nontrivial"] += sum(1 for r in rows if r["a"] == "Storm" and r.get("stats", {}).get("late_arrivals", 0) > 0)


def summarize_free(r):
    s = json.dumps(r, sort_keys=True)
    return json.loads(s) if len(s) < 20000 else {"a": r["a"], "seed": r.get("seed"), "stats": r.get("stats"), "truncated": s[:20000]}


# ------------------------------------------------------------------------------------------------------------
def run_stage(ctx, owners=None, model=True, free=True):
    """run the Pipeline stages on the CALLER's context.  owners: property ids whose predicates are reported (default: the caller's
    own id; stand-alone: all).  Keys carry no owner prefix unless ctx.pid == "Pipeline"."""
    if owners is None and ctx.pid != "Pipeline":
        owners = [ctx.pid]
    rep = Reporter(ctx, owners)
    jobs = {}
    if model and not DEV_NO_MC:
        jobs.update(model_jobs(ctx))
    jobs.update(behaviour_jobs(ctx))
    res = parallel(jobs)
    behs = assemble(ctx, res)
    if model and not DEV_NO_MC:
        ctx.cov["exhaustive"] = True
    q = ctx.quick()
    free_tr = os.path.join(ctx.scratch, "pl-free.ndjson")
    cenv = {"VERIF_TRACE_OUT_FREE": free_tr, "VERIF_PIPELINE_STORMS": 2 if q else 8, "VERIF_PIPELINE_STORM_WRITES": 40 if q else 120}
    run = "^TestVerif_Pipeline_(Replay|Storm|Abandon)$" if free else "^TestVerif_Pipeline_Replay$"
    rows, out = replay(ctx, behs, "r", extra_env=cenv, run=run)
    judge_replay(ctx, rep, behs, rows)
    if free:
        if not os.path.exists(free_tr):
            raise Inconclusive("Pipeline free-running harness wrote no trace")
        stage_free(ctx, rep, cenv)
    ctx.cov["rule"] = (ctx.cov.get("rule", "") + " | Pipeline: behaviours = a seeded sample of every action sequence of length 8 (thorough: 9) of one writer x two documents "
                       "x one-shot client (CachePendingSeqMaxNum 0), seeded TLC simulations of 18 steps (one successor per action kind; 2-3 writers, both clients, "
                       "409 and allow_conflicts modes, reconnecting continuous feed, untimed abandonment), and directed families for the three named deviations and "
                       "the shapes the self-test mutations break; every behaviour is closed by finishing all writers, delivering every captured feed event, a sweep, "
                       "one more request per client and the abandonment sweep; non-trivial = the real cache skipped a sequence or forwarded a late arrival").strip(" |")
    ctx.assumptions += [
        "Pipeline: one channel (all documents), admin reader; visibility and grants are C01/C02/C13's subject",
        "Pipeline: replay runs with sequence batching pinned to one number per reservation (the counter is the last reserved number) and the cache's timers "
        "driven by the harness; the free-running storm uses real batching and the cache's own timers with CachePendingSeqMaxWait 5 ms",
        "Pipeline: a sequence given up on (CleanSkippedSequenceQueue) before it was declared on the feed is exempt from NoLostChange/ResumeSafe ('until then'); "
        "whether it had been declared is taken from the delivered feed events, not from the cache",
        "Pipeline: the feed keeps per-document order; it may reorder across documents, redeliver, and replace an undelivered mutation by a later one of the same document",
    ]


def run(ctx):
    run_stage(ctx, owners=None)


if __name__ == "__main__":
    main("Pipeline", run)
